#!/usr/bin/env python3
"""translate_ctrl.py — statement-level translator for the controller (src/sign.rs, `impl Sign`).

A small recursive-descent reader for the Rust subset the controller is written in, and a
continuation-passing translation of each protocol method into an interaction tree `Prog` (the type
of the hand-written model, lean/Flipdot/Model/Controller.lean):

    self.send_message_expect_response(M, &W)?;   ~>  expect M W <| rest
    let r = self.send_message(M)?;               ~>  .send M fun r => rest
    self.method(args)?;                          ~>  (method a args).bind fun _ => rest
    verify_response(&W, &r)?;                    ~>  if r = W then rest else .fail
    match r { P if g => body, .. }               ~>  if cond(P, g) then body;rest else ..   (arm order kept)
    if c { A } else { B }                        ~>  if c then A;rest else B;rest
    loop { B }                                   ~>  an auxiliary fuelled recursive definition; `break` continues
                                                     with the statements after the loop, the end of B with the
                                                     recursive call (mutable locals become its parameters)
    return Err(SignError::UnexpectedResponse{..})~>  .fail
    Ok(v)                                        ~>  .done v
    warn!(..) / info!(..) / debug!(..)           ~>  (dropped)

The one template (recognised as a whole, not compiled) is the double `for` loop of send_data that
cuts every item into chunks and sends them, counting; its chunk size and offset multiplier are read
from the source and passed to `chunkMsgsGen` (lean/Flipdot/Tie/CtrlSupport.lean).

Anything outside this subset raises TranslateError (topic reported as `unavailable`).
"""
import re

from translate import TranslateError, strip_comments, STATES, OPS, lc

# ---------------------------------------------------------------------------------------------
# tokens
# ---------------------------------------------------------------------------------------------

TOKEN_RE = re.compile(r"""
    (?P<ws>\s+)
  | (?P<str>"(?:\\.|[^"\\])*")
  | (?P<life>'[A-Za-z_]\w*(?!'))
  | (?P<num>0x[0-9A-Fa-f_]+|\d[\d_]*(?:u8|u16|u32|u64|usize)?)
  | (?P<id>[A-Za-z_]\w*)
  | (?P<chr>'(?:\\.|[^'\\])')
  | (?P<op>::|=>|==|!=|<<=|>>=|<=|>=|&&|\|\||\+=|-=|\|=|&=|\^=|<<|>>|->|\.\.|[{}()\[\];,.:<>=&|+\-*/?!\#%^@$~])
""", re.X)


def tokenize(src):
    toks, i = [], 0
    while i < len(src):
        m = TOKEN_RE.match(src, i)
        if not m:
            raise TranslateError("sign.rs: cannot tokenize at %r" % src[i:i + 20])
        i = m.end()
        if m.lastgroup != "ws":
            toks.append((m.lastgroup, m.group(0)))
    return toks


class P:
    """token cursor"""

    def __init__(self, toks):
        self.t, self.i = toks, 0

    def peek(self, k=0):
        return self.t[self.i + k][1] if self.i + k < len(self.t) else None

    def kind(self, k=0):
        return self.t[self.i + k][0] if self.i + k < len(self.t) else None

    def next(self):
        v = self.peek()
        if v is None:
            raise TranslateError("sign.rs: unexpected end of input")
        self.i += 1
        return v

    def eat(self, v):
        if self.peek() != v:
            raise TranslateError("sign.rs: expected %r, found %r (…%s)" % (v, self.peek(), " ".join(x[1] for x in self.t[max(0, self.i - 6):self.i + 3])))
        self.i += 1

    def at(self, v):
        return self.peek() == v

    def skip_balanced(self, open_, close):
        self.eat(open_)
        depth = 1
        start = self.i
        while depth > 0:
            v = self.next()
            if v == open_:
                depth += 1
            elif v == close:
                depth -= 1
            elif v == ">>" and close == ">":
                depth -= 2
            elif v == "<<" and open_ == "<":
                depth += 2
        return self.t[start:self.i - 1]


# ---------------------------------------------------------------------------------------------
# expressions
# ---------------------------------------------------------------------------------------------

BINOPS = [("||",), ("&&",), ("==", "!=", "<", ">", "<=", ">="), ("|",), ("^",), ("&",), ("<<", ">>"), ("+", "-"), ("*", "/", "%")]


def parse_expr(p, no_struct=False, level=0):
    if level == len(BINOPS):
        return parse_cast(p, no_struct)
    left = parse_expr(p, no_struct, level + 1)
    while p.peek() in BINOPS[level]:
        op = p.next()
        right = parse_expr(p, no_struct, level + 1)
        left = ("bin", op, left, right)
    return left


def parse_type(p):
    """a type after `as` / in a signature: path with optional generics, refs, slices, tuples; returned as text"""
    out = []
    depth = 0
    while True:
        v = p.peek()
        if v is None:
            break
        if v in ("<", "(", "["):
            depth += 1
        elif v == ">>":
            if depth < 2:
                break
            depth -= 2
        elif v in (">", ")", "]"):
            if depth == 0:
                break
            depth -= 1
        elif depth == 0 and (v in (",", ";", "{", "=", "=>", "where") or v in ("==", "!=", "&&", "||", "+", "*", "?", ".", "/", "%", "-", "<<", "|", "^", "<=", ">=")):
            break
        out.append(p.next())
    return "".join(out)


def parse_cast(p, no_struct):
    e = parse_unary(p, no_struct)
    while p.at("as"):
        p.next()
        e = ("cast", e, parse_type(p))
    return e


def parse_unary(p, no_struct):
    if p.at("&"):
        p.next()
        if p.at("mut"):
            p.next()
        return ("ref", parse_unary(p, no_struct))
    if p.at("!"):
        p.next()
        return ("not", parse_unary(p, no_struct))
    if p.at("*"):
        p.next()
        return ("deref", parse_unary(p, no_struct))
    return parse_postfix(p, no_struct)


def parse_args(p):
    args = []
    p.eat("(")
    while not p.at(")"):
        args.append(parse_expr(p))
        if p.at(","):
            p.next()
    p.eat(")")
    return args


def parse_postfix(p, no_struct):
    e = parse_primary(p, no_struct)
    while True:
        if p.at("?"):
            p.next()
            e = ("try", e)
        elif p.at("("):
            e = ("call", e, parse_args(p))
        elif p.at("["):
            p.next()
            lo = None if p.at("..") else parse_expr(p)
            if p.at(".."):
                p.next()
                hi = None if p.at("]") else parse_expr(p)
                p.eat("]")
                e = ("slice", e, lo, hi)
            else:
                p.eat("]")
                e = ("index", e, lo)
        elif p.at(".") and p.peek(1) != ".":
            p.next()
            name = p.next()
            if p.at("::") and p.peek(1) == "<":   # method turbofish
                p.next()
                p.skip_balanced("<", ">")
            if p.at("("):
                e = ("method", e, name, parse_args(p))
            else:
                e = ("field", e, name)
        else:
            return e


def parse_primary(p, no_struct):
    k, v = p.kind(), p.peek()
    if k == "num":
        p.next()
        m = re.fullmatch(r"(0x[0-9A-Fa-f_]+|\d[\d_]*)(u8|u16|u32|u64|usize)?", v)
        return ("num", int(m.group(1).replace("_", ""), 0))
    if k == "str":
        p.next()
        return ("str", v)
    if v == "(":
        p.next()
        if p.at(")"):
            p.next()
            return ("unit",)
        e = parse_expr(p)
        if p.at(","):
            items = [e]
            while p.at(","):
                p.next()
                if p.at(")"):
                    break
                items.append(parse_expr(p))
            p.eat(")")
            return ("tuple", items)
        p.eat(")")
        return ("paren", e)
    if v == "||":  # closure without parameters
        p.next()
        return ("closure", [], parse_expr(p))
    if v == "|":  # closure `|pat, ..| body`
        p.next()
        params = []
        while not p.at("|"):
            if p.at("&"):
                p.next()
            params.append(parse_pattern(p))
            if p.at(","):
                p.next()
        p.eat("|")
        return ("closure", params, parse_expr(p))
    if v == "match":
        p.next()
        scrut = parse_expr(p, no_struct=True)
        st = _parse_match_body(p, scrut)
        return ("matchexpr", st[1], st[2])
    if v == "if" and p.peek(1) != "let":
        p.next()
        cond = parse_expr(p, no_struct=True)
        then = parse_block(p)
        els = None
        if p.at("else"):
            p.next()
            els = [("expr", parse_primary(p, no_struct), False)] if p.at("if") else parse_block(p)
        return ("ifexpr", cond, then, els)
    if v == "{":   # block expression: `let x = { …; tail }`
        return ("blockexpr", parse_block(p))
    if v == "[":
        p.next()
        items = []
        while not p.at("]"):
            items.append(parse_expr(p))
            if p.at(";"):   # [x; n]
                p.next()
                n = parse_expr(p)
                p.eat("]")
                return ("arrayrep", items[0], n)
            if p.at(","):
                p.next()
        p.eat("]")
        return ("array", items)
    if k == "id" and v == "b" and p.kind(1) in ("str", "chr"):
        p.next()
        lit = p.next()
        body = lit[1:-1]
        out, i = [], 0
        while i < len(body):
            if body[i] == "\\":
                esc = body[i + 1]
                out.append({"n": 10, "r": 13, "t": 9, "0": 0, "\\": 92, "'": 39, '"': 34}[esc])
                i += 2
            else:
                out.append(ord(body[i]))
                i += 1
        return ("bytestr", out) if lit[0] == '"' else ("num", out[0])
    if k == "id" and v in ("true", "false"):
        p.next()
        return ("bool", v == "true")
    if k == "id":
        path = [p.next()]
        while p.at("::"):
            p.next()
            if p.at("<"):  # turbofish
                p.skip_balanced("<", ">")
                continue
            path.append(p.next())
        if p.at("!"):  # macro call
            p.next()
            if p.at("("):
                body = p.skip_balanced("(", ")")
            elif p.at("["):
                body = p.skip_balanced("[", "]")
            else:
                body = p.skip_balanced("{", "}")
            return ("macro", path[-1], body)
        if p.at("{") and not no_struct and path[-1][0].isupper():
            # struct literal: keep the field initialisers (name, expr or None for the shorthand)
            save = p.i
            try:
                p.eat("{")
                fields = []
                while not p.at("}"):
                    if p.at(".."):
                        p.next()
                        parse_expr(p)
                        break
                    fname = p.next()
                    if p.at(":"):
                        p.next()
                        fields.append((fname, parse_expr(p)))
                    else:
                        fields.append((fname, None))
                    if p.at(","):
                        p.next()
                p.eat("}")
                return ("struct", path, fields)
            except TranslateError:
                p.i = save
                p.skip_balanced("{", "}")
                return ("struct", path, None)
        return ("path", path)
    raise TranslateError("sign.rs: unexpected token %r in expression" % v)


# ---------------------------------------------------------------------------------------------
# patterns
# ---------------------------------------------------------------------------------------------

def parse_pattern(p):
    if p.at("&"):
        p.next()
        return parse_pattern(p)
    if p.at("ref"):
        p.next()
        if p.at("mut"):
            p.next()
        return parse_pattern(p)
    if p.kind() == "num":
        v = p.next()
        m = re.fullmatch(r"(0x[0-9A-Fa-f_]+|\d[\d_]*)(u8|u16|u32|u64|usize)?", v)
        return ("pnum", int(m.group(1).replace("_", ""), 0))
    if p.kind() == "str":
        return ("pstr", p.next())
    if p.at("_"):
        p.next()
        return ("pwild",)
    if p.at("("):
        p.next()
        items = []
        while not p.at(")"):
            items.append(parse_pattern(p))
            if p.at(","):
                p.next()
        p.eat(")")
        return ("ptuple", items)
    if p.kind() == "id":
        path = [p.next()]
        while p.at("::"):
            p.next()
            path.append(p.next())
        if p.at("("):
            p.next()
            items = []
            while not p.at(")"):
                items.append(parse_pattern(p))
                if p.at(","):
                    p.next()
            p.eat(")")
            return ("pctor", path, items)
        if len(path) == 1 and path[0][0].islower():
            return ("pbind", path[0])
        return ("ppath", path)
    raise TranslateError("sign.rs: unexpected token %r in pattern" % p.peek())


# ---------------------------------------------------------------------------------------------
# statements
# ---------------------------------------------------------------------------------------------

LOG_MACROS = {"warn", "info", "debug", "trace", "error"}

# A log statement is dropped from the translation.  That is only sound when its arguments are plain values:
# `log` evaluates them whenever a logger is enabled, so a call, an index, arithmetic or a nested macro in there
# is code that runs (and can panic or change state) in a logging application.  Accessor calls without arguments
# from this list are accepted; anything else makes the translator refuse the function.
PURE_LOG_ACCESSORS = {"id", "width", "height", "address", "len", "state", "sign_type"}


def check_log_macro(name, toks, where="source"):
    """toks: the (kind, text) tokens between the macro's parentheses"""
    i, n = 0, len(toks)
    while i < n:
        k, v = toks[i]
        if k in ("str", "num", "chr") or v in (",", ".", "&", "::", "self", "*"):
            i += 1
            continue
        if k == "id":
            if i + 1 < n and toks[i + 1][1] == "(":
                if v in PURE_LOG_ACCESSORS and i + 2 < n and toks[i + 2][1] == ")" and i > 0 and toks[i - 1][1] == ".":
                    i += 3
                    continue
                raise TranslateError("%s: %s! evaluates the call `%s(…)` in its arguments (runs whenever a logger is enabled)" % (where, name, v))
            if i + 1 < n and toks[i + 1][1] == "!":
                raise TranslateError("%s: %s! has a nested macro `%s!` in its arguments" % (where, name, v))
            i += 1
            continue
        raise TranslateError("%s: %s! argument is not a plain value (token %r)" % (where, name, v))
    return True


def parse_block(p):
    p.eat("{")
    stmts = []
    while not p.at("}"):
        stmts.append(parse_stmt(p))
    p.eat("}")
    return stmts


def _parse_match_body(p, scrut):
    p.eat("{")
    arms = []
    while not p.at("}"):
        pats = [parse_pattern(p)]
        while p.at("|"):
            p.next()
            pats.append(parse_pattern(p))
        guard = None
        if p.at("if"):
            p.next()
            guard = parse_expr(p, no_struct=True)
        p.eat("=>")
        if p.at("{"):
            body = ("block", parse_block(p))
            if p.at(","):
                p.next()
        elif p.at("return") or p.at("break"):
            kw = p.next()
            if kw == "break":
                body = ("block", [("break",)])
            else:
                body = ("block", [("return", parse_expr(p))])
            if p.at(","):
                p.next()
        else:
            be = parse_expr(p)
            if p.at("="):
                p.next()
                body = ("block", [("assignto", be, parse_expr(p))])
            else:
                body = ("expr", be)
            if p.at(","):
                p.next()
        arms.append((pats, guard, body))
    p.eat("}")
    return ("match", scrut, arms)


def parse_stmt(p):
    v = p.peek()
    if v == "let":
        p.next()
        mutable = False
        if p.at("mut"):
            p.next()
            mutable = True
        pat = parse_pattern(p)
        if p.at(":"):
            p.next()
            parse_type(p)
        p.eat("=")
        e = parse_expr(p)
        p.eat(";")
        return ("let", pat, mutable, e)
    if v == "const":
        p.next()
        name = p.next()
        p.eat(":")
        parse_type(p)
        p.eat("=")
        e = parse_expr(p)
        p.eat(";")
        return ("const", name, e)
    if v == "loop":
        p.next()
        return ("loop", parse_block(p))
    if v == "while":
        raise TranslateError("sign.rs: `while` is outside the translated subset")
    if v == "for":
        p.next()
        pat = parse_pattern(p)
        p.eat("in")
        it = parse_expr(p, no_struct=True)
        return ("for", pat, it, parse_block(p))
    if v == "match":
        p.next()
        scrut = parse_expr(p, no_struct=True)
        st = _parse_match_body(p, scrut)
        if p.at(";"):
            p.next()
        return st
    if v == "if" and p.peek(1) == "let":
        p.next()
        p.next()
        pat = parse_pattern(p)
        p.eat("=")
        scrut = parse_expr(p, no_struct=True)
        then = parse_block(p)
        els = None
        if p.at("else"):
            p.next()
            els = [parse_stmt(p)] if p.at("if") else parse_block(p)
        return ("iflet", pat, scrut, then, els)
    if v == "if":
        p.next()
        cond = parse_expr(p, no_struct=True)
        then = parse_block(p)
        els = None
        if p.at("else"):
            p.next()
            if p.at("if"):
                els = [parse_stmt(p)]
            else:
                els = parse_block(p)
        return ("if", cond, then, els)
    if v == "break":
        p.next()
        p.eat(";")
        return ("break",)
    if v == "return":
        p.next()
        if p.at(";"):
            p.next()
            return ("return", ("unit",))
        e = parse_expr(p)
        p.eat(";")
        return ("return", e)
    if p.kind() == "id" and p.peek(1) == "=" and p.peek(2) != "=":
        name = p.next()
        p.next()
        e = parse_expr(p)
        p.eat(";")
        return ("assign", name, e)
    if p.kind() == "id" and p.peek(1) == "+=":
        name = p.next()
        p.next()
        e = parse_expr(p)
        p.eat(";")
        return ("addassign", name, e)
    e = parse_expr(p)
    if p.at("=") :
        p.next()
        rhs = parse_expr(p)
        p.eat(";")
        return ("assignto", e, rhs)
    if p.peek() in ("+=", "-=", "|=", "&=", "^="):
        op = p.next()
        rhs = parse_expr(p)
        p.eat(";")
        return ("addassignto", e, rhs) if op == "+=" else ("opassignto", op[0], e, rhs)
    if p.at(";"):
        p.next()
        return ("expr", e, True)
    return ("expr", e, False)


def parse_methods(src, impl_re=r"\bimpl\s+Sign\s*\{"):
    """{name: (params [(name, type)], return type text, body stmts)} of `impl Sign { .. }`"""
    m = re.search(impl_re, src)
    if not m:
        raise TranslateError("impl block %s not found" % impl_re)
    from translate import matching
    end = matching(src, m.end() - 1)
    toks = tokenize(src[m.end() - 1:end])
    p = P(toks)
    p.eat("{")
    methods = {}
    while not p.at("}"):
        while p.at("#"):
            p.next()
            p.skip_balanced("[", "]")
        if p.at("pub"):
            p.next()
        p.eat("fn")
        name = p.next()
        if p.at("<"):
            p.skip_balanced("<", ">")
        p.eat("(")
        params = []
        while not p.at(")"):
            if p.at("&"):
                p.next()
            if p.at("mut"):
                p.next()
            pname = p.next()
            ptype = ""
            if p.at(":"):
                p.next()
                ptype = parse_type(p)
            params.append((pname, ptype))
            if p.at(","):
                p.next()
        p.eat(")")
        ret = ""
        if p.at("->"):
            p.next()
            ret = parse_type(p)
        if p.at("where"):
            while not p.at("{"):
                p.next()
        body = parse_block(p)
        methods[name] = (params, ret, body)
    return methods, src[m.end():]


# ---------------------------------------------------------------------------------------------
# translation
# ---------------------------------------------------------------------------------------------

class Env:
    def __init__(self, vals=None, consts=None, bools=None):
        self.vals = dict(vals or {})      # rust local → lean text
        self.consts = dict(consts or {})  # rust const → int
        self.bools = set(bools or ())     # rust locals of type bool

    def copy(self):
        return Env(self.vals, self.consts, self.bools)


def lean_name(rust):
    parts = rust.split("_")
    return parts[0] + "".join(w.capitalize() for w in parts[1:])


class Translator:
    PRIMS = {"send_message", "send_message_expect_response", "new", "address", "sign_type", "width", "height", "create_page"}

    def __init__(self, methods):
        self.methods = methods
        self.aux = []          # auxiliary (loop) definitions, lean text
        self.fuelled = self.compute_fuelled()
        self.cur = None

    # ---- which methods contain a loop, directly or through a call
    def compute_fuelled(self):
        def has_loop(stmts):
            for s in stmts:
                if s[0] == "loop":
                    return True
                if s[0] == "match" and any(b[0] == "block" and has_loop(b[1]) for _, _, b in s[2]):
                    return True
                if s[0] == "if" and (has_loop(s[2]) or (s[3] and has_loop(s[3]))):
                    return True
            return False

        def calls(stmts, acc):
            def walk(e):
                if isinstance(e, tuple):
                    if e and e[0] == "method" and e[1] == ("path", ["self"]):
                        acc.add(e[2])
                    for x in e:
                        walk(x)
                elif isinstance(e, list):
                    for x in e:
                        walk(x)
            walk(stmts)

        fuelled = {n for n, (_, _, b) in self.methods.items() if has_loop(b)}
        changed = True
        while changed:
            changed = False
            for n, (_, _, b) in self.methods.items():
                if n in fuelled:
                    continue
                acc = set()
                calls(b, acc)
                if acc & fuelled:
                    fuelled.add(n)
                    changed = True
        return fuelled

    # ---- pure expressions
    def state_or_var(self, e, env):
        if e[0] == "path" and len(e[1]) == 2 and e[1][0] == "State" and e[1][1] in STATES:
            return "." + lc(e[1][1])
        if e[0] == "path" and len(e[1]) == 1 and e[1][0] in env.vals:
            return env.vals[e[1][0]]
        raise TranslateError("sign.rs: not a State: %r" % (e,))

    def op_or_var(self, e, env):
        if e[0] == "path" and len(e[1]) == 2 and e[1][0] == "Operation" and e[1][1] in OPS:
            return "." + lc(e[1][1])
        if e[0] == "path" and len(e[1]) == 1 and e[1][0] in env.vals:
            return env.vals[e[1][0]]
        raise TranslateError("sign.rs: not an Operation: %r" % (e,))

    def is_self_address(self, e):
        return e == ("field", ("path", ["self"]), "address")

    def nat(self, e, env):
        if e[0] == "num":
            return str(e[1])
        if e[0] == "path" and len(e[1]) == 1:
            n = e[1][0]
            if n in env.consts:
                return str(env.consts[n])
            if n in env.vals:
                return env.vals[n]
        if e[0] == "paren":
            return self.nat(e[1], env)
        if e[0] == "bin" and e[1] in ("+", "*"):
            return "(%s %s %s)" % (self.nat(e[2], env), e[1], self.nat(e[3], env))
        raise TranslateError("sign.rs: not a natural-number expression: %r" % (e,))

    def msg(self, e, env):
        if e[0] == "path" and len(e[1]) == 1 and e[1][0] in env.vals and env.vals[e[1][0]].startswith("(."):
            return env.vals[e[1][0]]
        if e[0] != "call" or e[1][0] != "path" or len(e[1][1]) != 2 or e[1][1][0] != "Message":
            raise TranslateError("sign.rs: not a Message constructor: %r" % (e,))
        name, args = e[1][1][1], e[2]
        simple = {"Hello": "hello", "QueryState": "queryState", "Goodbye": "goodbye", "PixelsComplete": "pixelsComplete"}
        if name in simple and len(args) == 1 and self.is_self_address(args[0]):
            return "(.%s a)" % simple[name]
        if name in ("RequestOperation", "AckOperation") and len(args) == 2 and self.is_self_address(args[0]):
            return "(.%s a %s)" % ("requestOp" if name == "RequestOperation" else "ackOp", self.op_or_var(args[1], env))
        if name == "ReportState" and len(args) == 2 and self.is_self_address(args[0]):
            return "(.reportState a %s)" % self.state_or_var(args[1], env)
        if name == "DataChunksSent" and len(args) == 1:
            c = args[0]
            if c[0] == "call" and c[1] == ("path", ["ChunkCount"]) and len(c[2]) == 1:
                return "(.chunksSent (UInt16.ofNat %s))" % self.nat(c[2][0], env)
        raise TranslateError("sign.rs: unsupported Message expression %s(..)" % name)

    def optmsg(self, e, env):
        while e[0] in ("ref", "paren"):
            e = e[1]
        if e == ("path", ["None"]):
            return "none"
        if e[0] == "call" and e[1] == ("path", ["Some"]) and len(e[2]) == 1:
            return "(some %s)" % self.msg(e[2][0], env)
        if e[0] == "path" and len(e[1]) == 1 and e[1][0] in env.vals:
            return env.vals[e[1][0]]
        raise TranslateError("sign.rs: not an Option<Message> expression: %r" % (e,))

    def cond(self, e, env):
        if e[0] == "paren":
            return "(" + self.cond(e[1], env) + ")"
        if e[0] == "not" and e[1][0] == "path" and len(e[1][1]) == 1 and e[1][1][0] in env.bools:
            return "%s = false" % env.vals[e[1][1][0]]
        if e[0] == "path" and len(e[1]) == 1 and e[1][0] in env.bools:
            return "%s = true" % env.vals[e[1][0]]
        if e[0] == "bin" and e[1] == "&&":
            return "%s ∧ %s" % (self.cond(e[2], env), self.cond(e[3], env))
        if e[0] == "bin" and e[1] == "||":
            return "(%s ∨ %s)" % (self.cond(e[2], env), self.cond(e[3], env))
        if e[0] == "bin" and e[1] in ("<", "<=", ">", ">="):
            return "%s %s %s" % (self.nat(e[2], env), {"<": "<", "<=": "≤", ">": ">", ">=": "≥"}[e[1]], self.nat(e[3], env))
        if e[0] == "bin" and e[1] in ("==", "!="):
            # Option<Message> comparison
            try:
                l, r = self.optmsg(e[2], env), self.optmsg(e[3], env)
                return ("%s = %s" if e[1] == "==" else "%s ≠ %s") % (l, r)
            except TranslateError:
                pass
            try:
                l, r = self.nat(e[2], env), self.nat(e[3], env)
                return ("%s = %s" if e[1] == "==" else "%s ≠ %s") % (l, r)
            except TranslateError:
                raise TranslateError("sign.rs: unsupported comparison %r" % (e,))
        raise TranslateError("sign.rs: unsupported condition %r" % (e,))

    # ---- match arms on a reply
    def arm_cond(self, scrut_var, pats, guard, env):
        """Lean condition under which an arm of `match <reply>` is taken (None for the catch-all)"""
        if len(pats) == 1 and pats[0] == ("pwild",) and guard is None:
            return None
        conj = []

        def flatten(g):
            if g is None:
                return
            if g[0] == "bin" and g[1] == "&&":
                flatten(g[2])
                flatten(g[3])
            else:
                conj.append(g)
        flatten(guard)
        alts = []
        used_all = None
        for pat in pats:
            used = set()
            if pat == ("ppath", ["None"]):
                alts.append("%s = none" % scrut_var)
                used_all = used if used_all is None else used_all
                continue
            if not (pat[0] == "pctor" and pat[1] == ["Some"] and len(pat[2]) == 1):
                raise TranslateError("sign.rs: unsupported reply pattern %r" % (pat,))
            inner = pat[2][0]
            if not (inner[0] == "pctor" and inner[1] == ["Message", "ReportState"] and len(inner[2]) == 2):
                raise TranslateError("sign.rs: unsupported reply pattern %r" % (inner,))
            apat, spat = inner[2]
            if apat[0] == "pbind":
                # a binding constrained by `binding == self.address`
                want = ("bin", "==", ("path", [apat[1]]), ("field", ("path", ["self"]), "address"))
                if want not in conj:
                    raise TranslateError("sign.rs: reply pattern binds the address without comparing it to self.address")
                used.add(conj.index(want))
                probe = "ownReport? a %s" % scrut_var
                lit = lambda st: "%s = some (.reportState a %s)" % (scrut_var, st)
            elif apat == ("pwild",):
                probe = "anyReport? %s" % scrut_var
                lit = lambda st: "anyReport? %s = some %s" % (scrut_var, st)
            else:
                raise TranslateError("sign.rs: unsupported address pattern %r" % (apat,))
            if spat[0] == "ppath" and len(spat[1]) == 2 and spat[1][0] == "State" and spat[1][1] in STATES:
                alts.append(lit("." + lc(spat[1][1])))
            elif spat[0] == "pbind":
                def state_test(g):
                    """g is `state == E` or a parenthesised disjunction of such tests"""
                    if g[0] == "paren":
                        return state_test(g[1])
                    if g[0] == "bin" and g[1] == "||":
                        l, r = state_test(g[2]), state_test(g[3])
                        return None if l is None or r is None else "(%s ∨ %s)" % (l, r)
                    if g[0] == "bin" and g[1] == "==" and g[2] == ("path", [spat[1]]):
                        return "%s = some %s" % (probe, self.state_or_var(g[3], env))
                    return None
                idx = [i for i, g in enumerate(conj) if state_test(g) is not None]
                if len(idx) != 1:
                    raise TranslateError("sign.rs: reply pattern binds the state without exactly one test of it")
                used.add(idx[0])
                alts.append(state_test(conj[idx[0]]))
            elif spat == ("pwild",):
                alts.append("(%s).isSome = true" % probe)
            else:
                raise TranslateError("sign.rs: unsupported state pattern %r" % (spat,))
            if used_all is not None and used != used_all:
                raise TranslateError("sign.rs: alternatives of one arm use the guard differently")
            used_all = used
        main = alts[0] if len(alts) == 1 else "(" + " ∨ ".join(alts) + ")"
        extra = [self.cond(g, env) for i, g in enumerate(conj) if i not in (used_all or set())]
        return " ∧ ".join([main] + extra)

    # ---- statements, continuation-passing
    def ret_value(self, e, env):
        """`Ok(v)` → lean value text"""
        if e[0] == "call" and e[1] == ("path", ["Ok"]) and len(e[2]) == 1:
            v = e[2][0]
            if v == ("unit",):
                return "()"
            if v[0] == "path" and v[1][0] == "PageFlipStyle" and len(v[1]) == 2:
                return "." + lc(v[1][1])
        return None

    def call_args(self, name, args, env):
        """lean argument text for a call of a user method"""
        params = self.methods[name][0][1:]  # drop self
        if len(params) != len(args):
            raise TranslateError("sign.rs: wrong number of arguments in call of " + name)
        out = []
        for (pn, pt), a in zip(params, args):
            while a[0] in ("ref", "paren"):
                a = a[1]
            if pt == "Operation":
                out.append(self.op_or_var(a, env))
            elif pt == "State":
                out.append(self.state_or_var(a, env))
            elif pt in ("&I", "I"):
                out.append(self.items(a, env))
            else:
                raise TranslateError("sign.rs: unsupported parameter type %s in %s" % (pt, name))
        return " ".join(out)

    def items(self, e, env):
        """an iterator of byte slices → lean `List (List UInt8)`"""
        if e[0] == "path" and len(e[1]) == 1 and e[1][0] in env.vals:
            return env.vals[e[1][0]]
        if e[0] == "call" and e[1] == ("path", ["iter", "once"]) and len(e[2]) == 1:
            return "[%s]" % self.bytes_(e[2][0], env)
        # pages.into_iter().map(Page::as_bytes): the pages' byte images, in order
        if (e[0] == "method" and e[2] == "map" and e[3] == [("path", ["Page", "as_bytes"])]
                and e[1][0] == "method" and e[1][2] == "into_iter" and e[1][3] == [] and e[1][1][0] == "path"
                and e[1][1][1][0] in env.vals):
            return env.vals[e[1][1][1][0]]
        raise TranslateError("sign.rs: unsupported data iterator %r" % (e,))

    def bytes_(self, e, env):
        if e[0] == "path" and len(e[1]) == 1 and e[1][0] in env.vals:
            return env.vals[e[1][0]]
        if e == ("method", ("field", ("path", ["self"]), "sign_type"), "to_bytes", []):
            return "t.toBytes"
        raise TranslateError("sign.rs: unsupported byte-slice expression %r" % (e,))

    def tr(self, stmts, env, ctx):
        """Lean text of type Prog T for the statement list; ctx = dict(loop=(name, params, mutnames, after) | None)"""
        if not stmts:
            if ctx.get("loop_end"):
                return ctx["loop_end"](env)
            raise TranslateError("sign.rs: control reaches the end of a block without a value")
        s, rest = stmts[0], stmts[1:]
        k = s[0]
        if k == "const":
            if s[2][0] != "num":
                raise TranslateError("sign.rs: unsupported const")
            env = env.copy()
            env.consts[s[1]] = s[2][1]
            return self.tr(rest, env, ctx)
        if k == "let":
            pat, mutable, e = s[1], s[2], s[3]
            if pat[0] != "pbind":
                raise TranslateError("sign.rs: unsupported let pattern")
            name = pat[1]
            # let r = self.send_message(M)?;
            if e[0] == "try" and e[1][0] == "method" and e[1][1] == ("path", ["self"]) and e[1][2] == "send_message":
                if mutable or len(e[1][3]) != 1:
                    raise TranslateError("sign.rs: unsupported send_message binding")
                env2 = env.copy()
                env2.vals[name] = name
                return ".send %s fun %s =>\n%s" % (self.msg(e[1][3][0], env), name, indent(self.tr(rest, env2, ctx)))
            env2 = env.copy()
            if mutable:
                if e[0] == "num":
                    env2.vals[name] = str(e[1])
                elif e[0] == "bool":
                    env2.vals[name] = "true" if e[1] else "false"
                    env2.bools.add(name)
                else:
                    raise TranslateError("sign.rs: unsupported mutable local initialiser")
                env2.consts.pop(name, None)
                return self.tr(rest, env2, dict(ctx, muts=ctx.get("muts", []) + [name]))
            # pure bindings: byte slices, data iterators, (optional) messages
            for f in (self.bytes_, self.items, self.optmsg, self.msg):
                try:
                    env2.vals[name] = f(e, env)
                    break
                except TranslateError:
                    continue
            else:
                raise TranslateError("sign.rs: unsupported let binding of %s" % name)
            return self.tr(rest, env2, ctx)
        if k == "addassign":
            if s[2] != ("num", 1) or s[1] not in env.vals:
                raise TranslateError("sign.rs: unsupported += statement")
            env2 = env.copy()
            env2.vals[s[1]] = "(%s + 1)" % env.vals[s[1]]
            return self.tr(rest, env2, ctx)
        if k == "expr":
            e, semi = s[1], s[2]
            if e[0] == "macro":
                if e[1] in LOG_MACROS:
                    check_log_macro(e[1], e[2], "sign.rs")
                    return self.tr(rest, env, ctx)
                raise TranslateError("sign.rs: unsupported macro %s!" % e[1])
            if not semi and not rest:
                # tail expression: Ok(v) or a call whose Result is the method's result
                v = self.ret_value(e, env)
                if v is not None:
                    if ctx.get("loop_end"):
                        raise TranslateError("sign.rs: value at the end of a loop body")
                    return ".done %s" % v
                if e[0] == "method" and e[1] == ("path", ["self"]):
                    return self.tail_call(e, env, ctx)
                raise TranslateError("sign.rs: unsupported tail expression %r" % (e,))
            if e[0] == "try":
                return self.try_stmt(e[1], rest, env, ctx)
            raise TranslateError("sign.rs: unsupported expression statement %r" % (e,))
        if k == "return":
            e = s[1]
            if e[0] == "call" and e[1] == ("path", ["Err"]) and len(e[2]) == 1 and e[2][0][0] == "struct" and e[2][0][1] == ["SignError", "UnexpectedResponse"]:
                return ".fail"
            plain = {kk: vv for kk, vv in ctx.items() if kk not in ("break_k", "loop_end")}
            v = self.ret_value(e, env)
            if v is not None:
                return ".done %s" % v
            if e[0] == "method" and e[1] == ("path", ["self"]):
                return self.tail_call(e, env, plain)
            if e[0] == "call" and e[1] == ("path", ["verify_response"]) and len(e[2]) == 2:
                return "if %s = %s then .done () else .fail" % (self.optmsg(e[2][1], env), self.optmsg(e[2][0], env))
            raise TranslateError("sign.rs: unsupported return")
        if k == "assign":
            name, e = s[1], s[2]
            if name in env.bools and e[0] == "bool":
                env2 = env.copy()
                env2.vals[name] = "true" if e[1] else "false"
                return self.tr(rest, env2, ctx)
            raise TranslateError("sign.rs: unsupported assignment to %s" % name)
        if k == "break":
            if "break_k" not in ctx:
                raise TranslateError("sign.rs: break outside a loop")
            return ctx["break_k"](env)
        if k == "if":
            c = self.cond(s[1], env)
            a = self.tr(s[2] + rest, env, ctx)
            b = self.tr((s[3] or []) + rest, env, ctx)
            return "if %s then\n%s\nelse\n%s" % (c, indent(a), indent(b))
        if k == "match":
            scrut = s[1]
            if scrut[0] == "try" and scrut[1][0] == "method" and scrut[1][1] == ("path", ["self"]) and scrut[1][2] == "send_message" and len(scrut[1][3]) == 1:
                tmp = "reply%d" % len(env.vals)
                return self.tr([("let", ("pbind", tmp), False, scrut), ("match", ("path", [tmp]), s[2])] + rest, env, ctx)
            if not (scrut[0] == "path" and len(scrut[1]) == 1 and scrut[1][0] in env.vals):
                raise TranslateError("sign.rs: match on something other than a bound reply")
            sv = env.vals[scrut[1][0]]
            parts = []
            for i, (pats, guard, body) in enumerate(s[2]):
                c = self.arm_cond(sv, pats, guard, env)
                if body[0] == "block":
                    t = self.tr(body[1] + rest, env, ctx)
                else:
                    be = body[1]
                    if be[0] == "try":
                        t = self.try_stmt(be[1], rest, env, ctx)
                    elif not rest:
                        t = self.tr([("expr", be, False)], env, ctx)
                    else:
                        raise TranslateError("sign.rs: unsupported match arm expression")
                if c is None:
                    if i != len(s[2]) - 1:
                        raise TranslateError("sign.rs: catch-all arm before the end")
                    parts.append((None, t))
                else:
                    parts.append((c, t))
            if parts[-1][0] is not None:
                raise TranslateError("sign.rs: match on a reply without a catch-all arm")
            out = []
            for i, (c, t) in enumerate(parts[:-1]):
                out.append("%sif %s then\n%s" % ("else " if i else "", c, indent(t)))
            out.append("else\n%s" % indent(parts[-1][1]) if out else parts[-1][1])
            return "\n".join(out)
        if k == "loop":
            return self.loop(s[1], rest, env, ctx)
        if k == "for":
            return self.chunk_template(s, rest, env, ctx)
        raise TranslateError("sign.rs: unsupported statement kind %s" % k)

    def tail_call(self, e, env, ctx):
        name = e[2]
        if name == "send_message_expect_response":
            if len(e[3]) != 2:
                raise TranslateError("sign.rs: wrong arguments to send_message_expect_response")
            return "expect %s %s <|\n.done ()" % (self.msg(e[3][0], env), self.optmsg(e[3][1], env))
        if name not in self.methods or name in self.PRIMS:
            raise TranslateError("sign.rs: unsupported call self.%s" % name)
        fuel = " fuel" if name in self.fuelled else ""
        extra = " t" if name in self.uses_type else ""
        args = self.call_args(name, e[3], env)
        return "%s a%s%s%s" % (lean_name(name), extra, (" " + args) if args else "", fuel)

    def try_stmt(self, e, rest, env, ctx):
        """`E?;` followed by rest"""
        if e[0] == "method" and e[1] == ("path", ["self"]):
            name = e[2]
            if name == "send_message_expect_response":
                if len(e[3]) != 2:
                    raise TranslateError("sign.rs: wrong arguments to send_message_expect_response")
                return "expect %s %s <|\n%s" % (self.msg(e[3][0], env), self.optmsg(e[3][1], env), self.tr(rest, env, ctx))
            if name in self.methods and name not in self.PRIMS:
                call = self.tail_call(e, env, ctx)
                return "(%s).bind fun _ =>\n%s" % (call, self.tr(rest, env, ctx))
            raise TranslateError("sign.rs: unsupported call self.%s(..)?" % name)
        if e[0] == "call" and e[1] == ("path", ["verify_response"]) and len(e[2]) == 2:
            want = self.optmsg(e[2][0], env)
            got = self.optmsg(e[2][1], env)
            return "if %s = %s then\n%s\nelse .fail" % (got, want, indent(self.tr(rest, env, ctx)))
        raise TranslateError("sign.rs: unsupported `?` expression %r" % (e,))

    def loop(self, body, rest, env, ctx):
        if "break_k" in ctx:
            raise TranslateError("sign.rs: nested loops are outside the translated subset")
        muts = list(ctx.get("muts", []))
        name = lean_name(self.cur) + "Loop"
        params = self.cur_params
        param_names = " ".join(["a"] + (["t"] if self.cur in self.uses_type else []) + [p for p, _ in params])

        def loop_end(env2):
            return "%s %s%s fuel" % (name, param_names, "".join(" " + env2.vals[m] for m in muts))

        def break_k(env2):
            return self.tr(rest, env2, {k: v for k, v in ctx.items() if k not in ("break_k", "loop_end")})

        env_in = env.copy()
        for m in muts:
            env_in.vals[m] = m
        inner_ctx = dict(ctx, break_k=break_k, loop_end=loop_end)
        body_text = self.tr(body, env_in, inner_ctx)
        binder = self.binders(self.cur) + "".join(" (%s : %s)" % (m, "Bool" if m in env.bools else "Nat") for m in muts)
        self.aux.append("def %s %s : Nat → Prog %s\n  | 0 => .outOfFuel\n  | fuel + 1 =>\n%s\n" % (name, binder, self.cur_ret, indent(body_text, 4)))
        return "%s %s%s fuel" % (name, param_names, "".join(" " + env.vals[m] for m in muts))

    def chunk_template(self, s, rest, env, ctx):
        """for item in data.clone() { for (i, chunk) in item.chunks(N).enumerate() { expect(SendData(Offset((i*M) as u16), Data::try_new(chunk).unwrap()), &None)?; counter += 1; } }"""
        _, pat, it, body = s
        ok = (pat[0] == "pbind" and it[0] == "method" and it[2] == "clone" and it[3] == [] and it[1][0] == "path" and len(body) == 1 and body[0][0] == "for")
        if not ok:
            raise TranslateError("sign.rs: `for` loop other than the chunking template")
        item = pat[1]
        data = self.items(it[1], env)
        _, ipat, iit, ibody = body[0]
        ok = (ipat[0] == "ptuple" and len(ipat[1]) == 2 and ipat[1][0][0] == "pbind" and ipat[1][1][0] == "pbind"
              and iit[0] == "method" and iit[2] == "enumerate" and iit[3] == []
              and iit[1][0] == "method" and iit[1][2] == "chunks" and len(iit[1][3]) == 1 and iit[1][1] == ("path", [item])
              and len(ibody) == 2)
        if not ok:
            raise TranslateError("sign.rs: inner `for` loop does not match the chunking template")
        ivar, cvar = ipat[1][0][1], ipat[1][1][1]
        n = self.nat(iit[1][3][0], env)
        send, incr = ibody
        try:
            kind, tried, semi = send
            assert kind == "expr" and semi and tried[0] == "try"
            _, recv, mname, (a1, a2) = tried[1]
            assert recv == ("path", ["self"]) and mname == "send_message_expect_response"
            assert a2 == ("ref", ("path", ["None"]))
            _, ctor, (off, dat) = a1
            assert a1[0] == "call" and ctor == ("path", ["Message", "SendData"])
            assert dat == ("method", ("call", ("path", ["Data", "try_new"]), [("path", [cvar])]), "unwrap", [])
            assert off[0] == "call" and off[1] == ("path", ["Offset"]) and len(off[2]) == 1
            cast = off[2][0]
            assert cast[0] == "cast" and cast[2] == "u16" and cast[1][0] == "paren"
            prod = cast[1][1]
            assert prod[0] == "bin" and prod[1] == "*" and prod[2] == ("path", [ivar])
            mult = prod[3]
        except (AssertionError, ValueError, IndexError, TypeError):
            raise TranslateError("sign.rs: chunk send statement does not match the template")
        m = self.nat(mult, env)
        if int(n) > 255:
            raise TranslateError("sign.rs: chunk size above 255 (Data::try_new(..).unwrap() could panic)")
        if incr[0] != "addassign" or incr[2] != ("num", 1) or env.vals.get(incr[1]) != "0":
            raise TranslateError("sign.rs: chunk counter does not match the template (let mut c = 0; … c += 1)")
        counter = incr[1]
        env2 = env.copy()
        env2.vals[counter] = counter
        return "sendChunks (chunkMsgsGen %s %s %s) 0 fun %s =>\n%s" % (n, m, data, counter, self.tr(rest, env2, ctx))

    # ---- methods
    def binders(self, name):
        params = self.methods[name][0][1:]
        out = ["(a : UInt16)"]
        if name in self.uses_type:
            out.append("(t : SignType)")
        for pn, pt in params:
            ty = {"Operation": "Op", "State": "State", "&I": "List (List UInt8)", "I": "List (List UInt8)"}.get(pt)
            if ty is None:
                raise TranslateError("sign.rs: unsupported parameter type %s in %s" % (pt, name))
            out.append("(%s : %s)" % (pn, ty))
        return " ".join(out)

    def compute_uses_type(self):
        def mentions(e):
            if e == ("field", ("path", ["self"]), "sign_type"):
                return True
            if isinstance(e, (tuple, list)):
                return any(mentions(x) for x in e)
            return False
        direct = {n for n, (_, _, b) in self.methods.items() if mentions(b) and n not in self.PRIMS}
        changed = True
        while changed:
            changed = False
            for n, (_, _, b) in self.methods.items():
                if n in direct or n in self.PRIMS:
                    continue

                def calls_typed(e):
                    if isinstance(e, tuple) and e and e[0] == "method" and e[1] == ("path", ["self"]) and e[2] in direct:
                        return True
                    if isinstance(e, (tuple, list)):
                        return any(calls_typed(x) for x in e)
                    return False
                if calls_typed(b):
                    direct.add(n)
                    changed = True
        return direct

    def method(self, name):
        params, ret, body = self.methods[name]
        m = re.fullmatch(r"Result<(\(\)|PageFlipStyle),SignError>", ret)
        if not m:
            raise TranslateError("sign.rs: unsupported return type %s of %s" % (ret, name))
        self.cur = name
        self.cur_ret = "Unit" if m.group(1) == "()" else "FlipStyle"
        self.cur_params = [(p, t) for p, t in params[1:]]
        env = Env({p: p for p, _ in params[1:]})
        text = self.tr(body, env, {})
        fuel = " (fuel : Nat)" if name in self.fuelled else ""
        return "@[ctrl_unfold] def %s %s%s : Prog %s :=\n%s\n" % (lean_name(name), self.binders(name), fuel, self.cur_ret, indent(text))


def replace_at(tree, target, repl):
    if tree is target:
        return repl
    if isinstance(tree, tuple):
        return tuple(replace_at(x, target, repl) for x in tree)
    if isinstance(tree, list):
        return [replace_at(x, target, repl) for x in tree]
    return tree


def indent(text, n=2):
    return "\n".join((" " * n + l) if l else l for l in text.split("\n"))


ORDER = ["ensure_unconfigured", "send_data", "configure", "configure_if_needed", "send_pages", "switch_page",
         "load_next_page", "show_loaded_page", "shut_down"]


def squash(s):
    return re.sub(r"\s+", "", s)


def gen_controller(repo):
    import os
    path = "src/sign.rs"
    src = strip_comments(open(os.path.join(repo, path)).read())
    methods, tail = parse_methods(src)
    for need in ORDER + ["send_message", "send_message_expect_response"]:
        if need not in methods:
            raise TranslateError("sign.rs: method %s not found" % need)
    # helper methods the pinned source does not have are translated like the others, in call order
    extra = sorted(set(methods) - set(ORDER) - Translator.PRIMS)

    def callees(name):
        acc = set()

        def walk(e):
            if isinstance(e, tuple):
                if e and e[0] == "method" and e[1] == ("path", ["self"]):
                    acc.add(e[2])
                for x in e:
                    walk(x)
            elif isinstance(e, list):
                for x in e:
                    walk(x)
        walk(methods[name][2])
        return acc - Translator.PRIMS
    order, seen = [], set()

    def visit(n, stack=()):
        if n in seen:
            return
        if n in stack:
            raise TranslateError("sign.rs: recursive methods are outside the translated subset")
        if n not in methods:
            raise TranslateError("sign.rs: call of unknown method %s" % n)
        for c in sorted(callees(n)):
            visit(c, stack + (n,))
        seen.add(n)
        order.append(n)
    for n in ORDER + extra:
        visit(n)
    # the three primitives must be what the translation assumes they are
    prim_send = re.search(r"fn\s+send_message\s*\(&self,\s*message:\s*Message<'_>\)\s*->\s*Result<Option<Message<'_>>,\s*SignError>\s*\{(.*?)\n    \}", src, re.S)
    if not prim_send or squash(prim_send.group(1)) != "letmutbus=self.bus.borrow_mut();Ok(bus.process_message(message)?)":
        raise TranslateError("sign.rs: send_message is not a plain forward to the bus")
    prim_exp = re.search(r"fn\s+send_message_expect_response\s*\((.*?)\)\s*->\s*Result<\(\),\s*SignError>\s*\{(.*?)\n    \}", src, re.S)
    if not prim_exp or squash(prim_exp.group(2)) != "letresponse=self.send_message(message)?;verify_response(expected_response,&response)":
        raise TranslateError("sign.rs: send_message_expect_response is not send + verify_response")
    prim_ver = re.search(r"fn\s+verify_response\s*\(expected:\s*&Option<Message<'_>>,\s*response:\s*&Option<Message<'_>>\)\s*->\s*Result<\(\),\s*SignError>\s*\{(.*?)\n\}", src, re.S)
    if not prim_ver or not re.fullmatch(r"ifresponse==expected\{Ok\(\(\)\)\}else\{Err\(SignError::UnexpectedResponse\{.*\}\)\}", squash(prim_ver.group(1))):
        raise TranslateError("sign.rs: verify_response is not an equality test")
    tr = Translator(methods)
    tr.uses_type = tr.compute_uses_type()
    defs = []
    for name in order:
        n_aux = len(tr.aux)
        d = tr.method(name)
        defs += tr.aux[n_aux:]
        defs.append(d)
    return [path], "\n".join(defs)
