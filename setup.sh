#!/bin/sh
# Offline build of the framework: Lean model + theorems + driver, and the Rust harness.
set -e
cd "$(dirname "$0")"
(cd lean && lake build)
(cd harness && CARGO_NET_OFFLINE=true cargo build --offline)
