#!/bin/sh
# Offline build of the framework: Lean model + theorems + driver, and the Rust harness.
set -e
cd "$(dirname "$0")"
python3 translate.py /repo lean/Flipdot/Generated >/dev/null
(cd lean && lake build)
# static tie modules: non-fatal here (a topic the translator cannot read is reported by ./check, not by setup)
(cd lean && lake build Flipdot.Tie.Message Flipdot.Tie.SignType Flipdot.Tie.Serial Flipdot.Tie.VSign Flipdot.Tie.Controller Flipdot.Tie.VSignFull Flipdot.Tie.Core Flipdot.Tie.SerialBus Flipdot.Tie.FrameIo) || true
(cd harness && CARGO_NET_OFFLINE=true cargo build --offline)
