//! Shared helpers: hex, PRNG, FNV, message tokens (DESIGN.md Appendix A).
#![allow(dead_code)]

use flipdot_core::{Address, ChunkCount, Data, Frame, Message, MsgType, Offset, Operation, PageFlipStyle, SignType, State};

pub const STATES: [State; 13] = [
    State::Unconfigured,
    State::ConfigInProgress,
    State::ConfigReceived,
    State::ConfigFailed,
    State::PixelsInProgress,
    State::PixelsReceived,
    State::PixelsFailed,
    State::PageLoaded,
    State::PageLoadInProgress,
    State::PageShown,
    State::PageShowInProgress,
    State::ShowingPages,
    State::ReadyToReset,
];

pub const OPS: [Operation; 6] = [
    Operation::ReceiveConfig,
    Operation::ReceivePixels,
    Operation::ShowLoadedPage,
    Operation::LoadNextPage,
    Operation::StartReset,
    Operation::FinishReset,
];

pub const TYPES: [SignType; 11] = [
    SignType::Max3000Front112x16,
    SignType::Max3000Front98x16,
    SignType::Max3000Side90x7,
    SignType::Max3000Rear30x10,
    SignType::Max3000Rear23x10,
    SignType::Max3000Dash30x7,
    SignType::HorizonFront160x16,
    SignType::HorizonFront140x16,
    SignType::HorizonSide96x8,
    SignType::HorizonRear48x16,
    SignType::HorizonDash40x12,
];

pub fn state_idx(s: State) -> usize {
    STATES.iter().position(|x| *x == s).unwrap_or(99)
}
pub fn op_idx(o: Operation) -> usize {
    OPS.iter().position(|x| *x == o).unwrap_or(99)
}
pub fn type_idx(t: SignType) -> usize {
    TYPES.iter().position(|x| *x == t).unwrap_or(99)
}

/// SplitMix64: every random choice of a run derives from one state.
#[derive(Clone)]
pub struct Rng(pub u64);
impl Rng {
    pub fn new(seed: u64) -> Self {
        Rng(seed ^ 0x9E37_79B9_7F4A_7C15)
    }
    pub fn next(&mut self) -> u64 {
        self.0 = self.0.wrapping_add(0x9E37_79B9_7F4A_7C15);
        let mut z = self.0;
        z = (z ^ (z >> 30)).wrapping_mul(0xBF58_476D_1CE4_E5B9);
        z = (z ^ (z >> 27)).wrapping_mul(0x94D0_49BB_1331_11EB);
        z ^ (z >> 31)
    }
    pub fn below(&mut self, n: u64) -> u64 {
        if n == 0 {
            0
        } else {
            self.next() % n
        }
    }
    pub fn range(&mut self, lo: u64, hi_incl: u64) -> u64 {
        lo + self.below(hi_incl - lo + 1)
    }
    pub fn chance(&mut self, percent: u64) -> bool {
        self.below(100) < percent
    }
    pub fn byte(&mut self) -> u8 {
        self.next() as u8
    }
    pub fn bytes(&mut self, n: usize) -> Vec<u8> {
        (0..n).map(|_| self.byte()).collect()
    }
    pub fn pick<'a, T>(&mut self, xs: &'a [T]) -> &'a T {
        &xs[self.below(xs.len() as u64) as usize]
    }
    pub fn fork(&mut self) -> Rng {
        Rng(self.next())
    }
}

pub fn hex_of(bs: &[u8]) -> String {
    let mut s = String::with_capacity(bs.len() * 2);
    for b in bs {
        s.push_str(&format!("{:02X}", b));
    }
    s
}
pub fn to_hex(bs: &[u8]) -> String {
    if bs.is_empty() {
        "-".to_string()
    } else {
        hex_of(bs)
    }
}
pub fn parse_hex(s: &str) -> Option<Vec<u8>> {
    if s == "-" {
        return Some(vec![]);
    }
    let b = s.as_bytes();
    if b.len() % 2 != 0 {
        return None;
    }
    let mut out = Vec::with_capacity(b.len() / 2);
    for p in b.chunks(2) {
        let h = (p[0] as char).to_digit(16)?;
        let l = (p[1] as char).to_digit(16)?;
        out.push((h * 16 + l) as u8);
    }
    Some(out)
}
pub fn parse_u16(s: &str) -> Option<u16> {
    if s.len() != 4 {
        return None;
    }
    u16::from_str_radix(s, 16).ok()
}
pub fn parse_u8(s: &str) -> Option<u8> {
    if s.len() != 2 {
        return None;
    }
    u8::from_str_radix(s, 16).ok()
}

pub fn show_msg(m: &Message<'_>) -> String {
    match m {
        Message::SendData(Offset(o), d) => format!("SD,{:04X},{}", o, to_hex(d.get())),
        Message::DataChunksSent(ChunkCount(n)) => format!("CS,{:04X}", n),
        Message::Hello(Address(a)) => format!("HE,{:04X}", a),
        Message::QueryState(Address(a)) => format!("QS,{:04X}", a),
        Message::ReportState(Address(a), s) => format!("RS,{:04X},{}", a, state_idx(*s)),
        Message::RequestOperation(Address(a), o) => format!("RO,{:04X},{}", a, op_idx(*o)),
        Message::AckOperation(Address(a), o) => format!("AK,{:04X},{}", a, op_idx(*o)),
        Message::PixelsComplete(Address(a)) => format!("PC,{:04X}", a),
        Message::Goodbye(Address(a)) => format!("GB,{:04X}", a),
        Message::Unknown(f) => format!("UN,{:04X},{:02X},{}", f.address().0, f.message_type().0, to_hex(f.data())),
        _ => "??".to_string(),
    }
}

pub fn parse_msg(s: &str) -> Option<Message<'static>> {
    let p: Vec<&str> = s.split(',').collect();
    Some(match p.as_slice() {
        ["SD", o, d] => Message::SendData(Offset(parse_u16(o)?), Data::try_new(parse_hex(d)?).ok()?),
        ["CS", n] => Message::DataChunksSent(ChunkCount(parse_u16(n)?)),
        ["HE", a] => Message::Hello(Address(parse_u16(a)?)),
        ["QS", a] => Message::QueryState(Address(parse_u16(a)?)),
        ["RS", a, s] => Message::ReportState(Address(parse_u16(a)?), *STATES.get(s.parse::<usize>().ok()?)?),
        ["RO", a, o] => Message::RequestOperation(Address(parse_u16(a)?), *OPS.get(o.parse::<usize>().ok()?)?),
        ["AK", a, o] => Message::AckOperation(Address(parse_u16(a)?), *OPS.get(o.parse::<usize>().ok()?)?),
        ["PC", a] => Message::PixelsComplete(Address(parse_u16(a)?)),
        ["GB", a] => Message::Goodbye(Address(parse_u16(a)?)),
        ["UN", a, t, d] => Message::Unknown(Frame::new(
            Address(parse_u16(a)?),
            MsgType(parse_u8(t)?),
            Data::try_new(parse_hex(d)?).ok()?,
        )),
        _ => return None,
    })
}

pub fn show_frame(f: &Frame<'_>) -> String {
    format!("{:04X} {:02X} {}", f.address().0, f.message_type().0, to_hex(f.data()))
}

pub fn mk_frame(a: u16, t: u8, d: Vec<u8>) -> Option<Frame<'static>> {
    Some(Frame::new(Address(a), MsgType(t), Data::try_new(d).ok()?))
}

pub fn fnv_byte(h: u64, b: u8) -> u64 {
    (h ^ b as u64).wrapping_mul(1099511628211)
}
pub const FNV_INIT: u64 = 14695981039346656037;
pub fn fnv_nat(mut h: u64, n: u64) -> u64 {
    for i in 0..8 {
        h = fnv_byte(h, (n >> (8 * i)) as u8);
    }
    h
}
pub fn fnv_str(mut h: u64, s: &str) -> u64 {
    for b in s.as_bytes() {
        h = fnv_byte(h, *b);
    }
    h
}

/// Deterministic filler shared with the model driver.
pub fn gen_byte(seed: u64, i: u64) -> u8 {
    ((seed * 31 + i * 7 + (i / 256) * 3 + (i / 16) * 5) % 256) as u8
}
pub fn gen_bytes(seed: u64, len: u64) -> Vec<u8> {
    (0..len).map(|i| gen_byte(seed, i)).collect()
}

pub fn parse_item(s: &str) -> Option<Vec<u8>> {
    let p: Vec<&str> = s.split(':').collect();
    match p.as_slice() {
        ["h", hx] => parse_hex(hx),
        ["g", len, seed] => Some(gen_bytes(seed.parse().ok()?, len.parse().ok()?)),
        _ => None,
    }
}
pub fn parse_items(s: &str) -> Option<Vec<Vec<u8>>> {
    if s == "-" {
        return Some(vec![]);
    }
    s.split(';').map(parse_item).collect()
}

pub fn parse_style(s: &str) -> Option<PageFlipStyle> {
    match s {
        "A" => Some(PageFlipStyle::Automatic),
        "M" => Some(PageFlipStyle::Manual),
        _ => None,
    }
}
pub fn style_tok(s: PageFlipStyle) -> &'static str {
    match s {
        PageFlipStyle::Automatic => "A",
        PageFlipStyle::Manual => "M",
    }
}

/// Run `f`, mapping an unwind to `None`.
pub fn guarded<T>(f: impl FnOnce() -> T) -> Option<T> {
    std::panic::catch_unwind(std::panic::AssertUnwindSafe(f)).ok()
}
