//! Implementation side of the line protocol: every verb is answered by calling the real crates.
#![allow(dead_code)]

use std::cell::RefCell;
use std::collections::VecDeque;
use std::error::Error;
use std::rc::Rc;

use flipdot::{Sign, SignError};
use flipdot_core::{Address, Data, Frame, FrameError, Message, MsgType, Page, PageFlipStyle, PageId, SignBus, SignType, SignTypeError};
use flipdot_testing::{VirtualSign, VirtualSignBus};

use crate::util::*;

pub fn show_frame_err(e: &FrameError) -> String {
    match e {
        FrameError::DataTooLong { max, actual } => format!("err toolong {} {}", max, actual),
        FrameError::InvalidFrame { .. } => "err invalid".to_string(),
        FrameError::FrameDataMismatch { expected, actual, .. } => format!("err mismatch {} {}", expected, actual),
        FrameError::BadChecksum { expected, actual, .. } => format!("err badsum {:02X} {:02X}", expected, actual),
        FrameError::Io { .. } => "err io".to_string(),
        _ => "err other".to_string(),
    }
}

pub fn hash_pages(pages: &[Page<'_>]) -> u64 {
    let mut h = FNV_INIT;
    for p in pages {
        h = fnv_nat(h, p.width() as u64);
        h = fnv_nat(h, p.height() as u64);
        h = fnv_nat(h, p.as_bytes().len() as u64);
        for b in p.as_bytes() {
            h = fnv_byte(h, *b);
        }
    }
    h
}

pub fn show_sign(s: &VirtualSign<'_>) -> String {
    let t = match s.sign_type() {
        Some(t) => type_idx(t).to_string(),
        None => "-".to_string(),
    };
    format!("{}/{}/{}/{}", state_idx(s.state()), t, s.pages().len(), hash_pages(s.pages()))
}

pub fn show_reply(r: &Option<Message<'_>>) -> String {
    match r {
        None => "none".to_string(),
        Some(m) => show_msg(m),
    }
}

pub fn parse_signs(s: &str) -> Option<Vec<(PageFlipStyle, u16)>> {
    s.split(';')
        .map(|t| {
            let p: Vec<&str> = t.split(',').collect();
            match p.as_slice() {
                [st, a] => Some((parse_style(st)?, parse_u16(a)?)),
                _ => None,
            }
        })
        .collect()
}

pub fn show_trace(toks: &[String]) -> String {
    if toks.len() <= 200 {
        toks.join(" ")
    } else {
        let mut h = FNV_INIT;
        for t in toks {
            h = fnv_byte(h, 32);
            h = fnv_str(h, t);
        }
        format!("#{}:{}", toks.len(), h)
    }
}

#[derive(Clone, Debug)]
pub enum ReplyTok {
    Ok(Option<Message<'static>>),
    Bus,
}

pub fn parse_reply(s: &str) -> Option<ReplyTok> {
    match s {
        "none" => Some(ReplyTok::Ok(None)),
        "bus" => Some(ReplyTok::Bus),
        _ => Some(ReplyTok::Ok(Some(parse_msg(s)?))),
    }
}

thread_local! {
    /// Which concrete error type the scripted bus fails with (0 = a plain string error).
    pub static BUS_ERR_KIND: std::cell::Cell<u8> = std::cell::Cell::new(0);
}
pub const BUS_ERR_KINDS: u8 = 6;

/// The scripted bus error in one of several concrete types: what a failing transport can really hand back
/// (a boxed string, I/O errors of several kinds, the frame codec's own errors).  A controller must treat them
/// all alike: the exchange failed.
pub fn scripted_bus_error() -> Box<dyn Error + Send + Sync> {
    match BUS_ERR_KIND.with(|k| k.get()) {
        1 => Box::new(std::io::Error::new(std::io::ErrorKind::TimedOut, "scripted timeout")),
        2 => Box::new(std::io::Error::new(std::io::ErrorKind::Other, "scripted io error")),
        3 => Box::new(Frame::from_bytes(b":01007F02FF00").unwrap_err()), // BadChecksum
        4 => Box::new(Frame::from_bytes(b"noise").unwrap_err()),         // InvalidFrame
        5 => Box::new(Frame::from_bytes(b":02007F02FF7E").unwrap_err()), // FrameDataMismatch
        _ => "scripted bus error".into(),
    }
}

/// A bus that answers from a script and records everything it is sent.
#[derive(Debug)]
pub struct ScriptBus {
    pub script: VecDeque<ReplyTok>,
    pub trace: Vec<String>,
    pub msgs: Vec<Message<'static>>,
    pub starved: bool,
}

pub fn to_static(m: &Message<'_>) -> Message<'static> {
    // Re-create through the canonical token (covers every variant, owned data).
    parse_msg(&show_msg(m)).expect("canonical message token")
}

impl SignBus for ScriptBus {
    fn process_message<'a>(&mut self, message: Message<'_>) -> Result<Option<Message<'a>>, Box<dyn Error + Send + Sync>> {
        self.trace.push(show_msg(&message));
        self.msgs.push(to_static(&message));
        match self.script.pop_front() {
            None => {
                self.starved = true;
                Err("script exhausted".into())
            }
            Some(ReplyTok::Bus) => Err(scripted_bus_error()),
            Some(ReplyTok::Ok(None)) => Ok(None),
            Some(ReplyTok::Ok(Some(m))) => Ok(Some(m)),
        }
    }
}

/// Build `Page`s from raw item bytes (any multiple of 16 that is at least 16 bytes long).
pub fn pages_of(t: SignType, items: &[Vec<u8>]) -> Option<Vec<Page<'static>>> {
    let (w, h) = t.dimensions();
    items
        .iter()
        .map(|it| {
            if let Ok(p) = Page::from_bytes(w, h, it.clone()) {
                return Some(p);
            }
            if it.len() < 16 || it.len() % 16 != 0 {
                return None;
            }
            Page::from_bytes((it.len() - 4) as u32, 8, it.clone()).ok()
        })
        .collect()
}

pub fn run_op(sign: &Sign, op: &str, t: SignType, items: &[Vec<u8>]) -> Option<Result<String, SignError>> {
    Some(match op {
        "cfg" => sign.configure().map(|_| "ok".to_string()),
        "cfn" => sign.configure_if_needed().map(|_| "ok".to_string()),
        "snd" => {
            let pages = pages_of(t, items)?;
            sign.send_pages(&pages).map(|s| match s {
                PageFlipStyle::Automatic => "ok:auto".to_string(),
                PageFlipStyle::Manual => "ok:manual".to_string(),
            })
        }
        "shw" => sign.show_loaded_page().map(|_| "ok".to_string()),
        "nxt" => sign.load_next_page().map(|_| "ok".to_string()),
        "off" => sign.shut_down().map(|_| "ok".to_string()),
        _ => return None,
    })
}

pub struct CtrlRun {
    pub trace: Vec<String>,
    pub msgs: Vec<Message<'static>>,
    pub outcome: String,
    pub consumed: usize,
}

pub fn ctrl_run(op: &str, t: SignType, a: u16, items: &[Vec<u8>], script: &[ReplyTok]) -> Option<CtrlRun> {
    let bus = Rc::new(RefCell::new(ScriptBus {
        script: script.iter().cloned().collect(),
        trace: vec![],
        msgs: vec![],
        starved: false,
    }));
    let sign = Sign::new(bus.clone(), Address(a), t);
    let r = guarded(|| run_op(&sign, op, t, items));
    let outcome = match r {
        None => "PANIC".to_string(),
        Some(None) => return None,
        Some(Some(Ok(s))) => s,
        Some(Some(Err(SignError::Bus { .. }))) => {
            // The RefCell may still be borrowed if a panic happened; here it did not.
            if bus.borrow().starved {
                "starved".to_string()
            } else {
                "bus".to_string()
            }
        }
        Some(Some(Err(SignError::UnexpectedResponse { .. }))) => "proto".to_string(),
        Some(Some(Err(_))) => "err-other".to_string(),
    };
    drop(sign);
    let bus = match Rc::try_unwrap(bus) {
        Ok(b) => b.into_inner(),
        Err(_) => return None,
    };
    let consumed = script.len() - bus.script.len();
    Some(CtrlRun {
        trace: bus.trace,
        msgs: bus.msgs,
        outcome,
        consumed,
    })
}

fn page_ops(mut p: Page<'static>, ops: &[&str]) -> String {
    let mut out: Vec<String> = vec![];
    for op in ops {
        let t: Vec<&str> = op.split(',').collect();
        match t.as_slice() {
            ["g", x, y] => {
                let (x, y) = match (x.parse::<u32>(), y.parse::<u32>()) {
                    (Ok(x), Ok(y)) => (x, y),
                    _ => return "bad-op".into(),
                };
                match guarded(|| p.get_pixel(x, y)) {
                    Some(b) => out.push(if b { "1".into() } else { "0".into() }),
                    None => {
                        out.push("PANIC".into());
                        return out.join(" ");
                    }
                }
            }
            ["s", x, y, v] => {
                let (x, y) = match (x.parse::<u32>(), y.parse::<u32>()) {
                    (Ok(x), Ok(y)) => (x, y),
                    _ => return "bad-op".into(),
                };
                match guarded(|| p.set_pixel(x, y, *v == "1")) {
                    Some(()) => out.push(".".into()),
                    None => {
                        out.push("PANIC".into());
                        return out.join(" ");
                    }
                }
            }
            ["a", v] => match guarded(|| p.set_all_pixels(*v == "1")) {
                Some(()) => out.push(".".into()),
                None => {
                    out.push("PANIC".into());
                    return out.join(" ");
                }
            },
            ["i"] => match guarded(|| p.id()) {
                Some(PageId(b)) => out.push(format!("{:02X}", b)),
                None => {
                    out.push("PANIC".into());
                    return out.join(" ");
                }
            },
            ["b"] => out.push(to_hex(p.as_bytes())),
            _ => return "bad-op".into(),
        }
    }
    out.push(format!("{} {} {}", p.width(), p.height(), to_hex(p.as_bytes())));
    out.join(" ")
}

fn vbus_walk(signs: &[(PageFlipStyle, u16)], msgs: &[Message<'static>]) -> String {
    let mut bus = VirtualSignBus::new(signs.iter().map(|(st, a)| VirtualSign::new(Address(*a), *st)));
    // With exactly one sign, a stand-alone VirtualSign is driven in lock step and must agree.
    let mut solo = if signs.len() == 1 {
        Some(VirtualSign::new(Address(signs[0].1), signs[0].0))
    } else {
        None
    };
    let mut out: Vec<String> = vec![];
    for m in msgs {
        let r = guarded(|| bus.process_message(m.clone()));
        let r = match r {
            None => {
                out.push("PANIC".into());
                return out.join(" ");
            }
            Some(Err(_)) => {
                out.push("BUSERR".into());
                return out.join(" ");
            }
            Some(Ok(r)) => r,
        };
        let obs: Vec<String> = (0..signs.len()).map(|i| show_sign(bus.sign(i))).collect();
        let mut tok = format!("{}|{}", show_reply(&r), obs.join(";"));
        if let Some(s) = solo.as_mut() {
            match guarded(|| s.process_message(m)) {
                None => tok.push_str("!solo-panic"),
                Some(r2) => {
                    if show_reply(&r2) != show_reply(&r) || show_sign(s) != obs[0] {
                        tok.push_str("!solo-differs");
                    }
                }
            }
        }
        out.push(tok);
    }
    out.join(" ")
}

fn e2e_direct(signs: &str, rest: &[&str]) -> Option<String> {
    let signs = parse_signs(signs)?;
    let split = rest.iter().position(|t| *t == "|")?;
    let prior: Vec<Message<'static>> = rest[..split].iter().map(|t| parse_msg(t)).collect::<Option<_>>()?;
    let ops = &rest[split + 1..];
    let n = signs.len();
    let bus = VirtualSignBus::new(signs.iter().map(|(st, a)| VirtualSign::new(Address(*a), *st)));
    let bus = Rc::new(RefCell::new(bus));
    for m in prior {
        match guarded(|| bus.borrow_mut().process_message(m)) {
            None => return Some("PANIC".into()),
            Some(_) => {}
        }
    }
    let mut out: Vec<String> = vec![];
    let mut ctrls: Vec<((u16, usize), Sign)> = vec![];
    for o in ops {
        let p: Vec<&str> = o.split(',').collect();
        let (op, a, t, items) = match p.as_slice() {
            [op, a, t, items] => (*op, parse_u16(a)?, *TYPES.get(t.parse::<usize>().ok()?)?, parse_items(items)?),
            _ => return None,
        };
        // one controller object per (address, type) for the whole line: whatever a `Sign` remembers between
        // calls is part of what is observed
        let ti = TYPES.iter().position(|x| *x == t)?;
        if !ctrls.iter().any(|(k, _)| *k == (a, ti)) {
            ctrls.push(((a, ti), Sign::new(bus.clone(), Address(a), t)));
        }
        let sign = &ctrls.iter().find(|(k, _)| *k == (a, ti))?.1;
        let r = guarded(|| run_op(sign, op, t, &items));
        out.push(match r {
            None => "PANIC".to_string(),
            Some(None) => return None,
            Some(Some(Ok(s))) => s,
            Some(Some(Err(SignError::Bus { .. }))) => "bus".to_string(),
            Some(Some(Err(SignError::UnexpectedResponse { .. }))) => "proto".to_string(),
            Some(Some(Err(_))) => "err-other".to_string(),
        });
    }
    let b = bus.try_borrow().ok()?;
    let obs: Vec<String> = (0..n).map(|i| show_sign(b.sign(i))).collect();
    Some(format!("{} | {}", out.join(" "), obs.join(";")))
}

pub fn run_case(line: &str) -> String {
    match guarded(|| run_case_inner(line)) {
        Some(Some(s)) => s,
        Some(None) => "bad-op".to_string(),
        None => "PANIC".to_string(),
    }
}

fn run_case_inner(line: &str) -> Option<String> {
    let toks: Vec<&str> = line.trim().split(' ').collect();
    Some(match toks.as_slice() {
        ["data", n] => {
            let n: usize = n.parse().ok()?;
            let v = vec![0u8; n];
            // borrowed first, then the vector itself is moved in: no copy, so a huge zeroed block is never touched
            let borrowed = Data::try_new(&v[..]).map(|_| ()).map_err(|e| show_frame_err(&e));
            let owned = Data::try_new(v).map(|_| ()).map_err(|e| show_frame_err(&e));
            if owned != borrowed {
                "DISAGREE-owned-borrowed".to_string()
            } else {
                match owned {
                    Ok(()) => "ok".to_string(),
                    Err(e) => e,
                }
            }
        }
        [verb @ ("enc" | "encnl"), a, ty, d] => {
            let d = parse_hex(d)?;
            let a = parse_u16(a)?;
            let ty = parse_u8(ty)?;
            let owned = Frame::new(Address(a), MsgType(ty), Data::try_new(d.clone()).ok()?);
            let borrowed = Frame::new(Address(a), MsgType(ty), Data::try_new(&d[..]).ok()?);
            let (x, y) = if *verb == "enc" {
                (owned.to_bytes(), borrowed.to_bytes())
            } else {
                (owned.to_bytes_with_newline(), borrowed.to_bytes_with_newline())
            };
            if x != y || owned != borrowed {
                "DISAGREE-owned-borrowed".to_string()
            } else {
                hex_of(&x)
            }
        }
        ["dec", d] => {
            let d = parse_hex(d)?;
            match Frame::from_bytes(&d) {
                Ok(f) => format!("ok {}", show_frame(&f)),
                Err(e) => show_frame_err(&e),
            }
        }
        ["f2m", a, ty, d] => {
            let f = mk_frame(parse_u16(a)?, parse_u8(ty)?, parse_hex(d)?)?;
            show_msg(&Message::from(f))
        }
        ["m2f", m] => show_frame(&Frame::from(parse_msg(m)?)),
        ["page", "new", id, w, h, ops @ ..] => {
            let p = Page::new(PageId(parse_u8(id)?), w.parse().ok()?, h.parse().ok()?);
            page_ops(p, ops)
        }
        ["page", "from", w, h, d, ops @ ..] => {
            let d = parse_item(d)?;
            let w: u32 = w.parse().ok()?;
            let h: u32 = h.parse().ok()?;
            // Borrowed and owned construction must agree.
            let borrowed = Page::from_bytes(w, h, &d[..]);
            let owned = Page::from_bytes(w, h, d.clone());
            match (owned, borrowed) {
                (Ok(p), Ok(q)) => {
                    if p != q {
                        "DISAGREE-owned-borrowed".to_string()
                    } else {
                        // Run the ops on the borrowed page (copy-on-write path) made 'static by leaking
                        // a copy of the input; compare with the owned page.
                        let leaked: &'static [u8] = Box::leak(d.clone().into_boxed_slice());
                        let q2 = Page::from_bytes(w, h, leaked).ok()?;
                        let r1 = page_ops(p, ops);
                        let r2 = page_ops(q2, ops);
                        if r1 != r2 {
                            "DISAGREE-owned-borrowed".to_string()
                        } else {
                            r1
                        }
                    }
                }
                (Err(flipdot_core::PageError::WrongPageLength { width, height, expected, actual }), Err(_)) => {
                    format!("err wronglen {} {} {} {}", width, height, expected, actual)
                }
                _ => "DISAGREE-owned-borrowed".to_string(),
            }
        }
        ["type", "tobytes", t] => to_hex(TYPES.get(t.parse::<usize>().ok()?)?.to_bytes()),
        ["type", "dims", t] => {
            let (w, h) = TYPES.get(t.parse::<usize>().ok()?)?.dimensions();
            format!("{} {}", w, h)
        }
        ["type", "frombytes", d] => {
            let d = parse_hex(d)?;
            match guarded(|| SignType::from_bytes(&d)) {
                None => "PANIC".to_string(),
                Some(Ok(t)) => format!("ok {}", type_idx(t)),
                Some(Err(SignTypeError::WrongConfigLength { expected, actual })) => format!("err wronglen {} {}", expected, actual),
                Some(Err(SignTypeError::UnknownConfig { .. })) => "err unknown".to_string(),
                Some(Err(_)) => "err other".to_string(),
            }
        }
        ["vbus", signs, msgs @ ..] => {
            let signs = parse_signs(signs)?;
            let msgs: Vec<Message<'static>> = msgs.iter().map(|t| parse_msg(t)).collect::<Option<_>>()?;
            vbus_walk(&signs, &msgs)
        }
        ["ctrl", op, t, a, items, "|", replies @ ..] => {
            let script: Vec<ReplyTok> = replies.iter().map(|t| parse_reply(t)).collect::<Option<_>>()?;
            let t = *TYPES.get(t.parse::<usize>().ok()?)?;
            let r = ctrl_run(op, t, parse_u16(a)?, &parse_items(items)?, &script)?;
            format!("{} => {}", show_trace(&r.trace), r.outcome)
        }
        ["e2e", "direct", signs, rest @ ..] => e2e_direct(signs, rest)?,
        ["e2e", "serial", signs, rest @ ..] => crate::iomock::e2e_serial(signs, rest)?,
        ["io", "reads", n, evs @ ..] => crate::iomock::io_reads(n.parse().ok()?, crate::iomock::parse_revs(evs)?),
        ["io", "write", a, ty, d, "|", evs @ ..] => {
            let f = mk_frame(parse_u16(a)?, parse_u8(ty)?, parse_hex(d)?)?;
            crate::iomock::io_write(&f, crate::iomock::parse_wevs(evs)?)
        }
        ["serialmts", wms, rms, rest @ ..] => {
            // timed multi-exchange run on a slow port (first write call blocks wms ms, first read call rms ms)
            let g: Vec<&[&str]> = rest.split(|t| *t == "|").collect();
            if g.len() != 3 {
                return None;
            }
            let msgs: Vec<Message<'static>> = g[0].iter().map(|t| parse_msg(t)).collect::<Option<_>>()?;
            crate::iomock::PORT_LATENCY.with(|c| c.set((wms.parse().unwrap_or(0), rms.parse().unwrap_or(0))));
            let r = crate::iomock::serial_multi_case(true, &msgs, crate::iomock::parse_revs(g[1])?, crate::iomock::parse_wevs(g[2])?);
            crate::iomock::PORT_LATENCY.with(|c| c.set((0, 0)));
            r?
        }
        [verb @ ("serialm" | "serialmt"), rest @ ..] => {
            // several messages on one bus object: serialm M1 M2 .. | read events | write events
            let g: Vec<&[&str]> = rest.split(|t| *t == "|").collect();
            if g.len() != 3 {
                return None;
            }
            let msgs: Vec<Message<'static>> = g[0].iter().map(|t| parse_msg(t)).collect::<Option<_>>()?;
            crate::iomock::serial_multi_case(*verb == "serialmt", &msgs, crate::iomock::parse_revs(g[1])?, crate::iomock::parse_wevs(g[2])?)?
        }
        ["serialts", wms, rms, m, "|", rest @ ..] => {
            // timed exchange on a slow port: the first write call blocks wms ms, the first read call rms ms
            let g: Vec<&[&str]> = rest.split(|t| *t == "|").collect();
            if g.len() != 2 {
                return None;
            }
            crate::iomock::PORT_LATENCY.with(|c| c.set((wms.parse().unwrap_or(0), rms.parse().unwrap_or(0))));
            let r = crate::iomock::serial_case(true, &parse_msg(m)?, crate::iomock::parse_revs(g[0])?, crate::iomock::parse_wevs(g[1])?);
            crate::iomock::PORT_LATENCY.with(|c| c.set((0, 0)));
            r?
        }
        [verb @ ("serial" | "serialt"), m, "|", rest @ ..] => {
            let g: Vec<&[&str]> = rest.split(|t| *t == "|").collect();
            if g.len() != 2 {
                return None;
            }
            crate::iomock::serial_case(*verb == "serialt", &parse_msg(m)?, crate::iomock::parse_revs(g[0])?, crate::iomock::parse_wevs(g[1])?)?
        }
        ["odk", n, signs, rest @ ..] => {
            let g: Vec<&[&str]> = rest.split(|t| *t == "|").collect();
            if g.len() != 3 {
                return None;
            }
            crate::iomock::odk_case(n.parse().ok()?, signs, g[0], crate::iomock::parse_revs(g[1])?, crate::iomock::parse_wevs(g[2])?)?
        }
        ["port", kind, prior, fail] => crate::iomock::port_case(kind, crate::iomock::parse_settings(prior)?, crate::iomock::parse_fail(fail)?)?,
        _ => return None,
    })
}
