//! Implementation side of the line protocol: every verb is answered by calling the real crates.
#![allow(dead_code)]

use std::cell::RefCell;
use std::collections::VecDeque;
use std::error::Error;
use std::rc::Rc;

use flipdot::{Sign, SignError};
use flipdot_core::{Address, Data, Frame, FrameError, Message, MsgType, Page, PageFlipStyle, PageId, SignBus, SignType, SignTypeError};
use flipdot_testing::{VirtualSign, VirtualSignBus};

use crate::util::*;

pub fn show_frame_err(e: &FrameError) -> String {
    match e {
        FrameError::DataTooLong { max, actual } => format!("err toolong {} {}", max, actual),
        FrameError::InvalidFrame { .. } => "err invalid".to_string(),
        FrameError::FrameDataMismatch { expected, actual, .. } => format!("err mismatch {} {}", expected, actual),
        FrameError::BadChecksum { expected, actual, .. } => format!("err badsum {:02X} {:02X}", expected, actual),
        FrameError::Io { .. } => "err io".to_string(),
        _ => "err other".to_string(),
    }
}

pub fn hash_pages(pages: &[Page<'_>]) -> u64 {
    let mut h = FNV_INIT;
    for p in pages {
        h = fnv_nat(h, p.width() as u64);
        h = fnv_nat(h, p.height() as u64);
        h = fnv_nat(h, p.as_bytes().len() as u64);
        for b in p.as_bytes() {
            h = fnv_byte(h, *b);
        }
    }
    h
}

pub fn show_sign(s: &VirtualSign<'_>) -> String {
    let t = match s.sign_type() {
        Some(t) => type_idx(t).to_string(),
        None => "-".to_string(),
    };
    format!("{}/{}/{}/{}", state_idx(s.state()), t, s.pages().len(), hash_pages(s.pages()))
}

pub fn show_reply(r: &Option<Message<'_>>) -> String {
    match r {
        None => "none".to_string(),
        Some(m) => show_msg(m),
    }
}

pub fn parse_signs(s: &str) -> Option<Vec<(PageFlipStyle, u16)>> {
    s.split(';')
        .map(|t| {
            let p: Vec<&str> = t.split(',').collect();
            match p.as_slice() {
                [st, a] => Some((parse_style(st)?, parse_u16(a)?)),
                _ => None,
            }
        })
        .collect()
}

pub fn show_trace(toks: &[String]) -> String {
    if toks.len() <= 200 {
        toks.join(" ")
    } else {
        let mut h = FNV_INIT;
        for t in toks {
            h = fnv_byte(h, 32);
            h = fnv_str(h, t);
        }
        format!("#{}:{}", toks.len(), h)
    }
}

#[derive(Clone, Debug)]
pub enum ReplyTok {
    Ok(Option<Message<'static>>),
    Bus,
    /// the bus takes more than a second before it answers (a slow line, a paced transport, a busy sign)
    Slow(Box<ReplyTok>),
    /// the bus unwinds (panics) instead of returning
    Panic,
    /// the bus answers with the very message it was sent (a half-duplex line looping the transmitter back)
    Echo,
}

pub fn parse_reply(s: &str) -> Option<ReplyTok> {
    if let Some(rest) = s.strip_prefix('~') {
        return Some(ReplyTok::Slow(Box::new(parse_reply(rest)?)));
    }
    match s {
        "none" => Some(ReplyTok::Ok(None)),
        "bus" => Some(ReplyTok::Bus),
        "panic" => Some(ReplyTok::Panic),
        "echo" => Some(ReplyTok::Echo),
        _ => Some(ReplyTok::Ok(Some(parse_msg(s)?))),
    }
}

/// Compile-time probe: `Some(wire encoding of a frame carrying Data::from(&[0u8; N]))` if that conversion exists in
/// the library as built, `None` if it does not (an inherent associated function, applicable only when the bound
/// holds, shadows the blanket trait's fallback).
pub struct DataFromProbe<const N: usize>;
pub trait NoDataFrom<const N: usize> {
    fn wire(_a: &'static [u8; N]) -> Option<Vec<u8>> {
        None
    }
}
impl<const N: usize> NoDataFrom<N> for DataFromProbe<N> {}
impl<const N: usize> DataFromProbe<N>
where
    Data<'static>: From<&'static [u8; N]>,
{
    pub fn wire(a: &'static [u8; N]) -> Option<Vec<u8>> {
        let d: Data<'static> = Data::from(a);
        Some(Frame::new(Address(1), MsgType(0), d).to_bytes())
    }
}
macro_rules! probe_data_from {
    ($n:literal) => {{
        static A: [u8; $n] = [0u8; $n];
        #[allow(unused_imports)]
        use crate::implside::NoDataFrom;
        <crate::implside::DataFromProbe<$n>>::wire(&A)
    }};
}

/// Compile-time probes for mutable access into a validated data block (none exists on the pinned tree): if the
/// library as built lets a caller reach the backing storage of a `Data`, the probe uses it to grow a 255-byte block
/// by one byte and returns the result; otherwise `None` (a generic inherent function, applicable only when its
/// bound holds, shadows the blanket trait's fallback).
pub struct GrowProbe<T>(std::marker::PhantomData<T>);
pub trait NoGrow<T> {
    fn via_deref_cow(_d: T) -> Option<T> {
        None
    }
    fn via_deref_vec(_d: T) -> Option<T> {
        None
    }
    fn via_as_mut_vec(_d: T) -> Option<T> {
        None
    }
    fn via_extend(_d: T) -> Option<T> {
        None
    }
}
impl<T> NoGrow<T> for GrowProbe<T> {}
impl<T: std::ops::DerefMut<Target = std::borrow::Cow<'static, [u8]>>> GrowProbe<T> {
    pub fn via_deref_cow(mut d: T) -> Option<T> {
        d.to_mut().push(0);
        Some(d)
    }
}
impl<T: std::ops::DerefMut<Target = Vec<u8>>> GrowProbe<T> {
    pub fn via_deref_vec(mut d: T) -> Option<T> {
        d.push(0);
        Some(d)
    }
}
impl<T: AsMut<Vec<u8>>> GrowProbe<T> {
    pub fn via_as_mut_vec(mut d: T) -> Option<T> {
        d.as_mut().push(0);
        Some(d)
    }
}
impl<T: Extend<u8>> GrowProbe<T> {
    pub fn via_extend(mut d: T) -> Option<T> {
        d.extend(std::iter::once(0u8));
        Some(d)
    }
}

thread_local! {
    /// Which concrete error type the scripted bus fails with (0 = a plain string error).
    pub static BUS_ERR_KIND: std::cell::Cell<u8> = std::cell::Cell::new(0);
}
pub const BUS_ERR_KINDS: u8 = 8;

/// The scripted bus error in one of several concrete types: what a failing transport can really hand back
/// (a boxed string, I/O errors of several kinds, the frame codec's own errors).  A controller must treat them
/// all alike: the exchange failed.
pub fn scripted_bus_error() -> Box<dyn Error + Send + Sync> {
    match BUS_ERR_KIND.with(|k| k.get()) {
        1 => Box::new(std::io::Error::new(std::io::ErrorKind::TimedOut, "scripted timeout")),
        2 => Box::new(std::io::Error::new(std::io::ErrorKind::Other, "scripted io error")),
        3 => Box::new(Frame::from_bytes(b":01007F02FF00").unwrap_err()), // BadChecksum
        4 => Box::new(Frame::from_bytes(b"noise").unwrap_err()),         // InvalidFrame
        5 => Box::new(Frame::from_bytes(b":02007F02FF7E").unwrap_err()), // FrameDataMismatch
        // the controller's own error type coming back from a bus (a bus layered on another controller)
        6 => Box::new(SignError::UnexpectedResponse {
            expected: "scripted".into(),
            actual: "scripted".into(),
        }),
        7 => Box::new(SignError::Bus {
            source: "scripted inner bus error".into(),
        }),
        _ => "scripted bus error".into(),
    }
}

/// A bus that answers from a script and records everything it is sent.
#[derive(Debug)]
pub struct ScriptBus {
    /// Debug rendering of the last error this bus returned (what the controller's `Bus { source }` must carry)
    pub last_err: Option<String>,
    pub script: VecDeque<ReplyTok>,
    pub trace: Vec<String>,
    pub msgs: Vec<Message<'static>>,
    pub starved: bool,
}

pub fn to_static(m: &Message<'_>) -> Message<'static> {
    // Re-create through the canonical token (covers every variant, owned data).
    parse_msg(&show_msg(m)).expect("canonical message token")
}

impl SignBus for ScriptBus {
    fn process_message<'a>(&mut self, message: Message<'_>) -> Result<Option<Message<'a>>, Box<dyn Error + Send + Sync>> {
        self.trace.push(show_msg(&message));
        self.msgs.push(to_static(&message));
        let mut tok = self.script.pop_front();
        while let Some(ReplyTok::Slow(inner)) = tok {
            std::thread::sleep(std::time::Duration::from_millis(1050));
            tok = Some(*inner);
        }
        match tok {
            None => {
                self.starved = true;
                Err("script exhausted".into())
            }
            Some(ReplyTok::Bus) => {
                let e = scripted_bus_error();
                self.last_err = Some(format!("{:?}", e));
                Err(e)
            }
            Some(ReplyTok::Panic) => panic!("scripted bus panic"),
            Some(ReplyTok::Echo) => Ok(Some(to_static(&message))),
            Some(ReplyTok::Ok(None)) => Ok(None),
            Some(ReplyTok::Ok(Some(m))) => Ok(Some(m)),
            Some(ReplyTok::Slow(_)) => unreachable!(),
        }
    }
}

/// Build `Page`s from raw item bytes (any multiple of 16 that is at least 16 bytes long).
pub fn pages_of(t: SignType, items: &[Vec<u8>]) -> Option<Vec<Page<'static>>> {
    let (w, h) = t.dimensions();
    items
        .iter()
        .map(|it| {
            if let Ok(p) = Page::from_bytes(w, h, it.clone()) {
                return Some(p);
            }
            if it.len() < 16 || it.len() % 16 != 0 {
                return None;
            }
            Page::from_bytes((it.len() - 4) as u32, 8, it.clone()).ok()
        })
        .collect()
}

pub fn run_op(sign: &Sign, op: &str, t: SignType, items: &[Vec<u8>]) -> Option<Result<String, SignError>> {
    Some(match op {
        "cfg" => sign.configure().map(|_| "ok".to_string()),
        "cfn" => sign.configure_if_needed().map(|_| "ok".to_string()),
        "snd" => {
            let pages = pages_of(t, items)?;
            sign.send_pages(&pages).map(|s| match s {
                PageFlipStyle::Automatic => "ok:auto".to_string(),
                PageFlipStyle::Manual => "ok:manual".to_string(),
            })
        }
        "shw" => sign.show_loaded_page().map(|_| "ok".to_string()),
        "nxt" => sign.load_next_page().map(|_| "ok".to_string()),
        "off" => sign.shut_down().map(|_| "ok".to_string()),
        _ => return None,
    })
}

pub struct CtrlRun {
    pub trace: Vec<String>,
    pub msgs: Vec<Message<'static>>,
    pub outcome: String,
    pub consumed: usize,
}

pub fn ctrl_run(op: &str, t: SignType, a: u16, items: &[Vec<u8>], script: &[ReplyTok]) -> Option<CtrlRun> {
    let bus = Rc::new(RefCell::new(ScriptBus {
        last_err: None,
        script: script.iter().cloned().collect(),
        trace: vec![],
        msgs: vec![],
        starved: false,
    }));
    let sign = Sign::new(bus.clone(), Address(a), t);
    let r = guarded(|| run_op(&sign, op, t, items));
    let outcome = match r {
        None => "PANIC".to_string(),
        Some(None) => return None,
        Some(Some(Ok(s))) => s,
        Some(Some(Err(SignError::Bus { source }))) => {
            // The RefCell may still be borrowed if a panic happened; here it did not.
            if bus.borrow().starved {
                "starved".to_string()
            } else if bus.borrow().last_err.as_deref().map(|e| e != format!("{:?}", source)).unwrap_or(false) {
                // "the propagated bus error": the error the bus returned, not a part or a re-wrapping of it
                "bus-error-altered".to_string()
            } else {
                "bus".to_string()
            }
        }
        Some(Some(Err(SignError::UnexpectedResponse { .. }))) => "proto".to_string(),
        Some(Some(Err(_))) => "err-other".to_string(),
    };
    drop(sign);
    let bus = match Rc::try_unwrap(bus) {
        Ok(b) => b.into_inner(),
        Err(_) => return None,
    };
    let consumed = script.len() - bus.script.len();
    Some(CtrlRun {
        trace: bus.trace,
        msgs: bus.msgs,
        outcome,
        consumed,
    })
}

fn page_ops(mut p: Page<'static>, ops: &[&str]) -> String {
    let mut out: Vec<String> = vec![];
    for op in ops {
        let t: Vec<&str> = op.split(',').collect();
        match t.as_slice() {
            ["g", x, y] => {
                let (x, y) = match (x.parse::<u32>(), y.parse::<u32>()) {
                    (Ok(x), Ok(y)) => (x, y),
                    _ => return "bad-op".into(),
                };
                match guarded(|| p.get_pixel(x, y)) {
                    Some(b) => out.push(if b { "1".into() } else { "0".into() }),
                    None => {
                        out.push("PANIC".into());
                        return out.join(" ");
                    }
                }
            }
            ["s", x, y, v] => {
                let (x, y) = match (x.parse::<u32>(), y.parse::<u32>()) {
                    (Ok(x), Ok(y)) => (x, y),
                    _ => return "bad-op".into(),
                };
                match guarded(|| p.set_pixel(x, y, *v == "1")) {
                    Some(()) => out.push(".".into()),
                    None => {
                        out.push("PANIC".into());
                        return out.join(" ");
                    }
                }
            }
            ["a", v] => match guarded(|| p.set_all_pixels(*v == "1")) {
                Some(()) => out.push(".".into()),
                None => {
                    out.push("PANIC".into());
                    return out.join(" ");
                }
            },
            ["i"] => match guarded(|| p.id()) {
                Some(PageId(b)) => out.push(format!("{:02X}", b)),
                None => {
                    out.push("PANIC".into());
                    return out.join(" ");
                }
            },
            ["b"] => out.push(to_hex(p.as_bytes())),
            // `Display for Page`: the printed picture, with blanks and newlines made visible
            ["d"] => match guarded(|| format!("{}", p)) {
                Some(s) => out.push(s.replace(' ', ".").replace('\n', "/")),
                None => {
                    out.push("PANIC".into());
                    return out.join(" ");
                }
            },
            _ => return "bad-op".into(),
        }
    }
    out.push(format!("{} {} {}", p.width(), p.height(), to_hex(p.as_bytes())));
    out.join(" ")
}

fn vbus_walk(signs: &[(PageFlipStyle, u16)], pre: &[(usize, Message<'static>)], msgs: &[Option<Message<'static>>]) -> String {
    let mut fresh: Vec<VirtualSign<'static>> = signs.iter().map(|(st, a)| VirtualSign::new(Address(*a), *st)).collect();
    // With exactly one sign, a stand-alone VirtualSign is driven in lock step and must agree.
    let mut solo = if signs.len() == 1 {
        Some(VirtualSign::new(Address(signs[0].1), signs[0].0))
    } else {
        None
    };
    for (i, m) in pre {
        if *i >= fresh.len() {
            return "bad-op".into();
        }
        if guarded(|| fresh[*i].process_message(m)).is_none() {
            return "PANIC".into();
        }
        if let Some(s) = solo.as_mut() {
            let _ = guarded(|| s.process_message(m));
        }
    }
    let mut bus = VirtualSignBus::new(fresh);
    let mut out: Vec<String> = vec![];
    for m in msgs {
        let m = match m {
            Some(m) => m,
            None => {
                let clones: Vec<VirtualSign<'static>> = (0..signs.len()).map(|i| bus.sign(i).clone()).collect();
                bus = VirtualSignBus::new(clones);
                continue;
            }
        };
        let r = guarded(|| bus.process_message(m.clone()));
        let r = match r {
            None => {
                out.push("PANIC".into());
                return out.join(" ");
            }
            Some(Err(_)) => {
                out.push("BUSERR".into());
                return out.join(" ");
            }
            Some(Ok(r)) => r,
        };
        let obs: Vec<String> = (0..signs.len()).map(|i| show_sign(bus.sign(i))).collect();
        let mut tok = format!("{}|{}", show_reply(&r), obs.join(";"));
        if let Some(s) = solo.as_mut() {
            match guarded(|| s.process_message(m)) {
                None => tok.push_str("!solo-panic"),
                Some(r2) => {
                    if show_reply(&r2) != show_reply(&r) || show_sign(s) != obs[0] {
                        tok.push_str("!solo-differs");
                    }
                }
            }
        }
        out.push(tok);
    }
    out.join(" ")
}

fn e2e_direct(signs: &str, rest: &[&str]) -> Option<String> {
    let signs = parse_signs(signs)?;
    let split = rest.iter().position(|t| *t == "|")?;
    let prior: Vec<Message<'static>> = rest[..split].iter().map(|t| parse_msg(t)).collect::<Option<_>>()?;
    let ops = &rest[split + 1..];
    let n = signs.len();
    let bus = VirtualSignBus::new(signs.iter().map(|(st, a)| VirtualSign::new(Address(*a), *st)));
    let bus = Rc::new(RefCell::new(bus));
    for m in prior {
        match guarded(|| bus.borrow_mut().process_message(m)) {
            None => return Some("PANIC".into()),
            Some(_) => {}
        }
    }
    let mut out: Vec<String> = vec![];
    let mut ctrls: Vec<((u16, usize), Sign)> = vec![];
    for o in ops {
        let p: Vec<&str> = o.split(',').collect();
        // `raw,MSG`: traffic on the bus that does not come from any of the controllers of this line (another master,
        // a technician's tool): put on the bus directly between two operations; the controllers are not told
        if p.first() == Some(&"raw") {
            let m = parse_msg(&p[1..].join(","))?;
            match guarded(|| bus.borrow_mut().process_message(m).map(|r| show_reply(&r)).unwrap_or_else(|_| "bus".to_string())) {
                None => return Some("PANIC".into()),
                Some(r) => out.push(format!("raw:{}", r)),
            }
            continue;
        }
        let (op, a, t, items) = match p.as_slice() {
            [op, a, t, items] => (*op, parse_u16(a)?, *TYPES.get(t.parse::<usize>().ok()?)?, parse_items(items)?),
            _ => return None,
        };
        // one controller object per (address, type) for the whole line: whatever a `Sign` remembers between
        // calls is part of what is observed
        let ti = TYPES.iter().position(|x| *x == t)?;
        if !ctrls.iter().any(|(k, _)| *k == (a, ti)) {
            ctrls.push(((a, ti), Sign::new(bus.clone(), Address(a), t)));
        }
        let sign = &ctrls.iter().find(|(k, _)| *k == (a, ti))?.1;
        let r = guarded(|| run_op(sign, op, t, &items));
        out.push(match r {
            None => "PANIC".to_string(),
            Some(None) => return None,
            Some(Some(Ok(s))) => s,
            Some(Some(Err(SignError::Bus { .. }))) => "bus".to_string(),
            Some(Some(Err(SignError::UnexpectedResponse { .. }))) => "proto".to_string(),
            Some(Some(Err(_))) => "err-other".to_string(),
        });
    }
    let b = bus.try_borrow().ok()?;
    let obs: Vec<String> = (0..n).map(|i| show_sign(b.sign(i))).collect();
    Some(format!("{} | {}", out.join(" "), obs.join(";")))
}

pub fn run_case(line: &str) -> String {
    match guarded(|| run_case_inner(line)) {
        Some(Some(s)) => s,
        Some(None) => "bad-op".to_string(),
        None => "PANIC".to_string(),
    }
}

fn run_case_inner(line: &str) -> Option<String> {
    let toks: Vec<&str> = line.trim().split(' ').collect();
    Some(match toks.as_slice() {
        ["data", n] => {
            let n: usize = n.parse().ok()?;
            let v = vec![0u8; n];
            // borrowed first, then the vector itself is moved in: no copy, so a huge zeroed block is never touched
            let borrowed = Data::try_new(&v[..]).map(|_| ()).map_err(|e| show_frame_err(&e));
            let owned = Data::try_new(v).map(|_| ()).map_err(|e| show_frame_err(&e));
            if owned != borrowed {
                "DISAGREE-owned-borrowed".to_string()
            } else {
                match owned {
                    Ok(()) => "ok".to_string(),
                    Err(e) => e,
                }
            }
        }
        [verb @ ("enc" | "encnl"), a, ty, d] => {
            let d = parse_hex(d)?;
            let a = parse_u16(a)?;
            let ty = parse_u8(ty)?;
            let owned = Frame::new(Address(a), MsgType(ty), Data::try_new(d.clone()).ok()?);
            let borrowed = Frame::new(Address(a), MsgType(ty), Data::try_new(&d[..]).ok()?);
            let (x, y) = if *verb == "enc" {
                (owned.to_bytes(), borrowed.to_bytes())
            } else {
                (owned.to_bytes_with_newline(), borrowed.to_bytes_with_newline())
            };
            if x != y || owned != borrowed {
                "DISAGREE-owned-borrowed".to_string()
            } else {
                hex_of(&x)
            }
        }
        // `Display for Frame`: the line a bus monitor prints, as hex of its bytes
        ["fshow", a, ty, d] => {
            let d = parse_hex(d)?;
            let f = Frame::new(Address(parse_u16(a)?), MsgType(parse_u8(ty)?), Data::try_new(d).ok()?);
            match guarded(|| format!("{}", f)) {
                Some(s) => hex_of(s.as_bytes()),
                None => "PANIC".to_string(),
            }
        }
        ["dec", d] => {
            let d = parse_hex(d)?;
            match Frame::from_bytes(&d) {
                Ok(f) => format!("ok {}", show_frame(&f)),
                Err(e) => show_frame_err(&e),
            }
        }
        ["f2m", a, ty, d] => {
            let f = mk_frame(parse_u16(a)?, parse_u8(ty)?, parse_hex(d)?)?;
            show_msg(&Message::from(f))
        }
        ["m2f", m] => show_frame(&Frame::from(parse_msg(m)?)),
        ["pagefromlen", w, h, n] => {
            // Page::from_bytes over an owned zeroed buffer of n bytes (never touched)
            let (w, h, n): (u32, u32, usize) = (w.parse().ok()?, h.parse().ok()?, n.parse().ok()?);
            match Page::from_bytes(w, h, vec![0u8; n]) {
                Ok(_) => "ok".to_string(),
                Err(flipdot_core::PageError::WrongPageLength { width, height, expected, actual }) => format!("err wronglen {} {} {} {}", width, height, expected, actual),
                #[allow(unreachable_patterns)]
                Err(_) => "err other".to_string(),
            }
        }
        ["typefromlen", n, known] => {
            // SignType::from_bytes on n zero bytes that start with a supported (known = 1) or unsupported header
            let n: usize = n.parse().ok()?;
            let mut v = vec![0u8; n];
            if *known == "1" && n >= 2 {
                let t = TYPES[n % TYPES.len()].to_bytes();
                v[0] = t[0];
                v[1] = t[1];
            } else if n >= 2 {
                v[0] = 0x33;
                v[1] = 0x44;
            }
            match SignType::from_bytes(&v) {
                Ok(t) => format!("ok {}", type_idx(t)),
                Err(SignTypeError::WrongConfigLength { expected, actual }) => format!("err wronglen {} {}", expected, actual),
                Err(SignTypeError::UnknownConfig { .. }) => "err unknown".to_string(),
                #[allow(unreachable_patterns)]
                Err(_) => "err other".to_string(),
            }
        }
        ["soak", "enc", count] => {
            // encode a maximum-size frame `count` times on this thread (nothing is kept), then round-trip once more:
            // tallies kept per thread or per process by the codec must not give out after gigabytes of traffic
            let count: u64 = count.parse().ok()?;
            let f = Frame::new(Address(0x0102), MsgType(0), Data::try_new((0..255u32).map(|i| i as u8).collect::<Vec<u8>>()).ok()?);
            let r = guarded(|| {
                let mut total = 0u64;
                for _ in 0..count {
                    total += f.to_bytes().len() as u64;
                }
                let back = Frame::from_bytes(&f.to_bytes_with_newline());
                (total, back.map(|b| b == f).unwrap_or(false))
            });
            match r {
                None => "PANIC".to_string(),
                Some((total, true)) => format!("ok {}", total),
                Some((total, false)) => format!("BROKEN after {} bytes", total),
            }
        }
        ["datagrow", way] => {
            // can a validated 255-byte block be grown afterwards through some mutable access the library offers?
            let d: Data<'static> = Data::try_new(vec![0u8; 255]).ok()?;
            #[allow(unused_imports)]
            use crate::implside::NoGrow;
            let r = guarded(|| match *way {
                "deref-cow" => <GrowProbe<Data<'static>>>::via_deref_cow(d),
                "deref-vec" => <GrowProbe<Data<'static>>>::via_deref_vec(d),
                "as-mut-vec" => <GrowProbe<Data<'static>>>::via_as_mut_vec(d),
                "extend" => <GrowProbe<Data<'static>>>::via_extend(d),
                _ => None,
            });
            match r {
                None | Some(None) => "fits".to_string(),
                Some(Some(d2)) => {
                    let wire = Frame::new(Address(1), MsgType(0), d2).to_bytes();
                    // 255 data bytes encode to 1 + 2 * (255 + 5) characters; anything longer carries more
                    if wire.len() <= 1 + 2 * (255 + 5) {
                        "fits".to_string()
                    } else {
                        format!("VIOLATES {} wire characters, length field {}", wire.len(), String::from_utf8_lossy(&wire[1..3]))
                    }
                }
            }
        }
        ["datafrom", n] => {
            // does a conversion `Data::from(&'static [u8; N])` exist for this N, and if so is what it builds a legal
            // data block (at most 255 bytes, encoded with the right length)?  Sizes 0..=4 exist on the pinned tree.
            let n: usize = n.parse().ok()?;
            let r = guarded(|| match n {
                0 => probe_data_from!(0),
                1 => probe_data_from!(1),
                4 => probe_data_from!(4),
                5 => probe_data_from!(5),
                16 => probe_data_from!(16),
                255 => probe_data_from!(255),
                256 => probe_data_from!(256),
                _ => None,
            });
            match r {
                // a conversion that refuses (panics) builds no block at all
                None => "fits".to_string(),
                Some(None) => "fits".to_string(),
                Some(Some(wire)) => {
                    let ok = n <= 255 && wire == crate::gens::indep_enc(1, 0, &vec![0u8; n]);
                    if ok {
                        "fits".to_string()
                    } else {
                        format!("VIOLATES {} {}", n, String::from_utf8_lossy(&wire[..wire.len().min(12)]))
                    }
                }
            }
        }
        ["bigpageeq", w, h] => {
            // two pages of this (giant) size over separate zeroed buffers: equal, equal hashes; after one pixel is set
            // in one of them: different
            let (w, h): (u32, u32) = (w.parse().ok()?, h.parse().ok()?);
            let r = guarded(|| {
                use std::hash::{Hash, Hasher};
                let bpc = (h as u128 + 7) / 8;
                let total = ((4 + w as u128 * bpc + 15) / 16 * 16) as usize;
                let p = Page::from_bytes(w, h, vec![0u8; total]).expect("exact length");
                let mut q = Page::from_bytes(w, h, vec![0u8; total]).expect("exact length");
                let eq1 = p == q;
                let hash = |x: &Page<'_>| {
                    let mut hs = std::collections::hash_map::DefaultHasher::new();
                    x.hash(&mut hs);
                    hs.finish()
                };
                let heq = hash(&p) == hash(&q);
                q.set_pixel(w - 1, h - 1, true);
                let eq2 = p == q;
                format!("eq={} hash-eq={} after-set-eq={}", eq1 as u8, heq as u8, eq2 as u8)
            });
            r.unwrap_or_else(|| "PANIC".into())
        }
        ["bigpage", w, h, x, y] => {
            // a page too large to print (or to hold in the model as a list): set one pixel and report where the
            // page changed among the true position and its likely aliases (positions reduced modulo 2^32 / 2^16,
            // neighbours), plus what get_pixel says afterwards.  The zeroed allocation is never touched elsewhere.
            let (w, h, x, y): (u32, u32, u32, u32) = (w.parse().ok()?, h.parse().ok()?, x.parse().ok()?, y.parse().ok()?);
            let r = guarded(|| {
                // from_bytes over an owned zeroed vector: no copy, no fill — only the pages actually written are touched
                let bpc = (h as u128 + 7) / 8;
                let total = ((4 + w as u128 * bpc + 15) / 16 * 16) as usize;
                let mut p = Page::from_bytes(w, h, vec![0u8; total]).expect("exact length");
                p.set_pixel(x, y, true);
                let rel = x as u128 * bpc + (y / 8) as u128;
                let len = p.as_bytes().len() as u128;
                let mut cands: Vec<u128> = vec![4 + rel, 4 + rel % (1 << 32), (4 + rel) % (1 << 32), 4 + rel % (1 << 16), 4 + (x as u128 * (bpc % (1 << 16)) + (y / 8) as u128), 4 + (x as u128 * (bpc % (1 << 32)) + (y / 8) as u128) % (1 << 32), 4 + (y / 8) as u128, 4 + rel + 1, 4 + rel - rel.min(1)];
                cands.retain(|c| *c >= 4 && *c < len);
                cands.sort();
                cands.dedup();
                let hits: Vec<String> = cands.iter().filter(|c| p.as_bytes()[**c as usize] != 0).map(|c| format!("{}:{:02X}", c, p.as_bytes()[*c as usize])).collect();
                format!("{} g={}", hits.join(","), p.get_pixel(x, y) as u8)
            });
            r.unwrap_or_else(|| "PANIC".into())
        }
        ["page", "new", id, w, h, ops @ ..] => {
            let p = Page::new(PageId(parse_u8(id)?), w.parse().ok()?, h.parse().ok()?);
            // the same page obtained through Clone::clone_from into an existing owned page (a smaller and a larger
            // one) is the same page: run the operations on all three
            let mut via_small = Page::new(PageId(0xEE), 1, 1);
            via_small.clone_from(&p);
            let mut via_large = Page::new(PageId(0xEE), 200, 17);
            via_large.clone_from(&p);
            if via_small != p || via_large != p {
                return Some("DISAGREE-clone-from".to_string());
            }
            let r = page_ops(p, ops);
            if ops.len() <= 64 {
                if page_ops(via_small, ops) != r || page_ops(via_large, ops) != r {
                    return Some("DISAGREE-clone-from".to_string());
                }
            }
            r
        }
        ["page", "from", w, h, d, ops @ ..] => {
            let d = parse_item(d)?;
            let w: u32 = w.parse().ok()?;
            let h: u32 = h.parse().ok()?;
            // Borrowed and owned construction must agree.
            let borrowed = Page::from_bytes(w, h, &d[..]);
            let owned = Page::from_bytes(w, h, d.clone());
            match (owned, borrowed) {
                (Ok(p), Ok(q)) => {
                    // the same bytes viewed at every alignment modulo 8 inside a larger buffer: still the same page
                    let mut misaligned = false;
                    if d.len() <= 4096 {
                        let mut big = vec![0xC3u8; d.len() + 8];
                        for k in 0..8 {
                            big[k..k + d.len()].copy_from_slice(&d);
                            match Page::from_bytes(w, h, &big[k..k + d.len()]) {
                                Ok(v) if v == p && p == v => {}
                                _ => misaligned = true,
                            }
                        }
                    }
                    if misaligned {
                        "DISAGREE-equality-depends-on-alignment".to_string()
                    } else if p != q {
                        "DISAGREE-owned-borrowed".to_string()
                    } else {
                        // Run the ops on the borrowed page (copy-on-write path) made 'static by leaking
                        // a copy of the input; compare with the owned page.
                        let leaked: &'static [u8] = Box::leak(d.clone().into_boxed_slice());
                        let q2 = Page::from_bytes(w, h, leaked).ok()?;
                        let r1 = page_ops(p, ops);
                        let r2 = page_ops(q2, ops);
                        if r1 != r2 {
                            "DISAGREE-owned-borrowed".to_string()
                        } else {
                            r1
                        }
                    }
                }
                (Err(flipdot_core::PageError::WrongPageLength { width, height, expected, actual }), Err(_)) => {
                    format!("err wronglen {} {} {} {}", width, height, expected, actual)
                }
                _ => "DISAGREE-owned-borrowed".to_string(),
            }
        }
        ["type", "tobytes", t] => to_hex(TYPES.get(t.parse::<usize>().ok()?)?.to_bytes()),
        ["type", "dims", t] => {
            let (w, h) = TYPES.get(t.parse::<usize>().ok()?)?.dimensions();
            format!("{} {}", w, h)
        }
        ["type", "frombytes", d] => {
            let d = parse_hex(d)?;
            match guarded(|| SignType::from_bytes(&d)) {
                None => "PANIC".to_string(),
                Some(Ok(t)) => format!("ok {}", type_idx(t)),
                Some(Err(SignTypeError::WrongConfigLength { expected, actual })) => format!("err wronglen {} {}", expected, actual),
                Some(Err(SignTypeError::UnknownConfig { .. })) => "err unknown".to_string(),
                Some(Err(_)) => "err other".to_string(),
            }
        }
        ["vbus", signs, msgs @ ..] => {
            let signs = parse_signs(signs)?;
            // `@i:MSG` tokens (first): sign i is driven directly with MSG before the bus is built from the signs;
            // `#rebuild` anywhere: a new bus is built from clones of the current signs (bus-level state is lost)
            let npre = msgs.iter().take_while(|t| t.starts_with('@')).count();
            let mut pre: Vec<(usize, Message<'static>)> = vec![];
            for t in &msgs[..npre] {
                let (i, m) = t[1..].split_once(':')?;
                pre.push((i.parse().ok()?, parse_msg(m)?));
            }
            let steps: Vec<Option<Message<'static>>> = msgs[npre..].iter().map(|t| if *t == "#rebuild" { Some(None) } else { parse_msg(t).map(Some) }).collect::<Option<_>>()?;
            vbus_walk(&signs, &pre, &steps)
        }
        ["ctrl", op, t, a, items, "|", replies @ ..] => {
            let script: Vec<ReplyTok> = replies.iter().map(|t| parse_reply(t)).collect::<Option<_>>()?;
            let t = *TYPES.get(t.parse::<usize>().ok()?)?;
            let r = ctrl_run(op, t, parse_u16(a)?, &parse_items(items)?, &script)?;
            format!("{} => {}", show_trace(&r.trace), r.outcome)
        }
        ["ctrl2", op1, op2, t, a, items, "|", replies @ ..] => {
            // two operations on ONE controller object over one scripted bus
            let script: Vec<ReplyTok> = replies.iter().map(|t| parse_reply(t)).collect::<Option<_>>()?;
            let t = *TYPES.get(t.parse::<usize>().ok()?)?;
            let items = parse_items(items)?;
            let bus = Rc::new(RefCell::new(ScriptBus {
                last_err: None,
                script: script.iter().cloned().collect(),
                trace: vec![],
                msgs: vec![],
                starved: false,
            }));
            let sign = Sign::new(bus.clone(), Address(parse_u16(a)?), t);
            let mut parts: Vec<String> = vec![];
            for op in [op1, op2] {
                let before = bus.try_borrow().ok()?.trace.len();
                bus.try_borrow_mut().ok()?.starved = false;
                let r = guarded(|| run_op(&sign, op, t, &items));
                let outcome = match r {
                    None => "PANIC".to_string(),
                    Some(None) => return None,
                    Some(Some(Ok(s))) => s,
                    Some(Some(Err(SignError::Bus { .. }))) => {
                        if bus.try_borrow().ok()?.starved {
                            "starved".to_string()
                        } else {
                            "bus".to_string()
                        }
                    }
                    Some(Some(Err(SignError::UnexpectedResponse { .. }))) => "proto".to_string(),
                    Some(Some(Err(_))) => "err-other".to_string(),
                };
                let tr: Vec<String> = bus.try_borrow().ok()?.trace[before..].to_vec();
                parts.push(format!("{} => {}", show_trace(&tr), outcome));
            }
            parts.join(" ;; ")
        }
        ["e2e", "direct", signs, rest @ ..] => e2e_direct(signs, rest)?,
        ["e2e", "serial", signs, rest @ ..] => crate::iomock::e2e_serial(signs, rest)?,
        ["io", "reads", n, evs @ ..] => crate::iomock::io_reads(n.parse().ok()?, crate::iomock::parse_revs(evs)?),
        ["io", "write", a, ty, d, "|", evs @ ..] => {
            let f = mk_frame(parse_u16(a)?, parse_u8(ty)?, parse_hex(d)?)?;
            crate::iomock::io_write(&f, crate::iomock::parse_wevs(evs)?)
        }
        ["serialmtc", rest @ ..] => {
            let g: Vec<&[&str]> = rest.split(|t| *t == "|").collect();
            if g.len() != 3 {
                return None;
            }
            let msgs: Vec<Message<'static>> = g[0].iter().map(|t| parse_msg(t)).collect::<Option<_>>()?;
            crate::iomock::serial_multi_case_churn(&msgs, crate::iomock::parse_revs(g[1])?, crate::iomock::parse_wevs(g[2])?)?
        }
        ["serialmtu", rest @ ..] => {
            let g: Vec<&[&str]> = rest.split(|t| *t == "|").collect();
            if g.len() != 3 {
                return None;
            }
            let msgs: Vec<Message<'static>> = g[0].iter().map(|t| parse_msg(t)).collect::<Option<_>>()?;
            crate::iomock::serial_multi_case_unwinding(&msgs, crate::iomock::parse_revs(g[1])?, crate::iomock::parse_wevs(g[2])?)?
        }
        ["serialmte", wms, rms, rest @ ..] => {
            // timed multi-exchange run on a port that is a little slow ALL the time: every write call blocks wms ms,
            // every read call that starts a line rms ms
            let g: Vec<&[&str]> = rest.split(|t| *t == "|").collect();
            if g.len() != 3 {
                return None;
            }
            let msgs: Vec<Message<'static>> = g[0].iter().map(|t| parse_msg(t)).collect::<Option<_>>()?;
            crate::iomock::PORT_LATENCY.with(|c| c.set((wms.parse().unwrap_or(0), rms.parse().unwrap_or(0))));
            crate::iomock::PORT_LATENCY_EVERY.with(|c| c.set(true));
            let r = crate::iomock::serial_multi_case(true, &msgs, crate::iomock::parse_revs(g[1])?, crate::iomock::parse_wevs(g[2])?);
            crate::iomock::PORT_LATENCY_EVERY.with(|c| c.set(false));
            crate::iomock::PORT_LATENCY.with(|c| c.set((0, 0)));
            r?
        }
        ["serialmts", wms, rms, rest @ ..] => {
            // timed multi-exchange run on a slow port (first write call blocks wms ms, first read call rms ms)
            let g: Vec<&[&str]> = rest.split(|t| *t == "|").collect();
            if g.len() != 3 {
                return None;
            }
            let msgs: Vec<Message<'static>> = g[0].iter().map(|t| parse_msg(t)).collect::<Option<_>>()?;
            crate::iomock::PORT_LATENCY.with(|c| c.set((wms.parse().unwrap_or(0), rms.parse().unwrap_or(0))));
            let r = crate::iomock::serial_multi_case(true, &msgs, crate::iomock::parse_revs(g[1])?, crate::iomock::parse_wevs(g[2])?);
            crate::iomock::PORT_LATENCY.with(|c| c.set((0, 0)));
            r?
        }
        [verb @ ("serialm" | "serialmt"), rest @ ..] => {
            // several messages on one bus object: serialm M1 M2 .. | read events | write events
            let g: Vec<&[&str]> = rest.split(|t| *t == "|").collect();
            if g.len() != 3 {
                return None;
            }
            let msgs: Vec<Message<'static>> = g[0].iter().map(|t| parse_msg(t)).collect::<Option<_>>()?;
            let r = crate::iomock::serial_multi_case(*verb == "serialmt", &msgs, crate::iomock::parse_revs(g[1])?, crate::iomock::parse_wevs(g[2])?)?;
            // with a failing flush() what an exchange returns is the implementation's choice (it may or may not call
            // flush, and may report its failure): such runs are compared on the port events and their pacing only
            if g[2].contains(&"F") {
                format!("{} [flush-fails]", r)
            } else {
                r
            }
        }
        ["serialts", wms, rms, m, "|", rest @ ..] => {
            // timed exchange on a slow port: the first write call blocks wms ms, the first read call rms ms
            let g: Vec<&[&str]> = rest.split(|t| *t == "|").collect();
            if g.len() != 2 {
                return None;
            }
            crate::iomock::PORT_LATENCY.with(|c| c.set((wms.parse().unwrap_or(0), rms.parse().unwrap_or(0))));
            let r = crate::iomock::serial_case(true, &parse_msg(m)?, crate::iomock::parse_revs(g[0])?, crate::iomock::parse_wevs(g[1])?);
            crate::iomock::PORT_LATENCY.with(|c| c.set((0, 0)));
            r?
        }
        [verb @ ("serial" | "serialt"), m, "|", rest @ ..] => {
            let g: Vec<&[&str]> = rest.split(|t| *t == "|").collect();
            if g.len() != 2 {
                return None;
            }
            crate::iomock::serial_case(*verb == "serialt", &parse_msg(m)?, crate::iomock::parse_revs(g[0])?, crate::iomock::parse_wevs(g[1])?)?
        }
        ["odk", n, signs, rest @ ..] => {
            let g: Vec<&[&str]> = rest.split(|t| *t == "|").collect();
            if g.len() != 3 {
                return None;
            }
            crate::iomock::odk_case(n.parse().ok()?, signs, g[0], crate::iomock::parse_revs(g[1])?, crate::iomock::parse_wevs(g[2])?)?
        }
        ["portctor", which] => crate::iomock::port_ctor_case(which)?,
        ["port", kind, prior, fail] => crate::iomock::port_case(kind, crate::iomock::parse_settings(prior)?, crate::iomock::parse_fail(fail)?)?,
        _ => return None,
    })
}
