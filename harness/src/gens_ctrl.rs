//! Controller (Sign) generators and oracles: C08–C11.
#![allow(dead_code)]

use flipdot_core::{Address, ChunkCount, Message, Offset, Operation, Page, PageFlipStyle, PageId, SignType, State};

use super::vsign::{sd, tiny_cfg};
use crate::implside::{ctrl_run, parse_reply, CtrlRun, ReplyTok};
use crate::util::*;
use crate::Out;

/// The reply alphabet of C10 for a controller at address `a`.
pub fn alphabet(a: u16) -> Vec<String> {
    let f = a ^ 1;
    let mut v = vec![];
    for ad in [a, f] {
        for s in 0..13 {
            v.push(format!("RS,{:04X},{}", ad, s));
        }
        for o in 0..6 {
            v.push(format!("AK,{:04X},{}", ad, o));
        }
    }
    v.push("none".into());
    v.push(format!("GB,{:04X}", a));
    v.push(format!("HE,{:04X}", a));
    v.push(format!("UN,{:04X},07,-", a));
    v.push("SD,0000,00".into());
    v.push("CS,0001".into());
    v.push(format!("RS,{:04X},2", a ^ 0x8000));
    v.push("bus".into());
    v.push("echo".into());
    v
}

fn items_tok(items: &[Vec<u8>]) -> String {
    if items.is_empty() {
        "-".into()
    } else {
        items.iter().map(|i| format!("h:{}", to_hex(i))).collect::<Vec<_>>().join(";")
    }
}

pub struct Conv {
    /// the script as written in the case line (may carry `~` slow-reply marks)
    pub line_script: Vec<String>,
    pub op: String,
    pub t: usize,
    pub a: u16,
    pub items: Vec<Vec<u8>>,
    pub items_tok: String,
    pub script: Vec<String>,
    pub run: CtrlRun,
}

fn run_conv(op: &str, t: usize, a: u16, items: &[Vec<u8>], itok: &str, script: &[String]) -> Conv {
    let toks: Vec<ReplyTok> = script.iter().map(|s| parse_reply(s).expect("reply token")).collect();
    let run = ctrl_run(op, TYPES[t], a, items, &toks).expect("ctrl_run");
    Conv {
        line_script: script.to_vec(),
        op: op.into(),
        t,
        a,
        items: items.to_vec(),
        items_tok: itok.into(),
        // what the oracles read: the replies themselves (how long one took is not part of the protocol; an echo is
        // the message that was sent at that point)
        script: script
            .iter()
            .enumerate()
            .map(|(i, s)| {
                let s = s.trim_start_matches('~');
                if s == "echo" {
                    run.trace.get(i).cloned().unwrap_or_else(|| "none".to_string())
                } else {
                    s.to_string()
                }
            })
            .collect(),
        run,
    }
}

fn conv_line(c: &Conv) -> String {
    format!("ctrl {} {} {:04X} {} | {}", c.op, c.t, c.a, c.items_tok, c.line_script.join(" ")).trim_end().to_string()
}

// ---------------------------------------------------------------------------------------------
// The documented protocol as an explicit state machine (reference for C10).

fn rs(a: u16, s: State) -> String {
    format!("RS,{:04X},{}", a, state_idx(s))
}
fn ro(a: u16, o: Operation) -> String {
    format!("RO,{:04X},{}", a, op_idx(o))
}
fn ak(a: u16, o: Operation) -> String {
    format!("AK,{:04X},{}", a, op_idx(o))
}

struct Ref<'s> {
    script: &'s [String],
    pos: usize,
    trace: Vec<String>,
}
enum Stop {
    Proto,
    Bus,
    Starved,
}
impl<'s> Ref<'s> {
    fn ask(&mut self, m: String) -> Result<String, Stop> {
        self.trace.push(m);
        if self.pos >= self.script.len() {
            return Err(Stop::Starved);
        }
        let r = self.script[self.pos].clone();
        self.pos += 1;
        if r == "bus" {
            return Err(Stop::Bus);
        }
        Ok(r)
    }
    fn expect(&mut self, m: String, want: &str) -> Result<(), Stop> {
        let r = self.ask(m)?;
        if r == want {
            Ok(())
        } else {
            Err(Stop::Proto)
        }
    }
    fn transfer(&mut self, a: u16, items: &[Vec<u8>], op: Operation, succ: State, fail: State) -> Result<(), Stop> {
        for attempt in 1..=3 {
            self.expect(ro(a, op), &ak(a, op))?;
            let mut n: u32 = 0;
            for it in items {
                let mut off = 0usize;
                while off < it.len() {
                    let end = (off + 16).min(it.len());
                    self.expect(format!("SD,{:04X},{}", off % 65536, to_hex(&it[off..end])), "none")?;
                    n += 1;
                    off = end;
                }
            }
            self.expect(format!("CS,{:04X}", n % 65536), "none")?;
            let r = self.ask(format!("QS,{:04X}", a))?;
            if r == rs(a, succ) {
                return Ok(());
            }
            if r == rs(a, fail) && attempt < 3 {
                continue;
            }
            return Err(Stop::Proto);
        }
        Err(Stop::Proto)
    }
    fn configure(&mut self, a: u16, t: SignType) -> Result<(), Stop> {
        let r = self.ask(format!("HE,{:04X}", a))?;
        let finish = |me: &mut Ref<'s>| -> Result<(), Stop> {
            me.expect(ro(a, Operation::FinishReset), &ak(a, Operation::FinishReset))?;
            me.expect(format!("HE,{:04X}", a), &rs(a, State::Unconfigured))
        };
        if r == rs(a, State::Unconfigured) {
        } else if r == rs(a, State::ReadyToReset) {
            finish(self)?;
        } else {
            self.expect(ro(a, Operation::StartReset), &ak(a, Operation::StartReset))?;
            self.expect(format!("HE,{:04X}", a), &rs(a, State::ReadyToReset))?;
            finish(self)?;
        }
        self.transfer(a, &[t.to_bytes().to_vec()], Operation::ReceiveConfig, State::ConfigReceived, State::ConfigFailed)
    }
    fn switch(&mut self, a: u16, target: State, trigger: State, op: Operation) -> Result<(), Stop> {
        loop {
            let r = self.ask(format!("QS,{:04X}", a))?;
            if r == rs(a, State::ShowingPages) || r == rs(a, target) {
                return Ok(());
            } else if r == rs(a, trigger) {
                self.expect(ro(a, op), &ak(a, op))?;
            } else if r == rs(a, State::PageLoadInProgress) || r == rs(a, State::PageShowInProgress) {
            } else {
                return Err(Stop::Proto);
            }
        }
    }
}

/// What the documented protocol prescribes for `op` against `script`: (trace, outcome).
pub fn proto_ref(op: &str, t: SignType, a: u16, items: &[Vec<u8>], script: &[String]) -> (Vec<String>, String) {
    let mut r = Ref {
        script,
        pos: 0,
        trace: vec![],
    };
    let res: Result<String, Stop> = (|| {
        match op {
            "cfg" => r.configure(a, t).map(|_| "ok".to_string()),
            "cfn" => {
                let x = r.ask(format!("HE,{:04X}", a))?;
                let ready = [State::ConfigReceived, State::ShowingPages, State::PageLoaded, State::PageShowInProgress, State::PageShown, State::PageLoadInProgress];
                if ready.iter().any(|s| x == rs(a, *s)) {
                    Ok("ok".to_string())
                } else {
                    r.configure(a, t).map(|_| "ok".to_string())
                }
            }
            "snd" => {
                r.transfer(a, items, Operation::ReceivePixels, State::PixelsReceived, State::PixelsFailed)?;
                r.expect(format!("PC,{:04X}", a), "none")?;
                let x = r.ask(format!("QS,{:04X}", a))?;
                Ok(if x == rs(a, State::ShowingPages) { "ok:auto".to_string() } else { "ok:manual".to_string() })
            }
            "shw" => r.switch(a, State::PageShown, State::PageLoaded, Operation::ShowLoadedPage).map(|_| "ok".to_string()),
            "nxt" => r.switch(a, State::PageLoaded, State::PageShown, Operation::LoadNextPage).map(|_| "ok".to_string()),
            "off" => r.expect(format!("GB,{:04X}", a), "none").map(|_| "ok".to_string()),
            _ => Ok("bad".to_string()),
        }
    })();
    let outcome = match res {
        Ok(s) => s,
        Err(Stop::Proto) => "proto".into(),
        Err(Stop::Bus) => "bus".into(),
        Err(Stop::Starved) => "starved".into(),
    };
    (r.trace, outcome)
}

// ---------------------------------------------------------------------------------------------
// Oracles on one conversation

/// C10: exactly the prescribed messages and outcome.
fn oracle_c10(c: &Conv) -> Option<String> {
    if c.items.iter().map(|i| i.len()).sum::<usize>() > 60_000 {
        return None; // the u16 counters of the real controller are a recorded domain limit
    }
    let (tr, oc) = proto_ref(&c.op, TYPES[c.t], c.a, &c.items, &c.script);
    if tr != c.run.trace {
        let k = tr.iter().zip(c.run.trace.iter()).position(|(x, y)| x != y).unwrap_or(tr.len().min(c.run.trace.len()));
        return Some(format!(
            "C10 message #{} differs from the documented protocol: sent {:?}, prescribed {:?} (trace lengths {} vs {})",
            k,
            c.run.trace.get(k),
            tr.get(k),
            c.run.trace.len(),
            tr.len()
        ));
    }
    if oc != c.run.outcome {
        return Some(format!("C10 outcome {} but the documented protocol prescribes {}", c.run.outcome, oc));
    }
    None
}

/// C09: transfers complete, ordered, offset, counted.
fn oracle_c09(c: &Conv) -> Option<String> {
    let (rop, items): (Operation, Vec<Vec<u8>>) = match c.op.as_str() {
        "cfg" | "cfn" => (Operation::ReceiveConfig, vec![TYPES[c.t].to_bytes().to_vec()]),
        "snd" => (Operation::ReceivePixels, c.items.clone()),
        _ => return None,
    };
    let a = c.a;
    let msgs = &c.run.msgs;
    let is_req = |m: &Message<'_>| matches!(m, Message::RequestOperation(Address(x), o) if *x == a && *o == rop);
    let mut i = 0;
    // skip the part before the first transfer request
    while i < msgs.len() && !is_req(&msgs[i]) {
        if matches!(msgs[i], Message::SendData(..) | Message::DataChunksSent(_)) {
            return Some("C09 data sent before any receive request".into());
        }
        i += 1;
    }
    let mut expected: Vec<Message<'static>> = vec![];
    let mut nchunks: u64 = 0;
    for it in &items {
        for (k, ch) in it.chunks(16).enumerate() {
            expected.push(sd(((k * 16) % 65536) as u16, ch));
            nchunks += 1;
        }
    }
    if nchunks >= 65536 {
        return None;
    }
    expected.push(Message::DataChunksSent(ChunkCount(nchunks as u16)));
    expected.push(Message::QueryState(Address(a)));
    while i < msgs.len() && is_req(&msgs[i]) {
        // the request must have been acknowledged by the own address before any data follows
        let acked = c.script.get(i).map(|r| *r == ak(a, rop)).unwrap_or(false);
        i += 1;
        let mut k = 0;
        while i < msgs.len() && k < expected.len() {
            if msgs[i] != expected[k] {
                // the segment must be a prefix of the expected attempt
                if is_req(&msgs[i]) || k == expected.len() {
                    break;
                }
                return Some(format!(
                    "C09 attempt message {} is {} but the complete/ordered/offset/counted transfer requires {}",
                    k,
                    show_msg(&msgs[i]),
                    show_msg(&expected[k])
                ));
            }
            if !acked {
                return Some("C09 data or count sent although the receive request was not acknowledged".into());
            }
            i += 1;
            k += 1;
        }
        if i < msgs.len() && k < expected.len() {
            return Some("C09 a transfer attempt stopped early and something else followed".into());
        }
    }
    // after the transfers nothing but PixelsComplete / QueryState may follow
    while i < msgs.len() {
        match &msgs[i] {
            Message::PixelsComplete(_) | Message::QueryState(_) => {}
            m => return Some(format!("C09 unexpected {} after the transfer", show_msg(m))),
        }
        i += 1;
    }
    None
}

/// C11: safety invariants, checked without a reference conversation.
fn oracle_c11(c: &Conv, rerun: bool) -> Option<String> {
    let a = c.a;
    let msgs = &c.run.msgs;
    let (rop, succ, fail) = match c.op.as_str() {
        "cfg" | "cfn" => (Some(Operation::ReceiveConfig), State::ConfigReceived, State::ConfigFailed),
        "snd" => (Some(Operation::ReceivePixels), State::PixelsReceived, State::PixelsFailed),
        _ => (None, State::Unconfigured, State::Unconfigured),
    };
    // own address only
    for m in msgs {
        let ad = match m {
            Message::Hello(Address(x))
            | Message::QueryState(Address(x))
            | Message::RequestOperation(Address(x), _)
            | Message::PixelsComplete(Address(x))
            | Message::Goodbye(Address(x))
            | Message::ReportState(Address(x), _)
            | Message::AckOperation(Address(x), _) => Some(*x),
            _ => None,
        };
        if let Some(x) = ad {
            if x != a {
                return Some(format!("C11 emitted {} which carries address {:04X}, not its own {:04X}", show_msg(m), x, a));
            }
        }
    }
    // the scripted bus reports an exhausted script through the bus-error channel: if more messages
    // were sent than replies existed, the call must have ended with that error
    if msgs.len() > c.script.len() && c.run.outcome != "starved" && c.run.outcome != "PANIC" {
        return Some(format!(
            "C11 the bus failed on message #{} ({}) but the controller returned {} instead of the bus error",
            c.script.len(),
            show_msg(&msgs[c.script.len()]),
            c.run.outcome
        ));
    }
    // fail-stop (local rules) and bus errors
    for (i, m) in msgs.iter().enumerate() {
        let reply = match c.script.get(i) {
            Some(r) => r.clone(),
            None => break,
        };
        let last = i + 1 == msgs.len();
        if reply == "bus" {
            if !last || c.run.outcome != "bus" {
                return Some(format!("C11 bus error on message #{} but the controller went on / returned {}", i, c.run.outcome));
            }
            continue;
        }
        let allowed = match m {
            Message::RequestOperation(_, o) => reply == ak(a, *o),
            Message::SendData(..) | Message::DataChunksSent(_) | Message::PixelsComplete(_) | Message::Goodbye(_) => reply == "none",
            _ => true,
        };
        if !allowed && (!last || c.run.outcome != "proto") {
            return Some(format!("C11 reply {} to {} is not allowed by the protocol but the controller went on / returned {}", reply, show_msg(m), c.run.outcome));
        }
    }
    if let Some(rop) = rop {
        let reqs: Vec<usize> = msgs
            .iter()
            .enumerate()
            .filter(|(_, m)| matches!(m, Message::RequestOperation(_, o) if *o == rop))
            .map(|(i, _)| i)
            .collect();
        if reqs.len() > 3 {
            return Some(format!("C11 {} transfer attempts in one call", reqs.len()));
        }
        for k in 1..reqs.len() {
            // the message before the retry is the QueryState whose reply must be the own 'failed'
            let q = reqs[k] - 1;
            let ok = matches!(msgs[q], Message::QueryState(_)) && c.script.get(q) == Some(&rs(a, fail));
            if !ok {
                return Some(format!("C11 retried although the reply before was {:?}, not the own 'failed' report", c.script.get(q)));
            }
        }
        if c.run.outcome.starts_with("ok") && (c.op == "cfg" || c.op == "snd" || (c.op == "cfn" && !reqs.is_empty())) {
            // the state report that concluded the final attempt
            let lastreq = *reqs.last()?;
            let q = (lastreq..msgs.len()).find(|i| matches!(msgs[*i], Message::QueryState(_)));
            let confirmed = q.and_then(|q| c.script.get(q)).map(|r| *r == rs(a, succ)).unwrap_or(false);
            if !confirmed {
                return Some("C11 success returned although the concluding state report was not the own 'received'".into());
            }
        }
    }
    // a reply carrying another address is never treated as its own: replacing it by an unrelated
    // frame must not change the conversation
    if rerun {
        let mut changed = false;
        let s2: Vec<String> = c
            .script
            .iter()
            .map(|r| {
                let p: Vec<&str> = r.split(',').collect();
                if (p[0] == "RS" || p[0] == "AK") && p.len() >= 2 && parse_u16(p[1]) != Some(a) {
                    changed = true;
                    format!("UN,{:04X},07,-", a)
                } else {
                    r.clone()
                }
            })
            .collect();
        if changed {
            let c2 = run_conv(&c.op, c.t, c.a, &c.items, &c.items_tok, &s2);
            if c2.run.trace != c.run.trace || c2.run.outcome != c.run.outcome {
                return Some("C11 a reply carrying another address influenced the conversation (differs from an unrelated frame in its place)".into());
            }
        }
    }
    None
}

// ---------------------------------------------------------------------------------------------
// Reply-tree enumeration

struct Explore<'o> {
    out: &'o mut Out,
    prop: String,
    max_len: usize,
    budget: usize,
}

impl<'o> Explore<'o> {
    fn visit(&mut self, c: &Conv) {
        let line = conv_line(c);
        let nt = c.run.trace.len() >= 2;
        let i = self.out.case(line, nt);
        self.out.stat(&format!("ctrl.{}.{}", c.op, c.run.outcome));
        if c.run.outcome == "PANIC" {
            self.out.fail(i, format!("{} controller panicked", self.prop));
            return;
        }
        let f = match self.prop.as_str() {
            "C09" => oracle_c09(c),
            "C10" => oracle_c10(c),
            "C11" => oracle_c11(c, true),
            _ => None,
        };
        if let Some(f) = f {
            self.out.fail(i, f);
        }
        // the concrete type of a bus error must not matter: the same script with the error boxed as an I/O
        // error, a frame error (bad checksum, invalid frame, length mismatch) gives the same conversation
        if c.script.iter().any(|s| s == "bus") {
            for kind in 1..crate::implside::BUS_ERR_KINDS {
                crate::implside::BUS_ERR_KIND.with(|k| k.set(kind));
                let c2 = run_conv(&c.op, c.t, c.a, &c.items, &c.items_tok, &c.script);
                crate::implside::BUS_ERR_KIND.with(|k| k.set(0));
                self.out.stat("ctrl.bus-error-kind-rerun");
                if c2.run.trace != c.run.trace || c2.run.outcome != c.run.outcome {
                    self.out.fail(i, format!("{} a bus error of concrete type #{} (1,2 = io::Error, 3 = FrameError::BadChecksum, 4 = InvalidFrame, 5 = FrameDataMismatch, 6 = SignError::UnexpectedResponse, 7 = SignError::Bus) changed the conversation: outcome {} instead of {}, {} messages instead of {}", self.prop, kind, c2.run.outcome, c.run.outcome, c2.run.trace.len(), c.run.trace.len()));
                    break;
                }
            }
        }
    }

    /// Breadth-first: extend every script that was consumed entirely with every alphabet symbol.
    /// `recurse(script)` limits which continuing scripts are expanded further.
    fn tree(&mut self, op: &str, t: usize, a: u16, items: &[Vec<u8>], recurse: &dyn Fn(&[String]) -> bool) {
        let alpha = alphabet(a);
        let itok = items_tok(items);
        let mut frontier: Vec<Vec<String>> = vec![vec![]];
        let root = run_conv(op, t, a, items, &itok, &[]);
        self.visit(&root);
        let mut runs = 0usize;
        let mut oks: Vec<Vec<String>> = vec![];
        while let Some(script) = frontier.pop() {
            if script.len() >= self.max_len {
                continue;
            }
            for sym in &alpha {
                if runs >= self.budget {
                    self.out.stat("ctrl.budget-exhausted");
                    return;
                }
                runs += 1;
                let mut s2 = script.clone();
                s2.push(sym.clone());
                let c = run_conv(op, t, a, items, &itok, &s2);
                self.visit(&c);
                if c.run.outcome.starts_with("ok") && oks.len() < 60 && c.run.consumed == s2.len() {
                    oks.push(s2.clone());
                }
                // (a run that sent more messages than it had replies was starved, whatever it returned)
                if (c.run.outcome == "starved" || c.run.msgs.len() > s2.len()) && recurse(&s2) {
                    frontier.push(s2);
                }
            }
        }
        self.twins(op, t, a, items, &itok, &oks);
        self.odd_replies(op, t, a, items, &itok, &oks);
    }

    /// Replies the protocol does not allow anywhere, chosen to be awkward to *report*: data-carrying messages with
    /// long payloads (128, 255 bytes), with text payloads in which a multi-byte character sits across every offset
    /// from 20 to 34, with control characters and quotes — put in place of each reply of a few successful
    /// conversations.  The controller must answer each with its protocol error (building the error text included).
    fn odd_replies(&mut self, op: &str, t: usize, a: u16, items: &[Vec<u8>], itok: &str, oks: &[Vec<String>]) {
        let mut odd: Vec<String> = vec![];
        for len in [24usize, 25, 127, 128, 129, 200, 255] {
            let d: Vec<u8> = (0..len).map(|i| (i * 5 + 3) as u8).collect();
            odd.push(format!("SD,0000,{}", to_hex(&d)));
            odd.push(format!("UN,{:04X},42,{}", a, to_hex(&d)));
        }
        for shift in 0..15usize {
            let mut text: Vec<u8> = vec![b'a'; 20 + shift];
            for _ in 0..6 {
                text.extend_from_slice("€é".as_bytes());
            }
            text.extend_from_slice(b"tail");
            odd.push(format!("UN,{:04X},09,{}", a, to_hex(&text)));
            odd.push(format!("SD,0010,{}", to_hex(&text)));
        }
        odd.push(format!("UN,{:04X},09,{}", a, to_hex("\"quoted\" {braces} %s \\n 𝄞𝄞𝄞𝄞𝄞𝄞𝄞𝄞𝄞𝄞".as_bytes())));
        for s in oks.iter().take(3) {
            for k in 0..s.len() {
                for (oi, o) in odd.iter().enumerate() {
                    if (k + oi) % 3 != 0 && k + 1 != s.len() {
                        continue; // every odd reply at the last position, a third of them elsewhere
                    }
                    let mut s2 = s[..k].to_vec();
                    s2.push(o.clone());
                    let c = run_conv(op, t, a, items, itok, &s2);
                    self.out.stat("ctrl.awkward-to-report-reply");
                    self.visit(&c);
                }
            }
        }
    }

    /// Every successful conversation found above, with each of the sign's own reports / acknowledgements replaced —
    /// one at a time — by an `Unknown` message wrapping the very frame that report would travel in (what a bus that
    /// does not decode replies hands back): an `Unknown` reply is an unrelated message, whatever bytes it carries.
    fn twins(&mut self, op: &str, t: usize, a: u16, items: &[Vec<u8>], itok: &str, oks: &[Vec<String>]) {
        for s in oks {
            for (k, tok) in s.iter().enumerate() {
                let m = match parse_msg(tok) {
                    Some(m @ (Message::ReportState(..) | Message::AckOperation(..))) => m,
                    _ => continue,
                };
                let (fa, ft, fd) = crate::gens::mk_msg_frame(&m);
                if fa != a {
                    continue;
                }
                let mut s2 = s.clone();
                s2[k] = format!("UN,{:04X},{:02X},{}", fa, ft, to_hex(&fd));
                let c = run_conv(op, t, a, items, itok, &s2);
                self.out.stat("ctrl.undecoded-twin-reply");
                self.visit(&c);
                // … and by the same report / acknowledgement from each address that differs from the controller's in
                // exactly one bit (an equality that packs fields into an integer may lose some of them)
                if oks.iter().position(|x| x == s).map(|p| p < 6).unwrap_or(false) {
                    for bit in 0..16u32 {
                        let mut s3 = s.clone();
                        let p: Vec<&str> = tok.split(',').collect();
                        s3[k] = format!("{},{:04X},{}", p[0], a ^ (1u16 << bit), p[2]);
                        let c = run_conv(op, t, a, items, itok, &s3);
                        self.out.stat("ctrl.reply-from-address-one-bit-off");
                        self.visit(&c);
                    }
                }
            }
        }
    }
}

fn small_page(id: u8, w: u32, h: u32, rng: &mut Rng) -> Vec<u8> {
    let mut p = Page::new(PageId(id), w, h);
    if w > 0 && h > 0 {
        for _ in 0..5 {
            p.set_pixel(rng.below(w as u64) as u32, rng.below(h as u64) as u32, true);
        }
    }
    p.as_bytes().to_vec()
}

fn explore_all(prop: &str, thorough: bool, rng: &mut Rng, out: &mut Out) {
    let addrs: Vec<u16> = if thorough { vec![0, 3, 0x80, 0xFFFF] } else { vec![3, 0xFFFF] };
    let types: Vec<usize> = if thorough { vec![2, 0, 6, 10] } else { vec![2, 10] };
    let budget = if thorough { 600_000 } else { 80_000 };
    let mut ex = Explore {
        out,
        prop: prop.into(),
        max_len: 64,
        budget,
    };
    for &a in &addrs {
        for &t in &types {
            ex.max_len = 64;
            ex.tree("cfg", t, a, &[], &|_| true);
            // configure-if-needed: everything at the first reply; below it the complete tree only for
            // three representative first replies (configure itself is explored completely above)
            let reps = [format!("RS,{:04X},0", a), "none".to_string(), format!("RS,{:04X},2", a ^ 1)];
            ex.tree("cfn", t, a, &[], &|s: &[String]| s.len() >= 2 || reps.contains(&s[0]));
            if !thorough {
                break;
            }
        }
        ex.max_len = 7;
        ex.tree("shw", 2, a, &[], &|_| true);
        ex.tree("nxt", 2, a, &[], &|_| true);
        ex.max_len = 4;
        ex.tree("off", 2, a, &[], &|_| true);
        // send_pages: page lists of 0..3 pages
        ex.max_len = 64;
        let p16 = small_page(1, 12, 8, rng); // 16 bytes: one chunk
        let p96a = small_page(2, 90, 7, rng); // 96 bytes: six chunks
        let p96b = small_page(3, 90, 7, rng);
        let lists: Vec<Vec<Vec<u8>>> = vec![vec![], vec![p16.clone()], vec![p96a.clone(), p96b.clone()], vec![p16.clone(), p96a.clone(), p16.clone()]];
        for (k, l) in lists.iter().enumerate() {
            if !thorough && k == 3 && a != 3 {
                continue;
            }
            ex.tree("snd", 2, a, l, &|_| true);
        }
    }
    // large and odd-sized items: no tree, specific scripts (happy path, failure report then retry,
    // a wrong reply at a few positions)
    let sizes: Vec<usize> = if thorough { vec![336, 4096, 4112, 4816, 65536, 65552] } else { vec![336, 4096, 4112] };
    for sz in sizes {
        let a = 3u16;
        let item = format!("g:{}:{}", sz, rng.below(100));
        let items = parse_items(&item).unwrap();
        let n = (sz + 15) / 16;
        let happy = |fails: usize| -> Vec<String> {
            let mut s = vec![];
            for k in 0..=fails {
                s.push(ak(a, Operation::ReceivePixels));
                for _ in 0..n {
                    s.push("none".into());
                }
                s.push("none".into());
                s.push(if k < fails { rs(a, State::PixelsFailed) } else { rs(a, State::PixelsReceived) });
            }
            s.push("none".into());
            s.push(rs(a, State::PageLoaded));
            s
        };
        let mut scripts = vec![happy(0), happy(1), happy(2), happy(3)];
        for pos in [1usize, n / 2, n, n + 1] {
            let mut s = happy(0);
            if pos < s.len() {
                s[pos] = format!("RS,{:04X},0", a);
                scripts.push(s);
            }
        }
        for s in scripts {
            let c = run_conv("snd", 2, a, &items, &item, &s);
            ex.visit(&c);
        }
    }
    many_big_pages(&mut ex, rng);
    long_polls(&mut ex);
    if prop != "C09" {
        slow_bus(&mut ex, thorough);
    }
    second_operation(&mut ex, thorough, rng);
}

/// The replies a cooperative (virtual) sign gives to `op`, after `before` has been run on it unrecorded.
fn happy_script(before: &[&str], op: &str, t: usize, a: u16, items: &[Vec<u8>]) -> Vec<String> {
    use flipdot_core::SignBus;
    use flipdot_testing::{VirtualSign, VirtualSignBus};
    struct Rec {
        inner: VirtualSignBus<'static>,
        on: bool,
        replies: Vec<String>,
    }
    impl SignBus for Rec {
        fn process_message<'a>(&mut self, message: Message<'_>) -> Result<Option<Message<'a>>, Box<dyn std::error::Error + Send + Sync>> {
            let r = self.inner.process_message(message)?;
            let r: Option<Message<'static>> = r.map(|m| crate::implside::to_static(&m));
            if self.on {
                self.replies.push(match &r {
                    None => "none".to_string(),
                    Some(m) => show_msg(m),
                });
            }
            Ok(r)
        }
    }
    let bus = std::rc::Rc::new(std::cell::RefCell::new(Rec {
        inner: VirtualSignBus::new(vec![VirtualSign::new(Address(a), PageFlipStyle::Manual)]),
        on: false,
        replies: vec![],
    }));
    let sign = flipdot::Sign::new(bus.clone(), Address(a), TYPES[t]);
    for b in before {
        let _ = crate::implside::run_op(&sign, b, TYPES[t], items);
    }
    bus.borrow_mut().on = true;
    let _ = crate::implside::run_op(&sign, op, TYPES[t], items);
    let r = bus.borrow().replies.clone();
    r
}

/// Two operations on ONE controller object: the first is cut short at every point of its conversation by a bus
/// error, a bus that unwinds, or an unexpected reply; the second then runs on the rest of the script.  A controller
/// keeps nothing between operations, so the second must be exactly what a new controller would do with those replies.
fn second_operation(ex: &mut Explore<'_>, thorough: bool, rng: &mut Rng) {
    let a = 3u16;
    let t = 2usize;
    let (w, h) = TYPES[t].dimensions();
    let items = vec![small_page(1, w, h, rng)];
    let itok = items_tok(&items);
    let pairs: Vec<(&str, Vec<&str>, &str, Vec<&str>)> = vec![
        ("cfg", vec![], "cfg", vec![]),
        ("snd", vec!["cfg"], "snd", vec!["cfg"]),
        ("cfg", vec![], "snd", vec!["cfg"]),
        ("snd", vec!["cfg"], "cfg", vec![]),
        ("snd", vec!["cfg"], "shw", vec!["cfg", "snd"]),
        ("shw", vec!["cfg", "snd"], "snd", vec!["cfg"]),
    ];
    for (op1, before1, op2, before2) in pairs {
        let h1 = happy_script(&before1, op1, t, a, &items);
        let h2 = happy_script(&before2, op2, t, a, &items);
        for k in 0..=h1.len() {
            if !thorough && h1.len() > 6 && k > 3 && k + 3 < h1.len() && k % 2 == 1 {
                continue;
            }
            let cuts: Vec<&str> = if k == h1.len() { vec![""] } else { vec!["bus", "panic", "UN,0003,07,-"] };
            for cut in cuts {
                let mut s: Vec<String> = h1[..k].to_vec();
                if !cut.is_empty() {
                    s.push(cut.to_string());
                }
                let n1 = s.len();
                s.extend(h2.iter().cloned());
                let line = format!("ctrl2 {} {} {} {:04X} {} | {}", op1, op2, t, a, itok, s.join(" "));
                let i = ex.out.case(line, true);
                ex.out.stat("ctrl.second-operation-on-one-object");
                let got = ex.out.impls[i].clone();
                let parts: Vec<&str> = got.split(" ;; ").collect();
                if parts.len() != 2 {
                    ex.out.fail(i, format!("{} two operations on one controller: run incomplete '{}'", ex.prop, &got[..got.len().min(80)]));
                    continue;
                }
                // the first operation used n1 replies exactly when it was cut at the mark (or ran to its end)
                let used1 = parts[0].split(" => ").next().map(|t| if t.is_empty() { 0 } else if t.starts_with('#') { t[1..].split(':').next().and_then(|n| n.parse().ok()).unwrap_or(0) } else { t.split(' ').count() }).unwrap_or(0);
                let rest: Vec<String> = s[used1.min(s.len())..].to_vec();
                let alone = run_conv(op2, t, a, &items, &itok, &rest);
                let want = format!("{} => {}", crate::implside::show_trace(&alone.run.trace), alone.run.outcome);
                if parts[1] != want {
                    ex.out.fail(i, format!("{} after a first operation ({}) that ended with {} at reply {}, the second ({}) on the SAME controller did '{}' — a new controller does '{}' with the same replies", ex.prop, op1, if cut.is_empty() { "success" } else { cut }, n1, op2, &parts[1][..parts[1].len().min(120)], &want[..want.len().min(120)]));
                }
            }
        }
    }
}

/// A transfer attempt that takes more than a second of wall-clock time (one reply is slow), concluded by each state
/// report: what the controller does with the concluding report must not depend on how long the attempt took.
fn slow_bus(ex: &mut Explore<'_>, thorough: bool) {
    let a = 3u16;
    let p16 = vec![vec![1u8, 0x10, 0, 0, 0x55, 0xAA, 0, 0, 0, 0, 0xFF, 0xFF, 0xFF, 0xFF, 0xFF, 0xFF]];
    for (op, items, ack, own, reset) in [("cfg", vec![], Operation::ReceiveConfig, State::ConfigInProgress, true), ("snd", p16, Operation::ReceivePixels, State::PixelsInProgress, false)] {
        let itok = items_tok(&items);
        for si in 0..13usize {
            let st = STATES[si];
            if !thorough && st != own && st != State::ConfigInProgress && st != State::PageLoadInProgress {
                continue;
            }
            for slow_at in [0usize, 1] {
                if !thorough && slow_at == 1 {
                    continue;
                }
                let mut s: Vec<String> = vec![];
                if reset {
                    s.push(rs(a, State::Unconfigured));
                }
                s.push(ak(a, ack));
                s.push(if slow_at == 0 { "~none".into() } else { "none".into() });
                s.push(if slow_at == 1 { "~none".into() } else { "none".into() });
                s.push(rs(a, st));
                // two more polls in case the controller (wrongly) keeps asking, each answered "received"
                s.push(rs(a, if op == "cfg" { State::ConfigReceived } else { State::PixelsReceived }));
                s.push("none".into());
                s.push(rs(a, State::PageLoaded));
                let c = run_conv(op, 2, a, &items, &itok, &s);
                ex.out.stat("ctrl.slow-bus");
                ex.visit(&c);
            }
        }
    }
}

/// Very long polling phases: a sign that reports "in progress" a great many times and then the target state
/// (or the trigger, or something else) — the controller keeps polling as long as the sign says so.
fn long_polls(ex: &mut Explore<'_>) {
    let a = 3u16;
    for (op, prog, target, trigger, oper) in [
        ("shw", State::PageShowInProgress, State::PageShown, State::PageLoaded, Operation::ShowLoadedPage),
        ("nxt", State::PageLoadInProgress, State::PageLoaded, State::PageShown, Operation::LoadNextPage),
    ] {
        for n in [300usize, 70_000, 100_000, 100_001, 150_000] {
            for tail in 0..3 {
                let mut s: Vec<String> = vec![rs(a, trigger), ak(a, oper)];
                for k in 0..n {
                    s.push(rs(a, if k % 7 == 3 { if prog == State::PageShowInProgress { State::PageLoadInProgress } else { State::PageShowInProgress } } else { prog }));
                }
                match tail {
                    0 => s.push(rs(a, target)),
                    1 => s.push(rs(a, State::Unconfigured)),
                    _ => {
                        if n > 300 {
                            continue;
                        }
                        s.push(rs(a, State::ShowingPages))
                    }
                }
                let c = run_conv(op, 2, a, &[], "-", &s);
                ex.out.stat("ctrl.long-poll");
                ex.visit(&c);
            }
        }
    }
}

/// Many large pages with a retry: a budget or a counter shared between attempts only shows when the chunks of
/// all attempts together pass 65 535 (each attempt stays below the 16-bit limit: 9 x 4096 = 36 864 chunks).
fn many_big_pages(ex: &mut Explore<'_>, rng: &mut Rng) {
    let a = 3u16;
    let npages = 9;
    let item = (0..npages).map(|_| format!("g:65536:{}", rng.below(100))).collect::<Vec<_>>().join(";");
    let items = match parse_items(&item) {
        Some(i) => i,
        None => return,
    };
    let n: usize = npages * 4096;
    let mut s: Vec<String> = vec![];
    for k in 0..2 {
        s.push(ak(a, Operation::ReceivePixels));
        for _ in 0..n {
            s.push("none".into());
        }
        s.push("none".into());
        s.push(if k == 0 { rs(a, State::PixelsFailed) } else { rs(a, State::PixelsReceived) });
    }
    s.push("none".into());
    s.push(rs(a, State::PageLoaded));
    let c = run_conv("snd", 2, a, &items, &item, &s);
    ex.visit(&c);
}

/// Domain limit (outside the property's quantifier, reported in the evidence only, never a verdict):
/// a transfer of 65 537 chunks overflows the controller's 16-bit chunk counter; the model has an
/// explicit panic node there (theorem C09.transfer_overflow_panics); does the real code panic too?
fn overflow_probe(out: &mut Out) {
    let a = 3u16;
    let mut line = format!("ctrl snd 2 {:04X} g:1048592:7 | {}", a, ak(a, Operation::ReceivePixels));
    for _ in 0..65537 {
        line.push_str(" none");
    }
    let r = crate::implside::run_case(&line);
    out.stat(if r.ends_with("=> PANIC") { "domain-limit.65537-chunks.impl-panics" } else { "domain-limit.65537-chunks.impl-does-not-panic" });
}

pub fn c09(thorough: bool, rng: &mut Rng, out: &mut Out) {
    out.rule = "breadth-first enumeration of the reply tree of configure / configure-if-needed / send-pages (a script is extended by every one of the 46 reply symbols whenever the previous run consumed it entirely) for several addresses, sign types and page lists of 0..3 pages (16- and 96-byte pages), plus scripted runs with 336..65552-byte items incl. all retry paths; every recorded message sequence is parsed against the complete / ordered / offset / counted transfer shape; non-trivial = conversations with at least two messages; distinct = distinct case line".into();
    out.exhaustive_note = "the reply tree is enumerated to the natural end of each operation over the finite alphabet (subject to the run budget reported in the distribution); addresses, types and page contents are sampled".into();
    explore_all("C09", thorough, rng, out);
    if thorough {
        overflow_probe(out);
    }
}

pub fn c10(thorough: bool, rng: &mut Rng, out: &mut Out) {
    out.rule = "breadth-first enumeration of the reply tree (46 symbols: 13 states x own/foreign, 6 acks x own/foreign, none, goodbye, hello, unknown frame, SendData, DataChunksSent, far-foreign report, bus error) at every step of configure, configure-if-needed, send-pages, show, load-next (polling depth bounded by script length 7) and shut-down; each conversation is compared with an explicit state-machine port of the documented protocol and with the Lean model; non-trivial = conversations with at least two messages; distinct = distinct case line".into();
    out.exhaustive_note = "exhaustive to the natural end of each operation over the alphabet, for the listed addresses / types / page lists, within the run budget reported in the distribution".into();
    explore_all("C10", thorough, rng, out);
}

pub fn c11(thorough: bool, rng: &mut Rng, out: &mut Out) {
    out.rule = "same reply-tree enumeration as C10; on every conversation the invariants are evaluated directly (success only after the own 'received' report; bus error / disallowed reply ends the conversation with the matching error; at most 3 attempts; retry only after the own 'failed' report; every addressed message carries the own address; replacing foreign-address replies by an unrelated frame changes nothing); non-trivial = conversations with at least two messages; distinct = distinct case line".into();
    out.exhaustive_note = "as C10".into();
    explore_all("C11", thorough, rng, out);
}

// ---------------------------------------------------------------------------------------------
// C08: controller against real virtual signs, from any prior sign state

fn prior_walk(rng: &mut Rng, a: u16, target: SignType) -> Vec<Message<'static>> {
    let mut v = prior_walk_core(rng, a, target);
    // ... and possibly leave that state again the way real traffic can: shut down, start (and maybe
    // finish) a reset, a stray pixels-complete, a poll
    let ad = Address(a);
    match rng.below(10) {
        0 | 1 => v.push(Message::Goodbye(ad)),
        2 => v.push(Message::RequestOperation(ad, Operation::StartReset)),
        3 => {
            v.push(Message::RequestOperation(ad, Operation::StartReset));
            v.push(Message::RequestOperation(ad, Operation::FinishReset));
        }
        4 => v.push(Message::PixelsComplete(ad)),
        5 => v.push(Message::Hello(ad)),
        _ => {}
    }
    v
}

fn prior_walk_core(rng: &mut Rng, a: u16, target: SignType) -> Vec<Message<'static>> {
    // drive the sign at `a` into an arbitrary protocol state (incl. abandoned transfers)
    let mut v: Vec<Message<'static>> = vec![];
    let ad = Address(a);
    let depth = match rng.below(12) {
        9 | 10 | 11 => 5,
        d => d,
    };
    if depth == 0 {
        return v;
    }
    v.push(Message::RequestOperation(ad, Operation::ReceiveConfig));
    if depth == 1 {
        return v;
    }
    // as the same type the controller will ask for (stale data then fits), another type, or a tiny one
    let t = if rng.chance(50) { target } else { *rng.pick(&TYPES) };
    let cfg = if rng.chance(75) { t.to_bytes().to_vec() } else { tiny_cfg(rng.range(1, 20) as u32, rng.range(1, 16) as u32, rng.chance(50)) };
    v.push(sd(0, &cfg));
    if depth == 2 {
        return v;
    }
    v.push(Message::DataChunksSent(ChunkCount(if rng.chance(85) { 1 } else { 2 })));
    if depth == 3 {
        return v;
    }
    v.push(Message::RequestOperation(ad, Operation::ReceivePixels));
    if depth == 4 {
        return v;
    }
    let (w, h) = if cfg[0] == 4 { (cfg[5] as u32 + cfg[6] as u32 + cfg[7] as u32 + cfg[8] as u32, cfg[4] as u32) } else { (cfg[7] as u32, cfg[5] as u32) };
    let page = Page::new(PageId(7), w, h);
    let chunks: Vec<&[u8]> = page.as_bytes().chunks(16).collect();
    let keep = if rng.chance(60) { chunks.len() } else { rng.below(chunks.len() as u64 + 1) as usize };
    for (i, c) in chunks.iter().take(keep).enumerate() {
        v.push(sd((i * 16) as u16, c));
    }
    if depth == 5 {
        return v; // half-finished transfer
    }
    v.push(Message::DataChunksSent(ChunkCount(keep as u16)));
    if depth == 6 {
        return v;
    }
    v.push(Message::PixelsComplete(ad));
    if depth == 7 {
        if rng.chance(50) {
            v.push(Message::RequestOperation(ad, Operation::ShowLoadedPage));
        }
        return v;
    }
    v.push(Message::RequestOperation(ad, Operation::StartReset));
    v
}

pub fn c08(thorough: bool, rng: &mut Rng, out: &mut Out) {
    out.rule = "for all 11 sign types x both flip styles x addresses across the 16-bit range: a prior-state walk (nothing, mid-configuration, configured as another type, abandoned / half-finished pixel transfer, pages loaded / shown, ready-to-reset) leaves the virtual sign in some protocol state; then configure (or configure-if-needed where its contract applies), send 0..3 pages with random pixels, show, load-next, send again, shut down through the real controller on the real virtual bus; each result and the sign's state / type / pages are checked directly and compared with the model's runOn; non-trivial = every case; distinct = distinct case line".into();
    out.exhaustive_note = "types x styles complete; prior states, addresses and page contents sampled".into();
    let reps = if thorough { 400 } else { 12 };
    for rep in 0..reps {
        for (ti, t) in TYPES.iter().enumerate() {
            for style in [PageFlipStyle::Manual, PageFlipStyle::Automatic] {
                let a: u16 = match rng.below(5) {
                    0 => 0,
                    1 => 0xFFFF,
                    2 => rng.range(1, 126) as u16,
                    _ => rng.next() as u16,
                };
                let other: u16 = a ^ 0x0101;
                let two = rng.chance(40);
                // the neighbour may come first in bus order and may itself have been left anywhere by earlier
                // traffic (mid-transfer, say): none of that is the target sign's business
                let other_first = two && rng.chance(50);
                let signs = if two && other_first {
                    format!("M,{:04X};{},{:04X}", other, style_tok(style), a)
                } else if two {
                    format!("{},{:04X};M,{:04X}", style_tok(style), a, other)
                } else {
                    format!("{},{:04X}", style_tok(style), a)
                };
                let mut prior: Vec<Message<'static>> = if two && rng.chance(60) { prior_walk_core(rng, other, *t) } else { vec![] };
                prior.extend(prior_walk(rng, a, *t));
                let (w, h) = t.dimensions();
                let npages = rng.below(4) as usize;
                let mk = |rng: &mut Rng| -> String {
                    if npages == 0 {
                        return "-".into();
                    }
                    (0..npages).map(|k| format!("h:{}", to_hex(&small_page(k as u8 + rng.byte() % 4, w, h, rng)))).collect::<Vec<_>>().join(";")
                };
                let pages1 = mk(rng);
                let pages2 = mk(rng);
                let use_cfn = rep % 3 == 2;
                let mut line = format!("e2e direct {}", signs);
                for m in &prior {
                    line.push(' ');
                    line.push_str(&show_msg(m));
                }
                line.push_str(" |");
                let at = format!("{:04X},{}", a, ti);
                let first = if use_cfn { "cfn" } else { "cfg" };
                line.push_str(&format!(" {},{},- snd,{},{} shw,{},- nxt,{},- shw,{},- snd,{},{} off,{},-", first, at, at, pages1, at, at, at, at, pages2, at));
                // the same controller object kept across traffic it did not cause: after its own successful operations
                // somebody else says goodbye to the sign, resets it, or starts configuring it — what the controller
                // does next (configure-if-needed, send) must go by what the sign reports, not by what it remembers
                if rep == 0 {
                    let foreign: Vec<Vec<String>> = vec![
                        vec![format!("raw,GB,{:04X}", a)],
                        vec![format!("raw,RO,{:04X},4", a), format!("raw,RO,{:04X},5", a)],
                        vec![format!("raw,RO,{:04X},4", a)],
                        vec![format!("raw,RO,{:04X},0", a)],
                        vec![format!("raw,RO,{:04X},1", a)],
                        vec![format!("raw,HE,{:04X}", a)],
                    ];
                    for fr in foreign {
                        let mut l2 = format!("e2e direct {} | cfg,{},- snd,{},{} {} cfn,{},- snd,{},{} shw,{},- {} cfn,{},- cfg,{},- off,{},-",
                            signs, at, at, pages1, fr.join(" "), at, at, pages2, at, fr.join(" "), at, at, at);
                        if pages1 == "-" { l2 = l2.replace(" shw,", " nxt,"); }
                        let i2 = out.case(l2, true);
                        out.stat("e2e.foreign-traffic-between-operations");
                        // direct oracle: whatever the foreign traffic did to the sign, every operation of the
                        // controller still succeeds (configure-if-needed reconfigures a sign that is not ready)
                        let o2 = out.impls[i2].clone();
                        let res2: Vec<&str> = o2.split(" | ").next().unwrap_or("").split(' ').filter(|r| !r.starts_with("raw:")).collect();
                        if res2.len() != 8 || res2.iter().any(|r| !r.starts_with("ok")) {
                            out.fail(i2, format!("C08 with traffic from elsewhere ({}) between its operations the controller's results were {:?}: the sign was not brought back to the requested configuration / the pages did not arrive", fr.join(" "), res2));
                        }
                    }
                }
                let i = out.case(line, true);
                out.stat(&format!("e2e.prior-len.{}", prior.len().min(9)));
                // direct oracle on the implementation's output
                let o = out.impls[i].clone();
                let parts: Vec<&str> = o.split(" | ").collect();
                if parts.len() != 2 {
                    out.fail(i, format!("C08 run did not complete: {}", &o[..o.len().min(80)]));
                    continue;
                }
                let res: Vec<&str> = parts[0].split(' ').collect();
                let want_style = if style == PageFlipStyle::Manual { "ok:manual" } else { "ok:auto" };
                let want = ["ok", want_style, "ok", "ok", "ok", want_style, "ok"];
                // configure-if-needed trusts a sign that reports itself ready: its contract covers prior
                // states that are not ready-to-receive or that record the same type; the direct oracle
                // is applied only to `configure` (the model comparison covers both)
                if !use_cfn && res != want {
                    out.fail(i, format!("C08 controller results {:?}, expected {:?}", res, want));
                }
                // final: after shut_down the sign is blank
                let fin: Vec<&str> = parts[1].split(';').collect();
                let ti_fin = if other_first { 1 } else { 0 };
                if !use_cfn && !fin.get(ti_fin).map(|f| f.starts_with("0/-/0/")).unwrap_or(false) {
                    out.fail(i, format!("C08 after shut_down the sign is {}", fin.get(ti_fin).copied().unwrap_or("?")));
                }
            }
        }
    }
    // step-by-step variant: observe the sign after configure and after send_pages
    let reps2 = if thorough { 200 } else { 6 };
    for _ in 0..reps2 {
        for (ti, t) in TYPES.iter().enumerate() {
            for style in [PageFlipStyle::Manual, PageFlipStyle::Automatic] {
                let a: u16 = rng.next() as u16;
                let prior = prior_walk(rng, a, *t);
                let (w, h) = t.dimensions();
                let npages = rng.below(4) as usize;
                let pages: Vec<Vec<u8>> = (0..npages).map(|k| small_page(k as u8, w, h, rng)).collect();
                let ptok = items_tok(&pages);
                let mut head = format!("e2e direct {},{:04X}", style_tok(style), a);
                for m in &prior {
                    head.push(' ');
                    head.push_str(&show_msg(m));
                }
                head.push_str(" |");
                let at = format!("{:04X},{}", a, ti);
                // after configure: ConfigReceived (2), type ti, no pages
                let i = out.case(format!("{} cfg,{},-", head, at), true);
                if out.impls[i] != format!("ok | 2/{}/0/{}", ti, FNV_INIT) {
                    out.fail(i, format!("C08 after configure from a prior state the sign is '{}'", out.impls[i]));
                }
                // after send_pages: exactly those pages
                let i = out.case(format!("{} cfg,{},- snd,{},{}", head, at, at, ptok), true);
                let mut hsh = FNV_INIT;
                for p in &pages {
                    hsh = fnv_nat(hsh, w as u64);
                    hsh = fnv_nat(hsh, h as u64);
                    hsh = fnv_nat(hsh, p.len() as u64);
                    for b in p {
                        hsh = fnv_byte(hsh, *b);
                    }
                }
                let (st, res) = if style == PageFlipStyle::Manual { (7, "ok:manual") } else { (11, "ok:auto") };
                let want = format!("ok {} | {}/{}/{}/{}", res, st, ti, npages, hsh);
                if out.impls[i] != want {
                    out.fail(i, format!("C08 after send_pages the sign is '{}', expected '{}'", out.impls[i], want));
                }
                // show / load-next
                let i = out.case(format!("{} cfg,{},- snd,{},{} shw,{},-", head, at, at, ptok, at), true);
                let st2 = if style == PageFlipStyle::Manual { 9 } else { 11 };
                if !out.impls[i].contains(&format!("| {}/{}/{}/", st2, ti, npages)) || !out.impls[i].starts_with(&format!("ok {} ok |", res)) {
                    out.fail(i, format!("C08 after show_loaded_page: '{}'", out.impls[i]));
                }
                let i = out.case(format!("{} cfg,{},- snd,{},{} shw,{},- nxt,{},-", head, at, at, ptok, at, at), true);
                let st3 = if style == PageFlipStyle::Manual { 7 } else { 11 };
                if !out.impls[i].contains(&format!("| {}/{}/{}/", st3, ti, npages)) || !out.impls[i].starts_with(&format!("ok {} ok ok |", res)) {
                    out.fail(i, format!("C08 after load_next_page: '{}'", out.impls[i]));
                }
                // the SAME pages sent again by the same controller object after a show (and after show + load-next):
                // a repeated send is a send — the sign must be back in loaded / showing with exactly those pages
                for mid in [format!("shw,{},-", at), format!("shw,{},- nxt,{},- shw,{},-", at, at, at)] {
                    let i = out.case(format!("{} cfg,{},- snd,{},{} {} snd,{},{}", head, at, at, ptok, mid, at, ptok), true);
                    out.stat("e2e.resend-same-pages");
                    let want_tail = format!("{} | {}/{}/{}/{}", res, st, ti, npages, hsh);
                    if !out.impls[i].ends_with(&want_tail) || out.impls[i].contains("err") {
                        out.fail(i, format!("C08 after sending the same pages again the run gave '{}', expected it to end in '{}'", out.impls[i], want_tail));
                    }
                }
            }
        }
    }
    // page lists at the top of the 16-bit chunk count: exactly 65 535 chunks (only reachable with 3- and 15-chunk
    // pages: Dash30x7 x 21 845, Front112x16 x 4 369) and the largest lists just below it for other page sizes
    {
        let mut lists: Vec<(usize, usize)> = vec![];
        for (ti, t) in TYPES.iter().enumerate() {
            let (w, h) = t.dimensions();
            let chunks = small_page(0, w, h, rng).len() / 16;
            let n = 65535 / chunks;
            if 65535 % chunks == 0 {
                lists.push((ti, n));
                lists.push((ti, n - 1));
            } else if thorough {
                lists.push((ti, n));
            }
        }
        for (ti, n) in lists {
            let (w, h) = TYPES[ti].dimensions();
            let sz = small_page(0, w, h, rng).len();
            let a = 0x0042u16;
            let at = format!("{:04X},{}", a, ti);
            let items: Vec<String> = (0..n).map(|k| format!("g:{}:{}", sz, k % 97)).collect();
            let i = out.case(format!("e2e direct M,{:04X} | cfg,{},- snd,{},{} shw,{},-", a, at, at, items.join(";"), at), true);
            out.stat("e2e.list-at-the-16-bit-chunk-limit");
            if !out.impls[i].starts_with("ok ok:manual ok |") || !out.impls[i].contains(&format!("| 9/{}/{}/", ti, n)) {
                let got = out.impls[i].clone();
                out.fail(i, format!("C08 a list of {} pages ({} chunks, within the 16-bit chunk count) did not arrive: '{}'", n, n * sz / 16, &got[..got.len().min(100)]));
            }
        }
    }
    // more pixel transfers to one sign than a 16-bit counter holds, with no reset in between (empty and one-page
    // lists alternating): the last one arrives like the first
    {
        let ti = 5usize;
        let (w, h) = TYPES[ti].dimensions();
        let a = 0x0042u16;
        let at = format!("{:04X},{}", a, ti);
        let pg = format!("h:{}", to_hex(&small_page(1, w, h, rng)));
        let n = if thorough { 70_000 } else { 66_000 };
        let mut line = format!("e2e direct M,{:04X} | cfg,{},-", a, at);
        for k in 0..n {
            line.push_str(&format!(" snd,{},{}", at, if k % 2 == 0 { "-" } else { pg.as_str() }));
        }
        line.push_str(&format!(" snd,{},{}", at, pg));
        let i = out.case(line, true);
        out.stat("e2e.more-transfers-than-16-bits");
        let o = out.impls[i].clone();
        if o.contains("err") || o.contains("PANIC") || !o.contains(&format!("| 7/{}/1/", ti)) {
            out.fail(i, format!("C08 after {} send_pages calls to one sign the last list did not arrive: …{}", n + 1, &o[o.len().saturating_sub(80)..]));
        }
    }
    let _ = Offset(0);
}
