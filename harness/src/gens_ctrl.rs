//! Controller (Sign) generators: C08–C11.
use crate::util::*;
use crate::Out;

pub fn c08(_thorough: bool, _rng: &mut Rng, _out: &mut Out) {}
pub fn c09(_thorough: bool, _rng: &mut Rng, _out: &mut Out) {}
pub fn c10(_thorough: bool, _rng: &mut Rng, _out: &mut Out) {}
pub fn c11(_thorough: bool, _rng: &mut Rng, _out: &mut Out) {}
