//! Case generators + implementation-side oracles, one per property.
#![allow(dead_code)]

use std::collections::HashMap;

use flipdot_core::{Address, ChunkCount, Data, Frame, Message, MsgType, Offset, Page, PageId};

use crate::util::*;
use crate::Out;

#[path = "gens_ctrl.rs"]
pub mod ctrl;
#[path = "gens_io.rs"]
pub mod io;
#[path = "gens_vsign.rs"]
pub mod vsign;

pub const ADDRS: [u16; 10] = [0, 1, 0x7F, 0x80, 0xFF, 0x100, 0x7FFF, 0x8000, 0xFF00, 0xFFFF];

pub fn generate(prop: &str, thorough: bool, seed: u64, out: &mut Out) -> bool {
    let mut rng = Rng::new(seed);
    match prop {
        "C01" => c01(thorough, &mut rng, out),
        "C02" => c02(thorough, &mut rng, out),
        "C03" => c03(thorough, &mut rng, out),
        "C04" => c04(thorough, &mut rng, out),
        "C05" => c05(thorough, &mut rng, out),
        "C06" => c06(thorough, &mut rng, out),
        "C07" => c07(thorough, &mut rng, out),
        "C08" => ctrl::c08(thorough, &mut rng, out),
        "C09" => ctrl::c09(thorough, &mut rng, out),
        "C10" => ctrl::c10(thorough, &mut rng, out),
        "C11" => ctrl::c11(thorough, &mut rng, out),
        "C12" => vsign::c12(thorough, &mut rng, out),
        "C13" => vsign::c13(thorough, &mut rng, out),
        "C14" => vsign::c14(thorough, &mut rng, out),
        "C15" => io::c15(thorough, &mut rng, out),
        "C16" => io::c16(thorough, &mut rng, out),
        "C17" => io::c17(thorough, &mut rng, out),
        "C18" => io::c18(thorough, &mut rng, out),
        "C19" => c19(thorough, &mut rng, out),
        "C20" => io::c20(thorough, &mut rng, out),
        _ => return false,
    }
    true
}

// ---------------------------------------------------------------------------------------------
// frames

pub fn data_pattern(rng: &mut Rng, len: usize, pat: u64) -> Vec<u8> {
    match pat % 4 {
        0 => vec![0x00; len],
        1 => vec![0xFF; len],
        2 => (0..len).map(|i| i as u8).collect(),
        _ => rng.bytes(len),
    }
}

/// Payloads that look like the protocol itself: complete wire lines of other messages (with and without the
/// line terminator, nested once more), bare terminators and start codes, ASCII hex text.  A decoder or a
/// message mapping that "sees through" such content is keyed on it; data is opaque to the protocol.
pub fn structured_payloads() -> Vec<Vec<u8>> {
    let mut v: Vec<Vec<u8>> = vec![];
    let inner: Vec<(u16, u8, Vec<u8>)> = vec![
        (3, 2, vec![0xFF]),
        (0x7F, 4, vec![0x0F]),
        (0, 1, vec![]),
        (0x10, 0, vec![1, 2, 3, 4]),
        (0xFFFF, 0x42, vec![]),
        (3, 0, (0..16u8).collect()),
        (5, 6, vec![0]),
    ];
    for (a, t, d) in &inner {
        let w = indep_enc(*a, *t, d);
        let mut wnl = w.clone();
        wnl.extend_from_slice(b"\r\n");
        v.push(w.clone());
        v.push(wnl.clone());
        // nested once more when it still fits
        if wnl.len() <= 120 {
            let mut w2 = indep_enc(0x20, 0, &wnl);
            w2.extend_from_slice(b"\r\n");
            if w2.len() <= 255 {
                v.push(w2);
            }
        }
        // a line with a broken checksum, and one with trailing junk
        let mut bad = wnl.clone();
        let k = bad.len() - 3;
        bad[k] = if bad[k] == b'0' { b'1' } else { b'0' };
        v.push(bad);
        let mut junk = wnl.clone();
        junk.push(0);
        v.push(junk);
    }
    for t in [&b":"[..], b"\r\n", b"\n", b"\r", b":\r\n", b":00000001FF\r\n", b":00000001FF", b"0123456789ABCDEF", b"::", b"\r\n\r\n"] {
        v.push(t.to_vec());
    }
    // payloads that begin with the numeric header their own frame will carry at offsets 0x0010 / 0x0000 / 0xFFF0
    // (length, address high, address low, type 0): the header then appears twice in a row on the wire
    for len in [4usize, 6, 16, 255] {
        for off in [0x0010u16, 0x0000, 0xFFF0] {
            let mut d = vec![len as u8, (off >> 8) as u8, off as u8, 0x00];
            while d.len() < len {
                d.push((d.len() * 5) as u8);
            }
            v.push(d);
        }
    }
    v
}

/// Chunks that start like a known configuration block (family and id of each of the 11 sign types) and then differ.
pub fn config_lookalikes() -> Vec<Vec<u8>> {
    let mut variants: Vec<Vec<u8>> = vec![];
    for t in TYPES {
        let base = t.to_bytes().to_vec();
        variants.push(base.clone());
        for pos in [2usize, 4, 7, 15] {
            let mut v = base.clone();
            v[pos] ^= 0x5A;
            variants.push(v);
        }
        let mut v = base.clone();
        for b in v.iter_mut().skip(2) {
            *b = 0;
        }
        variants.push(v);
        let mut v = base.clone();
        v.push(0);
        variants.push(v);
        variants.push(base[..15].to_vec());
        variants.push(base[..2].to_vec());
    }
    variants
}

pub fn random_len(rng: &mut Rng) -> usize {
    match rng.below(10) {
        0 => 0,
        1 => 1,
        2 => 16,
        3 => 255,
        4 | 5 => rng.range(2, 20) as usize,
        _ => rng.range(0, 255) as usize,
    }
}

pub fn seed_frames(thorough: bool, rng: &mut Rng) -> Vec<(u16, u8, Vec<u8>)> {
    let mut v = vec![];
    for a in ADDRS {
        for t in 0..=255u8 {
            v.push((a, t, vec![]));
            if t % 17 == 0 {
                v.push((a, t, vec![0x00]));
                v.push((a, t, vec![0xFF]));
            }
        }
    }
    for len in [0usize, 1, 2, 15, 16, 17, 254, 255] {
        for pat in 0..4 {
            for a in [0u16, 0x1234, 0xFFFF] {
                for t in [0u8, 1, 0xA9, 0xFF] {
                    v.push((a, t, data_pattern(rng, len, pat)));
                }
            }
        }
    }
    let n = if thorough { 50_000 } else { 2_000 };
    for _ in 0..n {
        let len = random_len(rng);
        let a = if rng.chance(30) { *rng.pick(&ADDRS) } else { rng.next() as u16 };
        let pat = rng.below(8);
        v.push((a, rng.byte(), data_pattern(rng, len, if pat < 3 { pat } else { 3 })));
    }
    v
}

/// Encoder written independently of the crate (and of the model): `format!("{:02X}")`.
pub fn indep_enc(a: u16, t: u8, d: &[u8]) -> Vec<u8> {
    let mut nums = vec![d.len() as u8, (a / 256) as u8, (a % 256) as u8, t];
    nums.extend_from_slice(d);
    let sum: u32 = nums.iter().map(|b| *b as u32).sum();
    nums.push(((256 - (sum % 256)) % 256) as u8);
    let mut s = String::from(":");
    for b in nums {
        s.push_str(&format!("{:02X}", b));
    }
    s.into_bytes()
}

fn c01(thorough: bool, rng: &mut Rng, out: &mut Out) {
    if thorough {
        soak("C01", thorough, out);
    }
    out.rule = "data N for every N in 0..=300 (owned and borrowed); for every seed frame (address x type grid, boundary lengths x patterns, random frames, uniform / counting payloads of every length 0..=255, every byte value alone / doubled / as a 16-byte chunk): to_bytes, to_bytes_with_newline, from_bytes of both encodings; non-trivial = a frame case (valid frame through encoder or decoder) or a data case at the 255/256 boundary; distinct = distinct case line".into();
    out.exhaustive_note = "data lengths 0..=300 and the 10-address x 256-type grid are enumerated completely; data contents are sampled".into();
    for n in 0..=300usize {
        let i = out.case(format!("data {}", n), n == 255 || n == 256);
        let want = if n <= 255 { "ok".to_string() } else { format!("err toolong 255 {}", n) };
        if out.impls[i] != want {
            out.fail(i, format!("C01 Data::try_new({} bytes) gave '{}', expected '{}'", n, out.impls[i], want));
        }
    }
    // lengths far past the boundary, around every power of two a truncating cast or a mask could drop
    // (zeroed allocations of this size are never touched, so they cost address space only)
    let mut huge: Vec<usize> = vec![];
    for sh in [9u32, 10, 12, 15, 16, 17, 20, 24, 31, 32, 33] {
        let b = 1usize << sh;
        for n in [b - 1, b, b + 1, b + 3, b + 255, b + 256] {
            huge.push(n);
        }
    }
    for n in huge {
        let i = out.case(format!("data {}", n), true);
        out.stat("data.huge-length");
        let want = format!("err toolong 255 {}", n);
        if out.impls[i] != want {
            out.fail(i, format!("C01 Data::try_new({} bytes) gave '{}', expected '{}'", n, out.impls[i], want));
        }
    }
    // other ways into a data block: the array conversions (exist for 0..=4 bytes on the pinned tree); should one
    // exist for a larger size, what it builds must still be a legal block
    for n in [0usize, 1, 4, 5, 16, 255, 256] {
        let i = out.case(format!("datafrom {}", n), true);
        out.stat("data.array-conversion-probe");
        if out.impls[i] != "fits" {
            let got = out.impls[i].clone();
            out.fail(i, format!("C01 Data::from(&[u8; {}]) exists and builds an illegal data block: {}", n, got));
        }
    }
    for way in ["deref-cow", "deref-vec", "as-mut-vec", "extend"] {
        let i = out.case(format!("datagrow {}", way), true);
        out.stat("data.mutable-access-probe");
        if out.impls[i] != "fits" {
            let got = out.impls[i].clone();
            out.fail(i, format!("C01 a validated 255-byte data block can be grown afterwards ({}): {}", way, got));
        }
    }
    let mut frames = seed_frames(thorough, rng);
    for d in structured_payloads() {
        frames.push((0x0010, 0, d.clone()));
        frames.push((0x0003, 0x42, d));
    }
    // content sweeps: every data length with uniform / counting payloads, and every byte value alone, doubled and
    // as a full 16-byte chunk (a shortcut keyed on the payload's content, or one wrong table entry, must show)
    for len in 0..=255usize {
        frames.push((0x0102, 0, vec![0x00; len]));
        frames.push((0xFFFE, 0x42, vec![0xFF; len]));
        frames.push((0x0003, 0, (0..len).map(|i| (i as u8).wrapping_mul(3)).collect()));
        // almost-uniform payloads: one differing byte at the end, near the end, in the middle, at the start
        for pos in [len.wrapping_sub(1), len.wrapping_sub(3), len / 2, 0] {
            if pos < len {
                let mut z = vec![0x00u8; len];
                z[pos] = 0x5A;
                frames.push((0x0003, 0, z));
                let mut f = vec![0xFFu8; len];
                f[pos] = 0x00;
                frames.push((0x0100, 0x42, f));
            }
        }
    }
    for v in 0..=255u8 {
        frames.push((0x0003, 0, vec![v]));
        frames.push((0x8000, v, vec![v, v]));
        frames.push((v as u16 * 257, 0, vec![v; 16]));
    }
    for (a, t, d) in frames {
        let want = indep_enc(a, t, &d);
        out.stat(&format!("frame.len.{}", match d.len() { 0 => "0", 1 => "1", 2..=15 => "2-15", 16 => "16", 17..=254 => "17-254", _ => "255" }));
        let i = out.case(format!("enc {:04X} {:02X} {}", a, t, to_hex(&d)), true);
        if out.impls[i] != hex_of(&want) {
            out.fail(i, format!("C01 to_bytes differs from the documented shape: got {} want {}", out.impls[i], hex_of(&want)));
        } else {
            // every numeric byte sums to zero
            let nums = parse_hex(std::str::from_utf8(&want[1..]).unwrap()).unwrap();
            let s: u32 = nums.iter().map(|b| *b as u32).sum();
            if s % 256 != 0 {
                out.fail(i, "C01 encoded bytes do not sum to 0 mod 256".into());
            }
        }
        let mut want_nl = want.clone();
        want_nl.extend_from_slice(b"\r\n");
        let i = out.case(format!("encnl {:04X} {:02X} {}", a, t, to_hex(&d)), true);
        if out.impls[i] != hex_of(&want_nl) {
            out.fail(i, format!("C01 to_bytes_with_newline differs: got {} want {}", out.impls[i], hex_of(&want_nl)));
        }
        // the human-readable form (what a bus monitor logs) names type, address and every data byte
        let i = out.case(format!("fshow {:04X} {:02X} {}", a, t, to_hex(&d)), true);
        out.stat("frame.display");
        let mut text = format!("Type {:02X} | Addr {:04X}", t, a);
        if !d.is_empty() {
            text.push_str(" | Data ");
            for b in &d {
                text.push_str(&format!("{:02X} ", b));
            }
        }
        if out.impls[i] != hex_of(text.as_bytes()) {
            out.fail(i, format!("C01 Display of frame {:04X} {:02X} {} is not '{}'", a, t, to_hex(&d), text));
        }
        let okline = format!("ok {:04X} {:02X} {}", a, t, to_hex(&d));
        for w in [&want, &want_nl] {
            let i = out.case(format!("dec {}", hex_of(w)), true);
            if out.impls[i] != okline {
                out.fail(i, format!("C01 from_bytes(encoding) gave '{}', expected '{}'", out.impls[i], okline));
            }
        }
    }
}

// ---------------------------------------------------------------------------------------------
// C02 / C03 : decoder

/// Independent hand parser (third opinion): returns the canonical result line.
pub fn indep_dec(bs: &[u8]) -> String {
    fn hv(c: u8) -> Option<u32> {
        (c as char).to_digit(16).filter(|_| c.is_ascii())
    }
    if bs.first() != Some(&b':') {
        return "err invalid".into();
    }
    let mut body = &bs[1..];
    if body.len() >= 2 && body[body.len() - 2] == b'\r' && body[body.len() - 1] == b'\n' {
        body = &body[..body.len() - 2];
    }
    if body.len() < 10 || body.len() % 2 != 0 {
        return "err invalid".into();
    }
    let mut nums = vec![];
    for p in body.chunks(2) {
        match (hv(p[0]), hv(p[1])) {
            (Some(h), Some(l)) => nums.push((h * 16 + l) as u8),
            _ => return "err invalid".into(),
        }
    }
    let declared = nums[0] as usize;
    let actual = nums.len() - 5;
    if declared != actual {
        return format!("err mismatch {} {}", declared, actual);
    }
    let ck = nums[nums.len() - 1];
    let sum: u32 = nums[..nums.len() - 1].iter().map(|b| *b as u32).sum();
    let computed = ((256 - (sum % 256)) % 256) as u8;
    if computed != ck {
        return format!("err badsum {:02X} {:02X}", ck, computed);
    }
    format!(
        "ok {:04X} {:02X} {}",
        (nums[1] as u16) * 256 + nums[2] as u16,
        nums[3],
        to_hex(&nums[4..nums.len() - 1])
    )
}

fn dec_case(out: &mut Out, bs: &[u8], nontrivial: bool, prop: &str) -> usize {
    let i = out.case(format!("dec {}", to_hex(bs)), nontrivial);
    let want = indep_dec(bs);
    let got = out.impls[i].clone();
    let kind = got.split(' ').take(2).collect::<Vec<_>>().join(".");
    out.stat(&format!("dec.{}", kind));
    if prop == "C03" && got != want {
        out.fail(i, format!("C03 from_bytes gave '{}', independent Intel-HEX parser says '{}'", got, want));
    }
    if prop == "C03" && got.starts_with("ok ") {
        // re-encoding reproduces the input up to digit case and the optional terminator
        let f: Vec<&str> = got.split(' ').collect();
        let re = indep_enc(parse_u16(f[1]).unwrap(), parse_u8(f[2]).unwrap(), &parse_hex(f[3]).unwrap());
        let mut canon: Vec<u8> = bs.to_ascii_uppercase();
        if canon.ends_with(b"\r\n") {
            canon.truncate(canon.len() - 2);
        }
        if canon != re {
            out.fail(i, "C03 re-encoding an accepted string does not reproduce it".into());
        }
    }
    i
}

pub const STRUCT_ALPHA: [u8; 23] = [
    b':', b'0', b'1', b'9', b'A', b'F', b'a', b'f', b'/', b'@', b'G', b'g', b'`', b'\r', b'\n', 0x00, 0xFF, b'5', b'c',
    // characters an integer parser may take for part of a number: signs, a blank, an underscore
    b'+', b'-', b' ', b'_',
];

fn c03(thorough: bool, rng: &mut Rng, out: &mut Out) {
    out.rule = "(i) every string of length <= L over the 23-symbol structural alphabet (L=3 quick, 4 thorough); (ii) the same strings spliced as prefix / suffix / infix into seed encodings; (iii) single substitutions / deletions / duplications of seed encodings; (iv) random byte strings <= 600 bytes and random multi-edits of valid encodings; (v) 26 multi-byte UTF-8 look-alikes (non-ASCII decimal digits, fullwidth hex letters / colon, Unicode separators, BOM) substituted for one or two bytes at, or inserted at, every position of the seed encodings; non-trivial = the string starts with ':' and is at least 11 bytes long (reaches past the first structural rejection); distinct = distinct case line".into();
    out.exhaustive_note = "(i) is enumerated completely".into();
    neighbours_after_valid("C03", out);
    let maxlen = if thorough { 4 } else { 3 };
    // (i)
    let mut cur: Vec<Vec<u8>> = vec![vec![]];
    let mut all: Vec<Vec<u8>> = vec![vec![]];
    for _ in 0..maxlen {
        let mut next = vec![];
        for s in &cur {
            for c in STRUCT_ALPHA {
                let mut t = s.clone();
                t.push(c);
                next.push(t);
            }
        }
        all.extend(next.iter().cloned());
        cur = next;
    }
    for s in &all {
        let _ = dec_case(out, s, false, "C03");
    }
    // (i-b) every hex-digit position of the seed lines replaced by a sign or a blank (`+F` must not be read as 0F)
    for (a, t, d) in [(0x7Fu16, 2u8, vec![0xFFu8]), (0x0003, 0x03, vec![0xA1]), (0x0010, 0, vec![0x01, 0x02, 0x03, 0x04])] {
        let good = indep_enc(a, t, &d);
        for pos in 1..good.len() {
            for c in [b'+', b'-', b' ', b'_', b'x', b'X'] {
                let mut r = good.clone();
                r[pos] = c;
                out.stat("dec.sign-or-blank-in-a-digit-slot");
                let _ = dec_case(out, &r, true, "C03");
            }
        }
    }
    // (i-c) lines far longer than any frame, made of ':' and hex pairs only, with every kind of tail: whatever follows
    // the last pair other than nothing or one CRLF makes the line malformed text (not a length mismatch)
    for pairs in [262usize, 300, 600] {
        let mut body = vec![b':'];
        for i in 0..pairs {
            body.extend_from_slice(format!("{:02X}", (i * 7 + 3) as u8).as_bytes());
        }
        for tail in [&b""[..], b"\r\n", b"\n", b"\r", b" ", b"\t", b"\r\n\r\n", b" \r\n", b"\r\n ", b"  ", b"\x0B", b"\x0C"] {
            let mut l = body.clone();
            l.extend_from_slice(tail);
            out.stat("dec.oversized-line-tail");
            let _ = dec_case(out, &l, true, "C03");
        }
    }
    // (i-d) a declared length of FF over MORE than 255 data pairs whose surplus sums to zero, so that the checksum is
    // right for the first 255 bytes: the declared length disagrees with the data — never accepted
    for extra in [1usize, 2, 16, 256] {
        for (a, t) in [(0x0010u16, 0u8), (0xFFFF, 0x42)] {
            let d: Vec<u8> = (0..255usize).map(|i| (i * 3 + 1) as u8).collect();
            let good = indep_enc(a, t, &d);
            // good = ':' + 2*(4+255) digits + 2 checksum digits
            let mut l = good[..good.len() - 2].to_vec();
            for _ in 0..extra {
                l.extend_from_slice(b"00");
            }
            l.extend_from_slice(&good[good.len() - 2..]);
            for nl in [false, true] {
                let mut x = l.clone();
                if nl {
                    x.extend_from_slice(b"\r\n");
                }
                out.stat("dec.surplus-data-summing-to-zero");
                let _ = dec_case(out, &x, true, "C03");
            }
        }
    }
    // (i') lines whose numeric bytes have the largest (and smallest) possible sums: 255 data bytes of FF under an
    // all-ones header add up to 66 045 — past 16 bits — so a checksum accumulated in anything but a wrapping byte shows;
    // each as a correct line (upper case, lower case, with CRLF), with a checksum off by one, with a wrong length field
    for len in [0usize, 1, 2, 16, 128, 253, 254, 255] {
        for (a, t) in [(0xFFFFu16, 0xFFu8), (0x01FF, 0xFF), (0xFF00, 0x00), (0x0000, 0x00), (0xFFFF, 0x00)] {
            for fill in [0xFFu8, 0xFE, 0x00, 0x80] {
                let mut d = vec![fill; len];
                if len > 2 && fill == 0xFE {
                    d[len / 2] = 0xFF;
                }
                let good = indep_enc(a, t, &d);
                out.stat("dec.extreme-byte-sum");
                let _ = dec_case(out, &good, true, "C03");
                let _ = dec_case(out, &good.to_ascii_lowercase(), true, "C03");
                let mut nl = good.clone();
                nl.extend_from_slice(b"\r\n");
                let _ = dec_case(out, &nl, true, "C03");
                let mut bad = good.clone();
                let k = bad.len() - 1;
                bad[k] = if bad[k] == b'0' { b'1' } else { b'0' };
                let _ = dec_case(out, &bad, true, "C03");
                let mut wl = good.clone();
                wl[2] = if wl[2] == b'0' { b'1' } else { b'0' };
                let _ = dec_case(out, &wl, true, "C03");
            }
        }
    }
    // (ii) splice short strings into seeds
    let seeds: Vec<Vec<u8>> = vec![
        indep_enc(0x7F, 2, &[0xFF]),
        indep_enc(0, 0, &[]),
        indep_enc(0xABCD, 0xEF, &[0xAB, 0xCD, 0xEF, 0x0A]),
        indep_enc(2, 1, &[3, 31]),
    ];
    let short: Vec<&Vec<u8>> = all.iter().filter(|s| s.len() <= 2).collect();
    for seed in &seeds {
        for nl in [false, true] {
            let mut base = seed.clone();
            if nl {
                base.extend_from_slice(b"\r\n");
            }
            let lower = base.to_ascii_lowercase();
            let _ = dec_case(out, &base, true, "C03");
            let _ = dec_case(out, &lower, true, "C03");
            for s in &short {
                if s.is_empty() {
                    continue;
                }
                let mut p = (*s).clone();
                p.extend_from_slice(&base);
                let _ = dec_case(out, &p, false, "C03");
                let mut q = base.clone();
                q.extend_from_slice(s);
                let _ = dec_case(out, &q, true, "C03");
                for pos in [1usize, 3, 9, seed.len() - 2, seed.len()] {
                    if pos <= base.len() {
                        let mut r = base[..pos].to_vec();
                        r.extend_from_slice(s);
                        r.extend_from_slice(&base[pos..]);
                        let _ = dec_case(out, &r, true, "C03");
                    }
                }
            }
            // two frames back to back, doubled terminators, bare CR / LF
            for tail in [&b"\n"[..], b"\r", b"\r\n\r\n", b"\n\r", b"\r\r\n", b" ", b"\r\n "] {
                let mut r = seed.clone();
                r.extend_from_slice(tail);
                let _ = dec_case(out, &r, true, "C03");
            }
            let mut two = base.clone();
            two.extend_from_slice(&base);
            let _ = dec_case(out, &two, true, "C03");
        }
    }
    // (v) look-alikes: multi-byte UTF-8 sequences that text classes such as \d, \s, \w or a
    // case-insensitive flag would accept (non-ASCII decimal digits, fullwidth hex letters and colon,
    // Unicode line / space separators, a byte-order mark), put into every position of a seed
    // encoding, alone and in adjacent pairs; plus truncated / overlong encodings of the same
    const LOOKALIKES: [&str; 26] = [
        "\u{0660}", "\u{0661}", "\u{0669}", "\u{06F7}", "\u{0966}", "\u{09EA}", "\u{0E53}", "\u{FF10}", "\u{FF19}", "\u{1D7CE}", "\u{1D7FF}",
        "\u{FF21}", "\u{FF26}", "\u{FF41}", "\u{FF46}", "\u{212A}", "\u{017F}", "\u{FF1A}", "\u{00A0}", "\u{0085}", "\u{2028}", "\u{2029}", "\u{3000}",
        "\u{FEFF}", "\u{00B2}", "\u{2460}",
    ];
    // … plus every non-ASCII character whose Unicode upper- or lower-casing is made of ASCII hex digits, colons or
    // line terminators only (found by scanning all scalar values: ligatures such as U+FB00 "ff" -> "FF"): a decoder
    // that folds case with the Unicode tables before validating reads them as digits
    let mut lookalikes: Vec<String> = LOOKALIKES.iter().map(|s| s.to_string()).collect();
    let n_fixed = lookalikes.len();
    for cp in 0x80u32..0x11_0000 {
        if let Some(c) = char::from_u32(cp) {
            for folded in [c.to_uppercase().collect::<String>(), c.to_lowercase().collect::<String>()] {
                if folded.chars().all(|f| f.is_ascii_hexdigit() || f == ':' || f == '\r' || f == '\n') && !lookalikes.contains(&c.to_string()) {
                    lookalikes.push(c.to_string());
                }
            }
        }
    }
    out.stat(&format!("lookalike.case-folding-chars.{}", lookalikes.len() - n_fixed));
    for seed in &seeds {
        for nl in [false, true] {
            let mut base = seed.clone();
            if nl {
                base.extend_from_slice(b"\r\n");
            }
            for (li, la) in lookalikes.iter().enumerate() {
                if !thorough && li % 2 == 1 && li < 16 {
                    continue;
                }
                let la = la.as_bytes();
                for pos in 0..=base.len() {
                    // two adjacent bytes replaced by ONE look-alike (a character that folds to two digits)
                    if pos + 1 < base.len() {
                        let mut r = base[..pos].to_vec();
                        r.extend_from_slice(la);
                        r.extend_from_slice(&base[pos + 2..]);
                        out.stat("lookalike.subst2to1");
                        let _ = dec_case(out, &r, true, "C03");
                    }
                    // substitution of one byte, of two adjacent bytes, and insertion
                    if pos < base.len() {
                        let mut r = base[..pos].to_vec();
                        r.extend_from_slice(la);
                        r.extend_from_slice(&base[pos + 1..]);
                        out.stat("lookalike.subst1");
                        let _ = dec_case(out, &r, true, "C03");
                    }
                    if pos + 1 < base.len() {
                        let mut r = base[..pos].to_vec();
                        r.extend_from_slice(la);
                        r.extend_from_slice(la);
                        r.extend_from_slice(&base[pos + 2..]);
                        out.stat("lookalike.subst2");
                        let _ = dec_case(out, &r, true, "C03");
                    }
                    if thorough || pos == 0 || pos == 1 || pos + 2 >= base.len() {
                        let mut r = base[..pos].to_vec();
                        r.extend_from_slice(la);
                        r.extend_from_slice(&base[pos..]);
                        out.stat("lookalike.insert");
                        let _ = dec_case(out, &r, true, "C03");
                    }
                }
                // every hex digit replaced
                let mut r = vec![];
                for &b in &base {
                    if b.is_ascii_hexdigit() {
                        r.extend_from_slice(la);
                    } else {
                        r.push(b);
                    }
                }
                let _ = dec_case(out, &r, true, "C03");
                // truncated sequence (invalid UTF-8) in a digit slot
                if la.len() > 1 && base.len() > 4 {
                    let mut r = base[..3].to_vec();
                    r.extend_from_slice(&la[..la.len() - 1]);
                    r.extend_from_slice(&base[4..]);
                    let _ = dec_case(out, &r, true, "C03");
                }
            }
        }
    }
    // (iii)+(iv) random
    let n = if thorough { 60_000 } else { 4_000 };
    for k in 0..n {
        let mode = rng.below(6);
        let bs: Vec<u8> = match mode {
            0 => {
                let n = rng.range(0, 600) as usize;
                rng.bytes(n)
            }
            1 => {
                // structurally plausible: ':' + random hex digits of both cases
                let n = rng.range(0, 60) as usize * 2 + if rng.chance(10) { 1 } else { 0 };
                let mut v = vec![b':'];
                for _ in 0..n {
                    v.push(*rng.pick(b"0123456789abcdefABCDEF"));
                }
                if rng.chance(40) {
                    v.extend_from_slice(b"\r\n");
                }
                v
            }
            2 => {
                // right length field, random checksum
                let len = random_len(rng);
                let d = rng.bytes(len);
                let mut v = indep_enc(rng.next() as u16, rng.byte(), &d);
                let l = v.len();
                v[l - 1] = *rng.pick(b"0123456789ABCDEF");
                v
            }
            _ => {
                // valid encoding with 0..3 random edits, random case
                let len = random_len(rng);
                let d = rng.bytes(len);
                let mut v = indep_enc(rng.next() as u16, rng.byte(), &d);
                if rng.chance(50) {
                    v.extend_from_slice(b"\r\n");
                }
                if rng.chance(30) {
                    v = v.to_ascii_lowercase();
                }
                for _ in 0..rng.below(4) {
                    if v.is_empty() {
                        break;
                    }
                    let p = rng.below(v.len() as u64) as usize;
                    match rng.below(4) {
                        0 => v[p] = rng.byte(),
                        1 => {
                            let _ = v.remove(p);
                        }
                        2 => v.insert(p, v[p]),
                        _ => v[p] = *rng.pick(&STRUCT_ALPHA),
                    }
                }
                v
            }
        };
        let nt = bs.first() == Some(&b':') && bs.len() >= 11;
        let _ = dec_case(out, &bs, nt, "C03");
        let _ = k;
    }
}

/// C02's fault set applied to one encoding.
fn faults(w: &[u8], full: bool, rng: &mut Rng) -> Vec<(String, Vec<u8>)> {
    let mut v = vec![];
    for i in 0..w.len() {
        if full {
            for c in 0..=255u8 {
                if c != w[i] {
                    let mut x = w.to_vec();
                    x[i] = c;
                    v.push((format!("subst@{}={:02X}", i, c), x));
                }
            }
        } else {
            // all structurally interesting replacements + a few random ones
            let mut cs: Vec<u8> = b"0123456789ABCDEFabcdef:\r\n".to_vec();
            cs.extend_from_slice(&[0x00, 0xFF, b'G', b'g', b'/', b'@', b'`']);
            for _ in 0..3 {
                cs.push(rng.byte());
            }
            for c in cs {
                if c != w[i] {
                    let mut x = w.to_vec();
                    x[i] = c;
                    v.push((format!("subst@{}={:02X}", i, c), x));
                }
            }
        }
        let mut x = w.to_vec();
        let _ = x.remove(i);
        v.push((format!("delete@{}", i), x));
        let mut x = w.to_vec();
        x.insert(i, w[i]);
        v.push((format!("dup@{}", i), x));
        if i + 1 < w.len() && w[i] != w[i + 1] {
            let mut x = w.to_vec();
            x.swap(i, i + 1);
            v.push((format!("swap@{}", i), x));
        }
        v.push((format!("prefix@{}", i), w[..i].to_vec()));
    }
    v
}

fn c02(thorough: bool, rng: &mut Rng, out: &mut Out) {
    same_sum_pairs("C02", out);
    neighbours_after_valid("C02", out);
    // a declared length of FF over more than 255 data pairs whose surplus sums to zero (so that the checksum is right
    // for the first 255 bytes): the declared length disagrees with the data
    for extra in [1usize, 2, 16, 256] {
        for (a, t) in [(0x0010u16, 0u8), (0xFFFF, 0x42)] {
            let d: Vec<u8> = (0..255usize).map(|i| (i * 3 + 1) as u8).collect();
            let good = indep_enc(a, t, &d);
            let mut l = good[..good.len() - 2].to_vec();
            for _ in 0..extra {
                l.extend_from_slice(b"00");
            }
            l.extend_from_slice(&good[good.len() - 2..]);
            let i = out.case(format!("dec {}", hex_of(&l)), true);
            out.stat("dec.surplus-data-summing-to-zero");
            if out.impls[i].starts_with("ok ") {
                out.fail(i, format!("C02 a line declaring 255 data bytes and carrying {} was accepted", 255 + extra));
            }
        }
    }
    out.rule = "for each seed frame and both encodings: every position x replacement byte (all 256 on the full-substitution seeds, 35 structural+random values otherwise), every single deletion, duplication, adjacent swap of unequal characters and proper prefix; plus frames with a wrong length field or wrong checksum; non-trivial = every fault case (each is a damaged valid frame); distinct = distinct case line".into();
    out.exhaustive_note = "the fault set is enumerated completely per seed frame; seed frames are sampled".into();
    let mut seeds: Vec<(u16, u8, Vec<u8>)> = vec![
        (0x7F, 2, vec![0xFF]),
        (0, 0, vec![]),
        (0xFFFF, 0xFF, vec![0xFF, 0xFF]),
        (0x0A0B, 0x0C, vec![0xA0, 0x0A, 0xAA, 0x00]),
        (2, 1, vec![3, 31]),
        (0, 0, (0..16).collect()),
        (0x1000, 0, vec![0x10; 16]),
        (0x0100, 1, vec![]),
        (0x0001, 0x10, vec![0x01]),
    ];
    // frame-in-frame seeds: the data holds the numeric fields of another frame, and the outer header
    // bytes up to and including the first data byte sum to zero, so that the outer checksum is also
    // the inner frame's checksum (adversarial for a decoder that resynchronises on a later ':')
    let mut nested: Vec<(u16, u8, Vec<u8>)> = vec![];
    for k in 0..(if thorough { 40 } else { 6 }) {
        let ilen = if k == 0 { 1 } else { rng.range(0, 6) as usize };
        let idata = if k == 0 { vec![0xFF] } else { rng.bytes(ilen) };
        let (ia, it) = if k == 0 { (3u16, 2u8) } else { (rng.next() as u16, rng.byte()) };
        let mut inner = vec![ilen as u8, (ia >> 8) as u8, ia as u8, it];
        inner.extend_from_slice(&idata);
        let (oa, ot) = if k == 0 { (0u16, 0u8) } else { (rng.next() as u16, rng.byte()) };
        let olen = (inner.len() + 1) as u8;
        let hdr = olen.wrapping_add((oa >> 8) as u8).wrapping_add(oa as u8).wrapping_add(ot);
        let mut data = vec![0u8.wrapping_sub(hdr)];
        data.extend_from_slice(&inner);
        nested.push((oa, ot, data));
    }
    let n_nested = nested.len();
    nested.extend(seeds.drain(..));
    seeds = nested;
    let nseeds = if thorough { 400 } else { 30 };
    for _ in 0..nseeds {
        let len = if rng.chance(80) { rng.range(0, 20) as usize } else { random_len(rng) };
        seeds.push((rng.next() as u16, rng.byte(), rng.bytes(len)));
    }
    // coincidence seeds: the last data byte is what the checksum of the frame WITHOUT that byte would be (with
    // its own, smaller length field — or with the length field left alone), and the same with the last two data
    // bytes, so that a truncation just before the checksum leaves a string that a decoder lenient about the
    // declared length would find checksum-valid; likewise the first data byte equal to the type, etc.
    for k in 0..(if thorough { 24 } else { 8 }) {
        let n = 1 + (k % 5) as usize;
        let a = if k == 0 { 0 } else { rng.next() as u16 };
        let t = if k == 0 { 0 } else { rng.byte() };
        let body = if k == 0 { vec![0x10u8] } else { rng.bytes(n) };
        let sum_hdr = |len: u8, d: &[u8]| -> u8 {
            let mut s = len.wrapping_add((a >> 8) as u8).wrapping_add(a as u8).wrapping_add(t);
            for b in d {
                s = s.wrapping_add(*b);
            }
            0u8.wrapping_sub(s)
        };
        // (i) shorter frame with its own length byte, (ii) length byte of the longer frame kept
        for len_byte in [body.len() as u8, body.len() as u8 + 1] {
            let mut d = body.clone();
            d.push(sum_hdr(len_byte, &body));
            seeds.push((a, t, d));
        }
        // (iii) two bytes short
        let mut d = body.clone();
        d.push(sum_hdr(body.len() as u8, &body));
        d.push(rng.byte());
        seeds.push((a, t, d));
    }
    // long frames: truncations that drop a multiple of 256 characters, length fields >= 0x80
    seeds.push((0, 0, vec![0u8; 128]));
    seeds.push((rng.next() as u16, rng.byte(), rng.bytes(130)));
    if thorough {
        seeds.push((0x1234, 0x56, rng.bytes(255)));
        seeds.push((0xFFFF, 0, vec![0xFF; 255]));
    }
    let nfull = n_nested + if thorough { 40 } else { 4 };
    for (k, (a, t, d)) in seeds.iter().enumerate() {
        let okline = format!("ok {:04X} {:02X} {}", a, t, to_hex(d));
        let base = indep_enc(*a, *t, d);
        for nl in [false, true] {
            let mut w = base.clone();
            if nl {
                w.extend_from_slice(b"\r\n");
            }
            let full = k < nfull && w.len() <= 60;
            for (what, x) in faults(&w, full, rng) {
                let i = out.case(format!("dec {}", to_hex(&x)), true);
                out.stat(&format!("fault.{}", what.split('@').next().unwrap()));
                let got = out.impls[i].clone();
                if got.starts_with("ok ") {
                    out.stat("fault.accepted-as-original");
                    if got != okline {
                        out.fail(i, format!("C02 damaged frame ({} of {}) decoded as a different frame: {}", what, hex_of(&w), got));
                    } else {
                        // second sentence of the property: even when the result equals the original,
                        // a string whose declared length or checksum is wrong must not be accepted
                        let judge = indep_dec(&x);
                        if judge.starts_with("err mismatch") {
                            out.fail(i, format!("C02 a frame whose declared length disagrees with its data was accepted ({} of {}): {}", what, hex_of(&w), judge));
                        } else if judge.starts_with("err badsum") {
                            out.fail(i, format!("C02 a frame whose checksum does not match was accepted ({} of {}): {}", what, hex_of(&w), judge));
                        }
                    }
                } else if got.contains("PANIC") {
                    out.fail(i, format!("C02 decoder panicked on {} of {}", what, hex_of(&w)));
                }
            }
        }
        // wrong declared length / wrong checksum are never accepted
        for delta in [1u8, 0xFF, 0x10, 0x80] {
            let mut nums = parse_hex(std::str::from_utf8(&base[1..]).unwrap()).unwrap();
            nums[0] = nums[0].wrapping_add(delta);
            // fix the checksum so only the length is wrong
            let l = nums.len();
            nums[l - 1] = nums[l - 1].wrapping_sub(delta);
            let mut x = vec![b':'];
            x.extend_from_slice(hex_of(&nums).as_bytes());
            let i = out.case(format!("dec {}", to_hex(&x)), true);
            out.stat("fault.lenfield");
            if out.impls[i].starts_with("ok ") {
                out.fail(i, "C02 frame whose declared length disagrees with its data was accepted".into());
            }
            let mut nums = parse_hex(std::str::from_utf8(&base[1..]).unwrap()).unwrap();
            nums[l - 1] = nums[l - 1].wrapping_add(delta);
            let mut x = vec![b':'];
            x.extend_from_slice(hex_of(&nums).as_bytes());
            let i = out.case(format!("dec {}", to_hex(&x)), true);
            out.stat("fault.checksum");
            if out.impls[i].starts_with("ok ") {
                out.fail(i, "C02 frame with a wrong checksum was accepted".into());
            }
        }
    }
}

// ---------------------------------------------------------------------------------------------
// C04 / C05 : messages

const STATE_CODES: [u8; 13] = [0x0F, 0x0D, 0x07, 0x0C, 0x03, 0x01, 0x0B, 0x10, 0x13, 0x12, 0x11, 0x00, 0x08];
const REQ_CODES: [u8; 6] = [0xA1, 0xA2, 0xA9, 0xAA, 0xA6, 0xA7];
const ACK_CODES: [u8; 6] = [0x95, 0x91, 0x96, 0x97, 0x93, 0x94];

/// The protocol table of property C04, written as data (a third copy, independent of crate and model).
pub fn table_msg(a: u16, ty: u8, d: &[u8]) -> String {
    let unk = format!("UN,{:04X},{:02X},{}", a, ty, to_hex(d));
    if ty == 0 {
        return format!("SD,{:04X},{}", a, to_hex(d));
    }
    if ty == 1 && d.is_empty() {
        return format!("CS,{:04X}", a);
    }
    if d.len() != 1 {
        return unk;
    }
    let b = d[0];
    match ty {
        2 => match b {
            0xFF => format!("HE,{:04X}", a),
            0x00 => format!("QS,{:04X}", a),
            0x55 => format!("GB,{:04X}", a),
            _ => unk,
        },
        3 => REQ_CODES.iter().position(|c| *c == b).map(|i| format!("RO,{:04X},{}", a, i)).unwrap_or(unk),
        4 => STATE_CODES.iter().position(|c| *c == b).map(|i| format!("RS,{:04X},{}", a, i)).unwrap_or(unk),
        5 => ACK_CODES.iter().position(|c| *c == b).map(|i| format!("AK,{:04X},{}", a, i)).unwrap_or(unk),
        6 => {
            if b == 0 {
                format!("PC,{:04X}", a)
            } else {
                unk
            }
        }
        _ => unk,
    }
}

fn f2m_case(out: &mut Out, a: u16, ty: u8, d: &[u8]) {
    let want = table_msg(a, ty, d);
    let nt = !want.starts_with("UN,");
    let i = out.case(format!("f2m {:04X} {:02X} {}", a, ty, to_hex(d)), nt);
    out.stat(&format!("f2m.{}", &want[..2]));
    let got = out.impls[i].clone();
    if got != want {
        out.fail(i, format!("C04 frame ({:04X},{:02X},{}) interpreted as '{}', protocol table says '{}'", a, ty, to_hex(d), got, want));
    }
    // identity Frame -> Message -> Frame on the real types
    if let Some(f) = mk_frame(a, ty, d.to_vec()) {
        let back = Frame::from(Message::from(f.clone()));
        if back != f {
            out.fail(i, format!("C04 Frame->Message->Frame is not the identity: {} became {}", show_frame(&f), show_frame(&back)));
        }
        // and through the model's m2f on the implementation's message token
        if i % 7 == 0 || nt {
            let j = out.case(format!("m2f {}", got), nt);
            let want_f = format!("{:04X} {:02X} {}", a, ty, to_hex(d));
            if out.impls[j] != want_f {
                out.fail(j, format!("C04 message {} converts to frame '{}', expected '{}'", got, out.impls[j], want_f));
            }
        }
    }
}

fn c04(thorough: bool, rng: &mut Rng, out: &mut Out) {
    out.rule = "f2m over message types 0..=255 x first data byte x data lengths {0,1,2,3,16,255} x addresses; uniform (00 / FF / 55) and patterned payloads of every length 0..=255 for the data type and other types; every recognised (type, first byte) code over the address range; non-trivial = the protocol table recognises the frame as a specific message; distinct = distinct case line".into();
    out.exhaustive_note = if thorough {
        "all 256 types x all 256 first bytes x lengths {0,1,2,3,16,255} x 6 addresses, and all 65536 addresses for each of the 31 recognised codes, are enumerated completely".into()
    } else {
        "quick: length 1 complete over 256 x 256 x 2 addresses; other lengths 256 types x 16 first bytes; recognised codes over 300 addresses".into()
    };
    out.exhaustive = thorough;
    let addrs6: [u16; 6] = [0, 3, 0x7F, 0x100, 0xABCD, 0xFFFF];
    let lens = [0usize, 1, 2, 3, 16, 255];
    for &len in &lens {
        for ty in 0..=255u8 {
            let firsts: Vec<u8> = if len == 0 {
                vec![0]
            } else if thorough || len == 1 {
                (0..=255).collect()
            } else {
                (0..16).map(|k| (k * 17) as u8).collect()
            };
            for first in firsts {
                let na = if thorough { 6 } else if len == 1 { 2 } else { 1 };
                for &a in addrs6.iter().take(na) {
                    let mut d = vec![first; len.min(1)];
                    while d.len() < len {
                        d.push(rng.byte());
                    }
                    f2m_case(out, a, ty, &d);
                }
            }
        }
    }
    // uniform and patterned payloads of every length 0..=255 (a shortcut keyed on the content — "blank",
    // all-ones, a repeated byte — must not change what is forwarded), for the data type and a few others
    for len in 0..=255usize {
        let tys: &[u8] = if thorough { &[0, 1, 2, 3, 4, 5, 6, 7, 0x42, 0xFF] } else { &[0, 2, 4, 0x42] };
        for &ty in tys {
            let fills: Vec<Vec<u8>> = vec![
                vec![0x00; len],
                vec![0xFF; len],
                vec![0x55; len],
                (0..len).map(|i| i as u8).collect(),
                (0..len).map(|i| if i + 1 == len { 1 } else { 0 }).collect(),
            ];
            for (k, d) in fills.iter().enumerate() {
                if !thorough && ty != 0 && k > 1 {
                    continue;
                }
                out.stat("f2m.uniform-payload");
                f2m_case(out, if len % 2 == 0 { 3 } else { 0xABCD }, ty, d);
            }
        }
    }
    // short frames whose tail looks like a terminator, padding or a start code: every type 0..=8 and 0x42,
    // every first byte, one- and two-byte tails from the special set (a "lenient" reading that looks through
    // such a tail must show)
    let special: [u8; 7] = [0x00, 0x0D, 0x0A, 0x3A, 0xFF, 0x20, 0x30];
    for ty in (0..=8u8).chain([0x42u8]) {
        for first in 0..=255u8 {
            if !thorough && ty > 6 && first % 16 != 0 {
                continue;
            }
            for &t1 in &special {
                out.stat("f2m.special-tail");
                f2m_case(out, 3, ty, &[first, t1]);
            }
            for (t1, t2) in [(0x0Du8, 0x0Au8), (0x0A, 0x0D), (0x00, 0x00), (0xFF, 0xFF), (0x0D, 0x00), (0x20, 0x20), (0x3A, 0x30)] {
                out.stat("f2m.special-tail");
                f2m_case(out, 0xABCD, ty, &[first, t1, t2]);
            }
        }
    }
    for d in structured_payloads() {
        for ty in [0u8, 1, 2, 3, 4, 5, 6, 0x42] {
            out.stat("f2m.structured-payload");
            f2m_case(out, 0x10, ty, &d);
        }
    }
    // 16-byte chunks that start like a known configuration block (family and id of each of the 11 sign types) but
    // differ from it afterwards, at offset 0 and elsewhere: data is opaque, whatever it resembles
    for v in config_lookalikes() {
        for a in [0u16, 0x10, 0xFFFF] {
            for ty in [0u8, 1, 0x42] {
                out.stat("f2m.config-lookalike");
                f2m_case(out, a, ty, &v);
            }
        }
    }
    // recognised codes over the address range
    let mut codes: Vec<(u8, Vec<u8>)> = vec![(1, vec![]), (2, vec![0xFF]), (2, vec![0x00]), (2, vec![0x55]), (6, vec![0x00])];
    for c in STATE_CODES {
        codes.push((4, vec![c]));
    }
    for c in REQ_CODES {
        codes.push((3, vec![c]));
    }
    for c in ACK_CODES {
        codes.push((5, vec![c]));
    }
    codes.push((0, vec![]));
    codes.push((0, vec![7]));
    codes.push((0, vec![1, 2, 3]));
    let addrs: Vec<u16> = if thorough {
        (0..=65535u16).collect()
    } else {
        let mut v: Vec<u16> = ADDRS.to_vec();
        v.extend((0..256u32).map(|k| (k * 257) as u16));
        v.extend((0..34).map(|_| rng.next() as u16));
        v
    };
    for (ty, d) in &codes {
        for &a in &addrs {
            f2m_case(out, a, *ty, d);
        }
    }
}

pub fn specific_messages(thorough: bool, rng: &mut Rng) -> Vec<Message<'static>> {
    let mut v: Vec<Message<'static>> = vec![];
    let addrs: Vec<u16> = if thorough {
        (0..=65535u32).step_by(1).map(|x| x as u16).collect()
    } else {
        let mut a: Vec<u16> = ADDRS.to_vec();
        a.extend((0..64u32).map(|k| (k * 1031 + 5) as u16));
        a.extend((0..32).map(|_| rng.next() as u16));
        a
    };
    for &a in &addrs {
        v.push(Message::Hello(Address(a)));
        v.push(Message::QueryState(Address(a)));
        v.push(Message::Goodbye(Address(a)));
        v.push(Message::PixelsComplete(Address(a)));
        v.push(Message::DataChunksSent(ChunkCount(a)));
    }
    let addrs2: Vec<u16> = if thorough { (0..=65535u32).step_by(7).map(|x| x as u16).chain(ADDRS).collect() } else { addrs.iter().cloned().take(40).collect() };
    for &a in &addrs2 {
        for s in STATES {
            v.push(Message::ReportState(Address(a), s));
        }
        for o in OPS {
            v.push(Message::RequestOperation(Address(a), o));
            v.push(Message::AckOperation(Address(a), o));
        }
    }
    for len in 0..=255usize {
        let offs: Vec<u16> = vec![0, 16, 0xFFF0, rng.next() as u16];
        for (k, off) in offs.into_iter().enumerate() {
            let d = data_pattern(rng, len, k as u64);
            v.push(Message::SendData(Offset(off), Data::try_new(d).unwrap()));
        }
        // uniform and almost-uniform payloads (blank chunks, a single odd byte at the end)
        v.push(Message::SendData(Offset(32), Data::try_new(vec![0u8; len]).unwrap()));
        v.push(Message::SendData(Offset(48), Data::try_new(vec![0xFFu8; len]).unwrap()));
        if len > 0 {
            let mut z = vec![0u8; len];
            z[len - 1] = 0x5A;
            v.push(Message::SendData(Offset(64), Data::try_new(z).unwrap()));
        }
    }
    for d in config_lookalikes() {
        for off in [0u16, 0x10] {
            v.push(Message::SendData(Offset(off), Data::try_new(d.clone()).unwrap()));
        }
    }
    // payloads that look like the protocol itself (a wire line inside the data, terminators, start codes)
    for d in structured_payloads() {
        for off in [0u16, 0x10, 0xFFF0] {
            v.push(Message::SendData(Offset(off), Data::try_new(d.clone()).unwrap()));
        }
    }
    // SendData that collides in shape with other kinds' frames: one byte equal to a known code
    for b in [0xFFu8, 0x00, 0x55, 0x0F, 0xA1, 0x95] {
        for off in [0u16, 1, 2, 3, 4, 5, 6] {
            v.push(Message::SendData(Offset(off), Data::try_new(vec![b]).unwrap()));
        }
    }
    v
}

/// More than 2^32 bytes encoded on one thread (8.3 million maximum-size frames, a few seconds), then one more round trip.
pub fn soak(prop: &str, _thorough: bool, out: &mut Out) {
    let count: u64 = 8_300_000;
    let i = out.case(format!("soak enc {}", count), true);
    out.stat("codec.soak");
    if out.impls[i] != format!("ok {}", count * 521) {
        let got = out.impls[i].clone();
        out.fail(i, format!("{} after encoding {} maximum-size frames on one thread the codec gave '{}'", prop, count, got));
    }
}

/// A valid line decoded, and right after it on the same thread every one-bit-off neighbour of that line (each position,
/// each of the eight bits), then the valid line again: a decoder that recognises "the line it has just seen" by a
/// comparison looser than byte equality (case folding by a bit mask, a masked compare, a hash of folded bytes) accepts
/// a malformed neighbour as the remembered frame.  The verdict is the model's (whose decoder has no memory) and, where
/// the neighbour is still a hex-digit case variant, the independent parser's.
pub fn neighbours_after_valid(prop: &str, out: &mut Out) {
    let seeds: Vec<Vec<u8>> = vec![
        indep_enc(0x0010, 0x02, &[]),
        indep_enc(0x1234, 0x00, &[0x9A, 0x0B, 0xC5]),
        { let mut w = indep_enc(0x00AB, 0x04, &[0x20, 0x7F]); w.extend_from_slice(b"\r\n"); w },
    ];
    for w in seeds {
        for pos in 0..w.len() {
            for bit in 0..8u8 {
                let mut x = w.clone();
                x[pos] ^= 1 << bit;
                let i0 = out.case(format!("dec {}", hex_of(&w)), true);
                let i1 = out.case(format!("dec {}", hex_of(&x)), true);
                out.stat("dec.one-bit-neighbour-right-after-valid");
                if !out.impls[i0].starts_with("ok ") {
                    out.fail(i0, format!("{} a valid line was not decoded", prop));
                }
                // a neighbour is accepted only when it is the same digits in the other case
                let same_digits = x.len() == w.len() && x.iter().zip(w.iter()).all(|(a, b)| a == b || (a.is_ascii_hexdigit() && b.is_ascii_hexdigit() && a.eq_ignore_ascii_case(b)));
                if out.impls[i1].starts_with("ok ") && !same_digits {
                    let got = out.impls[i1].clone();
                    out.fail(i1, format!("{} a malformed line one bit away from the line decoded just before it was accepted: '{}'", prop, &got[..got.len().min(80)]));
                }
            }
        }
    }
}

/// Pairs of different messages decoded one right after the other whose frames share length, address, type AND
/// checksum (the data bytes permuted, or two bytes changed by +1 / -1): a decoder that remembers its last result by
/// such a key hands back the wrong one.  Each pair in both orders; the case stream is run in order on one thread.
pub fn same_sum_pairs(prop: &str, out: &mut Out) {
    let mut pairs: Vec<(Vec<u8>, Vec<u8>)> = vec![];
    for len in [2usize, 3, 16, 64, 255] {
        let a: Vec<u8> = (0..len).map(|i| (i * 7 + 1) as u8).collect();
        let mut b = a.clone();
        b.swap(0, len - 1);
        pairs.push((a.clone(), b));
        let mut c = a.clone();
        c[0] = c[0].wrapping_add(1);
        c[1] = c[1].wrapping_sub(1);
        pairs.push((a.clone(), c));
        let mut d = a.clone();
        d.reverse();
        pairs.push((a, d));
    }
    for (x, y) in pairs {
        for (off, ty) in [(0u16, 0u8), (0x0010, 0), (0x1234, 0x42)] {
            for (p, q) in [(&x, &y), (&y, &x)] {
                for d in [p, q, p] {
                    let w = indep_enc(off, ty, d);
                    let i = out.case(format!("dec {}", hex_of(&w)), true);
                    out.stat("dec.same-header-same-sum-neighbours");
                    let want = format!("ok {:04X} {:02X} {}", off, ty, to_hex(d));
                    if out.impls[i] != want {
                        let got = out.impls[i].clone();
                        out.fail(i, format!("{} a frame decoded right after another with the same header and checksum came back as '{}', expected '{}'", prop, &got[..got.len().min(80)], &want[..want.len().min(80)]));
                    }
                }
            }
        }
    }
}

fn c05(thorough: bool, rng: &mut Rng, out: &mut Out) {
    soak("C05", thorough, out);
    same_sum_pairs("C05", out);
    out.rule = "every specific message kind x addresses/offsets/counts (boundaries + strides quick, all 65536 for the address-only kinds thorough) x 13 states x 6 operations x data blocks of every length 0..=255; each goes message -> frame -> wire -> frame -> message; non-trivial = every case (all are specific messages); distinct = distinct case line".into();
    out.exhaustive_note = "data lengths 0..=255, all states, all operations enumerated completely; addresses complete only in thorough for address-only kinds".into();
    let mut seen: HashMap<Vec<u8>, String> = HashMap::new();
    for m in specific_messages(thorough, rng) {
        let tok = show_msg(&m);
        out.stat(&format!("msg.{}", &tok[..2]));
        let i = out.case(format!("m2f {}", tok), true);
        let f = Frame::from(m.clone());
        let wire = f.to_bytes();
        let wire_nl = f.to_bytes_with_newline();
        for w in [&wire, &wire_nl] {
            match Frame::from_bytes(w) {
                Ok(f2) => {
                    let m2 = Message::from(f2);
                    if m2 != m {
                        out.fail(i, format!("C05 {} came back from its wire frame {} as {}", tok, String::from_utf8_lossy(&wire), show_msg(&m2)));
                    }
                }
                Err(e) => out.fail(i, format!("C05 {} does not decode from its own wire frame: {:?}", tok, e)),
            }
        }
        if let Some(prev) = seen.get(&wire) {
            if *prev != tok {
                out.fail(i, format!("C05 two different specific messages share the wire encoding {}: {} and {}", String::from_utf8_lossy(&wire), prev, tok));
            }
        } else {
            let _ = seen.insert(wire.clone(), tok.clone());
        }
        // the same steps through the line protocol, for the model comparison
        let fr = out.impls[i].clone();
        let p: Vec<&str> = fr.split(' ').collect();
        if p.len() == 3 {
            let _ = out.case(format!("enc {}", fr), true);
            let _ = out.case(format!("dec {}", hex_of(&wire)), true);
            let _ = out.case(format!("f2m {}", fr), true);
        }
    }
}

// ---------------------------------------------------------------------------------------------
// C19 : sign types

fn c19(thorough: bool, rng: &mut Rng, out: &mut Out) {
    out.rule = "all 11 sign types: to_bytes, dimensions, from_bytes(to_bytes), field consistency, and a virtual sign configured with the block accepting exactly a page of the type's size; from_bytes over all 65536 (family,id) pairs x fillers and over random strings of length 0..=40 and long inputs whose length is 16 modulo 256 / 65536; non-trivial = a 16-byte input (reaches the family/id match) or a per-type case; distinct = distinct case line".into();
    out.exhaustive_note = "the 11 types and all 65536 (family,id) pairs are enumerated completely".into();
    for (k, t) in TYPES.iter().enumerate() {
        let i = out.case(format!("type tobytes {}", k), true);
        let b = t.to_bytes().to_vec();
        let (w, h) = t.dimensions();
        if b.len() != 16 {
            out.fail(i, format!("C19 configuration block of type {} is {} bytes", k, b.len()));
            continue;
        }
        let j = out.case(format!("type dims {}", k), true);
        let jj = out.case(format!("type frombytes {}", to_hex(&b)), true);
        if out.impls[jj] != format!("ok {}", k) {
            out.fail(jj, format!("C19 block of type {} decodes as '{}'", k, out.impls[jj]));
        }
        // field consistency, from the property statement
        let (bw, bh, bits) = match b[0] {
            0x04 => (b[5] as u32 + b[6] as u32 + b[7] as u32 + b[8] as u32, b[4] as u32, b[9] as u32),
            0x08 => (b[7] as u32, b[5] as u32, (b[5] as u32 + 7) / 8 * 8),
            _ => (u32::MAX, u32::MAX, u32::MAX),
        };
        if bw != w || bh != h {
            out.fail(j, format!("C19 type {}: block says {}x{}, dimensions() says {}x{}", k, bw, bh, w, h));
        }
        if b[0] == 0x04 && bits != (h + 7) / 8 * 8 {
            out.fail(j, format!("C19 type {}: bits-per-column field {} disagrees with height {}", k, bits, h));
        }
        if b[0] == 0x08 {
            let prod = b[8] as u32 * b[10] as u32 + b[9] as u32 * b[11] as u32;
            if prod != w {
                out.fail(j, format!("C19 type {}: Horizon A1*B1+A2*B2 = {} but width {}", k, prod, w));
            }
        }
        // what a virtual sign derives from the block
        let page = Page::new(PageId(1), w, h);
        let mut line = format!("vbus M,0005 RO,0005,0 SD,0000,{} CS,0001 RO,0005,1", to_hex(&b));
        let mut n = 0;
        for (ci, c) in page.as_bytes().chunks(16).enumerate() {
            line.push_str(&format!(" SD,{:04X},{}", ci * 16, to_hex(c)));
            n += 1;
        }
        line.push_str(&format!(" CS,{:04X}", n));
        let v = out.case(line, true);
        let last = out.impls[v].split(' ').last().unwrap_or("").to_string();
        // state 5 = PixelsReceived, type k, one page
        if !last.contains(&format!("|5/{}/1/", k)) {
            out.fail(v, format!("C19 a virtual sign configured with the block of type {} did not accept a {}x{} page: {}", k, w, h, last));
        }
        // ... and the page it then holds has exactly the type's dimensions and the bytes sent
        match vsign::vsign_page_after_config(&b, &page) {
            Some((vw, vh, bytes)) => {
                if (vw, vh) != (w, h) || bytes != page.as_bytes() {
                    out.fail(v, format!("C19 a virtual sign configured with the block of type {} derives {}x{} (the type's dimensions are {}x{}) or stores different bytes", k, vw, vh, w, h));
                }
            }
            None => out.fail(v, format!("C19 a virtual sign configured with the block of type {} holds no page after a {}x{} page was sent (or panicked)", k, w, h)),
        }
    }
    // all (family, id) pairs
    let fillers = if thorough { 3 } else { 1 };
    for fam in 0..=255u8 {
        for id in 0..=255u8 {
            for f in 0..fillers {
                let mut d = vec![fam, id];
                match f {
                    0 => d.extend(vec![0u8; 14]),
                    1 => d.extend(vec![0xFFu8; 14]),
                    _ => d.extend(rng.bytes(14)),
                }
                let i = out.case(format!("type frombytes {}", to_hex(&d)), true);
                let known = TYPES.iter().position(|t| t.to_bytes()[0] == fam && t.to_bytes()[1] == id);
                let want = match known {
                    Some(k) => format!("ok {}", k),
                    None => "err unknown".to_string(),
                };
                if out.impls[i] != want {
                    out.fail(i, format!("C19 from_bytes of family {:02X} id {:02X}: '{}', expected '{}'", fam, id, out.impls[i], want));
                }
            }
        }
    }
    // arbitrary (not only known) family-4 / family-8 blocks: the virtual sign must derive width = sum of the four
    // panel widths (bytes 5..=8, zero entries anywhere) resp. byte 7, and height = byte 4 resp. byte 5, and then hold
    // exactly a page of that size; every zero / non-zero pattern of the four panel widths is enumerated
    for pat in 0..16u8 {
        for fam in [4u8, 8] {
            for rep in 0..(if thorough { 6 } else { 2 }) {
                let mut b = rng.bytes(16);
                b[0] = fam;
                b[1] = if rep == 0 { 0x99 } else { rng.byte() };
                for k in 0..4 {
                    b[5 + k] = if pat & (1 << k) != 0 { 1 + (rng.below(12) as u8) } else { 0 };
                }
                b[4] = 1 + rng.below(20) as u8;
                if fam == 8 {
                    b[5] = 1 + rng.below(20) as u8;
                }
                let (w, h) = if fam == 4 {
                    (b[5] as u32 + b[6] as u32 + b[7] as u32 + b[8] as u32, b[4] as u32)
                } else {
                    (b[7] as u32, b[5] as u32)
                };
                let page = Page::new(PageId(7), w.max(1), h.max(1));
                let mut line = format!("vbus M,0005 RO,0005,0 SD,0000,{} CS,0001 RO,0005,1", to_hex(&b));
                let mut n = 0;
                for (ci, c) in page.as_bytes().chunks(16).enumerate() {
                    line.push_str(&format!(" SD,{:04X},{}", ci * 16, to_hex(c)));
                    n += 1;
                }
                line.push_str(&format!(" CS,{:04X}", n));
                let v = out.case(line, true);
                out.stat("vsign.arbitrary-block");
                let got = vsign::vsign_page_after_config(&b, &page);
                if w > 0 && h > 0 {
                    match got {
                        Some((vw, vh, bytes)) if (vw, vh) == (w, h) && bytes == page.as_bytes() => {}
                        other => out.fail(v, format!("C19 a virtual sign configured with block {} should hold a {}x{} page, holds {:?}", to_hex(&b), w, h, other.map(|(a, b, _)| (a, b)))),
                    }
                } else if got.is_some() {
                    out.fail(v, format!("C19 a virtual sign configured with the zero-sized block {} holds a page", to_hex(&b)));
                }
            }
        }
    }
    // two configuration blocks in ONE configuration phase (the second replaces the first; the count is 2): every
    // ordered pair of sign types, then a page of the second type — the sign must be exactly a sign of the second type
    for (i1, t1) in TYPES.iter().enumerate() {
        for (i2, t2) in TYPES.iter().enumerate() {
            if !thorough && (i1 * 11 + i2) % 3 != 0 && i1 != i2 {
                continue;
            }
            let (w, h) = t2.dimensions();
            let page = Page::new(PageId(4), w, h);
            let mut line = format!("vbus M,0005 RO,0005,0 SD,0000,{} SD,0000,{} CS,0002 QS,0005 RO,0005,1", to_hex(t1.to_bytes()), to_hex(t2.to_bytes()));
            let mut n = 0;
            for (ci, c) in page.as_bytes().chunks(16).enumerate() {
                line.push_str(&format!(" SD,{:04X},{}", ci * 16, to_hex(c)));
                n += 1;
            }
            line.push_str(&format!(" CS,{:04X} QS,0005", n));
            let v = out.case(line, true);
            out.stat("vsign.two-blocks-one-phase");
            let last = out.impls[v].rsplit(' ').next().unwrap_or("").to_string();
            // final observation: state PixelsReceived, type i2, one page
            if !last.contains(&format!("|{}/{}/1/", state_idx(flipdot_core::State::PixelsReceived), i2)) {
                out.fail(v, format!("C19 configured with a {:?} block and then a {:?} block in the same phase, the virtual sign does not hold one {}x{} page of the second type: {}", t1, t2, w, h, last));
            }
        }
    }
    vsign::known_header_variants("C19", out);
    // the same block again after the sign went back to blank by Goodbye (no reset handshake): configured afresh
    for (ti, t) in TYPES.iter().enumerate() {
        let (w, h) = t.dimensions();
        let page = Page::new(PageId(4), w, h);
        let blk = to_hex(t.to_bytes());
        let mut line = format!("vbus M,0005 RO,0005,0 SD,0000,{} CS,0001 QS,0005 GB,0005 QS,0005 RO,0005,0 SD,0000,{} CS,0001 QS,0005 RO,0005,1", blk, blk);
        let mut n = 0;
        for (ci, c) in page.as_bytes().chunks(16).enumerate() {
            line.push_str(&format!(" SD,{:04X},{}", ci * 16, to_hex(c)));
            n += 1;
        }
        line.push_str(&format!(" CS,{:04X} QS,0005", n));
        let v = out.case(line, true);
        out.stat("vsign.same-block-after-goodbye");
        let last = out.impls[v].rsplit(' ').next().unwrap_or("").to_string();
        if !last.contains(&format!("|{}/{}/1/", state_idx(flipdot_core::State::PixelsReceived), ti)) {
            out.fail(v, format!("C19 configured with the {:?} block, shut down, configured with the same block again: the sign does not hold one {}x{} page: {}", t, w, h, last));
        }
    }
    // blocks that keep a type's code AND its geometry bytes but carry extreme values everywhere else (any plausibility
    // arithmetic over the remaining fields must not overflow): decoded, and digested by a virtual sign
    for t in TYPES {
        for fill in [0xFFu8, 0x00, 0x80, 0x7F] {
            let base = t.to_bytes();
            let mut b = vec![fill; 16];
            b[0] = base[0];
            b[1] = base[1];
            if base[0] == 4 {
                for k in 4..9 {
                    b[k] = base[k];
                }
            } else {
                b[5] = base[5];
                b[7] = base[7];
            }
            let i = out.case(format!("type frombytes {}", to_hex(&b)), true);
            out.stat("frombytes.known-code-extreme-rest");
            if out.impls[i] != format!("ok {}", type_idx(t)) {
                let got = out.impls[i].clone();
                out.fail(i, format!("C19 a block with the code of {:?} and arbitrary other fields was not decoded as that type: {}", t, got));
            }
            let v = out.case(format!("vbus M,0005 RO,0005,0 SD,0000,{} CS,0001 QS,0005", to_hex(&b)), true);
            if out.impls[v].contains("PANIC") {
                out.fail(v, format!("C19 a virtual sign panicked digesting a block with the code of {:?} and extreme other fields", t));
            }
        }
    }
    // lengths that are 16 only modulo a power of two, and other long inputs: a length kept in a narrow
    // integer must not make them look like a 16-byte block (each with a supported and an unsupported header)
    for len in [255usize, 256, 257, 271, 272, 273, 528, 4112, 65535, 65536, 65552, 65553] {
        for known in [true, false] {
            let mut d = vec![0u8; len];
            let t = TYPES[len % TYPES.len()].to_bytes();
            if known {
                d[..16].copy_from_slice(t);
            } else {
                d[0] = 0x33;
                d[1] = 0x44;
            }
            let i = out.case(format!("type frombytes {}", to_hex(&d)), false);
            out.stat("frombytes.long-input");
            if out.impls[i] != format!("err wronglen 16 {}", len) {
                let shown = out.impls[i].clone();
                out.fail(i, format!("C19 from_bytes accepted / misreported a {}-byte string: {}", len, shown));
            }
        }
    }
    // … and lengths that are 16 only modulo 2^32 (zeroed allocations, never touched beyond the header)
    for len in [(1usize << 32) + 16, (1 << 32) + 15, (1 << 32), (1 << 33) + 16, (1 << 24) + 16] {
        for known in [1, 0] {
            let i = out.case(format!("typefromlen {} {}", len, known), false);
            out.stat("frombytes.length-16-mod-2^32");
            if out.impls[i] != format!("err wronglen 16 {}", len) {
                let shown = out.impls[i].clone();
                out.fail(i, format!("C19 from_bytes accepted / misreported a {}-byte string: {}", len, shown));
            }
        }
    }
    let n = if thorough { 20_000 } else { 2_000 };
    for _ in 0..n {
        let len = rng.range(0, 40) as usize;
        let mut d = rng.bytes(len);
        if len >= 2 && rng.chance(50) {
            let t = rng.pick(&TYPES).to_bytes();
            d[0] = t[0];
            d[1] = t[1];
        }
        let i = out.case(format!("type frombytes {}", to_hex(&d)), len == 16);
        let r = out.impls[i].clone();
        out.stat(&format!("frombytes.{}", r.split(' ').take(2).collect::<Vec<_>>().join(".")));
        if r.contains("PANIC") {
            out.fail(i, "C19 from_bytes panicked".into());
        }
        if len != 16 && r != format!("err wronglen 16 {}", len) {
            out.fail(i, format!("C19 from_bytes accepted / misreported a {}-byte string: {}", len, r));
        }
    }
}

// ---------------------------------------------------------------------------------------------
// C06 / C07 : pages

pub fn page_sizes(thorough: bool) -> Vec<(u32, u32)> {
    let mut v = vec![];
    let (mw, mh) = if thorough { (9, 33) } else { (6, 18) };
    for w in 0..=mw {
        for h in 0..=mh {
            v.push((w, h));
        }
    }
    if !thorough {
        for (w, h) in [(9, 33), (9, 32), (8, 33), (1, 31), (7, 24), (7, 25)] {
            v.push((w, h));
        }
    }
    for t in TYPES {
        v.push(t.dimensions());
    }
    v.extend_from_slice(&[(255, 255), (1020, 16), (4096, 1)]);
    // tall pages: the bytes of one column no longer fit 8 bits (height > 2040) or 16 bits (height > 524280),
    // so a narrowed cached stride or a truncating cast shows at the second column
    v.extend_from_slice(&[(2, 2041), (2, 524281)]);
    if thorough {
        v.extend_from_slice(&[(3, 2048), (3, 524288), (2, 600001)]);
    }
    v
}

fn bpc(h: u32) -> usize {
    let mut n = 0usize;
    while (n * 8) < h as usize {
        n += 1;
    }
    n
}
fn expect_total(w: u32, h: u32) -> usize {
    let data = 4 + w as usize * bpc(h);
    let mut t = 0;
    while t < data {
        t += 16;
    }
    t
}

fn c07(thorough: bool, rng: &mut Rng, out: &mut Out) {
    c07_huge(out);
    giant_pages("C07", thorough, out);
    // equality and hashing of pages with more than 4 GiB of pixel data (two zeroed buffers, read once)
    for (w, h) in if thorough { vec![(65537u32, 524288u32), (65536, 524288)] } else { vec![(65537u32, 524288u32)] } {
        let i = out.case(format!("bigpageeq {} {}", w, h), true);
        out.stat("page.over-4GiB-equality");
        if out.impls[i] != "eq=1 hash-eq=1 after-set-eq=0" {
            let got = out.impls[i].clone();
            out.fail(i, format!("C07 two {}x{} pages over the same bytes: '{}' (expected equal, same hash, different after one pixel is set)", w, h, got));
        }
    }
    out.rule = "for every size in the box (w 0..=9 x h 0..=33 thorough; 0..=6 x 0..=18 + corners quick), the 11 sign sizes and 3 large sizes: new-page bytes for several ids, one set_pixel per pixel (all pixels for small pages, sampled for large) compared with the stated byte/bit position, and from_bytes at lengths total+-{0,1,15,16}; non-trivial = a case on a page with at least one pixel; distinct = distinct case line".into();
    out.exhaustive_note = "the size box is enumerated completely; ids 0..=255 complete on one size; pixels complete for pages up to 300 pixels".into();
    for id in 0..=255u8 {
        let i = out.case(format!("page new {:02X} 3 9 i", id), true);
        if !out.impls[i].starts_with(&format!("{:02X} ", id)) {
            out.fail(i, format!("C07 page id {} not reported back", id));
        }
    }
    for (w, h) in page_sizes(thorough) {
        let nt = w > 0 && h > 0;
        let total = expect_total(w, h);
        let data = 4 + w as usize * bpc(h);
        for id in [0u8, 0x5A, 0xFF] {
            let i = out.case(format!("page new {:02X} {} {}", id, w, h), nt);
            let mut want = vec![id, 0x10, 0, 0];
            want.extend(vec![0u8; data - 4]);
            want.extend(vec![0xFFu8; total - data]);
            let wl = format!("{} {} {}", w, h, to_hex(&want));
            if out.impls[i] != wl {
                out.fail(i, format!("C07 Page::new({},{},{}) bytes are not [id,0x10,0,0]+zeros+0xFF padding", id, w, h));
            }
        }
        // pixel positions
        let npix = w as u64 * h as u64;
        let mut pix: Vec<(u32, u32)> = vec![];
        if npix <= 300 && (thorough || npix <= 60) {
            for x in 0..w {
                for y in 0..h {
                    pix.push((x, y));
                }
            }
        } else if npix > 0 {
            pix.extend_from_slice(&[(0, 0), (w - 1, 0), (0, h - 1), (w - 1, h - 1)]);
            for _ in 0..(if thorough { 40 } else { 8 }) {
                pix.push((rng.below(w as u64) as u32, rng.below(h as u64) as u32));
            }
        }
        for (x, y) in pix {
            let i = out.case(format!("page new 07 {} {} s,{},{},1 g,{},{}", w, h, x, y, x, y), true);
            let idx = 4 + x as usize * bpc(h) + (y / 8) as usize;
            let mut want = vec![7u8, 0x10, 0, 0];
            want.extend(vec![0u8; data - 4]);
            want.extend(vec![0xFFu8; total - data]);
            want[idx] = 1u8 << (y % 8);
            let wl = format!(". 1 {} {} {}", w, h, to_hex(&want));
            if out.impls[i] != wl {
                out.fail(i, format!("C07 pixel ({},{}) of a {}x{} page is not at byte {} bit {}", x, y, w, h, idx, y % 8));
            }
        }
        // from_bytes lengths
        for delta in [0i64, 1, -1, 15, -15, 16, -16] {
            let len = total as i64 + delta;
            if len < 0 {
                continue;
            }
            let seed = rng.below(1000);
            let i = out.case(format!("page from {} {} g:{}:{} b", w, h, len, seed), nt);
            let src = gen_bytes(seed, len as u64);
            let want = if delta == 0 {
                format!("{} {} {} {}", to_hex(&src), w, h, to_hex(&src))
            } else {
                format!("err wronglen {} {} {} {}", w, h, total, len)
            };
            if out.impls[i] != want {
                out.fail(i, format!("C07 from_bytes({}x{}, {} bytes; total is {}) gave '{}'", w, h, len, total, &out.impls[i][..out.impls[i].len().min(60)]));
            }
            if delta == 0 && nt {
                // equals the page that produced those bytes
                let mut p = Page::new(PageId(9), w, h);
                p.set_pixel(w - 1, h - 1, true);
                let q = Page::from_bytes(w, h, p.as_bytes().to_vec());
                if q.as_ref().ok() != Some(&p) {
                    out.fail(i, format!("C07 from_bytes(as_bytes(p)) != p for {}x{}", w, h));
                }
            }
        }
    }
}

/// Sizes whose byte count does not fit 32 bits: `from_bytes` must still size them in `usize` and reject a
/// small buffer with the exact expected count (no wrap-around, no overflow panic).
/// Small pages over buffers whose length equals the padded size only modulo 2^8 / 2^16 / 2^32.
fn c07_wrapped_lengths(out: &mut Out) {
    for (w, h) in [(8u32, 8u32), (90, 7), (1, 1), (0, 0), (255, 255)] {
        let total = expect_total(w, h);
        for extra in [1usize << 8, 1 << 16, 1 << 24, 1 << 32, (1 << 32) + 16, 1 << 33] {
            let len = total + extra;
            let i = out.case(format!("pagefromlen {} {} {}", w, h, len), true);
            out.stat("from.length-equal-modulo-a-power-of-two");
            let want = format!("err wronglen {} {} {} {}", w, h, total, len);
            if out.impls[i] != want {
                let got = out.impls[i].clone();
                out.fail(i, format!("C07 from_bytes({}x{}, {} bytes; the padded size is {}) gave '{}'", w, h, len, total, got));
            }
        }
        let i = out.case(format!("pagefromlen {} {} {}", w, h, total), true);
        if out.impls[i] != "ok" {
            out.fail(i, format!("C07 from_bytes({}x{}) rejected a zeroed buffer of the padded size {}", w, h, total));
        }
    }
}

fn c07_huge(out: &mut Out) {
    c07_wrapped_lengths(out);
    let m = u32::MAX;
    for (w, h) in [(65536u32, 524288u32), (65537, 524288), (65535, 524288), (m, 9), (m, 8), (m, m), (m, 1), (1 << 31, 16), (1 << 28, 128), (3, m), (0, m), (m, 0)] {
        let bpc = (h as u128 + 7) / 8;
        let data = 4 + w as u128 * bpc;
        let total = (data + 15) / 16 * 16;
        for len in [16u64, 32, 0] {
            let i = out.case(format!("page from {} {} g:{}:5 b", w, h, len), w > 0 && h > 0);
            out.stat("from.huge-size");
            let src = gen_bytes(5, len);
            let want = if total == len as u128 {
                format!("{} {} {} {}", to_hex(&src), w, h, to_hex(&src))
            } else {
                format!("err wronglen {} {} {} {}", w, h, total, len)
            };
            if out.impls[i] != want {
                out.fail(i, format!("C07 from_bytes({}x{}, {} bytes; total is {}) gave '{}'", w, h, len, total, &out.impls[i][..out.impls[i].len().min(60)]));
            }
        }
    }
}

/// Pages whose pixel data does not fit 32 bits (width x bytes-per-column > 2^32): one set_pixel past the 4 GiB
/// mark and a few before it, observed at the true byte position and its likely aliases.
fn giant_pages(prop: &str, thorough: bool, out: &mut Out) {
    let mut cases: Vec<(u32, u32, u32, u32)> = vec![(65537, 524288, 65536, 11), (65537, 524288, 65535, 524287), (65537, 524288, 1, 8), (70000, 524281, 69999, 524280)];
    if thorough {
        cases.extend_from_slice(&[(65537, 524288, 0, 0), (131073, 262144, 131072, 17), (4097, 8388608, 4096, 8388607), (65536, 524296, 65535, 524295)]);
    }
    for (w, h, x, y) in cases {
        let i = out.case(format!("bigpage {} {} {} {}", w, h, x, y), true);
        out.stat("page.over-4GiB");
        let bpc = (h as u128 + 7) / 8;
        let want = format!("{}:{:02X} g=1", 4 + x as u128 * bpc + (y / 8) as u128, 1u8 << (y % 8));
        if out.impls[i] != want {
            let got = out.impls[i].clone();
            out.fail(i, format!("{} set_pixel({},{}) on a {}x{} page (over 4 GiB of pixel data): observed '{}', the layout prescribes '{}'", prop, x, y, w, h, got, want));
        }
    }
}

fn c06(thorough: bool, rng: &mut Rng, out: &mut Out) {
    giant_pages("C06", thorough, out);
    out.rule = "for every size in the box + 11 sign sizes + large sizes: out-of-bounds get/set at (w,0),(0,h),(w,h),(w+1,0),(0,h+1),(u32::MAX,*) one per line; every in-bounds pixel get on small pages; random sequences of 10..60 set/clear/set-all/get operations on fresh pages and on pages over borrowed random bytes, checked against a Vec<Vec<bool>> shadow plus id / padding / length preservation; non-trivial = an operation sequence that performs at least one in-bounds write, or an out-of-bounds probe on a page with pixels; distinct = distinct case line".into();
    out.exhaustive_note = "sizes and the out-of-bounds probe set are enumerated completely; operation sequences are sampled".into();
    for (w, h) in page_sizes(thorough) {
        let nt = w > 0 && h > 0;
        // out-of-bounds probes
        let mut probes: Vec<(u64, u64)> = vec![(w as u64, 0), (0, h as u64), (w as u64, h as u64), (w as u64 + 1, 0), (0, h as u64 + 1), (u32::MAX as u64, 0), (0, u32::MAX as u64)];
        if w > 0 {
            probes.push((w as u64 - 1, h as u64));
        }
        if h > 0 {
            probes.push((w as u64, h as u64 - 1));
        }
        for (x, y) in probes {
            if x > u32::MAX as u64 || y > u32::MAX as u64 {
                continue;
            }
            for op in [format!("g,{},{}", x, y), format!("s,{},{},1", x, y), format!("s,{},{},0", x, y)] {
                let i = out.case(format!("page new 01 {} {} {}", w, h, op), nt);
                out.stat("oob.probe");
                if out.impls[i] != "PANIC" {
                    out.fail(i, format!("C06 out-of-bounds {} on a {}x{} page did not panic: {}", op, w, h, &out.impls[i][..out.impls[i].len().min(40)]));
                }
            }
        }
        if !nt {
            // set_all on an empty page must still be fine
            let i = out.case(format!("page new 01 {} {} a,1 a,0", w, h), false);
            if out.impls[i].contains("PANIC") {
                out.fail(i, format!("C06 set_all_pixels panicked on a {}x{} page", w, h));
            }
            continue;
        }
        // random op sequences with a shadow
        let nseq = if thorough { 12 } else { 3 };
        for k in 0..nseq {
            let borrowed = k % 2 == 1;
            let total = expect_total(w, h);
            let seed = rng.below(1000);
            let (mut page, head) = if borrowed {
                // a page over BORROWED bytes (leaked so that the borrow outlives the loop body): the first
                // mutation has to copy, and what it copies must be exactly what was there
                let src: &'static [u8] = Box::leak(gen_bytes(seed, total as u64).into_boxed_slice());
                (Page::from_bytes(w, h, src).unwrap(), format!("page from {} {} g:{}:{}", w, h, total, seed))
            } else {
                let id = rng.byte();
                (Page::new(PageId(id), w, h), format!("page new {:02X} {} {}", id, w, h))
            };
            let before = page.as_bytes().to_vec();
            let data = 4 + w as usize * bpc(h);
            let mut shadow: Vec<Vec<bool>> = (0..w).map(|x| (0..h).map(|y| page.get_pixel(x, y)).collect()).collect();
            let nops = rng.range(10, 60);
            let mut line = head;
            let mut problems: Vec<String> = vec![];
            let big = w as u64 * h as u64 > 400;
            for _ in 0..nops {
                let x = rng.below(w as u64) as u32;
                let y = rng.below(h as u64) as u32;
                let kind = if borrowed && line.ends_with(&format!(":{}", seed)) && rng.chance(40) { 0 } else { rng.below(10) };
                let v = if kind == 0 { rng.chance(50) } else { rng.chance(60) };
                // sampled probes on big pages: random pixels plus the likely aliases of (x, y) — the same row in
                // other columns, the same column in neighbouring bytes / bits
                let mut probes: Vec<(u32, u32)> = (0..16).map(|_| (rng.below(w as u64) as u32, rng.below(h as u64) as u32)).collect();
                for xx in (0..w.min(8)).chain(w.saturating_sub(8)..w) {
                    probes.push((xx, y));
                }
                for d in [1u32, 7, 8, 9, 64, 256, 2048] {
                    probes.push((x, (y + d) % h));
                    probes.push((x, (y + h - d % h) % h));
                    probes.push(((x + 1) % w, (y + d) % h));
                }
                match kind {
                    0 => {
                        line.push_str(&format!(" a,{}", v as u8));
                        out.stat("op.setall");
                    }
                    1 | 2 => {
                        line.push_str(&format!(" g,{},{}", x, y));
                        out.stat("op.get");
                    }
                    _ => {
                        line.push_str(&format!(" s,{},{},{}", x, y, v as u8));
                        out.stat(if v { "op.set" } else { "op.clear" });
                    }
                }
                // the implementation is called under catch_unwind: an in-bounds operation that panics is itself a failure
                let step = std::panic::catch_unwind(std::panic::AssertUnwindSafe(|| {
                    let mut problems: Vec<String> = vec![];
                    match kind {
                        0 => {
                            page.set_all_pixels(v);
                            for col in shadow.iter_mut() {
                                for c in col.iter_mut() {
                                    *c = v;
                                }
                            }
                        }
                        1 | 2 => {
                            if page.get_pixel(x, y) != shadow[x as usize][y as usize] {
                                problems.push(format!("get({},{}) wrong", x, y));
                            }
                        }
                        _ => {
                            page.set_pixel(x, y, v);
                            shadow[x as usize][y as usize] = v;
                            if page.get_pixel(x, y) != v {
                                problems.push(format!("set({},{},{}) not read back", x, y, v));
                            }
                        }
                    }
                    // every pixel equals the shadow (sampled on big pages)
                    if !big {
                        for xx in 0..w {
                            for yy in 0..h {
                                if page.get_pixel(xx, yy) != shadow[xx as usize][yy as usize] {
                                    problems.push(format!("pixel ({},{}) differs from the shadow after this operation", xx, yy));
                                }
                            }
                        }
                    } else {
                        for &(xx, yy) in &probes {
                            if page.get_pixel(xx, yy) != shadow[xx as usize][yy as usize] {
                                problems.push(format!("pixel ({},{}) differs from the shadow after this operation", xx, yy));
                            }
                        }
                    }
                    let now = page.as_bytes();
                    if now.len() != before.len() || now[..4] != before[..4] || now[data..] != before[data..] || page.width() != w || page.height() != h {
                        problems.push("id / header / padding / length / dimensions changed".into());
                    }
                    problems
                }));
                match step {
                    Ok(ps) => problems.extend(ps),
                    Err(_) => {
                        problems.push("an in-bounds operation panicked".into());
                        break;
                    }
                }
                // unused high bits of the last byte of each column must not change either
                if problems.len() > 3 {
                    break;
                }
            }
            // the printed picture (`Display`) is one more view of the same pixels: border, one character per pixel
            // row by row, and nothing else — compared with the shadow here and with the model's rendering by the diff
            if !big {
                line.push_str(" d");
                out.stat("op.display");
                let mut want = format!("+{}+\n", "-".repeat(w as usize));
                for yy in 0..h {
                    want.push('|');
                    for xx in 0..w {
                        want.push(if shadow[xx as usize][yy as usize] { '@' } else { ' ' });
                    }
                    want.push_str("|\n");
                }
                want.push_str(&format!("+{}+", "-".repeat(w as usize)));
                match std::panic::catch_unwind(std::panic::AssertUnwindSafe(|| format!("{}", page))) {
                    Ok(got) => {
                        if got != want {
                            problems.push("the printed picture (Display) differs from the shadow".into());
                        }
                    }
                    Err(_) => problems.push("printing the page panicked".into()),
                }
            }
            line.push_str(" i");
            let i = out.case(line, true);
            if let Some(p) = problems.first() {
                out.fail(i, format!("C06 {}x{} page: {}", w, h, p));
            }
        }
        // all in-bounds reads on a small fresh page never panic and are false
        if w as u64 * h as u64 <= 120 {
            let mut line = format!("page new 00 {} {}", w, h);
            for x in 0..w {
                for y in 0..h {
                    line.push_str(&format!(" g,{},{}", x, y));
                }
            }
            let i = out.case(line, true);
            if out.impls[i].contains("PANIC") || out.impls[i].split(' ').take((w * h) as usize).any(|t| t != "0") {
                out.fail(i, format!("C06 in-bounds read on a fresh {}x{} page panicked or returned true", w, h));
            }
        }
    }
}

pub fn mk_msg_frame(m: &Message<'_>) -> (u16, u8, Vec<u8>) {
    let f = Frame::from(m.clone());
    (f.address().0, f.message_type().0, f.data().to_vec())
}

pub fn _unused(_: MsgType) {}
