//! fdh — harness for the model/implementation correspondence (DESIGN.md §4).
//!
//!   fdh impl                      < cases > outputs     run case lines against the real crates
//!   fdh gen PROP TIER SEED OUTDIR                       generate the cases of one property, run them
//!                                                       on the implementation and run its oracle
mod gens;
mod implside;
mod iomock;
mod util;

use std::collections::{BTreeMap, HashSet};
use std::io::{BufRead, Write};

pub struct Out {
    pub cases: Vec<String>,
    pub impls: Vec<String>,
    pub oracle_fail: Vec<(usize, String)>,
    pub nontrivial: HashSet<u64>,
    pub stats: BTreeMap<String, u64>,
    pub samples: Vec<String>,
    pub rule: String,
    pub exhaustive_note: String,
    pub exhaustive: bool,
}

impl Out {
    fn new() -> Self {
        Out {
            cases: vec![],
            impls: vec![],
            oracle_fail: vec![],
            nontrivial: HashSet::new(),
            stats: BTreeMap::new(),
            samples: vec![],
            rule: String::new(),
            exhaustive_note: String::new(),
            exhaustive: false,
        }
    }
    /// Adds a case, runs it on the implementation and returns its index.
    pub fn case(&mut self, line: String, nontrivial: bool) -> usize {
        // canonical spacing: single spaces, no trailing space
        let line = line.split(' ').filter(|t| !t.is_empty()).collect::<Vec<_>>().join(" ");
        let r = implside::run_case(&line);
        if nontrivial {
            let _ = self.nontrivial.insert(util::fnv_str(util::FNV_INIT, &line));
        }
        let verb = line.split(' ').next().unwrap_or("").to_string();
        *self.stats.entry(format!("verb.{}", verb)).or_insert(0) += 1;
        if r.contains("PANIC") {
            *self.stats.entry("impl.PANIC".to_string()).or_insert(0) += 1;
        }
        if self.samples.len() < 6 && (self.cases.len() % 97 == 0) && line.len() < 400 {
            self.samples.push(format!("{} -> {}", line, r));
        }
        self.cases.push(line);
        self.impls.push(r);
        self.cases.len() - 1
    }
    pub fn last_impl(&self) -> &str {
        self.impls.last().map(|s| s.as_str()).unwrap_or("")
    }
    pub fn fail(&mut self, idx: usize, msg: String) {
        self.oracle_fail.push((idx, msg));
    }
    pub fn stat(&mut self, key: &str) {
        *self.stats.entry(key.to_string()).or_insert(0) += 1;
    }
    pub fn stat_n(&mut self, key: &str, n: u64) {
        *self.stats.entry(key.to_string()).or_insert(0) += n;
    }
}

fn json_str(s: &str) -> String {
    let mut o = String::from("\"");
    for c in s.chars() {
        match c {
            '"' => o.push_str("\\\""),
            '\\' => o.push_str("\\\\"),
            '\n' => o.push_str("\\n"),
            '\r' => o.push_str("\\r"),
            '\t' => o.push_str("\\t"),
            c if (c as u32) < 0x20 => o.push_str(&format!("\\u{:04x}", c as u32)),
            c => o.push(c),
        }
    }
    o.push('"');
    o
}

/// A logger that formats every record and throws the text away: the `Display` / `Debug` code behind the
/// crates' log statements (and the slicing / indexing in their arguments) runs on every case, so a panic
/// that only a logging application would see is a panic of the call under test here too.
struct FormattingLogger;
impl log::Log for FormattingLogger {
    fn enabled(&self, _: &log::Metadata<'_>) -> bool {
        true
    }
    fn log(&self, record: &log::Record<'_>) {
        let text = format!("{}", record.args());
        std::hint::black_box(text);
    }
    fn flush(&self) {}
}
static LOGGER: FormattingLogger = FormattingLogger;

static LAST_PANIC: std::sync::Mutex<String> = std::sync::Mutex::new(String::new());

/// Environment pass: a sample of the (deterministic, quick) cases is run a second time from inside the destructor of
/// an application thread-local while its thread is exiting — after the library has been used on that thread, with
/// the application's thread-local created before and after the library's first use (destructors run in reverse
/// order of creation).  A library that keeps per-thread scratch state must still work there; a result that differs
/// from the ordinary one is attached to the case (so it also disagrees with the model) and reported by the oracle.
fn thread_exit_pass(prop: &str, out: &mut Out) {
    const SKIP: [&str; 15] = ["serialt", "serialts", "serialmt", "serialmts", "bigpage", "e2e", "noop", "port", "odk", "soak", "pagefromlen", "typefromlen", "bigpageeq", "serialmte", "serialmtu"];
    let eligible: Vec<usize> = (0..out.cases.len())
        .filter(|&i| {
            let c = &out.cases[i];
            let verb = c.split(' ').next().unwrap_or("");
            c.len() < 3000 && !SKIP.contains(&verb) && !(verb == "data" && c.len() > 9) && !c.contains('~') && !c.contains(" s:") && !c.contains(" r:")
        })
        .collect();
    if eligible.is_empty() {
        return;
    }
    let step = (eligible.len() / 300).max(1);
    let sample: Vec<usize> = eligible.iter().cloned().step_by(step).take(300).collect();
    let lines: Vec<String> = sample.iter().map(|&i| out.cases[i].clone()).collect();
    struct OnExit {
        lines: Vec<String>,
        tx: std::sync::mpsc::Sender<Vec<String>>,
    }
    impl Drop for OnExit {
        fn drop(&mut self) {
            let res: Vec<String> = self.lines.iter().map(|l| implside::run_case(l)).collect();
            let _ = self.tx.send(res);
        }
    }
    thread_local! {
        static APP: std::cell::RefCell<Option<OnExit>> = const { std::cell::RefCell::new(None) };
    }
    for app_first in [true, false] {
        let (tx, rx) = std::sync::mpsc::channel();
        let ls = lines.clone();
        let h = std::thread::spawn(move || {
            let guard = OnExit { lines: ls.clone(), tx };
            if app_first {
                APP.with(|a| *a.borrow_mut() = Some(guard));
                for l in ls.iter().take(40) {
                    let _ = implside::run_case(l);
                }
            } else {
                for l in ls.iter().take(40) {
                    let _ = implside::run_case(l);
                }
                APP.with(|a| *a.borrow_mut() = Some(guard));
            }
        });
        let _ = h.join();
        let got: Vec<String> = rx.try_recv().unwrap_or_default();
        out.stat(&format!("env.thread-exit-destructor.{}", got.len()));
        for (k, &i) in sample.iter().enumerate() {
            match got.get(k) {
                Some(g) if *g == out.impls[i] => {}
                other => {
                    let shown = other.map(|s| s[..s.len().min(60)].to_string()).unwrap_or_else(|| "(the destructor did not finish)".into());
                    if !out.impls[i].contains(" !at-thread-exit:") {
                        out.impls[i].push_str(&format!(" !at-thread-exit:{}", shown));
                        out.fail(i, format!("{} the same call gives a different result when made from a thread-local destructor at thread exit ({} the library's first use on that thread): '{}'", prop, if app_first { "application thread-local created before" } else { "application thread-local created after" }, shown));
                    }
                }
            }
        }
    }
}

fn main() {
    std::panic::set_hook(Box::new(|info| {
        if let Ok(mut g) = LAST_PANIC.lock() {
            *g = info.to_string().replace('\n', " ");
        }
    }));
    if log::set_logger(&LOGGER).is_ok() {
        log::set_max_level(log::LevelFilter::Trace);
    }
    let args: Vec<String> = std::env::args().collect();
    match args.get(1).map(|s| s.as_str()) {
        Some("impl") => {
            let stdin = std::io::stdin();
            let stdout = std::io::stdout();
            let mut w = std::io::BufWriter::new(stdout.lock());
            for line in stdin.lock().lines() {
                let line = line.expect("stdin");
                writeln!(w, "{}", implside::run_case(&line)).expect("stdout");
            }
        }
        Some("gen") => {
            let prop = args.get(2).expect("PROP");
            let tier = args.get(3).expect("TIER");
            let seed: u64 = args.get(4).expect("SEED").parse().expect("seed");
            let outdir = args.get(5).expect("OUTDIR");
            let thorough = tier == "thorough";
            let mut out = Out::new();
            // A panic inside a generator means the implementation panicked in one of the oracle's
            // direct calls (the line-protocol cases are already run under catch_unwind): keep what was
            // produced so far and report it as an oracle failure on the last case.
            let known = std::panic::catch_unwind(std::panic::AssertUnwindSafe(|| gens::generate(prop, thorough, seed, &mut out)));
            match known {
                Ok(true) => {}
                Ok(false) => {
                    eprintln!("unknown property {}", prop);
                    std::process::exit(2);
                }
                Err(_) => {
                    let msg = LAST_PANIC.lock().map(|g| g.clone()).unwrap_or_default();
                    if out.cases.is_empty() {
                        out.case("noop".to_string(), false);
                    }
                    let i = out.cases.len() - 1;
                    out.fail(i, format!("{} the implementation panicked in a direct call made by the oracle after this case: {}", prop, msg));
                }
            }
            thread_exit_pass(prop, &mut out);
            std::fs::create_dir_all(outdir).expect("outdir");
            let mut f = std::io::BufWriter::new(std::fs::File::create(format!("{}/cases.txt", outdir)).unwrap());
            for c in &out.cases {
                writeln!(f, "{}", c).unwrap();
            }
            let mut f = std::io::BufWriter::new(std::fs::File::create(format!("{}/impl.txt", outdir)).unwrap());
            for c in &out.impls {
                writeln!(f, "{}", c).unwrap();
            }
            let mut f = std::io::BufWriter::new(std::fs::File::create(format!("{}/oracle.txt", outdir)).unwrap());
            for (i, m) in &out.oracle_fail {
                writeln!(f, "{}\t{}", i, m.replace('\n', " ")).unwrap();
            }
            let mut f = std::fs::File::create(format!("{}/stats.json", outdir)).unwrap();
            let stats: Vec<String> = out.stats.iter().map(|(k, v)| format!("{}: {}", json_str(k), v)).collect();
            let samples: Vec<String> = out.samples.iter().map(|s| json_str(s)).collect();
            writeln!(
                f,
                "{{\"evaluations\": {}, \"distinct_nontrivial\": {}, \"oracle_failures\": {}, \"rule\": {}, \"exhaustive_note\": {}, \"exhaustive\": {}, \"distribution\": {{{}}}, \"samples\": [{}]}}",
                out.cases.len(),
                out.nontrivial.len(),
                out.oracle_fail.len(),
                json_str(&out.rule),
                json_str(&out.exhaustive_note),
                out.exhaustive,
                stats.join(", "),
                samples.join(", ")
            )
            .unwrap();
        }
        _ => {
            eprintln!("usage: fdh impl | fdh gen PROP TIER SEED OUTDIR");
            std::process::exit(2);
        }
    }
}
