//! I/O, serial, ODK and port generators: C15–C18, C20.
use crate::util::*;
use crate::Out;

pub fn c15(_thorough: bool, _rng: &mut Rng, _out: &mut Out) {}
pub fn c16(_thorough: bool, _rng: &mut Rng, _out: &mut Out) {}
pub fn c17(_thorough: bool, _rng: &mut Rng, _out: &mut Out) {}
pub fn c18(_thorough: bool, _rng: &mut Rng, _out: &mut Out) {}
pub fn c20(_thorough: bool, _rng: &mut Rng, _out: &mut Out) {}
