//! I/O, serial, ODK and port generators and oracles: C15–C18, C20.
#![allow(dead_code)]

use flipdot_core::{Address, ChunkCount, Data, Frame, Message, MsgType, Offset, PageFlipStyle, SignType, State};

use super::vsign::{sd, tiny_cfg};
use super::{indep_dec, indep_enc, random_len, ADDRS};
use crate::util::*;
use crate::Out;

fn enc_nl(a: u16, t: u8, d: &[u8]) -> Vec<u8> {
    let mut v = indep_enc(a, t, d);
    v.extend_from_slice(b"\r\n");
    v
}

/// All compositions of `n` into positive parts, as lists of part sizes.
fn compositions(n: usize) -> Vec<Vec<usize>> {
    if n == 0 {
        return vec![vec![]];
    }
    let mut out = vec![];
    for mask in 0..(1u32 << (n - 1)) {
        let mut parts = vec![];
        let mut cur = 1;
        for i in 0..n - 1 {
            if mask & (1 << i) != 0 {
                parts.push(cur);
                cur = 1;
            } else {
                cur += 1;
            }
        }
        parts.push(cur);
        out.push(parts);
    }
    out
}

/// Expected results of `n` reads over an event list, simulated at byte granularity from the
/// statement of the property (line = up to and including the first LF; an error event inside a line
/// makes that read an I/O error; zero-length read ends the line).
fn expect_reads(n: usize, evs: &[String]) -> (Vec<String>, Vec<u8>) {
    #[derive(Clone)]
    enum E {
        B(u8),
        I,
        Err,
        Z,
    }
    let mut flat: Vec<E> = vec![];
    for e in evs {
        match e.as_str() {
            "i" | "n" => flat.push(E::I),
            "e" | "t" | "x" => flat.push(E::Err),
            s if s.starts_with("s:") => {}
            r if r.starts_with("r:") => {
                let (n, b) = r[2..].split_once(':').unwrap();
                for _ in 0..n.parse::<usize>().unwrap() {
                    flat.push(E::B(u8::from_str_radix(b, 16).unwrap()));
                }
            }
            "z" => flat.push(E::Z),
            d => {
                for b in parse_hex(&d[2..]).unwrap() {
                    flat.push(E::B(b));
                }
            }
        }
    }
    let mut pos = 0;
    let mut results = vec![];
    for _ in 0..n {
        let mut line: Vec<u8> = vec![];
        let mut io_err = false;
        while pos < flat.len() {
            let e = flat[pos].clone();
            pos += 1;
            match e {
                E::B(b) => {
                    line.push(b);
                    if b == b'\n' {
                        break;
                    }
                }
                E::I => {}
                E::Err => {
                    io_err = true;
                    break;
                }
                E::Z => break,
            }
        }
        results.push(if io_err { "err io".to_string() } else { indep_dec(&line) });
    }
    let rest: Vec<u8> = flat[pos..].iter().filter_map(|e| if let E::B(b) = e { Some(*b) } else { None }).collect();
    (results, rest)
}

fn read_case(out: &mut Out, n: usize, evs: Vec<String>, nt: bool) {
    let line = format!("io reads {} {}", n, evs.join(" ")).trim_end().to_string();
    let i = out.case(line, nt);
    let (res, rest) = expect_reads(n, &evs);
    let want = format!("{} | rest={}", res.join(" ; "), to_hex(&rest));
    if out.impls[i] != want {
        out.fail(i, format!("C15 Frame::read results / leftover bytes differ from 'one line per read': got '{}', expected '{}'", trunc(&out.impls[i]), trunc(&want)));
    }
    for r in res {
        out.stat(&format!("read.{}", r.split(' ').take(2).collect::<Vec<_>>().join(".")));
    }
}

fn trunc(s: &str) -> String {
    if s.len() > 160 {
        format!("{}…", &s[..160])
    } else {
        s.to_string()
    }
}

fn chunked(stream: &[u8], parts: &[usize]) -> Vec<String> {
    let mut v = vec![];
    let mut p = 0;
    for k in parts {
        v.push(format!("d:{}", hex_of(&stream[p..p + k])));
        p += k;
    }
    v
}

pub fn c15(thorough: bool, rng: &mut Rng, out: &mut Out) {
    out.rule = "Frame::read: every composition of a 13-byte (quick) / 16-byte (thorough) stream into read chunk sizes; every placement of <= 2 interrupts; a hard error / zero-length read at every call index; 1..3 frames followed by trailing bytes with random chunking and interrupts, read k+1 times; Frame::write: every composition of the 13-byte encoding into accepted sizes, interrupts, error / zero-length write at every index, random beyond; non-trivial = streams containing at least one complete valid frame line, or writes that must deliver a whole frame; distinct = distinct case line".into();
    out.exhaustive_note = "compositions, interrupt placements and error indices are enumerated completely for the short streams".into();
    let f0 = enc_nl(0x7F, 2, &[]); // 13 bytes
    // every composition of one frame (+ 3 trailing bytes in thorough)
    let mut stream = f0.clone();
    if thorough {
        stream.extend_from_slice(b"xyz");
    }
    for parts in compositions(stream.len()) {
        read_case(out, 2, chunked(&stream, &parts), true);
    }
    // interrupts: <= 2 placements among single-byte chunks of frame + trailing byte
    let mut s2 = f0.clone();
    s2.push(b'Q');
    let singles: Vec<String> = s2.iter().map(|b| format!("d:{:02X}", b)).collect();
    for i in 0..=singles.len() {
        for j in i..=singles.len() {
            let mut evs = singles.clone();
            evs.insert(j, "i".into());
            evs.insert(i, "i".into());
            read_case(out, 2, evs, true);
        }
        let mut evs = singles.clone();
        evs.insert(i, "i".into());
        read_case(out, 2, evs, true);
    }
    // a reader that itself uses the codec (reads, writes and decodes a frame on another stream) before answering,
    // at every call index: Frame::read must tolerate being re-entered on the same thread
    for i in 0..=singles.len() {
        let mut evs = singles.clone();
        evs.insert(i, "n".into());
        out.stat("read.nested-codec-use");
        read_case(out, 2, evs, true);
    }
    // tens of thousands of interrupted reads in a row at one position (more than any 16-bit retry counter holds)
    for at in [0usize, 5, 12] {
        let mut evs = singles.clone();
        for _ in 0..70_000 {
            evs.insert(at, "i".into());
        }
        out.stat("read.70000-interrupts-in-a-row");
        read_case(out, 2, evs, true);
    }
    // an error / zero read at every call index (`x`: an InvalidData error whose payload is the library's own
    // FrameError — still an I/O failure of the stream, not a verdict on a line)
    for kind in ["e", "z", "t", "x"] {
        for i in 0..=singles.len() {
            let mut evs = singles.clone();
            evs.insert(i, kind.into());
            read_case(out, 3, evs, true);
        }
    }
    // back-to-back frames + trailing bytes, random fragmentation
    let n = if thorough { 6000 } else { 600 };
    for _ in 0..n {
        let k = rng.range(1, 3) as usize;
        let mut stream: Vec<u8> = vec![];
        for _ in 0..k {
            let len = if rng.chance(70) { rng.range(0, 6) as usize } else { random_len(rng) };
            let d = rng.bytes(len);
            let mut f = enc_nl(rng.next() as u16, rng.byte(), &d);
            match rng.below(12) {
                0 => f = f.to_ascii_lowercase(),
                1 => {
                    let p = rng.below(f.len() as u64) as usize;
                    f[p] = rng.byte();
                }
                2 => {
                    // bare LF terminator
                    let l = f.len();
                    let _ = f.remove(l - 2);
                }
                _ => {}
            }
            stream.extend_from_slice(&f);
        }
        let tl = rng.below(6) as usize;
        stream.extend(rng.bytes(tl));
        let mut evs = vec![];
        let mut p = 0;
        while p < stream.len() {
            let c = (rng.range(1, 9) as usize).min(stream.len() - p);
            evs.push(format!("d:{}", hex_of(&stream[p..p + c])));
            p += c;
            if rng.chance(15) {
                evs.push("i".into());
            }
            if rng.chance(2) {
                evs.push("e".into());
            }
            if rng.chance(1) {
                evs.push("z".into());
            }
        }
        read_case(out, k + 1, evs, true);
    }
    // very short lines (the line feed within the first dozen bytes: empty lines, noise, truncated frames) followed
    // by a frame and trailing bytes, under every fragmentation into two reads and as single bytes: a read that
    // fetches a fixed-size head in bulk would run past the line feed
    for short in [&b"\n"[..], b"\r\n", b":\n", b"x\r\n", b":01\r\n", b":0100\n", b":010003\r\n", b":01000302\n", b":01000302F\n", b"0123456789\n", b"\n\n", b"\r\n\r\n"] {
        let mut stream = short.to_vec();
        stream.extend_from_slice(&f0);
        stream.extend_from_slice(b"tail");
        let nreads = 1 + short.iter().filter(|b| **b == b'\n').count() + 1;
        for cut in 0..=stream.len().min(16) {
            let evs: Vec<String> = if cut == 0 { vec![format!("d:{}", hex_of(&stream))] } else { vec![format!("d:{}", hex_of(&stream[..cut])), format!("d:{}", hex_of(&stream[cut..]))] };
            out.stat("read.short-line-then-frame");
            read_case(out, nreads, evs, true);
        }
        let singles2: Vec<String> = stream.iter().map(|b| format!("d:{:02X}", b)).collect();
        read_case(out, nreads, singles2, true);
    }
    // very long lines: line noise without a line feed, far longer than any frame, is still ONE line — it is
    // consumed through its line feed and the frame behind it is the next read's (a cap on the line buffer shows)
    let mut longs: Vec<usize> = vec![600, 4096, 65537];
    if thorough {
        longs.extend_from_slice(&[1 << 20, (1 << 20) + 5, (1 << 21) + 1, 1 << 24, (1 << 24) + 7]);
    } else {
        longs.push((1 << 20) + 5);
    }
    for n in longs {
        let mut evs: Vec<String> = vec![];
        let noise: Vec<u8> = (0..n).map(|i| { let b = (i as u32).wrapping_mul(2654435761).to_le_bytes()[2]; if b == 0x0A { 0x0B } else { b } }).collect();
        for c in noise.chunks(65536) {
            evs.push(format!("d:{}", hex_of(c)));
        }
        evs.push("d:0A".into());
        evs.push(format!("d:{}", hex_of(&f0)));
        evs.push("d:51".into());
        out.stat("read.very-long-line");
        read_case(out, 3, evs, true);
    }
    // ---- write
    let frames: Vec<(u16, u8, Vec<u8>)> = vec![(0x7F, 2, vec![]), (0xABCD, 0, vec![1, 2, 3])];
    for (a, t, d) in &frames {
        let w = enc_nl(*a, *t, d);
        let comps = if w.len() <= 13 || thorough { compositions(w.len().min(16)) } else { vec![] };
        for parts in comps {
            if parts.iter().sum::<usize>() != w.len() {
                continue;
            }
            let evs: Vec<String> = parts.iter().map(|k| format!("a:{}", k)).collect();
            write_case(out, *a, *t, d, evs);
        }
        for i in 0..=w.len() {
            for kind in ["e", "a:0", "i", "x"] {
                let mut evs: Vec<String> = (0..w.len()).map(|_| "a:1".to_string()).collect();
                evs.insert(i, kind.into());
                write_case(out, *a, *t, d, evs);
            }
        }
    }
    // every data length 0..=255 (a path chosen by the encoded size must not lose the terminator)
    for len in 0..=255usize {
        let d: Vec<u8> = (0..len).map(|i| (i * 7 + len) as u8).collect();
        write_case(out, 0x0102, 0x42, &d, vec![]);
        out.stat("write.every-length");
        if thorough || len % 8 == 2 {
            let w = enc_nl(0x0102, 0x42, &d);
            let evs: Vec<String> = (0..(w.len() + 6) / 7).map(|_| "a:7".to_string()).collect();
            write_case(out, 0x0102, 0x42, &d, evs);
        }
    }
    let n = if thorough { 4000 } else { 400 };
    for _ in 0..n {
        let len = random_len(rng);
        let d = rng.bytes(len);
        let mut evs = vec![];
        for _ in 0..rng.below(40) {
            evs.push(match rng.below(20) {
                0 => "e".to_string(),
                1 => "a:0".to_string(),
                2 | 3 | 4 => "i".to_string(),
                _ => format!("a:{}", rng.range(1, 40)),
            });
        }
        write_case(out, rng.next() as u16, rng.byte(), &d, evs);
    }
}

fn write_case(out: &mut Out, a: u16, t: u8, d: &[u8], evs: Vec<String>) {
    let line = format!("io write {:04X} {:02X} {} | {}", a, t, to_hex(d), evs.join(" ")).trim_end().to_string();
    let i = out.case(line, true);
    // expectation from the property: whole encoding delivered unless an error / zero write happens
    // while bytes remain
    let w = enc_nl(a, t, d);
    let mut left = w.len();
    let mut failed = false;
    for e in &evs {
        if left == 0 {
            break;
        }
        match e.as_str() {
            "i" => {}
            "e" | "a:0" | "x" => {
                failed = true;
                break;
            }
            x => left -= x[2..].parse::<usize>().unwrap().min(left),
        }
    }
    let delivered = if failed { &w[..w.len() - left] } else { &w[..] };
    let want = format!("{} {}", if failed { "err" } else { "ok" }, to_hex(delivered));
    out.stat(if failed { "write.err" } else { "write.ok" });
    if out.impls[i] != want {
        out.fail(i, format!("C15 Frame::write delivered / reported '{}', expected '{}'", trunc(&out.impls[i]), trunc(&want)));
    }
}

// ---------------------------------------------------------------------------------------------
// C16 / C18 serial bus

fn expects_reply(m: &Message<'_>) -> bool {
    matches!(m, Message::Hello(_) | Message::QueryState(_) | Message::RequestOperation(_, _))
}

fn msg_wire(m: &Message<'static>) -> Vec<u8> {
    let tok = show_msg(m);
    // independent of Frame::from: derive (addr, type, data) from the protocol table
    let p: Vec<&str> = tok.split(',').collect();
    const STATE_CODES: [u8; 13] = [0x0F, 0x0D, 0x07, 0x0C, 0x03, 0x01, 0x0B, 0x10, 0x13, 0x12, 0x11, 0x00, 0x08];
    const REQ_CODES: [u8; 6] = [0xA1, 0xA2, 0xA9, 0xAA, 0xA6, 0xA7];
    const ACK_CODES: [u8; 6] = [0x95, 0x91, 0x96, 0x97, 0x93, 0x94];
    let a = parse_u16(p[1]).unwrap();
    let (t, d): (u8, Vec<u8>) = match p[0] {
        "SD" => (0, parse_hex(p[2]).unwrap()),
        "CS" => (1, vec![]),
        "HE" => (2, vec![0xFF]),
        "QS" => (2, vec![0x00]),
        "GB" => (2, vec![0x55]),
        "RS" => (4, vec![STATE_CODES[p[2].parse::<usize>().unwrap()]]),
        "RO" => (3, vec![REQ_CODES[p[2].parse::<usize>().unwrap()]]),
        "AK" => (5, vec![ACK_CODES[p[2].parse::<usize>().unwrap()]]),
        "PC" => (6, vec![0x00]),
        _ => (parse_u8(p[2]).unwrap(), parse_hex(p[3]).unwrap()),
    };
    enc_nl(a, t, &d)
}

pub fn message_kinds(rng: &mut Rng, n_sd: usize) -> Vec<Message<'static>> {
    let mut v: Vec<Message<'static>> = vec![];
    for a in [0u16, 3, 0x7F, 0xFFFF, rng.next() as u16] {
        v.push(Message::Hello(Address(a)));
        v.push(Message::QueryState(Address(a)));
        v.push(Message::Goodbye(Address(a)));
        v.push(Message::PixelsComplete(Address(a)));
        v.push(Message::DataChunksSent(ChunkCount(a)));
    }
    for o in OPS {
        v.push(Message::RequestOperation(Address(rng.next() as u16), o));
        v.push(Message::AckOperation(Address(3), o));
    }
    for s in STATES {
        v.push(Message::ReportState(Address(rng.next() as u16), s));
    }
    v.push(Message::Unknown(Frame::new(Address(9), MsgType(0x42), Data::try_new(vec![1, 2]).unwrap())));
    v.push(Message::Unknown(Frame::new(Address(9), MsgType(2), Data::try_new(vec![0x77]).unwrap())));
    for k in 0..n_sd {
        let len = match k % 5 {
            0 => 0,
            1 => 1,
            2 => 16,
            3 => 255,
            _ => rng.range(2, 40) as usize,
        };
        v.push(sd(if k % 2 == 0 { 0 } else { (k * 16) as u16 }, &rng.bytes(len)));
    }
    v
}

fn reply_tapes(rng: &mut Rng) -> Vec<(String, Vec<u8>)> {
    let mut v: Vec<(String, Vec<u8>)> = vec![];
    for s in STATES {
        let m = Message::ReportState(Address(3), s);
        v.push((show_msg(&m), msg_wire(&m)));
    }
    for o in OPS {
        let m = Message::AckOperation(Address(3), o);
        v.push((show_msg(&m), msg_wire(&m)));
    }
    v.push(("UN,0009,42,0102".into(), enc_nl(9, 0x42, &[1, 2])));
    v.push(("SD,0000,AA".into(), enc_nl(0, 0, &[0xAA])));
    v.push(("err".into(), b":0100030\r\n".to_vec())); // malformed
    v.push(("err".into(), b":01000304FF00\r\n".to_vec())); // bad checksum
    v.push(("err".into(), vec![])); // nothing: timeout / end of stream
    v.push(("err".into(), b"\r\n".to_vec()));
    // near misses of a valid reply: white space (ASCII and Unicode) or a stray byte between the checksum and
    // the line feed, a doubled carriage return, leading blanks — none of them is a frame line
    let good = msg_wire(&Message::ReportState(Address(3), State::ConfigReceived));
    let body = &good[..good.len() - 2];
    for junk in [&b" "[..], b"\t", b"\r", b"\x0B", b"\x0C", b"  ", b"\xC2\x85", b"\xC2\xA0", b"\xE2\x80\xA8", b"\x00", b"\x1C"] {
        let mut t = body.to_vec();
        t.extend_from_slice(junk);
        t.extend_from_slice(b"\r\n");
        v.push(("err".into(), t));
        if junk != b"\r" {
            let mut t = body.to_vec();
            t.extend_from_slice(junk);
            t.extend_from_slice(b"\n");
            v.push(("err".into(), t));
        }
    }
    for lead in [&b" "[..], b"\t", b"\x00", b"\r"] {
        let mut t = lead.to_vec();
        t.extend_from_slice(&good);
        v.push(("err".into(), t));
    }
    // a sign or a blank where the leading zero of a pair was (`+3` is not a byte)
    for (pos, c) in [(1usize, b'+'), (3, b'+'), (5, b'+'), (3, b'-'), (5, b' '), (7, b'+')] {
        let mut t = good.clone();
        if t[pos] == b'0' {
            t[pos] = c;
            v.push(("err".into(), t));
        }
    }
    let _ = rng;
    v
}

fn serial_oracle(out: &mut Out, i: usize, m: &Message<'static>, want_reply: &str, extra: &[u8], write_fails: bool, read_err: bool) {
    let got = out.impls[i].clone();
    let wire = msg_wire(m);
    let exp = expects_reply(m);
    let want = if write_fails {
        None
    } else {
        let res = if exp {
            if read_err || want_reply == "err" {
                "err".to_string()
            } else {
                format!("ok {}", want_reply)
            }
        } else {
            "ok none".to_string()
        };
        Some(format!("W:{}:1{} => {}", hex_of(&wire), if exp { " R" } else { "" }, res))
    };
    match want {
        Some(w) => {
            if !got.starts_with(&w) {
                out.fail(i, format!("C16 serial exchange for {}: got '{}', expected '{}…'", trunc(&show_msg(m)), trunc(&got), trunc(&w)));
            } else if !read_err {
                // exactly one line was consumed: the extra bytes are still there
                let rest = got.rsplit("rest=").next().unwrap_or("");
                let want_rest = if exp { to_hex(extra) } else { String::new() };
                if exp && rest != want_rest {
                    out.fail(i, format!("C16 after the reply line the port has '{}' left, expected '{}'", rest, want_rest));
                }
            }
        }
        None => {
            if !got.contains("=> err") || got.contains(" R ") {
                out.fail(i, format!("C16 a failed write must be returned as an error without reading: '{}'", trunc(&got)));
            }
        }
    }
}

fn c16_every_length(thorough: bool, out: &mut Out) {
    // the bytes written must be exactly the frame with CRLF whatever the data length: unknown frames of every
    // length 0..=255 (not paced), and — thorough only, each costs the 30 ms pause — data chunks of every length
    for len in 0..=255usize {
        let d: Vec<u8> = (0..len).map(|i| (i * 5 + len) as u8).collect();
        let mut ms = vec![Message::Unknown(Frame::new(Address(0x0203), MsgType(0x42), Data::try_new(d.clone()).unwrap()))];
        if thorough {
            ms.push(sd((len as u16) * 16, &d));
        }
        for m in ms {
            let i = out.case(format!("serial {} | |", show_msg(&m)), true);
            out.stat("serial.every-length");
            serial_oracle(out, i, &m, "", &[], false, false);
        }
    }
}

/// Several exchanges on ONE bus object: whatever the bus keeps between calls (a reply buffer, the previous
/// message, leftover bytes) must not leak into the next exchange.
fn c16_multi(out: &mut Out) {
    let a = 3u16;
    let q = Message::QueryState(Address(a));
    let h = Message::Hello(Address(a));
    let r1 = Message::ReportState(Address(a), State::PageLoaded);
    let r2 = Message::AckOperation(Address(a), flipdot_core::Operation::ReceivePixels);
    let (w1, w2) = (msg_wire(&r1), msg_wire(&r2));
    let check = |out: &mut Out, line: String, want: Vec<String>| {
        let i = out.case(line, true);
        out.stat("serial.multi");
        let got = out.impls[i].clone();
        let parts: Vec<&str> = got.split(" ; ").collect();
        if parts.len() != want.len() {
            out.fail(i, format!("C16 multi-exchange run gave {} results, expected {}: {}", parts.len(), want.len(), trunc(&got)));
            return;
        }
        for (k, (p, w)) in parts.iter().zip(want.iter()).enumerate() {
            let res = p.split(" => ").nth(1).unwrap_or("").split(" rest=").next().unwrap_or("");
            if res != w {
                out.fail(i, format!("C16 exchange {} on the same bus object returned '{}', expected '{}' ({})", k + 1, res, w, trunc(&got)));
                return;
            }
        }
    };
    // a reply cut by a read error at every position, then a complete exchange
    for cut in 1..w1.len() {
        for kind in ["e", "t"] {
            let line = format!("serialm {} {} | d:{} {} d:{} |", show_msg(&q), show_msg(&h), hex_of(&w1[..cut]), kind, hex_of(&w2));
            check(out, line, vec!["err".into(), format!("ok {}", show_msg(&r2))]);
        }
    }
    // an undecodable reply, then a complete exchange
    check(out, format!("serialm {} {} | d:3A5A5A0D0A d:{} |", show_msg(&q), show_msg(&q), hex_of(&w1)), vec!["err".into(), format!("ok {}", show_msg(&r1))]);
    // two reply lines delivered in one burst: each exchange takes exactly one
    let mut both = w1.clone();
    both.extend_from_slice(&w2);
    check(out, format!("serialm {} {} | d:{} |", show_msg(&q), show_msg(&h), hex_of(&both)), vec![format!("ok {}", show_msg(&r1)), format!("ok {}", show_msg(&r2))]);
    // the same message twice: written twice
    let g = Message::Goodbye(Address(a));
    check(out, format!("serialm {} {} {} | d:{} |", show_msg(&g), show_msg(&g), show_msg(&q), hex_of(&w1)), vec!["ok none".into(), "ok none".into(), format!("ok {}", show_msg(&r1))]);
    let i = out.cases.len() - 1;
    let wire_g = hex_of(&msg_wire(&g));
    if out.impls[i].matches(&format!("W:{}:1", wire_g)).count() != 2 {
        let shown = out.impls[i].clone();
        out.fail(i, format!("C16 the same message sent twice was not written twice: {}", trunc(&shown)));
    }
    // a failed write, then a complete exchange
    check(out, format!("serialm {} {} | d:{} | e", show_msg(&q), show_msg(&h), hex_of(&w2)), vec!["err".into(), format!("ok {}", show_msg(&r2))]);
}

/// The reply line is the request's own frame (a two-wire adapter echoing the transmitter), followed by the sign's
/// real reply: the echo is a line like any other — it is the reply, and the real one stays in the port.
fn c16_echo(out: &mut Out) {
    let a = 3u16;
    let real = msg_wire(&Message::ReportState(Address(a), State::PageLoaded));
    let mut reqs: Vec<Message<'static>> = vec![Message::Hello(Address(a)), Message::QueryState(Address(a)), Message::Hello(Address(0xFFFF))];
    for o in OPS {
        reqs.push(Message::RequestOperation(Address(a), o));
    }
    for m in reqs {
        for lower in [false, true] {
            let mut echo = msg_wire(&m);
            if lower {
                echo = echo.to_ascii_lowercase();
            }
            for only_echo in [false, true] {
                let mut tape = echo.clone();
                if !only_echo {
                    tape.extend_from_slice(&real);
                }
                let i = out.case(format!("serial {} | d:{} |", show_msg(&m), hex_of(&tape)), true);
                out.stat("serial.echoed-request-as-reply");
                serial_oracle(out, i, &m, &show_msg(&m), if only_echo { &[] } else { &real }, false, false);
            }
        }
    }
}

pub fn c16(thorough: bool, rng: &mut Rng, out: &mut Out) {
    c16_every_length(thorough, out);
    c16_multi(out);
    c16_echo(out);
    if thorough {
        long_transfer_on_one_bus(out, "C16");
    }
    // a reply that ends without a line feed (end of stream), then more than five idle seconds, then the next exchange on
    // the same bus object: its reply is there and is returned
    {
        let a = 3u16;
        let q = Message::QueryState(Address(a));
        let r1 = msg_wire(&Message::ReportState(Address(a), State::PageLoaded));
        let r2 = msg_wire(&Message::ReportState(Address(a), State::PageShown));
        let line = format!("serialm {} {} | d:{} z s:5300 d:{} |", show_msg(&q), show_msg(&q), hex_of(&r1[..r1.len() - 2]), hex_of(&r2));
        let i = out.case(line, true);
        out.stat("serial.idle-after-unterminated-reply");
        let got = out.impls[i].clone();
        let parts: Vec<&str> = got.split(" ; ").collect();
        if parts.len() != 2 || !parts[0].contains("=> ok RS") || !parts[1].contains("=> ok RS") {
            out.fail(i, format!("C16 an exchange five idle seconds after a reply that ended without a line feed did not return the reply that was waiting: {}", trunc(&got)));
        }
    }
    // a reply that trickles in over six seconds (three pauses of two seconds, each shorter than the port's read
    // timeout): delivered in full and without error, it is the reply
    {
        let a = 3u16;
        let m = Message::QueryState(Address(a));
        let w = msg_wire(&Message::ReportState(Address(a), State::PageLoaded));
        let line = format!("serial {} | d:{} s:2000 d:{} s:2000 d:{} s:2100 d:{} |", show_msg(&m), hex_of(&w[..1]), hex_of(&w[1..5]), hex_of(&w[5..9]), hex_of(&w[9..]));
        let i = out.case(line, true);
        out.stat("serial.reply-trickling-in-over-6s");
        serial_oracle(out, i, &m, &show_msg(&Message::ReportState(Address(a), State::PageLoaded)), &[], false, false);
    }
    out.rule = "every message kind (hello / query / goodbye / pixels-complete / chunk count over 5 addresses, 6 requests, 6 acks, 13 reports, unknown frames, data chunks of length 0/1/16/255/random) x reply tapes; unknown frames of every data length 0..=255 (and data chunks of every length in the thorough tier) with no reply due; (13 states, 6 acks, unknown, data, malformed, bad checksum, empty, bare CRLF) each followed by extra bytes; a write failure at the first and at a later write call; a read failure; non-trivial = every case; distinct = distinct case line".into();
    out.exhaustive_note = "kinds x reply tapes complete for the listed parameter values; data chunk cases limited (each sleeps 30 ms)".into();
    let n_sd = if thorough { 40 } else { 10 };
    let kinds = message_kinds(rng, n_sd);
    let tapes = reply_tapes(rng);
    for m in &kinds {
        let exp = expects_reply(m);
        let is_sd = matches!(m, Message::SendData(..));
        let tsel: Vec<&(String, Vec<u8>)> = if exp {
            tapes.iter().collect()
        } else if is_sd {
            tapes.iter().take(1).collect()
        } else {
            tapes.iter().take(3).collect()
        };
        for (want_reply, tape) in tsel {
            let extra = [0xFFu8, b':', b'0'];
            let mut stream = tape.clone();
            let complete_line = stream.ends_with(b"\n");
            if complete_line {
                stream.extend_from_slice(&extra);
            }
            // fragment the tape
            let mut evs = vec![];
            let mut p = 0;
            while p < stream.len() {
                let c = (rng.range(1, 7) as usize).min(stream.len() - p);
                evs.push(format!("d:{}", hex_of(&stream[p..p + c])));
                p += c;
                if rng.chance(10) {
                    evs.push("i".into());
                }
            }
            let wr = if rng.chance(50) { "a:5 i a:3".to_string() } else { String::new() };
            let line = format!("serial {} | {} | {}", show_msg(m), evs.join(" "), wr).trim_end().to_string();
            let i = out.case(line, true);
            out.stat(&format!("serial.{}.{}", &show_msg(m)[..2], &want_reply[..2.min(want_reply.len())]));
            serial_oracle(out, i, m, want_reply, if complete_line { &extra } else { &[] }, false, false);
        }
        if is_sd && !thorough {
            continue;
        }
        // failures at the port
        let tape = msg_wire(&Message::ReportState(Address(3), State::Unconfigured));
        for wr in ["e", "a:4 e", "a:0", "a:2 i a:0"] {
            let line = format!("serial {} | d:{} | {}", show_msg(m), hex_of(&tape), wr);
            let i = out.case(line, true);
            out.stat("serial.write-failure");
            serial_oracle(out, i, m, "", &[], true, false);
        }
        if exp {
            for rd in ["e", "d:3A3031 e", "i i e", "t", "d:3A30 t", "i t"] {
                let line = format!("serial {} | {} |", show_msg(m), rd);
                let i = out.case(line, true);
                out.stat("serial.read-failure");
                serial_oracle(out, i, m, "", &[], false, true);
            }
        }
    }
}

pub fn c18(thorough: bool, rng: &mut Rng, out: &mut Out) {
    out.rule = "every message kind x every reply kind (13 states, 6 acks, unknown frame) on an instrumented port with a monotonic clock at the write / read boundaries; the gap after the last write (to the first read or to return) and after the last read (to return) is classified: >= the pacing delay = paced, minimum over up to 5 trials below half the delay = unpaced, otherwise ambiguous (reported); compared with the model's sleep events and with the property directly; non-trivial = every case; distinct = distinct case line".into();
    out.exhaustive_note = "message kinds x reply kinds complete; parameters sampled".into();
    let kinds = message_kinds(rng, if thorough { 12 } else { 5 });
    let tapes = reply_tapes(rng);
    let mut seen_kind: std::collections::HashSet<String> = std::collections::HashSet::new();
    for m in &kinds {
        let tok = show_msg(m);
        let kind = tok[..2].to_string();
        let exp = expects_reply(m);
        // one address per kind is enough for timing (except thorough)
        if !thorough && !matches!(m, Message::SendData(..)) && !seen_kind.insert(format!("{}{}", kind, if let Message::RequestOperation(_, o) = m { op_idx(*o) } else { 0 })) {
            continue;
        }
        let tsel: Vec<&(String, Vec<u8>)> = if exp { tapes.iter().take(20).collect() } else { tapes.iter().take(1).collect() };
        for (want_reply, tape) in tsel {
            let line = format!("serialt {} | d:{} |", tok, if tape.is_empty() { "0A".to_string() } else { hex_of(tape) });
            let i = out.case(line, true);
            let got = out.impls[i].clone();
            let paced_send = matches!(m, Message::SendData(..));
            let paced_recv = exp && (want_reply == "RS,0003,8" || want_reply == "RS,0003,10");
            let has30 = got.contains(" S:30");
            let has100 = got.contains(" S:100");
            out.stat(&format!("pace.{}.send{}.recv{}", kind, has30 as u8, has100 as u8));
            // a data chunk's 30 ms are owed before the NEXT write (measured by the multi-exchange cases below), not
            // necessarily before this call returns; any other message must not be held up by 30 ms
            if got.contains("S:?") && !paced_send {
                out.fail(i, format!("C18 ambiguous delay (neither clearly paced nor clearly unpaced): {}", trunc(&got)));
            } else if has30 && !paced_send {
                out.fail(i, format!("C18 30 ms pacing after the write: observed {}, required {} for {}", has30, paced_send, trunc(&tok)));
            } else if has100 != paced_recv {
                out.fail(i, format!("C18 100 ms pacing after the reply {}: observed {}, required {}", want_reply, has100, paced_recv));
            }
        }
    }
    // several exchanges on one bus object: the 30 ms are owed between the end of a data-chunk write and the NEXT
    // write (measured across calls, wherever the implementation chooses to wait), and every in-progress report is
    // followed by its own 100 ms, also the second and third in a row
    {
        let a = 3u16;
        let lp = Message::ReportState(Address(a), State::PageLoadInProgress);
        let sp = Message::ReportState(Address(a), State::PageShowInProgress);
        let pl = Message::ReportState(Address(a), State::PageLoaded);
        let q = Message::QueryState(Address(a));
        let cs = Message::DataChunksSent(ChunkCount(2));
        let d1 = sd(0, &[1u8; 16]);
        let d2 = sd(16, &[2u8; 16]);
        let d3 = sd(32, &[0u8; 5]);
        let runs: Vec<(Vec<Message<'static>>, Vec<Message<'static>>)> = vec![
            (vec![d1.clone(), d2.clone(), cs.clone()], vec![]),
            (vec![d1.clone(), q.clone()], vec![pl.clone()]),
            (vec![d3.clone(), d3.clone(), d1.clone(), cs.clone(), q.clone()], vec![lp.clone()]),
            (vec![q.clone(), q.clone(), q.clone()], vec![lp.clone(), lp.clone(), lp.clone()]),
            (vec![q.clone(), q.clone(), q.clone(), q.clone()], vec![sp.clone(), lp.clone(), sp.clone(), pl.clone()]),
            (vec![cs.clone(), q.clone(), cs.clone()], vec![pl.clone()]),
        ];
        // each run on a healthy port and on a port whose flush() fails (`F`): the library never needs flush, and a
        // version that calls it must not let its failure cancel the pause owed for a chunk that is already written
        let runs: Vec<(Vec<Message<'static>>, Vec<Message<'static>>, &str)> = runs.iter().cloned().map(|(m, r)| (m, r, "")).chain(runs.iter().cloned().map(|(m, r)| (m, r, " F"))).collect();
        for (msgs, replies, wr) in runs {
            let tape: Vec<u8> = replies.iter().flat_map(|r| msg_wire(r)).collect();
            let line = format!("serialmt {} | {} |{}", msgs.iter().map(show_msg).collect::<Vec<_>>().join(" "), if tape.is_empty() { "d:0A".to_string() } else { format!("d:{}", hex_of(&tape)) }, wr);
            let i = out.case(line, true);
            out.stat("pace.multi");
            let got = out.impls[i].clone();
            let parts: Vec<&str> = got.split(" ; ").collect();
            let mut ri = 0;
            for (k, m) in msgs.iter().enumerate() {
                let p = parts.get(k).copied().unwrap_or("");
                let is_sd = matches!(m, Message::SendData(..));
                let want_gap = is_sd && k + 1 < msgs.len();
                if p.contains("G:?") || p.contains("S:?") {
                    out.fail(i, format!("C18 ambiguous delay in exchange {}: {}", k + 1, trunc(&got)));
                    break;
                }
                if p.contains(" G:30") != want_gap {
                    out.fail(i, format!("C18 exchange {} ({}): 30 ms between the end of its write and the next write observed {}, required {}: {}", k + 1, &show_msg(m)[..2], p.contains(" G:30"), want_gap, trunc(&got)));
                    break;
                }
                // (with a failing flush an implementation may legitimately stop before reading: only the chunk pacing is judged)
                if expects_reply(m) && wr.is_empty() {
                    let paced = matches!(replies.get(ri), Some(Message::ReportState(_, State::PageLoadInProgress)) | Some(Message::ReportState(_, State::PageShowInProgress)));
                    ri += 1;
                    if p.contains(" S:100") != paced {
                        out.fail(i, format!("C18 exchange {}: 100 ms after the reply observed {}, required {}: {}", k + 1, p.contains(" S:100"), paced, trunc(&got)));
                        break;
                    }
                }
            }
        }
    }
    // the sign's reply in lower-case hex (the decoder accepts either case): an in-progress report is still one
    {
        let a = 3u16;
        for (addr, st, paced) in [(a, State::PageLoadInProgress, true), (0x0A0B, State::PageShowInProgress, true), (0xABCD, State::PageLoadInProgress, true), (0x0A0B, State::PageLoaded, false)] {
            let m = Message::QueryState(Address(addr));
            let tape = msg_wire(&Message::ReportState(Address(addr), st)).to_ascii_lowercase();
            let i = out.case(format!("serialt {} | d:{} |", show_msg(&m), hex_of(&tape)), true);
            out.stat("pace.lower-case-reply");
            let got = out.impls[i].clone();
            if got.contains(" S:100") != paced || !got.contains("=> ok RS") {
                out.fail(i, format!("C18 a lower-case {:?} report from {:04X}: 100 ms wait observed {}, required {}: {}", st, addr, got.contains(" S:100"), paced, trunc(&got)));
            }
        }
    }
    // the same pacing while the calling thread is unwinding from a panic (exchanges made from a destructor)
    {
        let a = 3u16;
        let lp = Message::ReportState(Address(a), State::PageLoadInProgress);
        let q = Message::QueryState(Address(a));
        let msgs = vec![sd(0, &[1u8; 16]), sd(16, &[2u8; 16]), q.clone(), Message::Goodbye(Address(a))];
        let tape = msg_wire(&lp);
        let line = format!("serialmtu {} | d:{} |", msgs.iter().map(show_msg).collect::<Vec<_>>().join(" "), hex_of(&tape));
        let i = out.case(line, true);
        out.stat("pace.while-unwinding");
        let got = out.impls[i].clone();
        let parts: Vec<&str> = got.split(" ; ").collect();
        if parts.len() != 4 || !parts[0].contains(" G:30") || !parts[1].contains(" G:30") || !parts[2].contains(" S:100") {
            out.fail(i, format!("C18 exchanges made while the thread unwinds from a panic: pacing missing: {}", trunc(&got)));
        }
    }
    // the same pacing while OTHER buses of the process come and go on another thread (a second master being opened and
    // closed, a pool of ports): whatever the library shares between bus objects must not cut a pause short
    for rep in 0..3 {
        let a = 3u16;
        let lp = Message::ReportState(Address(a), State::PageLoadInProgress);
        let q = Message::QueryState(Address(a));
        let msgs = vec![sd(0, &[1u8; 16]), sd(16, &[2u8; 16]), sd(32, &[3u8; 16]), q.clone(), Message::Goodbye(Address(a))];
        let tape = msg_wire(&lp);
        let line = format!("serialmtc {} | d:{} |", msgs.iter().map(show_msg).collect::<Vec<_>>().join(" "), hex_of(&tape));
        let i = out.case(line, true);
        out.stat("pace.other-buses-created-and-dropped-concurrently");
        let got = out.impls[i].clone();
        let parts: Vec<&str> = got.split(" ; ").collect();
        if parts.len() != 5 || !parts[0].contains(" G:30") || !parts[1].contains(" G:30") || !parts[2].contains(" G:30") || !parts[3].contains(" S:100") {
            out.fail(i, format!("C18 exchanges made while other buses are created and dropped on another thread (run {}): pacing missing: {}", rep, trunc(&got)));
        }
    }
    // a port that is a little slow ALL the time (every write takes 15 ms, every reply 40 ms to start): the pauses are
    // minimum gaps, not a cadence — time the port itself took does not count towards them
    {
        let a = 3u16;
        let lp = Message::ReportState(Address(a), State::PageLoadInProgress);
        let q = Message::QueryState(Address(a));
        let chunks: Vec<Message<'static>> = (0..4u16).map(|k| sd(16 * k, &[k as u8; 16])).collect();
        let runs: Vec<(u64, u64, Vec<Message<'static>>, Vec<Message<'static>>)> = vec![
            (15, 0, chunks.clone(), vec![]),
            (8, 0, chunks.clone(), vec![]),
            (0, 40, vec![q.clone(), q.clone(), q.clone()], vec![lp.clone(), lp.clone(), lp.clone()]),
            (10, 30, vec![chunks[0].clone(), q.clone(), chunks[1].clone(), q.clone()], vec![lp.clone(), lp.clone()]),
        ];
        for (wms, rms, msgs, replies) in runs {
            let tape: Vec<u8> = replies.iter().flat_map(|r| msg_wire(r)).collect();
            let line = format!("serialmte {} {} {} | {} |", wms, rms, msgs.iter().map(show_msg).collect::<Vec<_>>().join(" "), if tape.is_empty() { "d:0A".to_string() } else { format!("d:{}", hex_of(&tape)) });
            let i = out.case(line, true);
            out.stat("pace.port-slow-all-the-time");
            let got = out.impls[i].clone();
            let parts: Vec<&str> = got.split(" ; ").collect();
            let mut ri = 0;
            for (k, m) in msgs.iter().enumerate() {
                let p = parts.get(k).copied().unwrap_or("");
                let is_sd = matches!(m, Message::SendData(..));
                if is_sd && k + 1 < msgs.len() && !p.contains(" G:30") {
                    out.fail(i, format!("C18 port taking {} ms per write: exchange {} (a data chunk) was followed by the next write within 30 ms of its own write's end: {}", wms, k + 1, trunc(&got)));
                    break;
                }
                if expects_reply(m) {
                    let paced = matches!(replies.get(ri), Some(Message::ReportState(_, State::PageLoadInProgress)));
                    ri += 1;
                    if paced && !p.contains(" S:100") {
                        out.fail(i, format!("C18 sign taking {} ms to answer: exchange {} returned less than 100 ms after the in-progress report was read: {}", rms, k + 1, trunc(&got)));
                        break;
                    }
                }
            }
        }
    }
    // slow port: the write of a data chunk blocks for longer than the 30 ms pause, and the sign takes
    // longer than the 100 ms wait to answer with an in-progress report; the pauses are owed *after* the
    // write / read completes, whatever time the call itself took
    let a = 3u16;
    let slow: Vec<(Message<'static>, Option<Message<'static>>, u64, u64)> = vec![
        (Message::SendData(Offset(0), Data::try_new(vec![1u8; 16]).unwrap()), None, 45, 0),
        (Message::SendData(Offset(16), Data::try_new(vec![2u8; 3]).unwrap()), None, 80, 0),
        (Message::QueryState(Address(a)), Some(Message::ReportState(Address(a), State::PageLoadInProgress)), 0, 130),
        (Message::Hello(Address(a)), Some(Message::ReportState(Address(a), State::PageShowInProgress)), 0, 250),
        (Message::RequestOperation(Address(a), flipdot_core::Operation::ShowLoadedPage), Some(Message::ReportState(Address(a), State::PageShowInProgress)), 40, 120),
        (Message::QueryState(Address(a)), Some(Message::ReportState(Address(a), State::PageLoaded)), 40, 120),
    ];
    for (m, reply, wms, rms) in slow {
        let tape = match &reply {
            Some(r) => {
                let mut t = Frame::from(r.clone()).to_bytes_with_newline();
                t.truncate(t.len());
                hex_of(&t)
            }
            None => "0A".to_string(),
        };
        let is_chunk = matches!(m, Message::SendData(..));
        let i = if is_chunk {
            out.case(format!("serialmts {} {} {} {} | d:{} |", wms, rms, show_msg(&m), show_msg(&Message::DataChunksSent(ChunkCount(1))), tape), true)
        } else {
            out.case(format!("serialts {} {} {} | d:{} |", wms, rms, show_msg(&m), tape), true)
        };
        out.stat("pace.slowport");
        let got = out.impls[i].clone().replace(" G:30", " S:30").replace("G:?", "S:?");
        let paced_send = matches!(m, Message::SendData(..));
        let paced_recv = matches!(reply, Some(Message::ReportState(_, State::PageLoadInProgress)) | Some(Message::ReportState(_, State::PageShowInProgress)));
        if got.contains(" S:30") != paced_send || got.contains("S:?") {
            out.fail(i, format!("C18 slow port (write blocks {} ms): 30 ms pause after the completed write observed {}, required {}: {}", wms, got.contains(" S:30"), paced_send, trunc(&got)));
        } else if got.contains(" S:100") != paced_recv {
            out.fail(i, format!("C18 slow sign (reply after {} ms): 100 ms wait after the completed read observed {}, required {}: {}", rms, got.contains(" S:100"), paced_recv, trunc(&got)));
        }
    }
}

// ---------------------------------------------------------------------------------------------
// C20 port set-up

/// Every kind of error a refusing device call can return (serial_core::ErrorKind::{NoDevice, InvalidInput,
/// Io(Interrupted | TimedOut | Other | WouldBlock | PermissionDenied)}) at every configuration call, for both
/// constructors and the direct call, over a sample of prior settings: the constructor must return the error.
fn c20_error_kinds(thorough: bool, out: &mut Out) {
    let priors = ["0,1,2,1,1", "7,3,0,0,0", "6,2,1,1,2", "o0,0,2,1,1", "10,3,0,1,0", "3,1,1,0,2"];
    let mut kinds: Vec<char> = vec!['n', 'v', 'i', 't', 'o', 'w', 'p'];
    kinds.extend((0..crate::iomock::IO_KINDS.len()).map(|k| (b'A' + k as u8) as char));
    for kind in kinds {
        for fail in ["read", "baud", "write", "timeout"] {
            for entry in ["serial", "odk", "cfg:1234"] {
                for (k, prior) in priors.iter().enumerate() {
                    if !thorough && k >= 2 && kind != 'i' {
                        continue;
                    }
                    let i = out.case(format!("port {} {} {}:{}", entry, prior, fail, kind), true);
                    out.stat(&format!("port.errkind.{}", kind));
                    let got = out.impls[i].clone();
                    if !got.starts_with("err ") {
                        out.fail(i, format!("C20 the port refused {} (error kind {}) but the constructor did not return an error: '{}'", fail, kind, got));
                    }
                }
            }
        }
    }
}

/// The full cross product prior settings (1008) x error kind (29) x refusing call (4): a refusal is an error whatever
/// the port looked like before and whatever the kind (quick: the bus constructor; thorough: all three entry points).
fn c20_cross_product(thorough: bool, out: &mut Out) {
    let mut bauds: Vec<String> = (0..11).map(|b| b.to_string()).collect();
    bauds.extend(["o0".to_string(), "o19200".to_string(), "o4000000".to_string()]);
    let mut kinds: Vec<char> = vec!['n', 'v', 'i', 't', 'o', 'w', 'p'];
    kinds.extend((0..crate::iomock::IO_KINDS.len()).map(|k| (b'A' + k as u8) as char));
    let entries: &[&str] = if thorough { &["serial", "odk", "cfg:777"] } else { &["serial"] };
    for b in &bauds {
        for c in 0..4 {
            for p in 0..3 {
                for s in 0..2 {
                    for f in 0..3 {
                        for &kind in &kinds {
                            for fail in ["read", "baud", "write", "timeout"] {
                                for entry in entries {
                                    let i = out.case(format!("port {} {},{},{},{},{} {}:{}", entry, b, c, p, s, f, fail, kind), true);
                                    out.stat("port.cross-product");
                                    if !out.impls[i].starts_with("err ") {
                                        let got = out.impls[i].clone();
                                        out.fail(i, format!("C20 the port (prior settings {},{},{},{},{}) refused {} with error kind {} but the constructor did not return an error: '{}'", b, c, p, s, f, fail, kind, got));
                                    }
                                }
                            }
                        }
                    }
                }
            }
        }
    }
}

/// The caller's timeout is applied as given: zero, a nanosecond, just under a millisecond, odd fractions, hours,
/// the largest value a u64 of nanoseconds can express.
fn c20_timeouts(out: &mut Out) {
    for ns in [0u64, 1, 999, 1_000, 999_999, 1_000_000, 1_000_001, 1_500_000, 999_999_999, 1_000_000_000, 5_000_000_001, 3_600_000_000_000, u64::MAX / 2, u64::MAX] {
        for prior in ["0,1,2,1,1", "7,3,0,0,0"] {
            let i = out.case(format!("port cfgn:{} {} never", ns, prior), true);
            out.stat("port.caller-timeout");
            let want = format!("ok 7,3,0,0,0 {}ns", ns);
            if out.impls[i] != want {
                let got = out.impls[i].clone();
                out.fail(i, format!("C20 configure_port with a caller timeout of {} ns left the port as '{}', expected '{}'", ns, got, want));
            }
        }
    }
}

pub fn c20(thorough: bool, rng: &mut Rng, out: &mut Out) {
    // every way of obtaining a bus or a bridge sets its port up: constructors that come from traits (`Default`,
    // `From<port>`) are probed for at compile time and, where the library as built has one, held to the same result
    for which in ["odk-default", "serial-default", "serial-from", "odk-from"] {
        let i = out.case(format!("portctor {}", which), true);
        out.stat("port.trait-constructors");
        if out.impls[i] != "fine" {
            let got = out.impls[i].clone();
            out.fail(i, format!("C20 a transport object obtained through {} holds a port that was never set up: '{}'", which, got));
        }
    }
    c20_error_kinds(thorough, out);
    c20_timeouts(out);
    // a settings object that cannot name the device's current state (every getter returns None): all five fields are
    // still written
    for prior in ["n7,3,0,0,1", "n7,3,0,0,2", "n0,1,2,1,1", "no0,0,1,1,2", "n7,3,0,0,0"] {
        for entry in ["serial", "odk", "cfg:250"] {
            let i = out.case(format!("port {} {} never", entry, prior), true);
            out.stat("port.getters-return-none");
            if !out.impls[i].starts_with("ok 7,3,0,0,0 ") {
                let got = out.impls[i].clone();
                out.fail(i, format!("C20 on a port whose settings object cannot name its prior state ({}) set-up left '{}'", prior, got));
            }
        }
    }
    c20_cross_product(thorough, out);
    out.rule = "every prior PortSettings value (11 standard baud rates + BaudOther{0,19200,4000000} x 4 character sizes x 3 parities x 2 stop bits x 3 flow controls = 1008) x failure injected at read_settings / set_baud_rate / write_settings / set_timeout / nowhere x {SerialSignBus::try_new, Odk::try_new, configure_port with a caller timeout}; plus every error kind (NoDevice, InvalidInput, Io Interrupted / TimedOut / Other / WouldBlock / PermissionDenied) at every failure point for a sample of prior settings; non-trivial = every case; distinct = distinct case line".into();
    out.exhaustive_note = "thorough: the product prior settings x failure points x entry points is enumerated completely; quick skips two thirds of the failure cases of the non-default entry points".into();
    out.exhaustive = thorough;
    let mut bauds: Vec<String> = (0..11).map(|b| b.to_string()).collect();
    bauds.extend(["o0".to_string(), "o19200".to_string(), "o4000000".to_string()]);
    // speeds that equal 19200 only modulo 2^16 / 2^32 (a comparison in a narrower integer must not take them for it)
    bauds.extend([format!("o{}", (1u64 << 32) + 19200), format!("o{}", (3u64 << 32) + 19200), format!("o{}", (1u64 << 16) + 19200)]);
    let t = rng.range(1, 60_000);
    let cfg_kind = format!("cfg:{}", t);
    for b in &bauds {
        for c in 0..4 {
            for p in 0..3 {
                for s in 0..2 {
                    for f in 0..3 {
                        for fail in ["never", "read", "baud", "write", "timeout"] {
                            for kind in ["serial", "odk", cfg_kind.as_str()] {
                                if !thorough && kind != "serial" && fail != "never" && (c + p + s + f) % 3 != 0 {
                                    continue;
                                }
                                let i = out.case(format!("port {} {},{},{},{},{} {}", kind, b, c, p, s, f, fail), true);
                                out.stat(&format!("port.{}.{}", &kind[..3], fail));
                                let got = out.impls[i].clone();
                                if fail == "never" {
                                    let tm = match kind {
                                        "serial" => 5000,
                                        "odk" => 10000,
                                        _ => t,
                                    };
                                    let want = format!("ok 7,3,0,0,0 {}", tm);
                                    if got != want {
                                        out.fail(i, format!("C20 port after set-up is '{}', expected 19200 8N1 no flow control with timeout {} ms ('{}')", got, tm, want));
                                    }
                                } else if !got.starts_with("err ") {
                                    out.fail(i, format!("C20 the port refused {} but the constructor did not return an error: '{}'", fail, got));
                                }
                            }
                        }
                    }
                }
            }
        }
    }
}

// ---------------------------------------------------------------------------------------------
// C17 transparency

fn small_pages(rng: &mut Rng, t: SignType, n: usize) -> String {
    let (w, h) = t.dimensions();
    if n == 0 {
        return "-".into();
    }
    (0..n)
        .map(|k| {
            let mut p = flipdot_core::Page::new(flipdot_core::PageId(k as u8), w, h);
            for _ in 0..4 {
                p.set_pixel(rng.below(w as u64) as u32, rng.below(h as u64) as u32, true);
            }
            format!("h:{}", to_hex(p.as_bytes()))
        })
        .collect::<Vec<_>>()
        .join(";")
}

pub fn c17(thorough: bool, rng: &mut Rng, out: &mut Out) {
    out.rule = "operation sequences (configure / configure-if-needed, send 0..2 pages, show, load-next, send again, shut down, reconfigure as another type; also towards an absent address and after prior traffic) run twice on identical virtual buses: through Sign -> SerialSignBus -> in-memory byte pipe -> Odk -> VirtualSignBus and directly on the VirtualSignBus; per-operation success and the final state / type / pages of every sign must agree, and both must agree with the model (runVia / runOn); plus raw valid / unknown / invalid lines injected at the bridge; non-trivial = every case; distinct = distinct case line".into();
    out.exhaustive_note = "sampling; the paced path sleeps 30 ms per chunk so sizes are kept small in quick".into();
    // small sign types first: Dash30x7 (3 chunks/page), Rear23x10 (4), Rear30x10 (4), Side90x7 (6)
    let types: Vec<usize> = if thorough { (0..11).collect() } else { vec![5, 4, 3] };
    let reps = if thorough { 3 } else { 3 };
    for rep in 0..reps {
        for &ti in &types {
            let t = TYPES[ti];
            let style = if rng.chance(50) { "M" } else { "A" };
            let a: u16 = if rng.chance(50) { rng.range(1, 120) as u16 } else { rng.next() as u16 };
            let at = format!("{:04X},{}", a, ti);
            let two = rng.chance(50);
            let signs = if two { format!("{},{:04X};M,{:04X}", style, a, a ^ 0x0100) } else { format!("{},{:04X}", style, a) };
            // prior traffic
            let mut prior: Vec<Message<'static>> = vec![];
            match rng.below(4) {
                0 => {}
                1 => prior.push(Message::RequestOperation(Address(a), flipdot_core::Operation::ReceiveConfig)),
                2 => {
                    prior.push(Message::RequestOperation(Address(a), flipdot_core::Operation::ReceiveConfig));
                    prior.push(sd(0, &tiny_cfg(5, 7, false)));
                    prior.push(Message::DataChunksSent(ChunkCount(1)));
                    prior.push(Message::RequestOperation(Address(a), flipdot_core::Operation::ReceivePixels));
                    prior.push(sd(0, &[1u8; 16]));
                }
                _ => prior.push(Message::RequestOperation(Address(a), flipdot_core::Operation::StartReset)),
            }
            let ptoks: Vec<String> = prior.iter().map(show_msg).collect();
            let np = if thorough { rng.below(3) as usize } else { 1 };
            let pages1 = small_pages(rng, t, np);
            let first = if rep % 2 == 0 { "cfg" } else { "cfn" };
            let mut ops = format!("{},{},- snd,{},{} shw,{},- nxt,{},-", first, at, at, pages1, at, at);
            if thorough || rep == 0 {
                ops.push_str(&format!(" snd,{},{} off,{},-", at, small_pages(rng, t, 1), at));
            }
            // an operation towards an address nobody has
            ops.push_str(&format!(" shw,{:04X},{},-", a ^ 0x5555, ti));
            let tail = format!("{} {} | {}", signs, ptoks.join(" "), ops).replace("  ", " ");
            let i1 = out.case(format!("e2e serial {}", tail), true);
            let i2 = out.case(format!("e2e direct {}", tail), true);
            out.stat(&format!("e2e.type{}", ti));
            let (s, d) = (out.impls[i1].clone(), out.impls[i2].clone());
            let ps: Vec<&str> = s.split(" | ").collect();
            let pd: Vec<&str> = d.split(" | ").collect();
            if ps.len() != 2 || pd.len() != 2 {
                out.fail(i1, format!("C17 run incomplete: serial '{}' direct '{}'", trunc(&s), trunc(&d)));
                continue;
            }
            let succ = |x: &str| -> Vec<bool> { x.split(' ').map(|t| t.starts_with("ok")).collect() };
            if succ(ps[0]) != succ(pd[0]) {
                out.fail(i1, format!("C17 success over the wire {:?} differs from success directly on the bus {:?}", ps[0], pd[0]));
            } else if ps[1] != pd[1] {
                out.fail(i1, format!("C17 virtual signs end up different: over the wire {} / directly {}", ps[1], pd[1]));
            }
            // successful calls also return the same value (flip style)
            for (x, y) in ps[0].split(' ').zip(pd[0].split(' ')) {
                if x.starts_with("ok") && x != y {
                    out.fail(i1, format!("C17 result over the wire {} differs from direct {}", x, y));
                }
            }
        }
    }
    // raw lines at the bridge
    let n = if thorough { 3000 } else { 400 };
    for _ in 0..n {
        let a = 3u16;
        let mut prior: Vec<String> = vec![];
        if rng.chance(50) {
            prior.push(format!("RO,{:04X},0", a));
        }
        let mut stream: Vec<u8> = vec![];
        let k = rng.range(1, 3) as usize;
        let mut expect: Vec<Option<bool>> = vec![]; // Some(valid)
        for _ in 0..k {
            let (line, valid): (Vec<u8>, bool) = match rng.below(9) {
                6 => {
                    // well-shaped line with a wrong checksum (one flipped bit in a real frame)
                    let mut f = enc_nl(a, 3, &[0xA1]);
                    let l = f.len();
                    f[l - 3] = if f[l - 3] == b'0' { b'1' } else { b'0' };
                    (f, false)
                }
                7 => {
                    // well-shaped line whose length field disagrees with its data
                    let mut f = enc_nl(a, 2, &[0x00]);
                    f[2] = b'2';
                    (f, false)
                }
                8 => (if rng.chance(50) { b"\r\n".to_vec() } else {
                    // a well-formed line with the leading 0 of a pair replaced by a sign or a blank
                    let mut f = enc_nl(a, 2, &[0xFF]);
                    let p = 1 + 2 * (rng.below(((f.len() - 3) / 2) as u64) as usize);
                    if f[p] == b'0' {
                        f[p] = *rng.pick(&[b'+', b'-', b' ']);
                        f
                    } else {
                        b"\r\n".to_vec()
                    }
                }, false),
                0 => (b":01000302XX\r\n".to_vec(), false),
                1 => {
                    let mut f = enc_nl(a, 2, &[0xFF]);
                    let p = rng.below((f.len() - 2) as u64) as usize;
                    f[p] = b'#';
                    (f, false)
                }
                2 => (enc_nl(rng.next() as u16, rng.range(7, 255) as u8, &rng.bytes(2)), true),
                3 => (enc_nl(a, 2, &[0xFF]), true),
                4 => (enc_nl(a, 2, &[0x00]), true),
                _ => (enc_nl(a ^ 1, 2, &[0xFF]), true),
            };
            stream.extend_from_slice(&line);
            expect.push(Some(valid));
        }
        let wr = if rng.chance(10) { "e" } else { "" };
        let line = format!("odk {} M,{:04X};A,{:04X} {} | d:{} | {}", k, a, a + 9, prior.join(" "), hex_of(&stream), wr).replace("  ", " ").trim_end().to_string();
        let i = out.case(line, true);
        let got = out.impls[i].clone();
        let parts: Vec<&str> = got.split(" | ").collect();
        if parts.len() != 3 {
            out.fail(i, format!("C17 bridge run incomplete: {}", trunc(&got)));
            continue;
        }
        for (r, e) in parts[0].split(" ; ").zip(expect.iter()) {
            out.stat(&format!("odk.{}", r.split(' ').next().unwrap_or("")));
            if *e == Some(false) && !r.starts_with("comm w=-") {
                out.fail(i, format!("C17 a line the bridge cannot decode must be a communication error with nothing written: '{}'", r));
            }
            if *e == Some(true) && wr.is_empty() && !r.starts_with("ok") {
                out.fail(i, format!("C17 a decodable line must be forwarded: '{}'", r));
            }
        }
    }
    // an unterminated fragment (the line ends in end-of-stream, a timeout or a hard error instead of a line feed)
    // is a communication error; the NEXT line is then forwarded as if nothing had happened (nothing is kept)
    {
        let a = 3u16;
        let hello = enc_nl(a, 2, &[0xFF]);
        for frag in [&b":01000302"[..], b":0100", b"\x00\xFF~", b":", b":01000302FFFB", b"\r"] {
            for sep in ["z", "t", "e"] {
                for split in [false, true] {
                    let fr = if split && frag.len() > 1 { format!("d:{} d:{}", hex_of(&frag[..1]), hex_of(&frag[1..])) } else { format!("d:{}", hex_of(frag)) };
                    let line = format!("odk 2 M,{:04X};A,{:04X} | {} {} d:{} |", a, a + 9, fr, sep, hex_of(&hello));
                    let i = out.case(line, true);
                    out.stat("odk.fragment-then-line");
                    let got = out.impls[i].clone();
                    let parts: Vec<&str> = got.split(" | ").collect();
                    let rs_: Vec<&str> = parts.first().map(|p| p.split(" ; ").collect()).unwrap_or_default();
                    // a complete valid frame that merely lacks its line feed at end-of-stream decodes (from_bytes accepts it)
                    let first_ok = frag == &b":01000302FFFB"[..] && sep == "z";
                    if rs_.len() != 2 || (!first_ok && !rs_[0].starts_with("comm w=-")) || !rs_[1].starts_with("ok w=3A") {
                        out.fail(i, format!("C17 after an unterminated fragment the next line must be forwarded and answered: '{}'", trunc(&got)));
                    }
                }
            }
        }
    }
    // frames of every data length 0..=255 at the bridge, each followed by a line that must be answered: the longest
    // legal line (255 data bytes, 523 bytes on the wire) is one line like any other; and line noise of every length
    // around that size (and far beyond) is exactly one undecodable line
    {
        let a = 3u16;
        let hello = enc_nl(a, 2, &[0xFF]);
        for len in 0..=255usize {
            if !thorough && len > 20 && len < 240 && len % 16 != 0 {
                continue;
            }
            for ty in [0u8, 0x42] {
                let d: Vec<u8> = (0..len).map(|i| (i * 11 + len) as u8).collect();
                let mut stream = enc_nl(0x0100, ty, &d);
                stream.extend_from_slice(&hello);
                let line = format!("odk 3 M,{:04X};A,{:04X} | d:{} |", a, a + 9, hex_of(&stream));
                let i = out.case(line, true);
                out.stat("odk.every-length-then-line");
                let got = out.impls[i].clone();
                let parts: Vec<&str> = got.split(" | ").collect();
                let rs_: Vec<&str> = parts.first().map(|p| p.split(" ; ").collect()).unwrap_or_default();
                if rs_.len() != 3 || !rs_[0].starts_with("ok w=-") || !rs_[1].starts_with("ok w=3A") {
                    out.fail(i, format!("C17 a {}-byte frame followed by a query: the frame must be forwarded silently and the query answered next: '{}'", len, trunc(&got)));
                }
            }
        }
        let mut noise_lens: Vec<usize> = (505..=540).collect();
        noise_lens.extend_from_slice(&[1, 100, 1000, 1042, 1046, 5000, 70000]);
        for n in noise_lens {
            for colon in [false, true] {
                let mut stream: Vec<u8> = (0..n).map(|i| b"0123456789ABCDEF"[(i * 7 + n) % 16]).collect();
                if colon {
                    stream[0] = b':';
                }
                stream.extend_from_slice(b"\r\n");
                stream.extend_from_slice(&hello);
                let line = format!("odk 3 M,{:04X};A,{:04X} | d:{} |", a, a + 9, hex_of(&stream));
                let i = out.case(line, true);
                out.stat("odk.noise-length-then-line");
                let got = out.impls[i].clone();
                let parts: Vec<&str> = got.split(" | ").collect();
                let rs_: Vec<&str> = parts.first().map(|p| p.split(" ; ").collect()).unwrap_or_default();
                if rs_.len() != 3 || !rs_[0].starts_with("comm w=-") || !rs_[1].starts_with("ok w=3A") {
                    out.fail(i, format!("C17 {} bytes of line noise then a query: one communication error, then the query answered: '{}'", n, trunc(&got)));
                }
            }
        }
    }
    // a line identical to the reply the bridge has just written (an echo, or a sign-side frame injected on the bus)
    // is a frame like any other: forwarded (the virtual bus ignores it), and the following query is answered by
    // the NEXT call
    {
        let a = 3u16;
        let hello = enc_nl(a, 2, &[0xFF]);
        let query = enc_nl(a, 2, &[0x00]);
        for st in [State::Unconfigured] {
            let rep = msg_wire(&Message::ReportState(Address(a), st));
            for (first, second) in [(hello.clone(), rep.clone()), (query.clone(), rep.clone()), (hello.clone(), rep.to_ascii_lowercase())] {
                let mut stream = first.clone();
                stream.extend_from_slice(&second);
                stream.extend_from_slice(&query);
                let i = out.case(format!("odk 3 M,{:04X};A,{:04X} | d:{} |", a, a + 9, hex_of(&stream)), true);
                out.stat("odk.line-equal-to-own-last-reply");
                let got = out.impls[i].clone();
                let parts: Vec<&str> = got.split(" | ").collect();
                let rs_: Vec<&str> = parts.first().map(|p| p.split(" ; ").collect()).unwrap_or_default();
                if rs_.len() != 3 || !rs_[0].starts_with("ok w=3A") || !rs_[1].starts_with("ok w=-") || !rs_[2].starts_with("ok w=3A") {
                    out.fail(i, format!("C17 a line equal to the bridge's own last reply must be forwarded like any frame, and the next query answered by the next call: '{}'", trunc(&got)));
                }
            }
        }
    }
    // (thorough) a 16 MiB line of noise directly followed — on the same line — by a well-formed frame: one
    // undecodable line, one communication error, nothing forwarded; the bridge's next call finds the stream empty
    if thorough {
        let a = 3u16;
        let hello = enc_nl(a, 2, &[0xFF]);
        for n in [1usize << 24, (1 << 24) + 5] {
            let line = format!("odk 2 M,{:04X};A,{:04X} | r:{}:41 d:{} |", a, a + 9, n, hex_of(&hello));
            let i = out.case(line, true);
            out.stat("odk.16MiB-line-with-frame-tail");
            let got = out.impls[i].clone();
            let parts: Vec<&str> = got.split(" | ").collect();
            let rs_: Vec<&str> = parts.first().map(|p| p.split(" ; ").collect()).unwrap_or_default();
            if rs_.len() != 2 || !rs_[0].starts_with("comm w=-") || !rs_[1].starts_with("comm w=-") {
                out.fail(i, format!("C17 a {}-byte line ending in a well-formed frame is ONE undecodable line: '{}'", n, trunc(&got)));
            }
        }
    }
    long_transfer_on_one_bus(out, "C17");
    let _ = (ADDRS, PageFlipStyle::Manual, Offset(0));
}

/// One uninterrupted transfer of more than 64 KiB through ONE bus object (260 data frames of 255 bytes, about 8 s of
/// pacing), then the chunk count and a query: byte or chunk tallies kept by the transport must not give out.
pub fn long_transfer_on_one_bus(out: &mut Out, prop: &str) {
    let a = 3u16;
    let mut msgs: Vec<String> = vec![show_msg(&Message::RequestOperation(Address(a), flipdot_core::Operation::ReceivePixels))];
    for k in 0..260usize {
        let d: Vec<u8> = (0..255usize).map(|i| (i * 3 + k) as u8).collect();
        msgs.push(show_msg(&sd(0, &d)));
    }
    msgs.push(show_msg(&Message::DataChunksSent(ChunkCount(260))));
    msgs.push(show_msg(&Message::QueryState(Address(a))));
    let mut tape = msg_wire(&Message::AckOperation(Address(a), flipdot_core::Operation::ReceivePixels));
    tape.extend_from_slice(&msg_wire(&Message::ReportState(Address(a), State::PixelsReceived)));
    let i = out.case(format!("serialm {} | d:{} |", msgs.join(" "), hex_of(&tape)), true);
    out.stat("serial.transfer-over-64KiB-on-one-bus");
    let got = out.impls[i].clone();
    let parts: Vec<&str> = got.split(" ; ").collect();
    let bad = parts.iter().position(|p| !p.contains("=> ok"));
    if parts.len() != 263 || bad.is_some() {
        out.fail(i, format!("{} a 66 300-byte transfer through one serial bus object: {} exchanges reported, first failing exchange {:?}", prop, parts.len(), bad.map(|b| b + 1)));
    }
}
