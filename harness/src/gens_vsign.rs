//! Virtual sign / bus generators: C12–C14.
use crate::util::*;
use crate::Out;

pub fn c12(_thorough: bool, _rng: &mut Rng, _out: &mut Out) {}
pub fn c13(_thorough: bool, _rng: &mut Rng, _out: &mut Out) {}
pub fn c14(_thorough: bool, _rng: &mut Rng, _out: &mut Out) {}
