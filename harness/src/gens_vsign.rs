//! Virtual sign / bus generators and oracles: C12–C14.
#![allow(dead_code)]

use std::collections::{HashMap, HashSet, VecDeque};

use flipdot_core::{Address, ChunkCount, Data, Message, Offset, Operation, Page, PageFlipStyle, PageId, SignBus, SignType, State};
use flipdot_testing::{VirtualSign, VirtualSignBus};

use crate::implside::{hash_pages, show_reply, show_sign};
use crate::util::*;
use crate::Out;

// ---------------------------------------------------------------------------------------------
// The documented sign-side state machine, written as a spec (oracle for C13).

#[derive(Clone, Debug)]
pub struct SpecSign {
    pub addr: u16,
    pub style: PageFlipStyle,
    pub state: State,
    pub pages: Vec<(u32, u32, Vec<u8>)>,
    pub pending: Vec<u8>,
    pub accepted: u64,
    pub w: u32,
    pub h: u32,
    pub ty: Option<SignType>,
}

fn total_bytes(w: u32, h: u32) -> usize {
    let data = 4 + w as usize * ((h as usize + 7) / 8);
    (data + 15) / 16 * 16
}

impl SpecSign {
    pub fn new(addr: u16, style: PageFlipStyle) -> Self {
        SpecSign {
            addr,
            style,
            state: State::Unconfigured,
            pages: vec![],
            pending: vec![],
            accepted: 0,
            w: 0,
            h: 0,
            ty: None,
        }
    }
    fn blank(&mut self) {
        self.state = State::Unconfigured;
        self.pages.clear();
        self.pending.clear();
        self.accepted = 0;
        self.w = 0;
        self.h = 0;
        self.ty = None;
    }
    /// A buffered page is stored only if it is a complete page of the configured size.
    fn close_page(&mut self) {
        if !self.pending.is_empty() {
            let d = std::mem::take(&mut self.pending);
            if self.w > 0 && self.h > 0 && d.len() == total_bytes(self.w, self.h) {
                self.pages.push((self.w, self.h, d));
            }
        }
    }
    fn legal(&self, op: Operation) -> bool {
        use State::*;
        match op {
            Operation::ReceiveConfig => matches!(self.state, Unconfigured | ConfigFailed),
            Operation::ReceivePixels => matches!(
                self.state,
                ConfigReceived | PixelsFailed | PageLoaded | PageLoadInProgress | PageShown | PageShowInProgress | ShowingPages
            ),
            Operation::ShowLoadedPage => self.state == PageLoaded,
            Operation::LoadNextPage => self.state == PageShown,
            Operation::StartReset => true,
            Operation::FinishReset => self.state == ReadyToReset,
            _ => false,
        }
    }
    pub fn step(&mut self, m: &Message<'_>) -> Option<Message<'static>> {
        use State::*;
        match m {
            Message::Hello(Address(a)) | Message::QueryState(Address(a)) if *a == self.addr => {
                let s = self.state;
                if s == PageLoadInProgress {
                    self.state = PageLoaded;
                }
                if s == PageShowInProgress {
                    self.state = PageShown;
                }
                Some(Message::ReportState(Address(self.addr), s))
            }
            Message::RequestOperation(Address(a), op) if *a == self.addr => {
                if !self.legal(*op) {
                    return None;
                }
                match op {
                    Operation::ReceiveConfig => self.state = ConfigInProgress,
                    Operation::ReceivePixels => {
                        self.state = PixelsInProgress;
                        self.pages.clear();
                    }
                    Operation::ShowLoadedPage => self.state = PageShowInProgress,
                    Operation::LoadNextPage => self.state = PageLoadInProgress,
                    Operation::StartReset => {
                        self.state = ReadyToReset;
                        self.pending.clear();
                        self.accepted = 0;
                    }
                    Operation::FinishReset => self.blank(),
                    _ => {}
                }
                Some(Message::AckOperation(Address(self.addr), *op))
            }
            Message::SendData(Offset(off), data) => {
                let d = data.get();
                if self.state == ConfigInProgress {
                    if *off == 0 && d.len() == 16 {
                        let dims = match d[0] {
                            4 => Some((d[5] as u32 + d[6] as u32 + d[7] as u32 + d[8] as u32, d[4] as u32)),
                            8 => Some((d[7] as u32, d[5] as u32)),
                            _ => None,
                        };
                        if let Some((w, h)) = dims {
                            self.w = w;
                            self.h = h;
                            self.ty = TYPES.iter().cloned().find(|t| t.to_bytes()[0] == d[0] && t.to_bytes()[1] == d[1]);
                            self.accepted += 1;
                        }
                    }
                } else if self.state == PixelsInProgress {
                    if *off == 0 {
                        self.close_page();
                    }
                    self.pending.extend_from_slice(d);
                    self.accepted += 1;
                }
                None
            }
            Message::DataChunksSent(ChunkCount(n)) => {
                let ok = self.accepted == *n as u64;
                match self.state {
                    ConfigInProgress => self.state = if ok { ConfigReceived } else { ConfigFailed },
                    PixelsInProgress => self.state = if ok { PixelsReceived } else { PixelsFailed },
                    _ => {}
                }
                self.close_page();
                self.accepted = 0;
                None
            }
            Message::PixelsComplete(Address(a)) if *a == self.addr => {
                if self.state == PixelsReceived {
                    self.state = match self.style {
                        PageFlipStyle::Automatic => ShowingPages,
                        PageFlipStyle::Manual => PageLoaded,
                    };
                }
                None
            }
            Message::Goodbye(Address(a)) if *a == self.addr => {
                self.blank();
                None
            }
            _ => None,
        }
    }
    pub fn obs(&self) -> String {
        let t = match self.ty {
            Some(t) => type_idx(t).to_string(),
            None => "-".to_string(),
        };
        let mut h = FNV_INIT;
        for (w, hh, b) in &self.pages {
            h = fnv_nat(h, *w as u64);
            h = fnv_nat(h, *hh as u64);
            h = fnv_nat(h, b.len() as u64);
            for x in b {
                h = fnv_byte(h, *x);
            }
        }
        format!("{}/{}/{}/{}", state_idx(self.state), t, self.pages.len(), h)
    }
}

// ---------------------------------------------------------------------------------------------
// message construction helpers

pub fn sd(off: u16, d: &[u8]) -> Message<'static> {
    Message::SendData(Offset(off), Data::try_new(d.to_vec()).unwrap())
}

/// A configuration block that makes a virtual sign w x h (w <= 255*4, h <= 255).
pub fn tiny_cfg(w: u32, h: u32, horizon: bool) -> Vec<u8> {
    let mut d = vec![0u8; 16];
    if horizon {
        d[0] = 8;
        d[1] = 0xEE;
        d[7] = w as u8;
        d[5] = h as u8;
    } else {
        d[0] = 4;
        d[1] = 0xEE;
        d[4] = h as u8;
        let mut rest = w;
        for i in 5..9 {
            let x = rest.min(255);
            d[i] = x as u8;
            rest -= x;
        }
    }
    d
}

fn is_receiving(s: State) -> bool {
    s == State::ConfigInProgress || s == State::PixelsInProgress
}

/// One guided random walk; returns the messages.  `bus` is the real implementation, used only to
/// steer towards protocol-legal moves.
struct Walker<'r> {
    rng: &'r mut Rng,
    addrs: Vec<u16>,
    dims: HashMap<u16, (u32, u32)>,
}

impl<'r> Walker<'r> {
    fn page_chunks(&mut self, w: u32, h: u32) -> Vec<Message<'static>> {
        let mut p = Page::new(PageId(self.rng.byte()), w, h);
        if w > 0 && h > 0 {
            for _ in 0..self.rng.below(6) {
                let x = self.rng.below(w as u64) as u32;
                let y = self.rng.below(h as u64) as u32;
                p.set_pixel(x, y, true);
            }
        }
        p.as_bytes().chunks(16).enumerate().map(|(i, c)| sd((i * 16) as u16, c)).collect()
    }

    fn arbitrary(&mut self) -> Message<'static> {
        let a = if self.rng.chance(70) { *self.rng.pick(&self.addrs) } else { self.rng.next() as u16 };
        match self.rng.below(14) {
            0 => Message::Hello(Address(a)),
            1 => Message::QueryState(Address(a)),
            2 => Message::RequestOperation(Address(a), *self.rng.pick(&OPS)),
            3 => Message::AckOperation(Address(a), *self.rng.pick(&OPS)),
            4 => Message::ReportState(Address(a), *self.rng.pick(&STATES)),
            5 => Message::PixelsComplete(Address(a)),
            6 => {
                if self.rng.chance(30) {
                    Message::Goodbye(Address(a))
                } else {
                    Message::QueryState(Address(a))
                }
            }
            7 => Message::DataChunksSent(ChunkCount(self.rng.below(8) as u16)),
            8 => {
                // arbitrary 16-byte configuration block
                let mut d = self.rng.bytes(16);
                if self.rng.chance(70) {
                    d[0] = if self.rng.chance(50) { 4 } else { 8 };
                }
                if self.rng.chance(30) {
                    for i in 5..9 {
                        d[i] = 200 + (self.rng.below(56) as u8);
                    }
                }
                sd(0, &d)
            }
            9 => {
                let len = match self.rng.below(5) {
                    0 => 0,
                    1 => 16,
                    2 => 255,
                    _ => self.rng.range(0, 40),
                } as usize;
                let off = if self.rng.chance(50) { 0 } else { (self.rng.below(8) * 16) as u16 };
                { let b = self.rng.bytes(len); sd(off, &b) }
            }
            10 => {
                let n = self.rng.below(4) as usize;
                let ty = self.rng.range(7, 255) as u8;
                Message::Unknown(flipdot_core::Frame::new(Address(a), flipdot_core::MsgType(ty), Data::try_new(self.rng.bytes(n)).unwrap()))
            }
            11 => Message::RequestOperation(Address(a), Operation::StartReset),
            12 => Message::RequestOperation(Address(a), Operation::ReceivePixels),
            _ => Message::RequestOperation(Address(a), Operation::ReceiveConfig),
        }
    }

    /// Protocol-legal continuation for the sign at `a` currently in `state`; may be several messages.
    fn legal(&mut self, a: u16, state: State, true_count: u16) -> Vec<Message<'static>> {
        use State::*;
        let ad = Address(a);
        match state {
            Unconfigured | ConfigFailed => vec![Message::RequestOperation(ad, Operation::ReceiveConfig)],
            ConfigInProgress => {
                let (cfg, dims) = match self.rng.below(4) {
                    0 => {
                        let t = *self.rng.pick(&TYPES);
                        (t.to_bytes().to_vec(), t.dimensions())
                    }
                    1 => {
                        let (w, h) = (self.rng.range(1, 12) as u32, self.rng.range(1, 8) as u32);
                        (tiny_cfg(w, h, false), (w, h))
                    }
                    2 => {
                        let (w, h) = (self.rng.range(1, 28) as u32, self.rng.range(1, 16) as u32);
                        (tiny_cfg(w, h, true), (w, h))
                    }
                    _ => {
                        let (w, h) = (self.rng.range(0, 3) as u32, self.rng.range(0, 9) as u32);
                        (tiny_cfg(w, h, self.rng.chance(50)), (w, h))
                    }
                };
                let _ = self.dims.insert(a, dims);
                let count = match self.rng.below(10) {
                    0 => true_count,
                    1 => true_count.wrapping_add(2),
                    _ => true_count.wrapping_add(1),
                };
                vec![sd(0, &cfg), Message::DataChunksSent(ChunkCount(count))]
            }
            ConfigReceived | PixelsFailed => vec![Message::RequestOperation(ad, Operation::ReceivePixels)],
            PixelsInProgress => {
                let (w, h) = *self.dims.get(&a).unwrap_or(&(2, 8));
                let npages = self.rng.range(0, 3);
                let mut v = vec![];
                let mut n = true_count;
                for _ in 0..npages {
                    let mut chunks = self.page_chunks(w, h);
                    // faults: lost / short / extra / duplicated-first chunk
                    match self.rng.below(12) {
                        0 if chunks.len() > 1 => {
                            let k = self.rng.below(chunks.len() as u64) as usize;
                            let _ = chunks.remove(k);
                        }
                        1 => {
                            let k = self.rng.below(chunks.len() as u64) as usize;
                            if let Message::SendData(o, d) = &chunks[k] {
                                let dd = d.get().to_vec();
                                let cut = self.rng.below(dd.len() as u64 + 1) as usize;
                                chunks[k] = Message::SendData(*o, Data::try_new(dd[..cut].to_vec()).unwrap());
                            }
                        }
                        2 => { let b = self.rng.bytes(16); chunks.push(sd((chunks.len() * 16) as u16, &b)) }
                        3 => {
                            let k = self.rng.below(chunks.len() as u64) as usize;
                            let c = chunks[0].clone();
                            chunks.insert(k, c);
                        }
                        _ => {}
                    }
                    n = n.wrapping_add(chunks.len() as u16);
                    v.extend(chunks);
                }
                let count = match self.rng.below(10) {
                    0 => n.wrapping_sub(1),
                    1 => n.wrapping_add(1),
                    _ => n,
                };
                v.push(Message::DataChunksSent(ChunkCount(count)));
                v
            }
            PixelsReceived => vec![Message::PixelsComplete(ad)],
            PageLoaded => {
                if self.rng.chance(60) {
                    vec![Message::RequestOperation(ad, Operation::ShowLoadedPage)]
                } else {
                    vec![Message::RequestOperation(ad, Operation::ReceivePixels)]
                }
            }
            PageShown => {
                if self.rng.chance(60) {
                    vec![Message::RequestOperation(ad, Operation::LoadNextPage)]
                } else {
                    vec![Message::RequestOperation(ad, Operation::ReceivePixels)]
                }
            }
            PageLoadInProgress | PageShowInProgress => vec![Message::QueryState(ad)],
            ShowingPages => vec![Message::RequestOperation(ad, Operation::ReceivePixels)],
            ReadyToReset => vec![Message::RequestOperation(ad, Operation::FinishReset)],
            _ => vec![Message::QueryState(ad)],
        }
    }
}

/// Drive a bus with a guided walk, checking the per-message oracles of `prop`.
/// Returns (case line, first oracle failure).
fn guided_walk(prop: &str, rng: &mut Rng, signs: &[(PageFlipStyle, u16)], steps: usize, out: &mut Out) -> (String, Option<String>) {
    let mut bus = VirtualSignBus::new(signs.iter().map(|(st, a)| VirtualSign::new(Address(*a), *st)));
    let mut specs: Vec<SpecSign> = signs.iter().map(|(st, a)| SpecSign::new(*a, *st)).collect();
    let mut counts: Vec<u16> = vec![0; signs.len()]; // chunks we believe each sign accepted (steering only)
    let addrs: Vec<u16> = signs.iter().map(|s| s.1).collect();
    let mut line = format!(
        "vbus {}",
        signs.iter().map(|(st, a)| format!("{},{:04X}", style_tok(*st), a)).collect::<Vec<_>>().join(";")
    );
    let mut failure: Option<String> = None;
    let mut n = 0usize;
    let mut w = Walker {
        rng,
        addrs: addrs.clone(),
        dims: HashMap::new(),
    };
    let mut dead = false;
    // every sign also lives alone: a stand-alone copy is fed every message of the walk and must stay
    // identical to its twin on the bus (isolation = each sign behaves as if it were alone)
    let mut alone: Vec<VirtualSign<'static>> = signs.iter().map(|(st, a)| VirtualSign::new(Address(*a), *st)).collect();
    while n < steps && !dead {
        let k = w.rng.below(signs.len() as u64) as usize;
        let msgs: Vec<Message<'static>> = if w.rng.chance(70) {
            let st = bus.sign(k).state();
            w.legal(addrs[k], st, counts[k])
        } else {
            vec![w.arbitrary()]
        };
        // now and then the same messages arrive undecoded: `Unknown` wrapping the very frame the message would travel
        // in (what a relay that does not interpret traffic hands on) — to a sign that is an unknown message: ignored
        let msgs: Vec<Message<'static>> = if w.rng.chance(8) {
            msgs.into_iter().map(|m| if matches!(m, Message::Unknown(_)) { m } else { Message::Unknown(flipdot_core::Frame::from(m)) }).collect()
        } else {
            msgs
        };
        for m in msgs {
            n += 1;
            line.push(' ');
            line.push_str(&show_msg(&m));
            let before: Vec<String> = (0..signs.len()).map(|i| show_sign(bus.sign(i))).collect();
            let before_state: Vec<State> = (0..signs.len()).map(|i| bus.sign(i).state()).collect();
            let solo: Vec<VirtualSign<'_>> = (0..signs.len()).map(|i| bus.sign(i).clone()).collect();
            let r = guarded(|| bus.process_message(m.clone()));
            let r = match r {
                Some(Ok(r)) => r,
                _ => {
                    out.stat("walk.impl-panic");
                    if failure.is_none() {
                        failure = Some(format!("C12 virtual sign panicked on message #{} {}", n, show_msg(&m)));
                    }
                    dead = true;
                    break;
                }
            };
            let after: Vec<String> = (0..signs.len()).map(|i| show_sign(bus.sign(i))).collect();
            out.stat(&format!("walk.state{}.{}", state_idx(before_state[k]), &show_msg(&m)[..2]));
            // steering bookkeeping
            for i in 0..signs.len() {
                match &m {
                    Message::SendData(..) if is_receiving(before_state[i]) => counts[i] = counts[i].wrapping_add(1),
                    Message::DataChunksSent(_) => counts[i] = 0,
                    _ => {}
                }
                if !is_receiving(bus.sign(i).state()) {
                    counts[i] = 0;
                }
            }
            // C13: spec machine. The bus offers the message to signs in order and stops at the first reply.
            let mut spec_reply: Option<Message<'static>> = None;
            for s in specs.iter_mut() {
                let rr = s.step(&m);
                if rr.is_some() {
                    spec_reply = rr;
                    break;
                }
            }
            if prop == "C13" && failure.is_none() {
                if show_reply(&spec_reply) != show_reply(&r) {
                    failure = Some(format!("C13 message #{} {}: sign replied {}, the documented state machine replies {}", n, show_msg(&m), show_reply(&r), show_reply(&spec_reply)));
                }
                for i in 0..signs.len() {
                    if specs[i].obs() != after[i] {
                        failure = Some(format!("C13 after message #{} {}: sign {} is {} (state/type/pages/hash), the documented state machine says {}", n, show_msg(&m), i, after[i], specs[i].obs()));
                        break;
                    }
                }
                // stored pages are complete pages of the configured size
                for i in 0..signs.len() {
                    for p in bus.sign(i).pages() {
                        if p.as_bytes().len() != total_bytes(p.width(), p.height()) {
                            failure = Some("C13 stored page is not a complete page".into());
                        }
                    }
                }
            }
            if prop == "C14" {
                for (i, t) in alone.iter_mut().enumerate() {
                    let _ = guarded(|| t.process_message(&m));
                    if failure.is_none() && show_sign(t) != after[i] {
                        failure = Some(format!(
                            "C14 after message #{} {}: the sign at {:04X} on the bus is {} but the same sign alone, given the same messages, is {}",
                            n,
                            &show_msg(&m)[..show_msg(&m).len().min(40)],
                            addrs[i],
                            after[i],
                            show_sign(t)
                        ));
                    }
                }
            }
            if prop == "C14" && failure.is_none() {
                let target = match &m {
                    Message::Hello(Address(a))
                    | Message::QueryState(Address(a))
                    | Message::RequestOperation(Address(a), _)
                    | Message::PixelsComplete(Address(a))
                    | Message::Goodbye(Address(a))
                    | Message::ReportState(Address(a), _)
                    | Message::AckOperation(Address(a), _) => Some(*a),
                    _ => None,
                };
                match target {
                    Some(a) => {
                        for i in 0..signs.len() {
                            if addrs[i] != a && before[i] != after[i] {
                                failure = Some(format!("C14 message {} addressed to {:04X} changed the sign at {:04X}: {} -> {}", show_msg(&m), a, addrs[i], before[i], after[i]));
                            }
                        }
                        match addrs.iter().position(|x| *x == a) {
                            None => {
                                if r.is_some() {
                                    failure = Some(format!("C14 message {} for an absent address got the reply {}", show_msg(&m), show_reply(&r)));
                                }
                            }
                            Some(i) => {
                                let mut s = solo[i].clone();
                                let alone = guarded(|| s.process_message(&m)).unwrap_or(None);
                                if show_reply(&alone) != show_reply(&r) {
                                    failure = Some(format!("C14 reply to {} on the bus is {}, the addressed sign alone replies {}", show_msg(&m), show_reply(&r), show_reply(&alone)));
                                }
                                if let Some(rr) = &r {
                                    let ra = match rr {
                                        Message::ReportState(Address(x), _) | Message::AckOperation(Address(x), _) => Some(*x),
                                        _ => None,
                                    };
                                    if ra != Some(a) {
                                        failure = Some(format!("C14 reply {} to {} does not carry the addressed sign's address", show_reply(&r), show_msg(&m)));
                                    }
                                }
                            }
                        }
                    }
                    None => {
                        // unaddressed (data / unknown): only receiving signs may change; nobody replies
                        for i in 0..signs.len() {
                            if !is_receiving(before_state[i]) && before[i] != after[i] {
                                failure = Some(format!("C14 unaddressed {} changed the sign at {:04X}, which was not receiving (state {}): {} -> {}", &show_msg(&m)[..7.min(show_msg(&m).len())], addrs[i], state_idx(before_state[i]), before[i], after[i]));
                            }
                        }
                        if r.is_some() {
                            failure = Some(format!("C14 unaddressed message got the reply {}", show_reply(&r)));
                        }
                    }
                }
            }
        }
    }
    let _ = hash_pages;
    (line, failure)
}

/// The same walk on a bus that is rebuilt from clones of its signs at a few points, and on a bus built from signs
/// that were driven directly through a prefix of the walk (case `i` is the plain walk `vline`).
fn walk_variants(prop: &str, rng: &mut Rng, out: &mut Out, vline: &str, i: usize, nsigns: usize) {
    let signs: Vec<()> = vec![(); nsigns];
        // the same walk on a bus that is rebuilt from clones of its signs at a few points, and on a bus built
        // from signs that were driven directly through a prefix of the walk: a bus is nothing but its signs,
        // so every observation must be the same (state kept by the bus object itself would be lost here)
        let toks: Vec<&str> = vline.split(' ').collect();
        let msgs = &toks[2..];
        if msgs.len() >= 2 {
            let mut with_rebuild: Vec<String> = toks[..2].iter().map(|t| t.to_string()).collect();
            let mut cuts: Vec<usize> = (0..1 + rng.below(3)).map(|_| rng.below(msgs.len() as u64) as usize).collect();
            cuts.sort();
            for (k, m) in msgs.iter().enumerate() {
                if cuts.contains(&k) {
                    with_rebuild.push("#rebuild".into());
                }
                with_rebuild.push(m.to_string());
            }
            let j = out.case(with_rebuild.join(" "), true);
            out.stat("vbus.rebuilt-from-clones");
            if out.impls[j].replace("!solo-differs", "") != out.impls[i].replace("!solo-differs", "") {
                out.fail(j, format!("{} rebuilding the bus from clones of its signs changed what the signs do", if prop == "C12" { "C13" } else { prop }));
            }
            let k = 1 + rng.below(msgs.len() as u64 - 1) as usize;
            let mut pre: Vec<String> = toks[..2].iter().map(|t| t.to_string()).collect();
            for m in &msgs[..k] {
                for si in 0..signs.len() {
                    pre.push(format!("@{}:{}", si, m));
                }
            }
            for m in &msgs[k..] {
                pre.push(m.to_string());
            }
            let j = out.case(pre.join(" "), true);
            out.stat("vbus.built-from-driven-signs");
            let orig: Vec<&str> = out.impls[i].split(' ').collect();
            let got: Vec<&str> = out.impls[j].split(' ').collect();
            if !out.impls[i].contains("PANIC") && !out.impls[j].contains("!solo") && (orig.len() < k || got != orig[k..]) {
                out.fail(j, format!("{} a bus built from signs that were driven directly behaves differently from the bus that saw the same messages", if prop == "C12" { "C13" } else { prop }));
            }
        }
}

fn run_walks(prop: &str, rng: &mut Rng, out: &mut Out, nwalks: usize, steps: usize, max_signs: u64) {
    for _ in 0..nwalks {
        let ns = 1 + rng.below(max_signs) as usize;
        let mut addrs: Vec<u16> = vec![];
        while addrs.len() < ns {
            let a = match rng.below(4) {
                0 => *rng.pick(&[0u16, 1, 3, 0xFFFF, 0x8000]),
                1 => rng.next() as u16,
                _ => rng.range(2, 9) as u16,
            };
            if !addrs.contains(&a) {
                addrs.push(a);
            }
        }
        let signs: Vec<(PageFlipStyle, u16)> = addrs
            .iter()
            .map(|a| (if rng.chance(50) { PageFlipStyle::Manual } else { PageFlipStyle::Automatic }, *a))
            .collect();
        let (line, failure) = guided_walk(prop, rng, &signs, steps, out);
        let variants = rng.chance(34);
        let vline = line.clone();
        let i = out.case(line, true);
        if variants {
            walk_variants(prop, rng, out, &vline, i, signs.len());
        }
        if out.impls[i].contains("PANIC") {
            out.fail(i, "C12 a virtual sign / bus panicked (see case)".into());
        } else if out.impls[i].contains("!solo") {
            out.fail(i, "C13 VirtualSign driven directly differs from the same sign on a one-sign bus".into());
        }
        if let Some(f) = failure {
            if !f.starts_with("C12") || !out.impls[i].contains("PANIC") {
                out.fail(i, f);
            }
        }
    }
}

/// Crash histories confirmed on the pinned tree (DESIGN.md §7); always run first.
pub fn crash_corpus() -> Vec<String> {
    let cfg90 = to_hex(SignType::Max3000Side90x7.to_bytes());
    let chunk = "00".repeat(16);
    let mut v = vec![];
    // F2(a): 5 of 6 chunks then DataChunksSent(5)
    let mut l = format!("vbus M,0003 RO,0003,0 SD,0000,{} CS,0001 RO,0003,1", cfg90);
    for i in 0..5 {
        l.push_str(&format!(" SD,{:04X},{}", i * 16, chunk));
    }
    l.push_str(" CS,0005 QS,0003");
    v.push(l);
    // F2(d): two offset-0 chunks in a row
    v.push(format!("vbus M,0003 RO,0003,0 SD,0000,{} CS,0001 RO,0003,1 SD,0000,{} SD,0000,{} CS,0002 QS,0003", cfg90, chunk, chunk));
    // F3: Max3000 block with width bytes 200,100
    v.push(format!("vbus M,0003 RO,0003,0 SD,0000,{} CS,0001 QS,0003", to_hex(&[4, 0xEE, 0, 7, 0x10, 200, 100, 0, 0, 8, 0, 0, 0, 0, 0, 0])));
    // F5: transfer abandoned by StartReset, then a chunk count meant for anyone
    let mut l = format!("vbus M,0003 RO,0003,0 SD,0000,{} CS,0001 RO,0003,1", cfg90);
    for i in 0..6 {
        l.push_str(&format!(" SD,{:04X},{}", i * 16, chunk));
    }
    l.push_str(" RO,0003,4 CS,0063 QS,0003");
    v.push(l);
    v
}

pub fn c12(thorough: bool, rng: &mut Rng, out: &mut Out) {
    out.rule = "crash corpus first; then guided random walks on buses of 1..3 virtual signs (70% protocol-legal continuation incl. whole pages with lost / short / extra / repeated-first chunks and wrong counts, 30% arbitrary messages incl. data of length 0..=255, arbitrary and overflowing configuration blocks, foreign addresses); thorough adds a 70000-chunk transfer; non-trivial = every walk (all reach past configuration attempts); distinct = distinct case line".into();
    out.exhaustive_note = "sampling only; the unbounded claim is the Lean theorem vstep_no_panic".into();
    for l in crash_corpus() {
        let i = out.case(l, true);
        if out.impls[i].contains("PANIC") {
            out.fail(i, "C12 a virtual sign panicked on a recorded crash history".into());
        }
    }
    let (nw, steps) = if thorough { (60_000, 150) } else { (1_500, 60) };
    run_walks("C12", rng, out, nw, steps, 3);
    extreme_geometries("C12", thorough, out);
    many_pages("C12", thorough, out);
    // configuration blocks that keep a type's code and geometry bytes and carry extreme values everywhere else
    for t in TYPES {
        for fill in [0xFFu8, 0x00, 0x80, 0x7F] {
            let base = t.to_bytes();
            let mut b = vec![fill; 16];
            b[0] = base[0];
            b[1] = base[1];
            if base[0] == 4 {
                for k in 4..9 {
                    b[k] = base[k];
                }
            } else {
                b[5] = base[5];
                b[7] = base[7];
            }
            let (w, h) = t.dimensions();
            let page = Page::new(PageId(1), w, h);
            let mut line = format!("vbus M,0005 RO,0005,0 SD,0000,{} CS,0001 QS,0005 RO,0005,1", to_hex(&b));
            let mut n = 0;
            for (ci, c) in page.as_bytes().chunks(16).enumerate() {
                line.push_str(&format!(" SD,{:04X},{}", ci * 16, to_hex(c)));
                n += 1;
            }
            line.push_str(&format!(" CS,{:04X} QS,0005", n));
            let i = out.case(line, true);
            out.stat("vsign.known-code-extreme-rest");
            if out.impls[i].contains("PANIC") {
                out.fail(i, format!("C12 a virtual sign panicked on a block with the code and geometry of {:?} and extreme other fields", t));
            }
        }
    }
    if thorough {
        // 70000 accepted chunks: the chunk counter must not overflow
        let mut l = format!("vbus M,0003 RO,0003,0 SD,0000,{} CS,0001 RO,0003,1", to_hex(&tiny_cfg(2, 8, false)));
        for _ in 0..70_000 {
            l.push_str(" SD,0010,-");
        }
        l.push_str(" CS,0000 QS,0003 CS,1170 QS,0003");
        let i = out.case(l, true);
        if out.impls[i].contains("PANIC") {
            out.fail(i, "C12 a virtual sign panicked after 65536 accepted chunks (16-bit chunk counter overflow)".into());
        }
    }
}

/// Breadth-first exploration of the real VirtualSign's (hashable) state space over a fixed alphabet.
fn bfs(out: &mut Out, style: PageFlipStyle, max_states: usize) {
    let a = 3u16;
    let f = 4u16;
    let tiny = tiny_cfg(2, 8, false); // 2x8: data 6 bytes -> one 16-byte chunk per page
    let mut alpha: Vec<Message<'static>> = vec![
        Message::Hello(Address(a)),
        Message::QueryState(Address(a)),
        Message::Hello(Address(f)),
        Message::PixelsComplete(Address(a)),
        Message::PixelsComplete(Address(f)),
        Message::Goodbye(Address(a)),
        Message::Goodbye(Address(f)),
        Message::AckOperation(Address(a), Operation::ReceiveConfig),
        Message::ReportState(Address(a), State::Unconfigured),
        Message::RequestOperation(Address(f), Operation::ReceivePixels),
        Message::DataChunksSent(ChunkCount(0)),
        Message::DataChunksSent(ChunkCount(1)),
        Message::DataChunksSent(ChunkCount(2)),
        sd(0, &tiny),
        sd(0, SignType::Max3000Side90x7.to_bytes()),
        sd(0, &[9u8; 16]),
        sd(16, &tiny),
        sd(0, &[0xAA; 16]),
        sd(16, &[0xBB; 16]),
        sd(0, &[0xCC; 8]),
        sd(0, &[]),
        sd(0, &[0xDD; 17]),
    ];
    for o in OPS {
        alpha.push(Message::RequestOperation(Address(a), o));
    }
    let init = VirtualSign::new(Address(a), style);
    let mut seen: HashSet<VirtualSign<'static>> = HashSet::new();
    let mut queue: VecDeque<(VirtualSign<'static>, Vec<usize>)> = VecDeque::new();
    let _ = seen.insert(init.clone());
    queue.push_back((init, vec![]));
    let mut transitions = 0u64;
    while let Some((s, path)) = queue.pop_front() {
        // one case per state: its path followed by every alphabet symbol is too long; emit path + symbol
        for (k, m) in alpha.iter().enumerate() {
            let mut t = s.clone();
            let r = guarded(|| t.process_message(m));
            transitions += 1;
            let mut p2 = path.clone();
            p2.push(k);
            let line = format!(
                "vbus {},{:04X} {}",
                style_tok(style),
                a,
                p2.iter().map(|i| show_msg(&alpha[*i])).collect::<Vec<_>>().join(" ")
            );
            // spec along the path
            let mut spec = SpecSign::new(a, style);
            let mut sr = None;
            for i in &p2 {
                sr = spec.step(&alpha[*i]);
            }
            let i = out.case(line, true);
            match r {
                None => out.fail(i, "C12 virtual sign panicked during breadth-first exploration".into()),
                Some(r) => {
                    if show_reply(&r) != show_reply(&sr) || show_sign(&t) != spec.obs() {
                        out.fail(i, format!("C13 after the path, on {}: sign replied {} and is {}, the documented state machine replies {} and is {}", show_msg(m), show_reply(&r), show_sign(&t), show_reply(&sr), spec.obs()));
                    }
                    // bounds: buffered bytes and stored pages
                    let small = t.pages().len() <= 2;
                    if small && seen.len() < max_states && !seen.contains(&t) {
                        // bound buffered bytes through the path length (each symbol adds <= 17 bytes)
                        if p2.len() <= 14 {
                            let _ = seen.insert(t.clone());
                            queue.push_back((t, p2));
                        }
                    }
                }
            }
        }
    }
    out.stat_n("bfs.states", seen.len() as u64);
    out.stat_n("bfs.transitions", transitions);
}

pub fn c13(thorough: bool, rng: &mut Rng, out: &mut Out) {
    out.rule = "breadth-first exploration of the real VirtualSign's hashable state from the initial state over a 28-symbol alphabet (own/foreign address, every operation, chunk counts 0/1/2, configuration blocks tiny/known/unknown/offset, data chunks of 0/8/16/17 bytes at offsets 0 and 16) for both flip styles, every transition compared with the documented sign-side state machine (replies, state, type, stored pages) and with the Lean model; then guided random walks with real sign types; non-trivial = every explored transition / walk; distinct = distinct case line (path)".into();
    out.exhaustive_note = "the breadth-first exploration is complete up to the state cap (quick 400 states per style, thorough 6000) and path length 15; not a fixed point in general because buffered data is unbounded".into();
    let cap = if thorough { 6000 } else { 400 };
    bfs(out, PageFlipStyle::Manual, cap);
    bfs(out, PageFlipStyle::Automatic, cap);
    let (nw, steps) = if thorough { (30_000, 150) } else { (600, 60) };
    run_walks("C13", rng, out, nw, steps, 1);
    known_header_variants("C13", out);
    overlong_runs(thorough, out);
}

/// Runs of chunks that never start a new page (no offset 0) and pile up far more than a page — past 64 KiB of
/// pending data — before the count arrives: the whole run is one over-long page and is discarded, however its tail
/// happens to measure.
fn overlong_runs(thorough: bool, out: &mut Out) {
    let (w, h) = (90u32, 7u32);
    let page_chunks = 6usize;
    for (chunk_len, nchunks) in [(16usize, 4111 + page_chunks), (16, 4112), (16, 4200), (255, 258 + 1), (255, 300)] {
        let mut line = format!("vbus M,0005 RO,0005,0 SD,0000,{} CS,0001 RO,0005,1", to_hex(&tiny_cfg(w, h, false)));
        for k in 0..nchunks {
            let d: Vec<u8> = vec![(k % 251) as u8; chunk_len];
            line.push_str(&format!(" SD,{:04X},{}", 16 + (k % 4000) * 16, to_hex(&d)));
        }
        line.push_str(&format!(" CS,{:04X} QS,0005", nchunks));
        let i = out.case(line, true);
        out.stat("vsign.overlong-run-of-chunks");
        let last = out.impls[i].rsplit(' ').next().unwrap_or("").to_string();
        if last.contains("/1/") || out.impls[i].contains("PANIC") {
            out.fail(i, format!("C13 a run of {} chunks of {} bytes without a page start left the sign with a page (or panicking): {}", nchunks, chunk_len, last));
        }
    }
    // the same around every power-of-two amount of pending data a bounded buffer might be cut at (32 / 64 / 128 KiB):
    // `junk` chunks that bring the buffer to just below, exactly at and just past the mark, followed by exactly one
    // page's worth of chunks (none at offset 0) and the count — a sign that drops the old part of an over-long buffer
    // finds a "page" in what is left
    let mut shapes: Vec<(usize, usize)> = vec![];
    for base in if thorough { vec![2048usize, 4096, 8192] } else { vec![4096usize] } {
        for d in 0..4 {
            shapes.push((16, base + d - 1));
        }
    }
    for k in 256..=259 {
        shapes.push((255, k));
    }
    for (junk_len, junk) in shapes {
        let mut line = format!("vbus M,0005 RO,0005,0 SD,0000,{} CS,0001 RO,0005,1", to_hex(&tiny_cfg(w, h, false)));
        for k in 0..junk {
            let d: Vec<u8> = vec![(k % 251) as u8; junk_len];
            line.push_str(&format!(" SD,{:04X},{}", 16 + (k % 4000) * 16, to_hex(&d)));
        }
        let page = Page::new(PageId(7), w, h);
        for (ci, c) in page.as_bytes().chunks(16).enumerate() {
            line.push_str(&format!(" SD,{:04X},{}", 16 + ci * 16, to_hex(c)));
        }
        let n = junk + page_chunks;
        line.push_str(&format!(" CS,{:04X} QS,0005", n));
        let i = out.case(line, true);
        out.stat("vsign.overlong-run-then-exact-page-tail");
        let last = out.impls[i].rsplit(' ').next().unwrap_or("").to_string();
        if last.contains("/1/") || out.impls[i].contains("PANIC") {
            out.fail(i, format!("C13 {} chunks of {} bytes and then one page's worth, none starting a page, left the sign with a page (or panicking): {}", junk, junk_len, last));
        }
    }
}

/// Complete, legal sessions on signs of extreme configured geometry (far wider or taller than any catalogued
/// sign: up to 1020 columns, up to 255 rows): configure, transfer two exact pages, finish, flip through them,
/// say goodbye.  Everything the sign does with a stored page (including rendering it for the log — the harness
/// installs a formatting logger) happens here on sizes no real sign has.
pub fn extreme_geometries(prop: &str, thorough: bool, out: &mut Out) {
    let mut geos: Vec<(u32, u32, bool)> = vec![(256, 7, false), (257, 7, false), (300, 16, false), (1020, 1, false), (255, 255, true), (1, 255, false), (255, 1, true)];
    if thorough {
        geos.extend_from_slice(&[(1020, 255, false), (511, 9, false), (258, 64, false), (1, 1, true)]);
    }
    for (w, h, horizon) in geos {
        for style in ["M", "A"] {
            let mut line = format!("vbus {},0005 HE,0005 RO,0005,0 SD,0000,{} CS,0001 QS,0005 RO,0005,1", style, to_hex(&tiny_cfg(w, h, horizon)));
            let mut n = 0;
            for id in [1u8, 2] {
                let mut page = Page::new(PageId(id), w, h);
                page.set_pixel(w - 1, h - 1, true);
                page.set_pixel(0, 0, true);
                for (ci, c) in page.as_bytes().chunks(16).enumerate() {
                    line.push_str(&format!(" SD,{:04X},{}", ci * 16, to_hex(c)));
                    n += 1;
                }
            }
            line.push_str(&format!(" CS,{:04X} QS,0005 PC,0005 QS,0005 RO,0005,2 QS,0005 QS,0005 RO,0005,3 QS,0005 QS,0005 RO,0005,2 QS,0005 GB,0005 QS,0005", n));
            let i = out.case(line, true);
            out.stat("vsign.extreme-geometry");
            if out.impls[i].contains("PANIC") {
                out.fail(i, format!("{} a virtual sign configured as {}x{} panicked during a complete legal session", prop, w, h));
            }
        }
    }
}

/// Transfers of very many pages in one go (around every multiple of 256), then the
/// full show / load-next cycle and a second, small transfer: page counts are not bytes.
pub fn many_pages(prop: &str, thorough: bool, out: &mut Out) {
    let mut counts: Vec<usize> = vec![255, 256, 257, 512, 1024];
    if thorough {
        counts.extend_from_slice(&[511, 513, 768, 2048, 4096]);   // (every message re-observes all pages: cost is quadratic)
    }
    for n in counts {
        for style in ["M", "A"] {
            let mut line = format!("vbus {},0005 RO,0005,0 SD,0000,{} CS,0001 RO,0005,1", style, to_hex(&tiny_cfg(2, 8, false)));
            for k in 0..n {
                let mut page = Page::new(PageId((k % 256) as u8), 2, 8);
                page.set_pixel((k % 2) as u32, (k % 8) as u32, true);
                line.push_str(&format!(" SD,0000,{}", to_hex(page.as_bytes())));
            }
            line.push_str(&format!(" CS,{:04X} QS,0005 PC,0005 QS,0005", n));
            for _ in 0..3 {
                line.push_str(" RO,0005,2 QS,0005 QS,0005 RO,0005,3 QS,0005 QS,0005");
            }
            line.push_str(&format!(" RO,0005,1 SD,0000,{} CS,0001 QS,0005 PC,0005 RO,0005,3 QS,0005 QS,0005 GB,0005 QS,0005", to_hex(Page::new(PageId(9), 2, 8).as_bytes())));
            let i = out.case(line, true);
            out.stat("vsign.many-pages");
            if out.impls[i].contains("PANIC") {
                out.fail(i, format!("{} a virtual sign holding {} pages panicked during a legal session", prop, n));
            }
        }
    }
}

/// Configuration blocks that carry a KNOWN type code but a geometry that disagrees with the catalogue (blank,
/// partly blank, one off): the sign's size is what the geometry bytes say, so a page of the catalogued size
/// must not be stored unless the two happen to need the same number of bytes, and whatever is stored has the
/// derived dimensions.
pub fn known_header_variants(prop: &str, out: &mut Out) {
    for t in TYPES {
        let base = t.to_bytes().to_vec();
        let fam = base[0];
        let (hi, wis): (usize, Vec<usize>) = if fam == 4 { (4, vec![5, 6, 7, 8]) } else { (5, vec![7]) };
        let mut variants: Vec<Vec<u8>> = vec![];
        let mut v = base.clone();
        v[hi] = 0;
        variants.push(v);
        let mut v = base.clone();
        for &k in &wis {
            v[k] = 0;
        }
        variants.push(v.clone());
        v[hi] = 0;
        variants.push(v);
        let mut v = base.clone();
        v[hi] = v[hi].wrapping_add(8);
        variants.push(v);
        let mut v = base.clone();
        v[wis[0]] = v[wis[0]].wrapping_sub(1);
        variants.push(v);
        let mut v = base.clone();
        v[wis[0]] = 0;
        variants.push(v);
        // two blocks with the SAME type code and different geometry, in one phase and across a failed configuration:
        // the last accepted block decides the size, whatever came before
        for b in variants.iter().take(4) {
            let canon = base.clone();
            for (first, second) in [(b.clone(), canon.clone()), (canon.clone(), b.clone())] {
                let (w2, h2) = if fam == 4 { (second[5] as u32 + second[6] as u32 + second[7] as u32 + second[8] as u32, second[4] as u32) } else { (second[7] as u32, second[5] as u32) };
                for failed_between in [false, true] {
                    let mut line = format!("vbus M,0005 RO,0005,0 SD,0000,{}", to_hex(&first));
                    if failed_between {
                        line.push_str(&format!(" CS,0007 QS,0005 RO,0005,0 SD,0000,{} CS,0001", to_hex(&second)));
                    } else {
                        line.push_str(&format!(" SD,0000,{} CS,0002", to_hex(&second)));
                    }
                    line.push_str(" QS,0005 RO,0005,1");
                    let mut n = 0;
                    if w2 > 0 && h2 > 0 {
                        let page = Page::new(PageId(3), w2, h2);
                        for (ci, c) in page.as_bytes().chunks(16).enumerate() {
                            line.push_str(&format!(" SD,{:04X},{}", ci * 16, to_hex(c)));
                            n += 1;
                        }
                    }
                    line.push_str(&format!(" CS,{:04X} QS,0005", n));
                    let i = out.case(line, true);
                    out.stat("vsign.same-code-other-geometry-twice");
                    let last = out.impls[i].rsplit(' ').next().unwrap_or("").to_string();
                    if w2 > 0 && h2 > 0 && !last.contains("/1/") {
                        out.fail(i, format!("{} after two blocks with the same type code the sign does not hold the {}x{} page the last block's geometry calls for: {}", prop, w2, h2, last));
                    }
                }
            }
        }
        for b in variants {
            let (w, h) = if fam == 4 { (b[5] as u32 + b[6] as u32 + b[7] as u32 + b[8] as u32, b[4] as u32) } else { (b[7] as u32, b[5] as u32) };
            let (cw, ch) = t.dimensions();
            for (pw, ph) in [(cw, ch), (w, h)] {
                let page = Page::new(PageId(3), pw, ph);
                let mut line = format!("vbus M,0005 RO,0005,0 SD,0000,{} CS,0001 RO,0005,1", to_hex(&b));
                let mut n = 0;
                for (ci, c) in page.as_bytes().chunks(16).enumerate() {
                    line.push_str(&format!(" SD,{:04X},{}", ci * 16, to_hex(c)));
                    n += 1;
                }
                line.push_str(&format!(" CS,{:04X} QS,0005", n));
                let i = out.case(line, true);
                out.stat("vsign.known-code-other-geometry");
                if let Some((vw, vh, _)) = vsign_page_after_config(&b, &page) {
                    if (vw, vh) != (w, h) {
                        out.fail(i, format!("{} a virtual sign configured with block {} (geometry bytes say {}x{}) holds a {}x{} page", prop, to_hex(&b), w, h, vw, vh));
                    }
                }
            }
        }
    }
}

pub fn c14(thorough: bool, rng: &mut Rng, out: &mut Out) {
    out.rule = "crash corpus entry F5 first; guided random walks on buses of 1..4 virtual signs with distinct addresses and mixed flip styles, messages addressed to any of them or to absent addresses, interleaved so that two signs can be mid-transfer at once; after every message every non-addressed sign's observable state/type/pages must be unchanged, the reply must be the addressed sign's own, absent addresses get silence, unaddressed data may only touch receiving signs; non-trivial = walks on buses with at least 2 signs; distinct = distinct case line".into();
    out.exhaustive_note = "sampling only; the unbounded claim is the Lean theorems on busStep".into();
    // F5 on a two-sign bus
    let cfg90 = to_hex(SignType::Max3000Side90x7.to_bytes());
    let chunk = "00".repeat(16);
    let mut l = format!("vbus M,0003;M,0004 RO,0003,0 SD,0000,{} CS,0001 RO,0003,1", cfg90);
    for i in 0..6 {
        l.push_str(&format!(" SD,{:04X},{}", i * 16, chunk));
    }
    l.push_str(" RO,0003,4 CS,0063 QS,0003");
    let i = out.case(l, true);
    // after StartReset (state 12) the count must not add a page
    let toks: Vec<&str> = out.impls[i].split(' ').collect();
    if toks.len() >= 2 {
        let t = toks[toks.len() - 2];
        if !t.contains("|12/2/0/") {
            out.fail(i, format!("C14 unaddressed DataChunksSent changed a sign that is not receiving (ReadyToReset after an abandoned transfer): {}", t));
        }
    }
    // two signs receiving at once, both with unknown type codes (or the same known code) and different geometries whose
    // pages happen to need the same number of bytes: each assembles the broadcast bytes into a page of ITS OWN size
    for (g1, g2, horizon) in [((30u32, 7u32), (30u32, 8u32), false), ((30, 8), (30, 7), false), ((12, 8), (12, 1), true), ((40, 12), (40, 16), false)] {
        let (c1, c2) = (tiny_cfg(g1.0, g1.1, horizon), tiny_cfg(g2.0, g2.1, horizon));
        let page = Page::new(PageId(2), g1.0, g1.1);
        let mut l = format!("vbus M,0003;M,0004 RO,0003,0 SD,0000,{} CS,0001 RO,0004,0 SD,0000,{} CS,0001 RO,0003,1 RO,0004,1", to_hex(&c1), to_hex(&c2));
        let mut n = 0;
        for (ci, c) in page.as_bytes().chunks(16).enumerate() {
            l.push_str(&format!(" SD,{:04X},{}", ci * 16, to_hex(c)));
            n += 1;
        }
        l.push_str(&format!(" CS,{:04X} QS,0003 QS,0004", n));
        let i = out.case(l, true);
        out.stat("bus.two-receivers-same-code-other-geometry");
        if out.impls[i].contains("PANIC") {
            out.fail(i, "C14 two signs receiving the same broadcast page panicked".into());
        }
    }
    let (nw, steps) = if thorough { (60_000, 150) } else { (1_500, 80) };
    for _ in 0..nw {
        let ns = 1 + rng.below(4) as usize;
        let mut addrs: Vec<u16> = vec![];
        while addrs.len() < ns {
            let a = if rng.chance(80) { rng.range(2, 7) as u16 } else { rng.next() as u16 };
            if !addrs.contains(&a) {
                addrs.push(a);
            }
        }
        let signs: Vec<(PageFlipStyle, u16)> = addrs
            .iter()
            .map(|a| (if rng.chance(50) { PageFlipStyle::Manual } else { PageFlipStyle::Automatic }, *a))
            .collect();
        let (line, failure) = guided_walk("C14", rng, &signs, steps, out);
        let vline = line.clone();
        let i = out.case(line, ns >= 2);
        if rng.chance(34) {
            walk_variants("C14", rng, out, &vline, i, ns);
        }
        out.stat(&format!("bus.signs.{}", ns));
        if out.impls[i].contains("PANIC") {
            out.fail(i, "C12 a virtual sign / bus panicked (see case)".into());
        }
        if let Some(f) = failure {
            out.fail(i, f);
        }
    }
}

/// Configure a fresh virtual sign with `block`, send `page` in 16-byte chunks, and return the
/// dimensions and bytes of the page it then holds (None: no page, or a panic on the way).
pub fn vsign_page_after_config(block: &[u8], page: &Page<'_>) -> Option<(u32, u32, Vec<u8>)> {
    let block = block.to_vec();
    let bytes = page.as_bytes().to_vec();
    std::panic::catch_unwind(move || {
        let a = Address(5);
        let mut s = VirtualSign::new(a, PageFlipStyle::Manual);
        s.process_message(&Message::RequestOperation(a, Operation::ReceiveConfig));
        s.process_message(&Message::SendData(Offset(0), Data::try_new(block).ok()?));
        s.process_message(&Message::DataChunksSent(ChunkCount(1)));
        s.process_message(&Message::RequestOperation(a, Operation::ReceivePixels));
        let mut n = 0u16;
        for (i, c) in bytes.chunks(16).enumerate() {
            s.process_message(&Message::SendData(Offset((i * 16) as u16), Data::try_new(c.to_vec()).ok()?));
            n += 1;
        }
        s.process_message(&Message::DataChunksSent(ChunkCount(n)));
        let p = s.pages().first()?;
        Some((p.width(), p.height(), p.as_bytes().to_vec()))
    })
    .ok()
    .flatten()
}
