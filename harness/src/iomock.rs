//! Instrumented streams and serial ports, and the implementation side of the io / serial / odk /
//! port / e2e-serial verbs.
#![allow(dead_code)]

use std::cell::RefCell;
use std::collections::VecDeque;
use std::error::Error;
use std::io::{self, Read, Write};
use std::rc::Rc;
use std::time::{Duration, Instant};

use flipdot::{Sign, SignError};
use flipdot_core::{Address, Frame, Message, SignBus};
use flipdot_serial::SerialSignBus;
use flipdot_testing::{Odk, OdkError, VirtualSign, VirtualSignBus};
use serial_core::{BaudRate, CharSize, FlowControl, Parity, PortSettings, SerialDevice, SerialPortSettings, StopBits};

use crate::implside::{parse_signs, run_op, show_frame_err, show_sign};
use crate::util::*;

#[derive(Clone, Debug)]
pub enum REv {
    Data(Vec<u8>),
    Interrupted,
    Error,
    TimedOut,
    Eof,
    /// the reader takes this many milliseconds before it goes on to the next event (a reply trickling in)
    Sleep(u64),
    /// the read fails with an `io::Error` of kind InvalidData whose payload is the library's own `FrameError`
    /// (a transport layered on another frame stream hands such errors up)
    ErrorWithFrameError,
    /// the reader itself reads and writes a frame on another stream before it answers (a sniffer, a loop-back
    /// port driving its peer): `Frame::read` / `Frame::write` are re-entered on this thread; then "interrupted"
    Nested,
}
#[derive(Clone, Debug)]
pub enum WEv {
    Accept(usize),
    Interrupted,
    Error,
    /// the write fails with an `io::Error` of kind InvalidData whose payload is the library's own `FrameError`
    ErrorWithFrameError,
    /// from now on the port's `flush()` fails (the library never needs flush; one that calls it must not
    /// let its failure change anything that was promised about the write that already happened)
    FlushFails,
}

pub fn parse_revs(toks: &[&str]) -> Option<VecDeque<REv>> {
    toks.iter()
        .map(|t| match *t {
            "i" => Some(REv::Interrupted),
            "e" => Some(REv::Error),
            "t" => Some(REv::TimedOut),
            "z" => Some(REv::Eof),
            "n" => Some(REv::Nested),
            "x" => Some(REv::ErrorWithFrameError),
            _ if t.starts_with("s:") => t[2..].parse().ok().map(REv::Sleep),
            _ if t.starts_with("r:") => {
                // r:LEN:BYTE — LEN copies of one byte, without spelling them out in hex
                let (n, b) = t[2..].split_once(':')?;
                Some(REv::Data(vec![u8::from_str_radix(b, 16).ok()?; n.parse().ok()?]))
            }
            _ => t.strip_prefix("d:").and_then(parse_hex).map(REv::Data),
        })
        .collect()
}
pub fn parse_wevs(toks: &[&str]) -> Option<VecDeque<WEv>> {
    toks.iter()
        .map(|t| match *t {
            "i" => Some(WEv::Interrupted),
            "e" => Some(WEv::Error),
            "F" => Some(WEv::FlushFails),
            "x" => Some(WEv::ErrorWithFrameError),
            _ => t.strip_prefix("a:").and_then(|n| n.parse().ok()).map(WEv::Accept),
        })
        .collect()
}

thread_local! {
    /// when set, the latency applies to every write call and to every read call that starts a new line (a port
    /// that is a little slow all the time) instead of to the first call only
    pub static PORT_LATENCY_EVERY: std::cell::Cell<bool> = const { std::cell::Cell::new(false) };
}
thread_local! {
    /// (write, read) latency in ms applied inside the first write / first read call of a port: a slow
    /// line or a sign that takes its time to answer (used by the `serialts` cases of C18).
    pub static PORT_LATENCY: std::cell::Cell<(u64, u64)> = const { std::cell::Cell::new((0, 0)) };
}

#[derive(Debug)]
pub struct ScriptReader {
    pub at_line_start: bool,
    /// the data event being served and how far it has been consumed (no copying of the remainder per call)
    cur: Vec<u8>,
    cur_pos: usize,
    pub events: VecDeque<REv>,
    pub calls: usize,
    pub times: Vec<(Instant, Instant)>,
}
impl ScriptReader {
    pub fn new(events: VecDeque<REv>) -> Self {
        ScriptReader {
            at_line_start: true,
            cur: vec![],
            cur_pos: 0,
            events,
            calls: 0,
            times: vec![],
        }
    }
    pub fn rest(&self) -> Vec<u8> {
        let mut v = self.cur[self.cur_pos..].to_vec();
        for e in &self.events {
            if let REv::Data(d) = e {
                v.extend_from_slice(d);
            }
        }
        v
    }
}
impl Read for ScriptReader {
    fn read(&mut self, buf: &mut [u8]) -> io::Result<usize> {
        let t0 = Instant::now();
        self.calls += 1;
        if self.calls == 1 || (PORT_LATENCY_EVERY.with(|c| c.get()) && self.at_line_start) {
            let ms = PORT_LATENCY.with(|c| c.get()).1;
            if ms > 0 {
                std::thread::sleep(Duration::from_millis(ms));
            }
        }
        let r = loop {
            if self.cur_pos < self.cur.len() {
                if buf.is_empty() {
                    break Ok(0);
                }
                let k = (self.cur.len() - self.cur_pos).min(buf.len());
                buf[..k].copy_from_slice(&self.cur[self.cur_pos..self.cur_pos + k]);
                self.cur_pos += k;
                self.at_line_start = buf[k - 1] == b'\n';
                break Ok(k);
            }
            match self.events.pop_front() {
                None | Some(REv::Eof) => break Ok(0),
                Some(REv::Interrupted) => break Err(io::Error::new(io::ErrorKind::Interrupted, "scripted interrupt")),
                Some(REv::Error) => break Err(io::Error::new(io::ErrorKind::Other, "scripted error")),
                Some(REv::TimedOut) => break Err(io::Error::new(io::ErrorKind::TimedOut, "scripted timeout")),
                Some(REv::Sleep(ms)) => {
                    std::thread::sleep(Duration::from_millis(ms));
                    continue;
                }
                Some(REv::ErrorWithFrameError) => break Err(io::Error::new(io::ErrorKind::InvalidData, Frame::from_bytes(b"not a frame").unwrap_err())),
                Some(REv::Nested) => {
                    let mut inner = ScriptReader::new(VecDeque::from(vec![REv::Data(b":01000302FFFB\r\n".to_vec())]));
                    let f = Frame::read(&mut inner).expect("nested read of a valid frame");
                    let mut sink: Vec<u8> = vec![];
                    f.write(&mut sink).expect("nested write to a vector");
                    assert_eq!(sink, b":01000302FFFB\r\n".to_vec(), "nested write");
                    let _ = Frame::from_bytes(&sink).expect("nested decode");
                    break Err(io::Error::new(io::ErrorKind::Interrupted, "scripted interrupt after nested use"));
                }
                Some(REv::Data(d)) => {
                    if d.is_empty() {
                        continue;
                    }
                    self.cur = d;
                    self.cur_pos = 0;
                    continue;
                }
            }
        };
        self.times.push((t0, Instant::now()));
        r
    }
}

#[derive(Debug)]
pub struct ScriptWriter {
    pub flush_fails: bool,
    pub events: VecDeque<WEv>,
    pub delivered: Vec<u8>,
    pub calls: usize,
    pub times: Vec<(Instant, Instant)>,
}
impl ScriptWriter {
    pub fn new(events: VecDeque<WEv>) -> Self {
        ScriptWriter {
            flush_fails: false,
            events,
            delivered: vec![],
            calls: 0,
            times: vec![],
        }
    }
}
impl Write for ScriptWriter {
    fn write(&mut self, buf: &[u8]) -> io::Result<usize> {
        let t0 = Instant::now();
        self.calls += 1;
        if self.calls == 1 || PORT_LATENCY_EVERY.with(|c| c.get()) {
            let ms = PORT_LATENCY.with(|c| c.get()).0;
            if ms > 0 {
                std::thread::sleep(Duration::from_millis(ms));
            }
        }
        while let Some(WEv::FlushFails) = self.events.front() {
            let _ = self.events.pop_front();
            self.flush_fails = true;
        }
        let r = match self.events.pop_front() {
            None | Some(WEv::FlushFails) => {
                self.delivered.extend_from_slice(buf);
                Ok(buf.len())
            }
            Some(WEv::Interrupted) => Err(io::Error::new(io::ErrorKind::Interrupted, "scripted interrupt")),
            Some(WEv::Error) => Err(io::Error::new(io::ErrorKind::Other, "scripted error")),
            Some(WEv::ErrorWithFrameError) => Err(io::Error::new(io::ErrorKind::InvalidData, Frame::from_bytes(b"not a frame").unwrap_err())),
            Some(WEv::Accept(n)) => {
                let k = n.min(buf.len());
                self.delivered.extend_from_slice(&buf[..k]);
                Ok(k)
            }
        };
        self.times.push((t0, Instant::now()));
        r
    }
    fn flush(&mut self) -> io::Result<()> {
        if self.flush_fails {
            Err(io::Error::new(io::ErrorKind::Other, "scripted flush failure"))
        } else {
            Ok(())
        }
    }
}

// ---------------------------------------------------------------------------------------------
// serial device

#[derive(Clone, Copy, Debug, PartialEq, Eq)]
pub enum FailAt {
    Never,
    ReadSettings,
    SetBaud,
    WriteSettings,
    SetTimeout,
}

thread_local! {
    /// when set, the settings object cannot name the device's current state: all five getters return None
    /// (a driver-level settings type whose flags have no `serial_core` equivalent)
    pub static GETTERS_NONE: std::cell::Cell<bool> = const { std::cell::Cell::new(false) };
}
fn known<T>(v: T) -> Option<T> {
    if GETTERS_NONE.with(|c| c.get()) {
        None
    } else {
        Some(v)
    }
}
#[derive(Debug, Clone, Copy)]
pub struct MockSettings {
    pub inner: PortSettings,
    pub fail_baud: bool,
}
impl SerialPortSettings for MockSettings {
    fn baud_rate(&self) -> Option<BaudRate> {
        known(self.inner.baud_rate)
    }
    fn char_size(&self) -> Option<CharSize> {
        known(self.inner.char_size)
    }
    fn parity(&self) -> Option<Parity> {
        known(self.inner.parity)
    }
    fn stop_bits(&self) -> Option<StopBits> {
        known(self.inner.stop_bits)
    }
    fn flow_control(&self) -> Option<FlowControl> {
        known(self.inner.flow_control)
    }
    fn set_baud_rate(&mut self, baud_rate: BaudRate) -> serial_core::Result<()> {
        if self.fail_baud {
            if FAIL_KIND.with(|c| c.get()) != 'n' {
                return Err(dev_err("scripted: baud rate refused"));
            }
            return Err(serial_core::Error::new(serial_core::ErrorKind::InvalidInput, "scripted: baud rate refused"));
        }
        self.inner.baud_rate = baud_rate;
        Ok(())
    }
    fn set_char_size(&mut self, char_size: CharSize) {
        self.inner.char_size = char_size;
    }
    fn set_parity(&mut self, parity: Parity) {
        self.inner.parity = parity;
    }
    fn set_stop_bits(&mut self, stop_bits: StopBits) {
        self.inner.stop_bits = stop_bits;
    }
    fn set_flow_control(&mut self, flow_control: FlowControl) {
        self.inner.flow_control = flow_control;
    }
}

#[derive(Debug)]
pub struct DevState {
    pub settings: PortSettings,
    pub timeout: Option<Duration>,
    pub calls: Vec<&'static str>,
}

#[derive(Debug)]
pub struct MockPort {
    pub rd: ScriptReader,
    pub wr: ScriptWriter,
    pub dev: Rc<RefCell<DevState>>,
    pub fail: FailAt,
}

impl MockPort {
    pub fn new(rd: VecDeque<REv>, wr: VecDeque<WEv>, prior: PortSettings, fail: FailAt) -> Self {
        MockPort {
            rd: ScriptReader::new(rd),
            wr: ScriptWriter::new(wr),
            dev: Rc::new(RefCell::new(DevState {
                settings: prior,
                timeout: None,
                calls: vec![],
            })),
            fail,
        }
    }
}
impl Read for MockPort {
    fn read(&mut self, buf: &mut [u8]) -> io::Result<usize> {
        self.rd.read(buf)
    }
}
impl Write for MockPort {
    fn write(&mut self, buf: &[u8]) -> io::Result<usize> {
        self.wr.write(buf)
    }
    fn flush(&mut self) -> io::Result<()> {
        self.wr.flush()
    }
}
thread_local! {
    /// which error kind the scripted device failures use (set by the `:k` suffix of a `port` case's fail token)
    pub static FAIL_KIND: std::cell::Cell<char> = const { std::cell::Cell::new('n') };
}
/// Every other stable `io::ErrorKind` (fail-token suffixes `A`..): "temporary"-sounding kinds such as
/// ResourceBusy, WouldBlock or ConnectionReset are refusals like any other.
pub const IO_KINDS: [io::ErrorKind; 22] = [
    io::ErrorKind::NotFound,
    io::ErrorKind::ConnectionRefused,
    io::ErrorKind::ConnectionReset,
    io::ErrorKind::ConnectionAborted,
    io::ErrorKind::NotConnected,
    io::ErrorKind::AddrInUse,
    io::ErrorKind::AddrNotAvailable,
    io::ErrorKind::BrokenPipe,
    io::ErrorKind::AlreadyExists,
    io::ErrorKind::InvalidInput,
    io::ErrorKind::InvalidData,
    io::ErrorKind::WriteZero,
    io::ErrorKind::Unsupported,
    io::ErrorKind::UnexpectedEof,
    io::ErrorKind::OutOfMemory,
    io::ErrorKind::ResourceBusy,
    io::ErrorKind::HostUnreachable,
    io::ErrorKind::NetworkDown,
    io::ErrorKind::StorageFull,
    io::ErrorKind::Deadlock,
    io::ErrorKind::ArgumentListTooLong,
    io::ErrorKind::QuotaExceeded,
];
fn dev_err(what: &str) -> serial_core::Error {
    use serial_core::ErrorKind as K;
    let kind = match FAIL_KIND.with(|c| c.get()) {
        'v' => K::InvalidInput,
        'i' => K::Io(io::ErrorKind::Interrupted),
        't' => K::Io(io::ErrorKind::TimedOut),
        'o' => K::Io(io::ErrorKind::Other),
        'w' => K::Io(io::ErrorKind::WouldBlock),
        'p' => K::Io(io::ErrorKind::PermissionDenied),
        c @ 'A'..='Z' => match IO_KINDS.get(c as usize - 'A' as usize) {
            Some(k) => K::Io(*k),
            None => K::NoDevice,
        },
        _ => K::NoDevice,
    };
    serial_core::Error::new(kind, what.to_string())
}
impl SerialDevice for MockPort {
    type Settings = MockSettings;
    fn read_settings(&self) -> serial_core::Result<MockSettings> {
        self.dev.borrow_mut().calls.push("read_settings");
        if self.fail == FailAt::ReadSettings {
            return Err(dev_err("scripted: read_settings"));
        }
        Ok(MockSettings {
            inner: self.dev.borrow().settings,
            fail_baud: self.fail == FailAt::SetBaud,
        })
    }
    fn write_settings(&mut self, settings: &MockSettings) -> serial_core::Result<()> {
        self.dev.borrow_mut().calls.push("write_settings");
        if self.fail == FailAt::WriteSettings {
            return Err(dev_err("scripted: write_settings"));
        }
        self.dev.borrow_mut().settings = settings.inner;
        Ok(())
    }
    fn timeout(&self) -> Duration {
        self.dev.borrow().timeout.unwrap_or(Duration::from_millis(0))
    }
    fn set_timeout(&mut self, t: Duration) -> serial_core::Result<()> {
        self.dev.borrow_mut().calls.push("set_timeout");
        if self.fail == FailAt::SetTimeout {
            return Err(dev_err("scripted: set_timeout"));
        }
        self.dev.borrow_mut().timeout = Some(t);
        Ok(())
    }
    fn set_rts(&mut self, _: bool) -> serial_core::Result<()> {
        Ok(())
    }
    fn set_dtr(&mut self, _: bool) -> serial_core::Result<()> {
        Ok(())
    }
    fn read_cts(&mut self) -> serial_core::Result<bool> {
        Ok(false)
    }
    fn read_dsr(&mut self) -> serial_core::Result<bool> {
        Ok(false)
    }
    fn read_ri(&mut self) -> serial_core::Result<bool> {
        Ok(false)
    }
    fn read_cd(&mut self) -> serial_core::Result<bool> {
        Ok(false)
    }
}

pub const BAUDS: [BaudRate; 11] = [
    BaudRate::Baud110,
    BaudRate::Baud300,
    BaudRate::Baud600,
    BaudRate::Baud1200,
    BaudRate::Baud2400,
    BaudRate::Baud4800,
    BaudRate::Baud9600,
    BaudRate::Baud19200,
    BaudRate::Baud38400,
    BaudRate::Baud57600,
    BaudRate::Baud115200,
];
pub const CHARS: [CharSize; 4] = [CharSize::Bits5, CharSize::Bits6, CharSize::Bits7, CharSize::Bits8];
pub const PARITIES: [Parity; 3] = [Parity::ParityNone, Parity::ParityOdd, Parity::ParityEven];
pub const STOPS: [StopBits; 2] = [StopBits::Stop1, StopBits::Stop2];
pub const FLOWS: [FlowControl; 3] = [FlowControl::FlowNone, FlowControl::FlowSoftware, FlowControl::FlowHardware];

pub fn weird_settings() -> PortSettings {
    PortSettings {
        baud_rate: BaudRate::Baud110,
        char_size: CharSize::Bits7,
        parity: Parity::ParityEven,
        stop_bits: StopBits::Stop2,
        flow_control: FlowControl::FlowSoftware,
    }
}

pub fn parse_settings(s: &str) -> Option<PortSettings> {
    // a leading `n`: the getters of the device's settings object return None
    GETTERS_NONE.with(|c| c.set(s.starts_with('n')));
    let s = s.strip_prefix('n').unwrap_or(s);
    let p: Vec<&str> = s.split(',').collect();
    if p.len() != 5 {
        return None;
    }
    let baud = if let Some(n) = p[0].strip_prefix('o') {
        BaudRate::BaudOther(n.parse().ok()?)
    } else {
        *BAUDS.get(p[0].parse::<usize>().ok()?)?
    };
    Some(PortSettings {
        baud_rate: baud,
        char_size: *CHARS.get(p[1].parse::<usize>().ok()?)?,
        parity: *PARITIES.get(p[2].parse::<usize>().ok()?)?,
        stop_bits: *STOPS.get(p[3].parse::<usize>().ok()?)?,
        flow_control: *FLOWS.get(p[4].parse::<usize>().ok()?)?,
    })
}
pub fn show_settings(s: &PortSettings) -> String {
    let b = match s.baud_rate {
        BaudRate::BaudOther(n) => format!("o{}", n),
        b => BAUDS.iter().position(|x| *x == b).unwrap_or(99).to_string(),
    };
    format!(
        "{},{},{},{},{}",
        b,
        CHARS.iter().position(|x| *x == s.char_size).unwrap_or(99),
        PARITIES.iter().position(|x| *x == s.parity).unwrap_or(99),
        STOPS.iter().position(|x| *x == s.stop_bits).unwrap_or(99),
        FLOWS.iter().position(|x| *x == s.flow_control).unwrap_or(99)
    )
}
pub fn parse_fail(s: &str) -> Option<FailAt> {
    // optional `:k` suffix: the kind of error the refusing call returns (n v i t o w p)
    let (s, kind) = match s.split_once(':') {
        Some((a, k)) if k.len() == 1 && ("nvitowp".contains(k) || k.chars().all(|c| c.is_ascii_uppercase())) => (a, k.chars().next().unwrap()),
        Some(_) => return None,
        None => (s, 'n'),
    };
    FAIL_KIND.with(|c| c.set(kind));
    Some(match s {
        "never" => FailAt::Never,
        "read" => FailAt::ReadSettings,
        "baud" => FailAt::SetBaud,
        "write" => FailAt::WriteSettings,
        "timeout" => FailAt::SetTimeout,
        _ => return None,
    })
}

// ---------------------------------------------------------------------------------------------
// verbs

fn show_read(r: &Result<Frame<'_>, flipdot_core::FrameError>) -> String {
    match r {
        Ok(f) => format!("ok {}", show_frame(f)),
        Err(e) => show_frame_err(e),
    }
}

pub fn io_reads(n: usize, evs: VecDeque<REv>) -> String {
    let mut rd = ScriptReader::new(evs);
    let mut out = vec![];
    for _ in 0..n {
        let r = Frame::read(&mut rd);
        out.push(show_read(&r));
    }
    format!("{} | rest={}", out.join(" ; "), to_hex(&rd.rest()))
}

pub fn io_write(f: &Frame<'_>, evs: VecDeque<WEv>) -> String {
    let mut wr = ScriptWriter::new(evs);
    let r = f.write(&mut wr);
    // ("I/O failures surface as an I/O error": any other class of error for a failed write is shown as such)
    let res = match &r {
        Ok(()) => "ok".to_string(),
        Err(flipdot_core::FrameError::Io { .. }) => "err".to_string(),
        Err(e) => format!("err-not-io:{}", show_frame_err(e).replace(' ', "_")),
    };
    format!("{} {}", res, to_hex(&wr.delivered))
}

pub struct SerialObs {
    pub line: String,
    pub d_send: Option<Duration>,
    pub d_recv: Option<Duration>,
}

/// One `SerialSignBus::process_message` on an instrumented port.
pub fn serial_once(m: &Message<'static>, rd: VecDeque<REv>, wr: VecDeque<WEv>) -> Option<SerialObs> {
    let port = MockPort::new(rd, wr, weird_settings(), FailAt::Never);
    let mut bus = SerialSignBus::try_new(port).ok()?;
    // a pending wake-up token on the calling thread (any library the caller uses may leave one): a pause
    // built on a timed park instead of a sleep returns at once when it finds it
    std::thread::current().unpark();
    let r = bus.process_message(m.clone());
    let t_ret = Instant::now();
    let p = bus.port();
    let mut evs: Vec<String> = vec![];
    if p.wr.calls > 0 {
        evs.push(format!("W:{}:{}", to_hex(&p.wr.delivered), if matches!(&r, Err(_)) && p.rd.calls == 0 { 0 } else { 1 }));
    }
    // a failed write is reported as W:..:0 (the model's `wrote _ false`)
    if p.rd.calls > 0 {
        evs.push("R".into());
    }
    let res = match &r {
        Ok(None) => "ok none".to_string(),
        Ok(Some(m)) => format!("ok {}", show_msg(m)),
        Err(_) => "err".to_string(),
    };
    let last_w_end = p.wr.times.last().map(|t| t.1);
    let first_r_start = p.rd.times.first().map(|t| t.0);
    let last_r_end = p.rd.times.last().map(|t| t.1);
    let d_send = last_w_end.map(|w| first_r_start.unwrap_or(t_ret).duration_since(w));
    let d_recv = last_r_end.map(|r| t_ret.duration_since(r));
    Some(SerialObs {
        line: format!("{} => {} rest={}", evs.join(" "), res, to_hex(&p.rd.rest())),
        d_send,
        d_recv,
    })
}

fn classify(d: Option<Duration>, pace_ms: u64, trials: &mut dyn FnMut() -> Option<Duration>) -> String {
    // paced iff the gap is at least the pacing delay; unpaced iff (the minimum over a few trials) is
    // well below it; anything in between is reported as ambiguous
    let mut best = match d {
        None => return String::new(),
        Some(d) => d,
    };
    if best >= Duration::from_millis(pace_ms) {
        return format!("S:{}", pace_ms);
    }
    for _ in 0..4 {
        if best < Duration::from_millis(pace_ms / 2) {
            break;
        }
        if let Some(d2) = trials() {
            if d2 >= Duration::from_millis(pace_ms) {
                return format!("S:{}", pace_ms);
            }
            best = best.min(d2);
        }
    }
    if best < Duration::from_millis(pace_ms / 2) {
        String::new()
    } else {
        format!("S:?{}ms", best.as_millis())
    }
}

/// What one message of a multi-message run on ONE bus object looked like at the port.
pub struct MultiObs {
    pub evs: Vec<String>,
    pub res: String,
    /// end of this message's last write → start of the next message's first write
    pub gap_to_next_write: Option<Duration>,
    /// end of this message's last read → return of process_message
    pub d_recv: Option<Duration>,
    pub wrote_ok: bool,
}

/// Several `process_message` calls on the same `SerialSignBus` (state kept by the bus object between
/// exchanges — buffers, flags, timestamps — shows here and nowhere else).
pub fn serial_multi_once(msgs: &[Message<'static>], rd: VecDeque<REv>, wr: VecDeque<WEv>) -> Option<(Vec<MultiObs>, String)> {
    let port = MockPort::new(rd, wr, weird_settings(), FailAt::Never);
    let mut bus = SerialSignBus::try_new(port).ok()?;
    let mut obs: Vec<MultiObs> = vec![];
    let mut first_write_start: Vec<Option<Instant>> = vec![];
    let mut last_write_end: Vec<Option<Instant>> = vec![];
    for m in msgs {
        let (w0, r0, d0) = {
            let p = bus.port();
            (p.wr.times.len(), p.rd.times.len(), p.wr.delivered.len())
        };
        std::thread::current().unpark(); // see serial_once
        let r = bus.process_message(m.clone());
        let t_ret = Instant::now();
        let p = bus.port();
        let mut evs = vec![];
        let wrote = p.wr.times.len() > w0;
        let read = p.rd.times.len() > r0;
        // the write succeeded iff the whole encoding reached the port (whatever the call returns afterwards:
        // an implementation may report a later failure, e.g. of flush(), although the frame is on the wire)
        let wrote_ok = wrote && p.wr.delivered.len() - d0 == Frame::from(m.clone()).to_bytes_with_newline().len();
        if wrote {
            evs.push(format!("W:{}:{}", to_hex(&p.wr.delivered[d0..]), if wrote_ok { 1 } else { 0 }));
        }
        if read {
            evs.push("R".to_string());
        }
        first_write_start.push(if wrote { Some(p.wr.times[w0].0) } else { None });
        last_write_end.push(if wrote { Some(p.wr.times[p.wr.times.len() - 1].1) } else { None });
        let d_recv = if read { Some(t_ret.duration_since(p.rd.times[p.rd.times.len() - 1].1)) } else { None };
        obs.push(MultiObs {
            evs,
            res: match &r {
                Ok(None) => "ok none".to_string(),
                Ok(Some(m)) => format!("ok {}", show_msg(m)),
                Err(_) => "err".to_string(),
            },
            gap_to_next_write: None,
            d_recv,
            wrote_ok,
        });
    }
    for k in 0..obs.len() {
        if k + 1 < obs.len() {
            if let (Some(e), Some(s)) = (last_write_end[k], first_write_start[k + 1]) {
                obs[k].gap_to_next_write = Some(s.duration_since(e));
            }
        }
    }
    let rest = to_hex(&bus.port().rd.rest());
    Some((obs, rest))
}

pub fn serial_multi_case(timed: bool, msgs: &[Message<'static>], rd: VecDeque<REv>, wr: VecDeque<WEv>) -> Option<String> {
    let (obs, rest) = serial_multi_once(msgs, rd.clone(), wr.clone())?;
    let mut parts = vec![];
    for (k, o) in obs.iter().enumerate() {
        let mut toks: Vec<String> = vec![];
        for t in &o.evs {
            toks.push(t.clone());
            // the write-to-next-write gap is classified for data chunks only: for other messages it legitimately
            // contains the reply and its 100 ms (their own pacing is measured by the single-exchange cases)
            if timed && t.starts_with("W:") && o.wrote_ok && matches!(msgs[k], Message::SendData(..)) {
                let g = classify(o.gap_to_next_write, 30, &mut || serial_multi_once(msgs, rd.clone(), wr.clone()).and_then(|x| x.0[k].gap_to_next_write));
                if !g.is_empty() {
                    toks.push(g.replacen('S', "G", 1));
                }
            }
            if timed && t == "R" && o.res.starts_with("ok ") {
                let s = classify(o.d_recv, 100, &mut || serial_multi_once(msgs, rd.clone(), wr.clone()).and_then(|x| x.0[k].d_recv));
                if !s.is_empty() {
                    toks.push(s);
                }
            }
        }
        parts.push(format!("{} => {}", toks.join(" "), o.res));
    }
    Some(format!("{} rest={}", parts.join(" ; "), rest))
}

/// `serial_multi_case` (timed) while a second thread keeps creating and dropping other `SerialSignBus` objects over
/// ports of its own, a few thousand times a second.
pub fn serial_multi_case_churn(msgs: &[Message<'static>], rd: VecDeque<REv>, wr: VecDeque<WEv>) -> Option<String> {
    use std::sync::atomic::{AtomicBool, Ordering};
    use std::sync::Arc;
    let stop = Arc::new(AtomicBool::new(false));
    let stop2 = stop.clone();
    let churn = std::thread::spawn(move || {
        let mut n = 0u64;
        while !stop2.load(Ordering::Relaxed) {
            let port = MockPort::new(VecDeque::new(), VecDeque::new(), weird_settings(), FailAt::Never);
            let bus = SerialSignBus::try_new(port);
            drop(bus);
            n += 1;
            std::thread::sleep(Duration::from_micros(300));
        }
        n
    });
    let r = serial_multi_case(true, msgs, rd, wr);
    stop.store(true, Ordering::Relaxed);
    let _ = churn.join();
    r
}

/// `serial_multi_case` run from a destructor while the calling thread is unwinding from a panic (a bus handle that
/// says goodbye or finishes a transfer in its Drop): pacing is owed there as anywhere else.
pub fn serial_multi_case_unwinding(msgs: &[Message<'static>], rd: VecDeque<REv>, wr: VecDeque<WEv>) -> Option<String> {
    struct OnDrop<'a>(&'a mut dyn FnMut());
    impl Drop for OnDrop<'_> {
        fn drop(&mut self) {
            (self.0)()
        }
    }
    let mut result: Option<String> = None;
    let _ = std::panic::catch_unwind(std::panic::AssertUnwindSafe(|| {
        let mut f = || result = serial_multi_case(true, msgs, rd.clone(), wr.clone());
        let _guard = OnDrop(&mut f);
        panic!("unwinding on purpose");
    }));
    result
}

pub fn serial_case(timed: bool, m: &Message<'static>, rd: VecDeque<REv>, wr: VecDeque<WEv>) -> Option<String> {
    let o = serial_once(m, rd.clone(), wr.clone())?;
    if !timed {
        return Some(o.line);
    }
    // splice the classified sleeps into the event list: W [S:30] [R [S:100]]
    let s_send = classify(o.d_send, 30, &mut || serial_once(m, rd.clone(), wr.clone()).and_then(|x| x.d_send));
    let s_recv = classify(o.d_recv, 100, &mut || serial_once(m, rd.clone(), wr.clone()).and_then(|x| x.d_recv));
    let (evs, rest) = o.line.split_once(" => ")?;
    let mut toks: Vec<String> = vec![];
    for t in evs.split(' ').filter(|t| !t.is_empty()) {
        toks.push(t.to_string());
        if t.starts_with("W:") && t.ends_with(":1") && !s_send.is_empty() {
            toks.push(s_send.clone());
        }
        if t == "R" && !s_recv.is_empty() && rest.starts_with("ok ") {
            toks.push(s_recv.clone());
        }
    }
    Some(format!("{} => {}", toks.join(" "), rest))
}

/// A SignBus handle sharing a VirtualSignBus with the test (Odk owns its bus and exposes nothing).
#[derive(Debug, Clone)]
pub struct SharedBus(pub Rc<RefCell<VirtualSignBus<'static>>>);
impl SignBus for SharedBus {
    fn process_message<'a>(&mut self, message: Message<'_>) -> Result<Option<Message<'a>>, Box<dyn Error + Send + Sync>> {
        self.0.borrow_mut().process_message(message)
    }
}

pub fn odk_case(n: usize, signs: &str, prior: &[&str], rd: VecDeque<REv>, wr: VecDeque<WEv>) -> Option<String> {
    let signs = parse_signs(signs)?;
    let ns = signs.len();
    let vb = Rc::new(RefCell::new(VirtualSignBus::new(signs.iter().map(|(st, a)| VirtualSign::new(Address(*a), *st)))));
    for t in prior {
        let m = parse_msg(t)?;
        let _ = vb.borrow_mut().process_message(m).ok()?;
    }
    let port = MockPort::new(rd, wr, weird_settings(), FailAt::Never);
    // keep handles to the reader / writer state through the device? Odk owns the port; observe via a
    // second wrapper instead
    let shared = Rc::new(RefCell::new(port));
    let mut odk = Odk::try_new(RcPort(shared.clone()), SharedBus(vb.clone())).ok()?;
    let mut out = vec![];
    for _ in 0..n {
        let before = shared.borrow().wr.delivered.len();
        let r = odk.process_message();
        let res = match r {
            Ok(()) => "ok",
            Err(OdkError::Communication { .. }) => "comm",
            Err(OdkError::Bus { .. }) => "bus",
            Err(_) => "other",
        };
        let w = shared.borrow().wr.delivered[before..].to_vec();
        out.push(format!("{} w={}", res, to_hex(&w)));
    }
    let b = vb.borrow();
    let obs: Vec<String> = (0..ns).map(|i| show_sign(b.sign(i))).collect();
    let rest = to_hex(&shared.borrow().rd.rest());
    Some(format!("{} | {} | rest={}", out.join(" ; "), obs.join(";"), rest))
}

/// A serial port behind an Rc so that the test keeps access after handing it to an owner.
#[derive(Debug)]
pub struct RcPort(pub Rc<RefCell<MockPort>>);
thread_local! {
    /// the device record of the most recent `RcPort::default()` (so that a probe can look at a port it never held)
    pub static LAST_DEFAULT_DEV: RefCell<Option<Rc<RefCell<DevState>>>> = const { RefCell::new(None) };
}
/// A port "as the operating system hands it out": 110 baud, 5 data bits, even parity, two stop bits, software flow control.
impl Default for RcPort {
    fn default() -> Self {
        let p = MockPort::new(VecDeque::new(), VecDeque::new(), weird_settings(), FailAt::Never);
        let _ = LAST_DEFAULT_DEV.try_with(|d| *d.borrow_mut() = Some(p.dev.clone())); // (not while thread-locals are being torn down)
        RcPort(Rc::new(RefCell::new(p)))
    }
}
/// A bus that can be made out of nothing and never answers.
#[derive(Debug, Default)]
pub struct DefBus;
impl SignBus for DefBus {
    fn process_message<'a>(&mut self, _: Message<'_>) -> Result<Option<Message<'a>>, Box<dyn std::error::Error + Send + Sync>> {
        Ok(None)
    }
}

/// Compile-time probes for ways of obtaining a transport object other than its `try_new` (none exists on the pinned
/// tree): `Default` and `From<port>` / `From<(port, bus)>`.  An inherent function, applicable only when its bound
/// holds, shadows the blanket trait's fallback.  However the object was made, the port inside it must be set up.
pub struct CtorProbe<T>(std::marker::PhantomData<T>);
pub trait NoDefaultCtor<T> {
    fn by_default() -> Option<T> {
        None
    }
}
impl<T> NoDefaultCtor<T> for CtorProbe<T> {}
impl<T: Default> CtorProbe<T> {
    pub fn by_default() -> Option<T> {
        Some(T::default())
    }
}
pub trait NoFromCtor<T, S> {
    fn by_from(_s: S) -> Option<T> {
        None
    }
}
impl<T, S> NoFromCtor<T, S> for CtorProbe<(T, S)> {}
impl<T: From<S>, S> CtorProbe<(T, S)> {
    pub fn by_from(s: S) -> Option<T> {
        Some(T::from(s))
    }
}

/// `portctor WHICH`: "fine" when that constructor does not exist or leaves its port at 19200 8N1 without flow control.
pub fn port_ctor_case(which: &str) -> Option<String> {
    let _ = LAST_DEFAULT_DEV.try_with(|d| *d.borrow_mut() = None);
    #[allow(unused_imports)]
    let made: bool = match which {
        "odk-default" => <CtorProbe<Odk<RcPort, DefBus>>>::by_default().is_some(),
        "serial-default" => <CtorProbe<SerialSignBus<RcPort>>>::by_default().is_some(),
        "serial-from" => <CtorProbe<(SerialSignBus<RcPort>, RcPort)>>::by_from(RcPort::default()).is_some(),
        "odk-from" => <CtorProbe<(Odk<RcPort, DefBus>, (RcPort, DefBus))>>::by_from((RcPort::default(), DefBus)).is_some(),
        _ => return None,
    };
    if !made {
        return Some("fine".to_string());
    }
    let dev = LAST_DEFAULT_DEV.try_with(|d| d.borrow().clone()).ok().flatten();
    Some(match dev {
        None => "fine".to_string(), // made without any of this harness's ports inside: nothing to set up
        Some(dev) => {
            let st = show_settings(&dev.borrow().settings);
            if st == "7,3,0,0,0" {
                "fine".to_string()
            } else {
                format!("unconfigured {}", st)
            }
        }
    })
}

impl Read for RcPort {
    fn read(&mut self, buf: &mut [u8]) -> io::Result<usize> {
        self.0.borrow_mut().read(buf)
    }
}
impl Write for RcPort {
    fn write(&mut self, buf: &[u8]) -> io::Result<usize> {
        self.0.borrow_mut().write(buf)
    }
    fn flush(&mut self) -> io::Result<()> {
        Ok(())
    }
}
impl SerialDevice for RcPort {
    type Settings = MockSettings;
    fn read_settings(&self) -> serial_core::Result<MockSettings> {
        self.0.borrow().read_settings()
    }
    fn write_settings(&mut self, s: &MockSettings) -> serial_core::Result<()> {
        self.0.borrow_mut().write_settings(s)
    }
    fn timeout(&self) -> Duration {
        self.0.borrow().timeout()
    }
    fn set_timeout(&mut self, t: Duration) -> serial_core::Result<()> {
        self.0.borrow_mut().set_timeout(t)
    }
    fn set_rts(&mut self, _: bool) -> serial_core::Result<()> {
        Ok(())
    }
    fn set_dtr(&mut self, _: bool) -> serial_core::Result<()> {
        Ok(())
    }
    fn read_cts(&mut self) -> serial_core::Result<bool> {
        Ok(false)
    }
    fn read_dsr(&mut self) -> serial_core::Result<bool> {
        Ok(false)
    }
    fn read_ri(&mut self) -> serial_core::Result<bool> {
        Ok(false)
    }
    fn read_cd(&mut self) -> serial_core::Result<bool> {
        Ok(false)
    }
}

pub fn port_case(kind: &str, prior: PortSettings, fail: FailAt) -> Option<String> {
    let port = MockPort::new(VecDeque::new(), VecDeque::new(), prior, fail);
    let dev = port.dev.clone();
    let ok = if kind == "serial" {
        SerialSignBus::try_new(port).is_ok()
    } else if kind == "odk" {
        let vb = VirtualSignBus::new(vec![]);
        Odk::try_new(port, vb).is_ok()
    } else if let Some(ms) = kind.strip_prefix("cfg:") {
        let mut port = port;
        flipdot_serial::configure_port(&mut port, Duration::from_millis(ms.parse().ok()?)).is_ok()
    } else if let Some(ns) = kind.strip_prefix("cfgn:") {
        // the caller's timeout in nanoseconds (sub-millisecond and odd values; applied as given, observed in nanoseconds)
        let mut port = port;
        flipdot_serial::configure_port(&mut port, Duration::from_nanos(ns.parse().ok()?)).is_ok()
    } else {
        return None;
    };
    let d = dev.borrow();
    let t = match d.timeout {
        Some(t) if kind.starts_with("cfgn:") => format!("{}ns", t.as_nanos()),
        Some(t) => t.as_millis().to_string(),
        None => "-".to_string(),
    };
    Some(format!("{} {} {}", if ok { "ok" } else { "err" }, show_settings(&d.settings), t))
}

// ---------------------------------------------------------------------------------------------
// the full serial path in memory

#[derive(Debug)]
pub struct Pipe {
    pub to_odk: VecDeque<u8>,
    pub to_client: VecDeque<u8>,
    pub odk_results: Vec<String>,
}

#[derive(Debug)]
pub struct OdkSide(pub Rc<RefCell<Pipe>>);
impl Read for OdkSide {
    fn read(&mut self, buf: &mut [u8]) -> io::Result<usize> {
        let mut p = self.0.borrow_mut();
        let mut k = 0;
        while k < buf.len() {
            match p.to_odk.pop_front() {
                Some(b) => {
                    buf[k] = b;
                    k += 1;
                }
                None => break,
            }
        }
        Ok(k)
    }
}
impl Write for OdkSide {
    fn write(&mut self, buf: &[u8]) -> io::Result<usize> {
        self.0.borrow_mut().to_client.extend(buf.iter());
        Ok(buf.len())
    }
    fn flush(&mut self) -> io::Result<()> {
        Ok(())
    }
}

macro_rules! plain_device {
    ($t:ty) => {
        impl SerialDevice for $t {
            type Settings = PortSettings;
            fn read_settings(&self) -> serial_core::Result<PortSettings> {
                Ok(weird_settings())
            }
            fn write_settings(&mut self, _: &PortSettings) -> serial_core::Result<()> {
                Ok(())
            }
            fn timeout(&self) -> Duration {
                Duration::from_millis(0)
            }
            fn set_timeout(&mut self, _: Duration) -> serial_core::Result<()> {
                Ok(())
            }
            fn set_rts(&mut self, _: bool) -> serial_core::Result<()> {
                Ok(())
            }
            fn set_dtr(&mut self, _: bool) -> serial_core::Result<()> {
                Ok(())
            }
            fn read_cts(&mut self) -> serial_core::Result<bool> {
                Ok(false)
            }
            fn read_dsr(&mut self) -> serial_core::Result<bool> {
                Ok(false)
            }
            fn read_ri(&mut self) -> serial_core::Result<bool> {
                Ok(false)
            }
            fn read_cd(&mut self) -> serial_core::Result<bool> {
                Ok(false)
            }
        }
    };
}
plain_device!(OdkSide);

/// The controller's end: every complete line written is handed to the ODK bridge at once.
pub struct ClientSide {
    pub pipe: Rc<RefCell<Pipe>>,
    pub odk: Rc<RefCell<Odk<OdkSide, SharedBus>>>,
}
impl std::fmt::Debug for ClientSide {
    fn fmt(&self, f: &mut std::fmt::Formatter<'_>) -> std::fmt::Result {
        write!(f, "ClientSide")
    }
}
impl Read for ClientSide {
    fn read(&mut self, buf: &mut [u8]) -> io::Result<usize> {
        let mut p = self.pipe.borrow_mut();
        let mut k = 0;
        while k < buf.len() {
            match p.to_client.pop_front() {
                Some(b) => {
                    buf[k] = b;
                    k += 1;
                }
                None => break,
            }
        }
        Ok(k)
    }
}
impl Write for ClientSide {
    fn write(&mut self, buf: &[u8]) -> io::Result<usize> {
        self.pipe.borrow_mut().to_odk.extend(buf.iter());
        loop {
            let has_line = self.pipe.borrow().to_odk.contains(&b'\n');
            if !has_line {
                break;
            }
            let r = self.odk.borrow_mut().process_message();
            let tag = match r {
                Ok(()) => "ok",
                Err(OdkError::Communication { .. }) => "comm",
                Err(_) => "bus",
            };
            self.pipe.borrow_mut().odk_results.push(tag.to_string());
        }
        Ok(buf.len())
    }
    fn flush(&mut self) -> io::Result<()> {
        Ok(())
    }
}
plain_device!(ClientSide);

pub fn e2e_serial(signs: &str, rest: &[&str]) -> Option<String> {
    let signs = parse_signs(signs)?;
    let split = rest.iter().position(|t| *t == "|")?;
    let prior: Vec<Message<'static>> = rest[..split].iter().map(|t| parse_msg(t)).collect::<Option<_>>()?;
    let ops = &rest[split + 1..];
    let n = signs.len();
    let vb = Rc::new(RefCell::new(VirtualSignBus::new(signs.iter().map(|(st, a)| VirtualSign::new(Address(*a), *st)))));
    for m in prior {
        let _ = vb.borrow_mut().process_message(m).ok()?;
    }
    let pipe = Rc::new(RefCell::new(Pipe {
        to_odk: VecDeque::new(),
        to_client: VecDeque::new(),
        odk_results: vec![],
    }));
    let odk = Rc::new(RefCell::new(Odk::try_new(OdkSide(pipe.clone()), SharedBus(vb.clone())).ok()?));
    let client = ClientSide { pipe: pipe.clone(), odk };
    let bus = Rc::new(RefCell::new(SerialSignBus::try_new(client).ok()?));
    let mut out: Vec<String> = vec![];
    let mut ctrls: Vec<((u16, usize), Sign)> = vec![];
    for o in ops {
        let p: Vec<&str> = o.split(',').collect();
        let (op, a, t, items) = match p.as_slice() {
            [op, a, t, items] => (*op, parse_u16(a)?, *TYPES.get(t.parse::<usize>().ok()?)?, parse_items(items)?),
            _ => return None,
        };
        // one controller object per (address, type) for the whole line
        let ti = TYPES.iter().position(|x| *x == t)?;
        if !ctrls.iter().any(|(k, _)| *k == (a, ti)) {
            ctrls.push(((a, ti), Sign::new(bus.clone(), Address(a), t)));
        }
        let sign = &ctrls.iter().find(|(k, _)| *k == (a, ti))?.1;
        let r = guarded(|| run_op(sign, op, t, &items));
        out.push(match r {
            None => "PANIC".to_string(),
            Some(None) => return None,
            Some(Some(Ok(s))) => s,
            Some(Some(Err(SignError::Bus { .. }))) => "bus".to_string(),
            Some(Some(Err(SignError::UnexpectedResponse { .. }))) => "proto".to_string(),
            Some(Some(Err(_))) => "err-other".to_string(),
        });
    }
    let b = vb.try_borrow().ok()?;
    let obs: Vec<String> = (0..n).map(|i| show_sign(b.sign(i))).collect();
    Some(format!("{} | {}", out.join(" "), obs.join(";")))
}
