#!/usr/bin/env python3
"""seedtask.py <suffix> [adversarial]  — write TASK.md into the scratch worktrees /tmp/wt/Cxx<suffix> (one per property).

The text handed to a seeding sub-agent: the property (from properties.jsonl), the rules of the exercise, and — for the
adversarial rounds — a description of the kind of tester the change has to slip past.  Nothing from /verif is in it.
Create the worktrees first:  for p in C01 …; do git -C /repo worktree add -q /tmp/wt/${p}<suffix> HEAD; done
"""
import json
import os
import sys

suffix = sys.argv[1]
adversarial = len(sys.argv) > 2

ADV = """ADVERSARIAL BRIEF FOR THIS ROUND: assume the property will be checked by a strong automated tester that (a) enumerates small domains exhaustively (all byte values, all lengths 0..=255, all states, all message kinds, all io::ErrorKind values, small page sizes), (b) samples large domains randomly and at boundary values (0, 1, 0x7F, 0x80, 0xFF, 0x100, 0x7FFF, 0x8000, 0xFFFF) and goes far past powers of two where that is cheap (data lengths around 2^9 … 2^33, lines of 2 MiB, pages 2 x 600 000, polling phases of 150 000 replies, virtual signs of 1020 x 255), with uniform, almost-uniform and protocol-looking payloads (wire lines inside data, terminators, near-miss lines with stray white space), (c) runs long random operation / message sequences on ONE object and compares every observable with an independent reference implementation, (d) injects I/O errors of every kind and concrete type, short reads / writes and timeouts at every call index, and (e) runs with a `log` logger installed that formats every record at Trace level, with a pending unpark token on the calling thread, and repeats a sample of all cases from inside a thread-local destructor at thread exit, (f) builds objects in non-initial states (a bus from signs that are already mid-transfer, a bus rebuilt from clones of its signs, a second operation on the same controller after the first was cut short at every point by an error, an unwinding bus or an unexpected reply), (g) uses readers that re-enter the codec, ports whose flush() fails, buses that take over a second to answer, pages with more than 4 GiB of pixel data, page lists of exactly 65 535 chunks and multiples of 256 pages, transfers of more than 64 KiB through one bus object, Unknown replies that wrap the awaited reply's own frame, chunks that start like configuration blocks, every Unicode character whose case folding yields hex digits, and the full cross product of prior port settings x error kinds x failing calls, (h) probes at compile time for new conversions into, and mutable access to, the library's data types, (i) feeds every component its own output back (a bus that echoes the message it was sent, a reply line equal to the request, a line equal to the bridge's last reply), tries every length check with lengths that are right only modulo 2^8 / 2^16 / 2^32, uses the library's own error types as bus errors, sends Unknown messages that carry decodable frames, puts short and empty lines before frames, uses lower-case replies, lines with extreme byte sums, gigabytes of traffic on one thread, caller timeouts from 0 ns upwards, and neighbour signs left mid-transfer in either bus position, decodes frames that share header and byte sum one right after the other, answers the controller with replies that are awkward to format (long payloads, multi-byte text across any offset), sends two configuration blocks with the same type code and different geometry, compares and hashes pages of more than 4 GiB, fails streams with errors that carry the library's own error types, lets replies trickle in over several seconds and ports be a little slow on every call, and compares every integer (not only lengths) modulo 2^16 / 2^32, and (j) re-translates the source of every anchored function into a proof assistant on every run and proves it equal to a reference model (so a changed statement inside a translated function is noticed even when no test input shows it; integer widths and the arguments of log statements are checked too). Design your change so that it is a REAL violation of the property as stated (demonstrable by a deterministic test through the public API) and yet is as likely as possible to slip past such a tester: it should need a conjunction of two or three specific conditions, a value in the middle of a large domain, a particular history, a rarely combined pair of features, or an environment the tester is unlikely to construct. It must still look like an honest mistake a reviewer could wave through — no deliberately planted backdoors (no hash coincidences, magic constants, clock / hostname / environment-variable checks). Do not rely on wall-clock flakiness or on undefined behaviour.

"""

props = {}
for l in open('/verif/properties.jsonl'):
    d = json.loads(l)
    props[d['id']] = d
for pid, d in props.items():
    wt = f"/tmp/wt/{pid}{suffix}"
    if not os.path.isdir(wt):
        continue  # a round may cover a subset of the properties
    text = f"""You are working in a scratch git worktree of a small Rust library (flipdot: drives Luminator flip-dot/LED signs over RS-485: Intel-HEX frame codec libs/core/src/frame.rs, frame<->message mapping libs/core/src/message.rs, page bit layout libs/core/src/page.rs, sign types libs/core/src/sign_type.rs, controller src/sign.rs, serial transport libs/serial/src, virtual signs + ODK bridge libs/testing/src).
The worktree is at {wt} — work ONLY inside {wt} (cd there first; do not touch /repo, /verif or any other directory; do not commit; do NOT use `git stash` — it is shared with other worktrees; to test without your change use `git diff -- . ':!tests/seeded_demo.rs' > patch.diff; git apply -R patch.diff; ...; git apply patch.diff`). No network; build/test with `cargo test --workspace --offline` from {wt} (first build ~1 min; tests run in the debug profile so arithmetic overflow panics).

Property the library is supposed to satisfy:

---
Property {pid} — {d['title']}

Statement: {d['statement']}

Quantified over: {d['quantifier']['text']}

Observed at: {', '.join(d['anchors'].get('observe_at') or [])}

Code anchors: {', '.join(d['anchors']['files'])}
---

Task: make a realistic change to the library source that BREAKS this property while the code still compiles and the ENTIRE existing test suite still passes. It should look like a plausible refactor, optimisation or robustness tweak a maintainer might commit. Do not edit or delete existing tests.

{ADV if adversarial else ''}Then write a demonstration test file {wt}/tests/seeded_demo.rs (public API only: crates `flipdot`, `flipdot::core` (= flipdot_core), `flipdot_serial`, `flipdot_testing`, `serial_core`, `log`; write your own mocks if needed — see tests/mock_serial_port/mod.rs for the serial trait surface) that FAILS with your change and PASSES on the original code, robustly (for timing use generous margins, lower bounds only for paced exchanges); verify both with the git apply -R / git apply procedure above.

Produce inside {wt}: patch.diff (source change only, `git diff -- . ':!tests/seeded_demo.rs'`), tests/seeded_demo.rs, NOTES.md (what the change is, the exact conjunction of conditions it needs, commands run and outcomes: existing suite green with change, demo red with change, demo green without).

Report back briefly: the idea, what it needs to manifest, and confirmation of the three checks.
"""
    open(f"{wt}/TASK.md", "w").write(text)
print("ok")
