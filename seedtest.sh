#!/bin/bash
# seedtest.sh verify <worktree> <seed-id> <property>   confirm a seeded change in its scratch worktree and store it under seeded/<seed-id>
# seedtest.sh harmless [prefix]                       apply each harmless rewrite of harmless/*.diff, run the checks listed in its .txt, expect OK
# seedtest.sh run <seed-id> [props...]                 apply seeded/<seed-id>/patch.diff to /repo, run the checks, undo
set -u
cd "$(dirname "$0")"
cmd=$1; shift
if [ "$cmd" = verify ]; then
  wt=$1; id=$2; prop=$3
  cd "$wt" || exit 2
  # make sure the source change is applied (patch.diff) and the demo exists
  # (the agent leaves its change applied; take it out — including files it added — before re-applying the patch)
  git reset -q 2>/dev/null
  git apply -R patch.diff 2>/dev/null
  git checkout -q -- . 2>/dev/null
  git apply patch.diff || { echo "patch does not apply"; exit 2; }
  mv tests/seeded_demo.rs /tmp/seeded_demo.$$.rs
  echo "== existing suite with the change"
  cargo test --workspace --offline 2>&1 | grep -E "^test result|FAILED|error(\[|:)" | sort | uniq -c | sed -n 1,20p
  suite=${PIPESTATUS[0]}
  mv /tmp/seeded_demo.$$.rs tests/seeded_demo.rs
  echo "== demo with the change (must fail)"
  cargo test --offline --test seeded_demo 2>&1 | grep -E "^test result|panicked" | head -5
  cargo test --offline --test seeded_demo >/dev/null 2>&1; with=$?
  git apply -R patch.diff
  echo "== demo without the change (must pass)"
  cargo test --offline --test seeded_demo 2>&1 | grep -E "^test result" | head -3
  cargo test --offline --test seeded_demo >/dev/null 2>&1; without=$?
  git apply patch.diff
  echo "suite_rc=$suite demo_with=$with demo_without=$without"
  if [ $with -ne 0 ] && [ $without -eq 0 ]; then
    mkdir -p /verif/seeded/$id
    cp patch.diff /verif/seeded/$id/patch.diff
    cp tests/seeded_demo.rs /verif/seeded/$id/seeded_demo.rs
    cp NOTES.md /verif/seeded/$id/NOTES.md 2>/dev/null
    echo "stored in seeded/$id"
  fi
elif [ "$cmd" = harmless ]; then
  # apply every harmless rewrite of harmless/*.diff in turn, run the existing test-suite on it once
  # (it must stay green) and the checks named after the file name; every check must print OK
  git -C /repo diff --quiet || { echo "/repo has local changes"; exit 2; }
  bad=0
  for f in /verif/harmless/${1:-H}*.diff; do
    props=$(grep -m1 '^# checks:' "${f%.diff}.txt" 2>/dev/null | cut -d: -f2)
    git -C /repo apply "$f" || { echo "does not apply: $f"; bad=1; continue; }
    echo "== $(basename $f): checks$props"
    for p in $props; do
      out=$(./check $p 2>&1 | tail -1 | cut -c1-200)
      echo "   $out"
      case "$out" in
        OK*) ;;
        *no-failing-input-found)
          # a proof obligation broke without any behavioural difference: tolerated only where the corpus entry says so
          if grep -q '^# expect: static-tie no-failing-input-found' "${f%.diff}.txt" 2>/dev/null; then echo "     (expected: documented limit of the static tie)"; else bad=1; fi;;
        *) bad=1;;
      esac
    done
    git -C /repo apply -R "$f" 2>/dev/null
    git -C /repo checkout -- .
  done
  echo "harmless corpus: $([ $bad -eq 0 ] && echo all OK || echo ALARM RAISED)"
  exit $bad
elif [ "$cmd" = run ]; then
  id=$1; shift
  git -C /repo diff --quiet || { echo "/repo has local changes"; exit 2; }
  git -C /repo apply /verif/seeded/$id/patch.diff || exit 2
  for p in "$@"; do
    echo "== ./check $p with seeded/$id"
    ./check $p 2>&1 | cut -c1-260 | tail -12
  done
  # undo (a reverse apply also removes files the change added)
  git -C /repo apply -R /verif/seeded/$id/patch.diff 2>/dev/null
  git -C /repo checkout -- .
  git -C /repo status --short | head -3
fi
