#!/usr/bin/env python3
"""translate_vsign.py — statement-level translator for the virtual sign
(libs/testing/src/virtual_sign_bus.rs, `impl VirtualSign<'_>`).

Every `&mut self` method is compiled into a pure state-passing function

    method : VSign → args… → Except Panic (VSign × result)

over the record of the hand-written model (lean/Flipdot/Model/VSign.lean): field writes become
record updates, calls of other methods thread the state (`bindE`), `if` / `match` / early `return`
are translated in continuation-passing style (the statements after a branching statement are
copied into each branch), indexing and slicing go through `idxE` / `sliceE`, which make the
out-of-bounds panic explicit, and log macros / log-only loops and matches are dropped.

The bus loop `VirtualSignBus::process_message` is the one template: it is recognised as a whole and
tied to the model's `busStep`.
"""
import os
import re

from translate import TranslateError, strip_comments, STATES, OPS, SIGNS, lc, matching
from translate_ctrl import parse_methods, LOG_MACROS, indent, squash, check_log_macro

FIELDS = {  # rust field → (lean field, type)
    "address": ("addr", "u16"), "flip_style": ("style", "style"), "state": ("state", "state"),
    "pages": ("pages", "pages"), "pending_data": ("pending", "bytes"), "data_chunks": ("chunks", "nat"),
    "width": ("w", "nat"), "height": ("h", "nat"), "sign_type": ("signType", "optsign"),
}
RET_TYPES = {"Option<Message<'a>>": "Option Msg", "Message<'a>": "Msg", "": "Unit"}
PARAM_TYPES = {"Offset": ("UInt16", "u16"), "ChunkCount": ("UInt16", "u16"), "&[u8]": ("List UInt8", "bytes"),
               "&Message<'_>": ("Msg", "msg")}


def lean_name(rust):
    parts = rust.split("_")
    return parts[0] + "".join(w.capitalize() for w in parts[1:])


class St:
    """symbolic machine state: a base variable plus pending field updates, and the locals"""

    def __init__(self, base, upd=None, env=None, n=0):
        self.base, self.upd, self.env, self.n = base, dict(upd or {}), dict(env or {}), n

    def copy(self):
        return St(self.base, self.upd, self.env, self.n)

    def read(self, field):
        lf, ty = FIELDS[field]
        return (self.upd[lf] if lf in self.upd else "%s.%s" % (self.base, lf)), ty

    def write(self, field, text):
        s = self.copy()
        s.upd[FIELDS[field][0]] = text
        return s

    def cur(self):
        if not self.upd:
            return self.base
        return "{ %s with %s }" % (self.base, ", ".join("%s := %s" % kv for kv in self.upd.items()))


class VT:
    def __init__(self, methods):
        self.methods = methods
        self.counter = 0
        self.cur_ret = None

    def fresh(self, stem):
        self.counter += 1
        return "%s%d" % (stem, self.counter)

    # ---------------------------------------------------------------- expressions
    def expr(self, e, st):
        """→ (preludes [(helper call text, [bound names])], lean text, type)"""
        k = e[0]
        if k == "paren":
            return self.expr(e[1], st)
        if k == "ref" or k == "deref":
            return self.expr(e[1], st)
        if k == "num":
            return [], str(e[1]), "lit"
        if k == "bool":
            return [], ("true" if e[1] else "false"), "bool"
        if k == "str":
            return [], "()", "str"
        if k == "unit":
            return [], "()", "unit"
        if k == "path":
            p = e[1]
            if len(p) == 1:
                if p[0] in st.env:
                    return [], st.env[p[0]][0], st.env[p[0]][1]
                if p[0] == "None":
                    return [], "none", "opt"
                raise TranslateError("virtual sign: unknown name %s" % p[0])
            if p[0] == "State" and p[1] in STATES:
                return [], "State." + lc(p[1]), "state"
            if p[0] == "Operation" and p[1] in OPS:
                return [], "Op." + lc(p[1]), "op"
            if p[0] == "PageFlipStyle" and p[1] in ("Automatic", "Manual"):
                return [], "FlipStyle." + lc(p[1]), "style"
            raise TranslateError("virtual sign: unknown path %s" % "::".join(p))
        if k == "field":
            if e[1] == ("path", ["self"]) and e[2] in FIELDS:
                t, ty = st.read(e[2])
                return [], t, ty
            if e[2] == "0":  # newtype projection: Offset / ChunkCount / Address are their u16
                return self.expr(e[1], st)
            raise TranslateError("virtual sign: unsupported field access .%s" % e[2])
        if k == "index":
            pre, t, ty = self.expr(e[1], st)
            pi, ti, _ = self.expr(e[2], st)
            if ty != "bytes":
                raise TranslateError("virtual sign: indexing something other than a byte slice")
            v = self.fresh("b")
            return pre + pi + [("idxE %s %s" % (t, ti), [v])], v, "u8"
        if k == "slice":
            pre, t, ty = self.expr(e[1], st)
            if ty != "bytes" or e[2] is None or e[3] is None:
                raise TranslateError("virtual sign: unsupported slice")
            plo, lo, _ = self.expr(e[2], st)
            phi, hi, _ = self.expr(e[3], st)
            v = self.fresh("xs")
            return pre + plo + phi + [("sliceE %s %s %s" % (t, lo, hi), [v])], v, "bytes"
        if k == "tuple":
            pres, texts, tys = [], [], []
            for x in e[1]:
                p, t, ty = self.expr(x, st)
                pres += p
                texts.append(t)
                tys.append(ty)
            return pres, texts, tys
        if k == "not":
            p, t, ty = self.expr(e[1], st)
            return p, "¬ (%s)" % self.prop(t, ty), "prop"
        if k == "bin":
            op = e[1]
            pl, l, tl = self.expr(e[2], st)
            pr, r, tr_ = self.expr(e[3], st)
            if op in ("&&", "||"):
                return pl + pr, "(%s %s %s)" % (self.prop(l, tl), "∧" if op == "&&" else "∨", self.prop(r, tr_)), "prop"
            if op in ("==", "!=", "<", ">", "<=", ">="):
                l, r = self.unify(l, tl, r, tr_)
                sym = {"==": "=", "!=": "≠", "<": "<", ">": ">", "<=": "≤", ">=": "≥"}[op]
                return pl + pr, "(%s %s %s)" % (l, sym, r), "prop"
            raise TranslateError("virtual sign: unsupported operator %s" % op)
        if k == "call":
            f, args = e[1], e[2]
            if f[0] == "path":
                p = f[1]
                if p in (["Offset"], ["ChunkCount"], ["Address"]) and len(args) == 1:
                    pa, t, ty = self.expr(args[0], st)
                    return pa, t, ("u16" if ty == "lit" else ty)
                if p == ["u32", "from"] and len(args) == 1:
                    pa, t, ty = self.expr(args[0], st)
                    if ty in ("u8", "u16"):
                        return pa, "%s.toNat" % t, "nat"
                    if ty in ("nat", "lit"):
                        return pa, t, "nat"
                    raise TranslateError("virtual sign: u32::from of a %s" % ty)
                if p == ["Some"] and len(args) == 1:
                    pa, t, ty = self.expr(args[0], st)
                    return pa, "(some %s)" % t, "opt"
                if p[0] == "Message" and len(p) == 2:
                    return self.message(p[1], args, st)
                if p == ["SignType", "from_bytes"] and len(args) == 1:
                    pa, t, ty = self.expr(args[0], st)
                    v = self.fresh("parsed")
                    return pa + [("liftE (SignType.fromBytes %s)" % t, [v])], v, "signresult"
                if p == ["Page", "from_bytes"] and len(args) == 3:
                    pres, ts = [], []
                    for a in args:
                        pa, t, ty = self.expr(a, st)
                        pres += pa
                        ts.append(t)
                    return pres, "(Page.fromBytes %s %s %s)" % tuple(ts), "pageresult"
                if p == ["mem", "take"]:
                    raise TranslateError("virtual sign: mem::take outside a `let`")
            raise TranslateError("virtual sign: unsupported call %r" % (f,))
        if k == "method":
            recv, name, args = e[1], e[2], e[3]
            if recv == ("path", ["self"]):
                raise TranslateError("virtual sign: call of self.%s in expression position" % name)
            pr, t, ty = self.expr(recv, st)
            if name == "len" and ty == "bytes":
                return pr, "%s.length" % t, "nat"
            if name == "is_empty" and ty in ("bytes", "pages"):
                return pr, "(%s = [])" % t, "prop"
            if name == "saturating_add" and ty == "nat" and args == [("num", 1)]:
                return pr, "(satSucc %s)" % t, "nat"
            if name == "ok" and ty == "signresult":
                return pr, "%s.toOption" % t, "optsign"
            if name == "get" and ty == "bytes":
                return pr, t, "bytes"
            if name == "iter" and ty == "bytes":
                return pr, t, "bytesiter"
            if name == "map" and ty == "bytesiter" and len(args) == 1 and args[0][0] == "closure":
                c = args[0]
                if len(c[1]) == 1 and c[1][0][0] == "pbind" and c[2] == ("call", ("path", ["u32", "from"]), [("path", [c[1][0][1]])]):
                    return pr, "(%s.map (·.toNat))" % t, "natiter"
                raise TranslateError("virtual sign: unsupported closure in map")
            if name == "sum" and ty == "natiter":
                return pr, "%s.sum" % t, "nat"
            raise TranslateError("virtual sign: unsupported method .%s on a %s" % (name, ty))
        raise TranslateError("virtual sign: unsupported expression kind %s" % k)

    def prop(self, t, ty):
        if ty == "bool":
            return "%s = true" % t
        return t

    def unify(self, l, tl, r, tr_):
        """make both sides of a comparison the same Lean type"""
        if tl == "lit" and tr_ == "u8":
            return "(%s : UInt8)" % l, r
        if tr_ == "lit" and tl == "u8":
            return l, "(%s : UInt8)" % r
        if tl == "lit" and tr_ == "u16":
            return "(%s : UInt16)" % l, r
        if tr_ == "lit" and tl == "u16":
            return l, "(%s : UInt16)" % r
        if {tl, tr_} <= {"nat", "lit"} or tl == tr_:
            return l, r
        raise TranslateError("virtual sign: comparison between a %s and a %s" % (tl, tr_))

    def message(self, name, args, st):
        ts, pres = [], []
        for a in args:
            pa, t, ty = self.expr(a, st)
            pres += pa
            ts.append(t)
        ctor = {"ReportState": "reportState", "AckOperation": "ackOp", "RequestOperation": "requestOp", "Hello": "hello",
                "QueryState": "queryState", "Goodbye": "goodbye", "PixelsComplete": "pixelsComplete"}.get(name)
        if ctor is None:
            raise TranslateError("virtual sign: unsupported message constructor %s" % name)
        return pres, "(Msg.%s %s)" % (ctor, " ".join(ts)), "msg"

    def wrap(self, pres, body):
        """apply the preludes (index / slice / parse helpers) around a body"""
        for call, names in reversed(pres):
            body = "%s fun %s =>\n%s" % (call, " ".join(names), indent(body))
        return body

    # ---------------------------------------------------------------- statements
    def log_only(self, stmts):
        for s in stmts:
            if s[0] == "expr" and s[1][0] == "macro" and s[1][1] in LOG_MACROS:
                check_log_macro(s[1][1], s[1][2], "virtual_sign_bus.rs")
                continue
            if s[0] == "for" and self.log_only(s[3]):
                continue
            if s[0] == "match" and all((b[0] == "block" and self.log_only(b[1])) or (b[0] == "expr" and b[1][0] == "macro" and b[1][1] in LOG_MACROS) for _, _, b in s[2]):
                for _, _, b in s[2]:
                    if b[0] == "expr":
                        check_log_macro(b[1][1], b[1][2], "virtual_sign_bus.rs")
                continue
            return False
        return True

    def finish(self, st, value):
        return ".ok (%s, %s)" % (st.cur(), value)

    def tr(self, stmts, st):
        if not stmts:
            if self.cur_ret == "Unit":
                return self.finish(st, "()")
            raise TranslateError("virtual sign: control reaches the end of a method that returns a value")
        s, rest = stmts[0], stmts[1:]
        k = s[0]
        if self.log_only([s]):
            return self.tr(rest, st)
        if k == "expr":
            e, semi = s[1], s[2]
            if not semi and not rest:
                return self.value_tail(e, st)
            # statement-position calls
            if e[0] == "method" and e[1] == ("path", ["self"]):
                return self.call_self(e, st, lambda st2, r: self.tr(rest, st2))
            if e[0] == "method" and e[1][0] == "field" and e[1][1] == ("path", ["self"]):
                fld, name, args = e[1][2], e[2], e[3]
                cur, ty = st.read(fld)
                if name == "clear" and not args:
                    return self.tr(rest, st.write(fld, "[]"))
                if name == "extend_from_slice" and len(args) == 1 and ty == "bytes":
                    pa, t, _ = self.expr(args[0], st)
                    return self.wrap(pa, self.tr(rest, st.write(fld, "(%s ++ %s)" % (cur, t))))
                if name == "push" and len(args) == 1 and ty == "pages":
                    pa, t, _ = self.expr(args[0], st)
                    return self.wrap(pa, self.tr(rest, st.write(fld, "(%s ++ [%s])" % (cur, t))))
            raise TranslateError("virtual sign: unsupported expression statement %r" % (e,))
        if k == "assignto":
            lhs, rhs = s[1], s[2]
            if not (lhs[0] == "field" and lhs[1] == ("path", ["self"]) and lhs[2] in FIELDS):
                raise TranslateError("virtual sign: assignment to something other than a field of self")
            if rhs[0] == "matchexpr":
                return self.match_value(rhs, st, lambda st2, t, ty: self.tr(rest, st2.write(lhs[2], t)))
            pa, t, ty = self.expr(rhs, st)
            return self.wrap(pa, self.tr(rest, st.write(lhs[2], t)))
        if k == "let":
            pat, mutable, e = s[1], s[2], s[3]
            if e[0] == "call" and e[1] == ("path", ["mem", "take"]) and len(e[2]) == 1 and pat[0] == "pbind":
                tgt = e[2][0]
                while tgt[0] == "ref":
                    tgt = tgt[1]
                if not (tgt[0] == "field" and tgt[1] == ("path", ["self"]) and FIELDS.get(tgt[2], ("", ""))[1] == "bytes"):
                    raise TranslateError("virtual sign: unsupported mem::take target")
                cur, ty = st.read(tgt[2])
                st2 = st.write(tgt[2], "[]")
                st2.env[pat[1]] = (cur, ty)
                return self.tr(rest, st2)
            if e[0] == "matchexpr":
                def k_bind(st2, t, ty):
                    st3 = st2.copy()
                    self.bind_pattern(pat, t, ty, st3)
                    return self.tr(rest, st3)
                return self.match_value(e, st, k_bind)
            if e[0] == "method" and e[1] == ("path", ["self"]):
                def k_call(st2, r):
                    st3 = st2.copy()
                    self.bind_pattern(pat, r[0], r[1], st3)
                    return self.tr(rest, st3)
                return self.call_self(e, st, k_call)
            pa, t, ty = self.expr(e, st)
            st2 = st.copy()
            self.bind_pattern(pat, t, ty, st2)
            return self.wrap(pa, self.tr(rest, st2))
        if k == "return":
            return self.value_tail(s[1], st)
        if k == "if":
            pc, c, tyc = self.expr(s[1], st)
            a = self.tr(s[2] + rest, st)
            b = self.tr((s[3] or []) + rest, st)
            return self.wrap(pc, "if %s then\n%s\nelse\n%s" % (self.prop(c, tyc), indent(a), indent(b)))
        if k == "match":
            return self.match_stmt(s, rest, st)
        raise TranslateError("virtual sign: unsupported statement kind %s" % k)

    def bind_pattern(self, pat, t, ty, st):
        if pat[0] == "pbind":
            st.env[pat[1]] = (t, ty)
        elif pat[0] == "ptuple" and isinstance(t, list) and len(t) == len(pat[1]):
            for p_, t_, ty_ in zip(pat[1], t, ty):
                self.bind_pattern(p_, t_, ty_, st)
        elif pat[0] == "pwild":
            pass
        else:
            raise TranslateError("virtual sign: unsupported let pattern")

    def value_tail(self, e, st):
        """the method's result"""
        if e[0] == "method" and e[1] == ("path", ["self"]):
            return self.call_self(e, st, lambda st2, r: self.finish(st2, r[0]))
        if e[0] == "call" and e[1] == ("path", ["Some"]) and len(e[2]) == 1 and e[2][0][0] == "method" and e[2][0][1] == ("path", ["self"]):
            return self.call_self(e[2][0], st, lambda st2, r: self.finish(st2, "(some %s)" % r[0]))
        pa, t, ty = self.expr(e, st)
        return self.wrap(pa, self.finish(st, t))

    def call_self(self, e, st, k):
        name, args = e[2], e[3]
        if name not in self.methods:
            raise TranslateError("virtual sign: call of unknown method %s" % name)
        pres, ts = [], []
        for a in args:
            pa, t, ty = self.expr(a, st)
            pres += pa
            ts.append(t)
        sv, rv = self.fresh("s"), self.fresh("r")
        st2 = St(sv, {}, st.env)
        ret = RET_TYPES.get(self.methods[name][1], None)
        body = k(st2, (rv, {"Option Msg": "opt", "Msg": "msg", "Unit": "unit"}.get(ret, "unit")))
        call = "bindE (%s %s%s)" % (lean_name(name), st.cur() if st.upd == {} else "(%s)" % st.cur(), "".join(" " + t for t in ts))
        return self.wrap(pres, "%s fun %s %s =>\n%s" % (call, sv, rv, indent(body)))

    # ---- match as a value: `let p = match e { .. }` / `self.f = match e { .. }`
    def match_value(self, m, st, k):
        scrut, arms = m[1], m[2]
        ps, t, ty = self.expr(scrut, st)
        parts = []
        for pats, guard, body in arms:
            if guard is not None:
                raise TranslateError("virtual sign: guard in a value match")
            c = self.lit_cond(pats, t, ty)
            if body[0] == "block":
                bt = self.tr(body[1], st)   # e.g. `return None`
            else:
                pb, bt_, bty = self.expr(body[1], st)
                bt = self.wrap(pb, k(st, bt_, bty))
            parts.append((c, bt))
        return self.wrap(ps, self.chain(parts))

    def lit_cond(self, pats, t, ty):
        if pats == [("pwild",)]:
            return None
        cs = []
        for p in pats:
            if p[0] == "pnum" and ty == "u8":
                cs.append("%s = (0x%02X : UInt8)" % (t, p[1]))
            elif p[0] == "ppath" and len(p[1]) == 2 and p[1][0] == "State" and p[1][1] in STATES and ty == "state":
                cs.append("%s = State.%s" % (t, lc(p[1][1])))
            elif p[0] == "ppath" and len(p[1]) == 2 and p[1][0] == "PageFlipStyle" and ty == "style":
                cs.append("%s = FlipStyle.%s" % (t, lc(p[1][1])))
            else:
                raise TranslateError("virtual sign: unsupported literal pattern %r for a %s" % (p, ty))
        return cs[0] if len(cs) == 1 else "(" + " ∨ ".join(cs) + ")"

    def chain(self, parts):
        if not parts:
            raise TranslateError("virtual sign: empty match")
        if parts[-1][0] is not None:
            # exhaustive enum matches (flip style): the last arm is the remaining case
            parts = parts[:-1] + [(None, parts[-1][1])]
        out = []
        for i, (c, t) in enumerate(parts[:-1]):
            if c is None:
                raise TranslateError("virtual sign: catch-all arm before the end")
            out.append("%sif %s then\n%s" % ("else " if i else "", c, indent(t)))
        out.append("else\n%s" % indent(parts[-1][1]) if out else parts[-1][1])
        return "\n".join(out)

    # ---- match as a statement
    def match_stmt(self, s, rest, st):
        scrut, arms = s[1], s[2]
        # on a message: constructor patterns with bindings and guards
        if scrut in (("deref", ("path", ["message"])), ("path", ["message"])):
            return self.match_message(arms, rest, st)
        # on a Result of Page::from_bytes
        ps, t, ty = self.expr(scrut, st)
        if ty == "pageresult":
            ok = err = None
            for pats, guard, body in arms:
                if guard is not None or len(pats) != 1 or pats[0][0] != "pctor" or len(pats[0][2]) != 1:
                    raise TranslateError("virtual sign: unsupported arm on a page result")
                stmts = body[1] if body[0] == "block" else [("expr", body[1], True)]
                if pats[0][1] == ["Ok"] and pats[0][2][0][0] == "pbind":
                    st2 = st.copy()
                    st2.env[pats[0][2][0][1]] = ("page", "page")
                    ok = self.tr(stmts + rest, st2)
                elif pats[0][1] == ["Err"]:
                    err = self.tr(stmts + rest, st)
            if ok is None or err is None:
                raise TranslateError("virtual sign: page result match needs an Ok and an Err arm")
            return self.wrap(ps, "match %s with\n| .ok page =>\n%s\n| .error _ =>\n%s" % (t, indent(ok), indent(err)))
        parts = []
        for pats, guard, body in arms:
            if guard is not None:
                raise TranslateError("virtual sign: guard on a literal match")
            c = self.lit_cond(pats, t, ty)
            stmts = body[1] if body[0] == "block" else ([("expr", body[1], not rest)] if not (not rest) else [("expr", body[1], False)])
            if body[0] == "expr" and rest:
                raise TranslateError("virtual sign: expression arm followed by statements")
            parts.append((c, self.tr(stmts + rest, st)))
        return self.wrap(ps, self.chain(parts))

    def match_message(self, arms, rest, st):
        if rest:
            raise TranslateError("virtual sign: statements after the dispatch match")
        ctor_of = {"Hello": "hello", "QueryState": "queryState", "Goodbye": "goodbye", "PixelsComplete": "pixelsComplete",
                   "RequestOperation": "requestOp", "AckOperation": "ackOp", "ReportState": "reportState",
                   "SendData": "sendData", "DataChunksSent": "chunksSent"}
        lines = []
        default = None
        for pats, guard, body in arms:
            if pats == [("pwild",)] and guard is None:
                default = self.arm_body(body, st)
        if default is None:
            raise TranslateError("virtual sign: dispatch match without a catch-all arm")
        seen = []
        for pats, guard, body in arms:
            if pats == [("pwild",)]:
                continue
            lean_pats, env_add = [], None
            for p in pats:
                if p[0] != "pctor" or p[1][0] != "Message" or p[1][1] not in ctor_of:
                    raise TranslateError("virtual sign: unsupported dispatch pattern %r" % (p,))
                subs, binds = [], {}
                for sp in p[2]:
                    if sp[0] == "pbind":
                        subs.append(sp[1])
                        binds[sp[1]] = None
                    elif sp[0] == "ppath" and len(sp[1]) == 2 and sp[1][0] == "Operation" and sp[1][1] in OPS:
                        subs.append("." + lc(sp[1][1]))
                    elif sp[0] == "ppath" and len(sp[1]) == 2 and sp[1][0] == "State" and sp[1][1] in STATES:
                        subs.append("." + lc(sp[1][1]))
                    elif sp[0] == "pwild":
                        subs.append("_")
                    else:
                        raise TranslateError("virtual sign: unsupported sub-pattern %r" % (sp,))
                key = (p[1][1], tuple(x for x in subs if x.startswith(".")))
                for prev in seen:
                    if prev[0] == key[0] and (not prev[1] or not key[1] or prev[1] == key[1]):
                        raise TranslateError("virtual sign: overlapping dispatch arms (%s)" % p[1][1])
                seen.append(key)
                lean_pats.append(".%s %s" % (ctor_of[p[1][1]], " ".join(subs)))
                tys = {"Hello": ["u16"], "QueryState": ["u16"], "Goodbye": ["u16"], "PixelsComplete": ["u16"],
                       "RequestOperation": ["u16", "op"], "AckOperation": ["u16", "op"], "ReportState": ["u16", "state"],
                       "SendData": ["u16", "bytes"], "DataChunksSent": ["u16"]}[p[1][1]]
                this = {sp[1]: ty for sp, ty in zip(p[2], tys) if sp[0] == "pbind"}
                if env_add is not None and env_add != this:
                    raise TranslateError("virtual sign: alternatives bind different names")
                env_add = this
            st2 = st.copy()
            for n, ty in (env_add or {}).items():
                st2.env[n] = (n, ty)
            bt = self.arm_body(body, st2)
            if guard is not None:
                pg, g, tyg = self.expr(guard, st2)
                if pg:
                    raise TranslateError("virtual sign: guard with side conditions")
                bt = "if %s then\n%s\nelse\n%s" % (self.prop(g, tyg), indent(bt), indent(default))
            lines.append("| %s =>\n%s" % (" | ".join(lean_pats), indent(bt)))
        lines.append("| _ =>\n%s" % indent(default))
        return "match message with\n" + "\n".join(lines)

    def arm_body(self, body, st):
        if body[0] == "block":
            return self.tr(body[1], st)
        return self.value_tail(body[1], st)

    # ---------------------------------------------------------------- methods
    def method(self, name):
        params, ret, body = self.methods[name]
        if ret not in RET_TYPES:
            raise TranslateError("virtual sign: unsupported return type %s of %s" % (ret, name))
        self.cur_ret = RET_TYPES[ret]
        binders, env = [], {}
        for pn, pt in params[1:]:
            if pt not in PARAM_TYPES:
                raise TranslateError("virtual sign: unsupported parameter type %s in %s" % (pt, name))
            binders.append("(%s : %s)" % (pn, PARAM_TYPES[pt][0]))
            env[pn] = (pn, PARAM_TYPES[pt][1])
        self.counter = 0
        text = self.tr(body, St("s", {}, env))
        return "def %s (s : VSign) %s: Except Panic (VSign × %s) :=\n%s\n" % (
            lean_name(name), "".join(b + " " for b in binders), self.cur_ret if " " not in self.cur_ret else "(%s)" % self.cur_ret, indent(text))


ACCESSORS = {"new", "address", "state", "sign_type", "pages"}


def gen_vsign_full(repo):
    path = "libs/testing/src/virtual_sign_bus.rs"
    src = strip_comments(open(os.path.join(repo, path)).read())
    methods, _ = parse_methods(src, r"impl\s+VirtualSign<'_>\s*\{")
    if "process_message" not in methods:
        raise TranslateError("virtual sign: process_message not found")
    # `new`: the initial field values
    m = re.search(r"pub\s+fn\s+new\s*\(\s*address\s*:\s*Address\s*,\s*flip_style\s*:\s*PageFlipStyle\s*\)\s*->\s*Self\s*\{", src)
    if not m:
        raise TranslateError("virtual sign: VirtualSign::new not found")
    body = squash(src[m.end():matching(src, m.end() - 1) - 1])
    want = "VirtualSign{address,flip_style,state:State::(\\w+),pages:vec!\\[\\],pending_data:vec!\\[\\],data_chunks:0,width:0,height:0,sign_type:None,?}"
    mm = re.fullmatch(want, body)
    if not mm or mm.group(1) not in STATES:
        raise TranslateError("virtual sign: VirtualSign::new has an unexpected body")
    vt = VT(methods)
    # call order: callees first
    order, seen = [], set()

    def callees(n):
        acc = set()

        def walk(e):
            if isinstance(e, tuple):
                if e and e[0] == "method" and e[1] == ("path", ["self"]):
                    acc.add(e[2])
                for x in e:
                    walk(x)
            elif isinstance(e, list):
                for x in e:
                    walk(x)
        walk(methods[n][2])
        return acc

    def visit(n, stack=()):
        if n in seen or n in ACCESSORS:
            return
        if n in stack:
            raise TranslateError("virtual sign: recursive methods are outside the translated subset")
        if n not in methods:
            raise TranslateError("virtual sign: call of unknown method %s" % n)
        for c in sorted(callees(n)):
            visit(c, stack + (n,))
        seen.add(n)
        order.append(n)
    for n in methods:
        visit(n)
    out = ["/-- `VirtualSign::new`. -/",
           "def new (address : UInt16) (flip_style : FlipStyle) : VSign :=\n  ⟨address, flip_style, .%s, [], [], 0, 0, 0, none⟩\n" % lc(mm.group(1))]
    for n in order:
        out.append("/-- `VirtualSign::%s`. -/" % n)
        out.append(vt.method(n))
    # the bus loop (template)
    bm = re.search(r"impl\s+SignBus\s+for\s+VirtualSignBus<'_>\s*\{", src)
    if not bm:
        raise TranslateError("virtual sign: impl SignBus for VirtualSignBus not found")
    bbody = src[bm.end():matching(src, bm.end() - 1) - 1]
    bbody = re.sub(r"debug!\((?:[^()]|\([^()]*\))*\);", "", bbody)
    want = ("fnprocess_message<'a>(&mutself,message:Message<'_>)->Result<Option<Message<'a>>,Box<dynError+Send+Sync>>{"
            "forsignin&mutself.signs{letresponse=sign.process_message(&message);"
            "ifletSome(response_message)=response{returnOk(Some(response_message));}}Ok(None)}")
    if squash(bbody) != want:
        raise TranslateError("virtual sign: VirtualSignBus::process_message is not the offer-to-each-sign-until-one-replies loop")
    out.append("/-- `VirtualSignBus::process_message` (recognised as a whole): offer the message to each sign in")
    out.append("    order; the first reply ends the round. -/")
    out.append("def busProcessMessage : List VSign → Msg → Except Panic (List VSign × Option Msg)\n"
               "  | [], _ => .ok ([], none)\n"
               "  | sign :: rest, message =>\n"
               "    match processMessage sign message with\n"
               "    | .error e => .error e\n"
               "    | .ok (sign', some response_message) => .ok (sign' :: rest, some response_message)\n"
               "    | .ok (sign', none) =>\n"
               "      match busProcessMessage rest message with\n"
               "      | .error e => .error e\n"
               "      | .ok (rest', r) => .ok (sign' :: rest', r)\n")
    return [path], "\n".join(out)
