#!/usr/bin/env python3
"""Regenerates MANIFEST.json from the table below (so the file is always schema-valid)."""
import json
import os

ROOT = os.path.dirname(os.path.abspath(__file__))

# property -> (technique, level text, level note, design ref)
CLAIMED = {
    "C01": (
        "Lean 4 theorems on a hand-written model (list induction, bv_omega, decide +kernel over 256 bytes) + differential correspondence model vs code",
        "dec (enc f) = ok f and dec (encNL f) = ok f proved for every well-formed frame (all addresses, types, 0..=255 data bytes), shape / checksum-sum-zero / big-endian address / exact length field / Data::try_new bound proved; the model is tied to frame.rs by running to_bytes, to_bytes_with_newline, from_bytes and Data::try_new (owned and borrowed) and the model driver on the same ~21k (quick) case lines and diffing, plus an independent format!-based encoder as oracle.",
        "Theorems are about lean/Flipdot/Model/Frame.lean, not about the Rust source; the tie is differential testing (address x type grid exhaustive, data contents sampled). regex crate and Vec modelled, not verified.",
        "§6 C01"),
}

PENDING = {}


def main():
    props = [json.loads(l) for l in open(os.path.join(ROOT, "properties.jsonl"))]
    checks = []
    na = []
    for p in props:
        pid = p["id"]
        if pid in CLAIMED:
            tech, text, note, ref = CLAIMED[pid]
            checks.append({
                "property_id": pid,
                "quick_cmd": "./check %s --tier quick" % pid,
                "thorough_cmd": "./check %s --tier thorough" % pid,
                "evidence_file": "evidence/%s.json" % pid,
                "replay_cmd_template": "./check %s --replay {path}" % pid,
                "engine": "lean4-model+correspondence",
                "level_claimed": {"category": "proof", "text": text, "design_ref": ref},
                "level_note": note,
                "technique": tech,
            })
        else:
            na.append({"property_id": pid,
                       "reason": PENDING.get(pid, "not claimed yet: the Lean theorems / correspondence for this property are still under construction in this session (planned in DESIGN.md §6); the technique applies")})
    m = {
        "version": 1,
        "setup_cmd": "./setup.sh",
        "hooks": {
            "guard": "flipdot_verif",
            "enable": "none needed: every observation point is public API, a mock Read/Write/SerialDevice or a SignBus implementation; the harness builds /repo's crates as path dependencies",
            "baseline_off_cmd": "cd /repo && cargo test --workspace --no-fail-fast --offline",
            "source_commits": [],
            "add_only": True,
        },
        "engines": [{
            "name": "lean4-model+correspondence",
            "path": "check",
            "serves_properties": sorted(CLAIMED.keys()),
            "kind_free_text": "Lean 4 theorems over a hand-written executable model (lean/), tied to /repo on every run by a differential correspondence check (harness/ Rust crate driving the real crates, lean/Driver model driver, line protocol) plus implementation-side property oracles",
        }],
        "checks": checks,
        "not_applicable": na,
        "notes": "See DESIGN.md. ./check Cxx --tier quick|thorough is the single entry point; VERIF_SEED seeds every random choice.",
    }
    json.dump(m, open(os.path.join(ROOT, "MANIFEST.json"), "w"), indent=1)
    print("claimed:", len(checks), "not claimed:", len(na))


if __name__ == "__main__":
    main()
