#!/usr/bin/env python3
"""Regenerates MANIFEST.json from the table below (so the file is always schema-valid)."""
import json
import os

ROOT = os.path.dirname(os.path.abspath(__file__))

# property -> (technique, level text, level note, design ref)
CLAIMED = {
    "C01": (
        "Lean 4 theorems on a hand-written model (list induction, bv_omega, decide +kernel over 256 bytes) + differential correspondence model vs code",
        "dec (enc f) = ok f and dec (encNL f) = ok f proved for every well-formed frame (all addresses, types, 0..=255 data bytes), shape / checksum-sum-zero / big-endian address / exact length field / Data::try_new bound proved; the model is tied to frame.rs by running to_bytes, to_bytes_with_newline, from_bytes and Data::try_new (owned and borrowed) and the model driver on the same ~21k (quick) case lines and diffing, plus an independent format!-based encoder as oracle. Props/C01_display.lean: the printed form of a frame (Display, what a bus monitor logs) has the documented shape and is injective (display_injective); tied by the `fshow` verb on every frame of the stream.",
        "Theorems are about lean/Flipdot/Model/Frame.lean, not about the Rust source; the tie is differential testing (address x type grid exhaustive, data contents sampled). regex crate and Vec modelled, not verified.",
        "§6 C01"),
    "C04": (
        "Lean 4 theorems on a hand-written model + differential correspondence model vs code (exhaustive where the domain is finite); finite code table closed by decide +kernel over all 256 first bytes per type",
        "toFrame (toMsg f) = f proved for every frame; toMsg proved equal to a literal restatement of the protocol table (31 rows: type 0 any length, type 1 empty, 29 one-byte rows) for every frame, with unknown_iff and addr_carried as corollaries. Tie: Message::from / Frame::from and the model run on all 256 types x 256 first bytes (length 1) plus other lengths and all recognised codes across addresses (192k lines quick, complete product in thorough), and a third independent table in the harness as oracle.",
        "Theorems are about lean/Flipdot/Model/Message.lean; the tie to message.rs is the (finite-domain, largely exhaustive) differential run. Found and repaired F1 (type-0 frames with 0/1 data byte).",
        "§6 C04"),
    "C05": (
        "Lean 4 theorems on a hand-written model + differential correspondence model vs code (exhaustive where the domain is finite)",
        "toMsg (toFrame m) = m for every specific message, (dec (enc (toFrame m))).map toMsg = ok m (with and without CRLF) and injectivity of the wire encoding on specific messages, for all addresses/offsets/counts, states, operations and data blocks up to 255 bytes. Tie: the full pipeline on the real crates for every kind x data length 0..=255 x address samples (all 65536 in thorough for address-only kinds), with a collision map as injectivity oracle.",
        "Builds on C01's codec theorems; same trusted base. Finding F1 was detected here first and is fixed in /repo (65fb976).",
        "§6 C05"),
    "C06": (
        "Lean 4 theorems on a hand-written model + differential correspondence model vs code (exhaustive where the domain is finite); bit facts by decide +kernel over 256 bytes x 8 x 8 bit positions",
        "get-after-set, frame condition for every other pixel (byte/bit injectivity), preservation of id/dimensions/length/padding, set-all, out-of-bounds = panic, in-bounds = no panic, and the history theorem (any sequence of in-bounds set/clear/set-all refines plain function update, by induction over the operation list) proved for every well-formed page of any dimensions. Tie: Page::{new,from_bytes,get_pixel,set_pixel,set_all_pixels,as_bytes,id} vs the model on a complete box of sizes, all out-of-bounds probes and random operation sequences on owned and borrowed pages, plus a Vec<Vec<bool>> shadow oracle. Props/C06_render.lean + C06_pixels.lean: the printed picture (Display for Page, modelled as the loops of page.rs) equals the specified picture after every history of in-bounds operations (render_history), never panics on a well-formed page, has the documented shape, determines every pixel (render_determines_pixels), and set_pixel changes the text at exactly one position (render_set_frame); tied by the `d` operation at the end of every operation sequence on pages of at most 400 pixels.",
        "u32/usize arithmetic modelled in Nat (no overflow possible with 64-bit usize and u32 dimensions); allocation failure for absurd sizes outside the model.",
        "§6 C06"),
    "C07": (
        "Lean 4 theorems on a hand-written model + differential correspondence model vs code (exhaustive where the domain is finite)",
        "new_bytes (header + w*ceil(h/8) zeros + 0xFF padding to a multiple of 16, pad < 16), pixel_location (byte 4 + x*ceil(h/8) + y/8, bit y%8 from the LSB), location_injective, location_in_data, fromBytes_ok_iff / fromBytes_err / fromBytes_asBytes proved for all sizes. Tie: complete size box (0..=9 x 0..=33 thorough) + 11 sign sizes + large sizes, every pixel of small pages, lengths total+-{0,1,15,16}, all 256 ids; oracle recomputes the layout independently.",
        "Same as C06.",
        "§6 C07"),
    "C19": (
        "Lean 4 theorems on a hand-written model + differential correspondence model vs code (exhaustive where the domain is finite); the 11-constructor table closed by cases/decide",
        "16-byte length, decode-after-encode, field consistency (height byte, Max3000 width sum, Horizon width = A1*B1+A2*B2, bits per column) against dims, the virtual sign's derivation configDims t.toBytes = dims t, totality (no panic) of decoding, rejection of every length other than 16, and acceptance of a 16-byte block iff its (family,id) is a supported type's — for all byte strings. Tie: all 11 types, all 65536 (family,id) pairs, random strings of length 0..=40, and a virtual sign configured with each block accepting exactly one page of the type's size.",
        "The model's type table is a third copy of the two Rust tables; a typo kept in sync between the two Rust tables shows as a correspondence difference or a broken field-consistency oracle.",
        "§6 C19"),
    "C12": (
        "Lean 4 theorems on a hand-written model + differential correspondence model vs code; case analysis over every message kind, induction over bus and history",
        "vstep_no_panic (any sign state, reachable or not, any message), busStep_no_panic (any bus), busRun_no_panic (any history), transfer_ends_failed_or_received, configDims_no_panic (arbitrary block contents, no overflow) proved. Tie: recorded crash histories first, then ~1500 (quick) guided random walks on 1..3-sign buses with lost/short/extra/repeated chunks, wrong counts, arbitrary and overflowing configuration blocks; thorough adds a 70000-chunk transfer; catch_unwind is the oracle.",
        "The model mirrors the tree with repairs F2-F5 (each first reported by this check on the pinned tree, then fixed in /repo: 32f32dc, fb078ba, b3604fe, cae3100). Allocation failure and log formatting are outside the model.",
        "§6 C12"),
    "C13": (
        "Lean 4 theorems on a hand-written model + differential correspondence model vs code; reachable-state invariant by induction over message histories",
        "query_spec, request_legal / request_illegal against a literal legality table, count_spec, pixel_chunk_counted + chunks_after_sendAll + announce_matches_iff (count matches iff exactly that many chunks were accepted, also beyond 65535), reset_blank / goodbye_blank, foreign_silent, pages_assembled (stored pages = assemble of the chunk log, for every chunk sequence) and reachable_inv (every stored page is a complete page of the configured size; nothing buffered outside a transfer) proved for all histories. Tie: breadth-first exploration of the real VirtualSign's hashable state over a 28-symbol alphabet (both flip styles, tiny 1-chunk pages) with every transition compared to the model and to an independent Rust port of the documented machine, plus guided walks with real sign types.",
        "The spec tables (legal / target / assemble) live in lean/Flipdot/Props/C13.lean; the model is tied to virtual_sign_bus.rs by the differential run on public observables only (replies, state, sign_type, pages).",
        "§6 C13"),
    "C14": (
        "Lean 4 theorems on a hand-written model + differential correspondence model vs code; induction over the bus list with distinct addresses",
        "reply_addr, absent_noop, addressed_isolated, reply_is_own (Nodup addresses), data_nonreceiving_unchanged / unaddressed_only_receiving (uses the reachable-state invariant) and bus_inv_preserved proved for buses of any size. Tie: guided walks on 1..4-sign buses with mixed styles, absent addresses and two signs mid-transfer at once; per-message snapshot oracle on every non-addressed sign and a solo-clone oracle for the reply.",
        "Finding F5 (a StartReset-abandoned transfer flushed by a later unaddressed DataChunksSent) was reported here and fixed in /repo (cae3100).",
        "§6 C14"),
    "C09": (
        "Lean 4 theorems on a hand-written interaction-tree model of the controller + differential correspondence (exhaustive reply-tree enumeration); refinement to a conversation-level transfer spec, induction over chunk lists",
        "chunks_complete, chunk_sizes, item_message (offset 16*i, bytes 16*i..), item_message_count, offset_exact, items_in_order, config_is_type_block, count_exact, and for every reply script transfer_shape (attempts each exactly request ++ all chunks ++ count ++ query, only the last may be cut short), ack_before_data and configure_shape, all derived from transfer_refines. Tie: breadth-first enumeration of the reply tree of configure / configure-if-needed / send-pages over a 46-symbol alphabet to the natural end of each operation (310k conversations quick) for several addresses, types and page lists incl. retries, plus scripted runs with items up to 65552 bytes; a trace parser in the harness checks the shape on the recorded messages.",
        "Chunk counter and offsets are 16-bit in the real controller: >= 65536 chunks per transfer panics in debug builds and offsets wrap beyond 65536 bytes; the theorems carry the hypothesis (allChunkMsgs items).length < 65536 and the model makes the overflow an explicit panic node (domain limit, DESIGN.md §7).",
        "§6 C09"),
    "C10": (
        "Lean 4 theorems on a hand-written interaction-tree model of the controller + differential correspondence (exhaustive reply-tree enumeration); per-operation refinement theorems Prog.ConvsIn Spec and a reply-classification theorem",
        "For configure, configure-if-needed, send-pages, show, load-next and shut-down: every conversation against every reply script satisfies the documented protocol stated as inductive relations on conversations (Spec/CtrlProtocol.lean: EnsureOK/EnsureStop, TransferSpec, ConfigureSpec, ConfigureIfNeededSpec, SendPagesSpec, SwitchSpec, ShutDownSpec), with the prescribed outcome; polling fuel never binds; and *_class: messages and outcome depend only on the class of each reply (own report s / own ack o / silence / unrelated / bus error), which extends the exhaustive finite-alphabet enumeration to all replies (all 65536 addresses, arbitrary frames). Tie: the reply-tree enumeration compares model trace+outcome with the real Sign on a recording scripted SignBus and with an independent state-machine port of the protocol in the harness.",
        "Spec relations were written from the doc comments of sign.rs. For configure, configure-if-needed, send-pages and shut-down the converse is proved too (Props/C10_exact.lean: a conversation satisfies the protocol iff the controller produces it; the protocol is functional in the replies); for show / load-next the converse is proved as well (Props/C10_switch.lean: switchPage_exact, switchSpec_functional — for every conversation that is not the model's own out-of-fuel artefact). u16 counter limit as in C09.",
        "§6 C10"),
    "C11": (
        "Lean 4 theorems on a hand-written interaction-tree model of the controller + differential correspondence (exhaustive reply-tree enumeration); structural predicates AllSends / Strict / Respects on interaction trees lifted to all runs",
        "own-address-only for every operation; bus_error_is_last for every interaction tree; disallowed_reply_is_last (request not acknowledged by the own address, anything but silence after data / count / pixels-complete / goodbye) for every operation; configure_success_confirmed and sendPages_success_confirmed (last transfer exchange is the own 'received' report); transfer_attempts_le_3; transfer_retry_only_after_own_failed (RetryShape); foreign_reply_is_unrelated / foreign_ack_is_unrelated. Tie: same reply-tree enumeration as C10 with the invariants evaluated directly on every recorded conversation and a re-run with foreign replies replaced by an unrelated frame.",
        "Same as C10.",
        "§6 C11"),
    "C08": (
        "Lean 4 composition theorem: controller interaction tree run against the virtual-sign model (runOn), loop invariant over the chunk stream (assemble_pages), reachable-state invariant; + differential correspondence end to end",
        "configure_clean (from any sign state some history can produce, with any idle other signs on the bus: ok, sign = configured as t, no pages, others untouched), send_pages_exact (the sign then holds exactly the pages sent, in order, byte-identical; page-loaded / showing-pages; returns the matching flip style), configure_then_send, show_manual / load_manual / show_load_auto_noop (fuel >= 3), configureIfNeeded_not_ready / configureIfNeeded_ready, dims_ok for all 11 types. Tie: for all 11 types x both styles x sampled addresses, prior-state walks (mid-configuration, other type, abandoned or half-finished transfer, pages loaded/shown, ready-to-reset) then configure / configure-if-needed, send 0..3 random pages, show, load-next, send again, shut down through the real Sign on the real VirtualSignBus, compared with the model's runOn and with direct expectations on state / type / pages.",
        "Hypotheses: the sign satisfies the reachable-state invariant (proved for every history: VSign.Reachable.inv), other signs are idle (not mid-transfer), fewer than 65536 chunks per transfer and pages of at most 65536 bytes (16-bit counter / offset limits of the real controller; true of all 11 sign types). std Vec / Rc<RefCell> plumbing is outside the model.",
        "§6 C08"),
    "C03": (
        "Lean 4 theorems on a hand-written model + differential correspondence model vs code; the model decoder is a hand parser independent of the regex crate",
        "dec_classified (total; only invalid / mismatch / badsum / ok — never DataTooLong), dec_err_invalid_iff (InvalidFrame iff the string is not ':' + even number >= 10 of hex digits of either case + optional single CR LF, stated declaratively as Shape), dec_of_shape (length test before checksum test, with the reported numbers), dec_err_mismatch_iff, dec_err_badsum_iff, dec_ok_iff (accepted iff the numeric fields are payload f ++ [lrc]), reenc (re-encoding gives ':' + the same digits upper-cased) — for all byte strings. Tie: Frame::from_bytes vs the model on every string of length <= 3 (thorough 4) over a 19-symbol structural alphabet, those strings spliced into seed frames, doubled / bare terminators, two frames back to back, and random strings and multi-edits up to 600 bytes over all byte values; an independent Rust hand parser is the third opinion.",
        "Rust regex semantics ($ = end of haystack only, [[:xdigit:]] ASCII, (?x) mode) are checked by the differential run, not proved.",
        "§6 C03"),
    "C02": (
        "Lean 4 theorems on a hand-written model + differential correspondence model vs code; arithmetic on the LRC (one changed byte / two changed bytes cannot keep the wrapping sum at zero; 15*(x-y) = 0 mod 256 forces x = y for nibbles) + structural case analysis of every position",
        "For every well-formed frame, both encodings (with / without CRLF) and EVERY position: subst_safe (any replacement byte: error or exactly the original frame), delete_rejected, dup_rejected (always an error), swap_safe (adjacent transposition: error or the original frame), prefix_safe (any truncation: error or the original frame), plus mismatch_never_ok and badsum_never_ok for every byte string. Tie: Frame::from_bytes vs the model on the complete fault set (every position x 256 replacement bytes on the full-substitution seeds, 35 structural values otherwise; every deletion, duplication, adjacent swap, proper prefix) of seed frames incl. frame-in-frame seeds whose data embeds another frame; oracle: the damaged string must be rejected or decode to the original.",
        "Theorems are about the hand-parser model; that the regex-based decoder equals it is the differential run (C03's exhaustive short-string enumeration is part of that tie).",
        "§6 C02"),

    "C15": (
        "Lean 4 theorems on a hand-written model + differential correspondence model vs code; std I/O modelled from its documented contracts",
        "read_consumes_line (consumes up to and including the first LF and not one byte more, result = decoding of that line, for every interleaving of interrupted reads), read_interrupt_invariant, reads_back_to_back, read_error_surfaces, read_eof, write_delivers (any schedule of partial accepts and interrupts), write_only_the_encoding (delivered bytes are always a prefix of the encoding; success only when all delivered), writeAll_error_surfaces. Tie: Frame::read / Frame::write on instrumented Read / Write: every composition of a 13-byte stream into read sizes, every placement of <= 2 interrupts, error / zero-length read at every call index, 1..3 frames + trailing bytes with random fragmentation, leftover bytes compared; the same for writes.",
        "PARTIAL by nature: BufReader::with_capacity(1)/read_until and write_all are modelled (one byte per read call, retry on Interrupted, zero-length read = end of stream, zero-length write = error); the theorems are about that model; the instrumented streams check the composite, in particular that not one byte beyond the LF is consumed when larger chunks are available.",
        "§6 C15"),
    "C16": (
        "Lean 4 theorems on a hand-written model + differential correspondence model vs code",
        "events_shape (exactly: one write of the frame encoding with CRLF; then a read iff the write succeeded and the message is hello / query / request), writes_exact, reads_iff_expected (at most one Frame::read), write_failure_is_error, no_read_otherwise, reply_is_decoded (result = decoding of exactly one line, or an error; never a missing or invented reply), responseExpected_iff. Tie: SerialSignBus::process_message on an instrumented SerialPort for every message kind x reply tapes (13 states, 6 acks, unknown, data, malformed, bad checksum, empty) with extra bytes after the reply line, write failures at the first / a later call, read failures.",
        "Builds on the C15 stream model; thread::sleep is outside (C18).",
        "§6 C16"),
    "C17": (
        "Lean 4 theorems on a hand-written model + differential correspondence model vs code; exact simulation theorem between the serial path and the direct path",
        "read_written / wire_lossless (message -> frame -> bytes -> line -> frame -> message is the identity on canonical messages), canonical_toMsg, odk_forwards, odk_bad_line (undecodable line = communication error, bus untouched, nothing written), busStep_reply (a virtual bus replies only where a reply is due, with a canonical message), viaSerial_eq, runVia_eq_runStrict (the whole path Sign -> SerialSignBus -> bytes -> Odk -> VirtualSignBus equals the direct run except that an unanswered due reply is a bus error; nothing is left in the pipe), runStrict_eq_runOn / transparent_partial, and — with no side condition — configure_transparent, configureIfNeeded_transparent, sendPages_transparent, showLoadedPage_transparent, loadNextPage_transparent, shutDown_transparent (same success and returned value, same virtual signs, nothing left in the pipe, on every virtual bus; present signs always answer hello / query, unacknowledged requests fail on both paths, an absent address fails quietly on both), two_ops_transparent for sequences. Tie: operation sequences run through the real serial path over an in-memory byte pipe and directly, success and final state/type/pages compared with each other and with the model; raw valid / unknown / invalid lines injected at the bridge.",
        "The byte streams are modelled as unbounded in-memory queues (what the harness uses); real serial ports, timeouts and partial line delivery between the two ends are outside the model (C15/C16 cover the stream contracts). The model's polling fuel must be >= 1.",
        "§6 C17"),
    "C18": (
        "Lean 4 theorems on a hand-written model + differential correspondence model vs code; wall-clock time measured, sleep events proved",
        "sleep_after_send_iff (a 30 ms pause directly after the write iff the message is a data chunk), sleep_after_recv_iff (100 ms after the read iff the reply is a page-load / page-show in-progress report), no_recv_sleep_without_reply, no_sleep_after_failed_write, delayAfterSend_iff / delayAfterReceive_iff. Tie: a monotonic clock at the instrumented port's write / read calls and at return: >= 30 ms / >= 100 ms lower bounds on paced exchanges, minimum over up to 5 trials below half the delay on unpaced ones, anything in between reported.",
        "PARTIAL by nature: a theorem cannot observe elapsed time; thread::sleep is modelled as an event and measured by the harness.",
        "§6 C18"),
    "C20": (
        "Lean 4 theorems on a hand-written model + differential correspondence model vs code (exhaustive product of prior settings x failure points)",
        "configured_19200_8N1 (for every prior device state), tryNew_timeout_5s, odk_timeout_10s, failure_returns_err, constructors_fail, ok_iff, early_failure_leaves_device. Tie: all 1008 prior PortSettings x failure at read_settings / set_baud_rate / write_settings / set_timeout / none x {SerialSignBus::try_new, Odk::try_new, configure_port} on an instrumented SerialDevice whose state is observable from outside; serial-core's blanket reconfigure runs for real.",
        "PARTIAL: the device is modelled as a record; the weight is the exhaustive correspondence.",
        "§6 C20"),
}

PENDING = {}

# what each translated topic (DESIGN.md §13) re-translates from /repo on every run; a property carries the topics of
# the source files it is anchored in — the same derivation as TIE_TOPICS in ./check
TOPIC_TEXT = {
    "Core": "page.rs (every method of impl Page) and frame.rs (checksum, payload, to_bytes, to_bytes_with_newline, the decoder after the regular expression; Data::try_new bound and the regular expression text as templates) compiled statement by statement",
    "FrameIo": "Frame::read / Frame::write recognised as wholes (BufReader capacity, read_until delimiter, write_all of the encoding with newline)",
    "Message": "message.rs code tables (both directions)",
    "SignType": "sign_type.rs from_bytes / dimensions / to_bytes tables",
    "Controller": "the controller (src/sign.rs compiled statement by statement into an interaction tree)",
    "VSign": "VirtualSign dispatch and per-handler state tables and the configuration digest",
    "VSignFull": "every method of impl VirtualSign compiled statement by statement into a state-passing function (processMessage = vstep, bus loop = busStep)",
    "Serial": "response_expected, delay_after_send / delay_after_receive, configure_port setters and the two constructor timeouts",
    "SerialBus": "SerialSignBus::process_message and Odk::process_message compiled statement by statement (= the model's serialStep / odkStep)",
}
FILE_TOPICS = {
    "libs/core/src/frame.rs": ["Core", "FrameIo"],
    "libs/core/src/message.rs": ["Message"],
    "libs/core/src/page.rs": ["Core"],
    "libs/core/src/sign_type.rs": ["SignType"],
    "src/sign.rs": ["Controller"],
    "libs/testing/src/virtual_sign_bus.rs": ["VSign"],
    "libs/serial/src/serial_sign_bus.rs": ["Serial", "SerialBus"],
    "libs/serial/src/serial_port.rs": ["Serial"],
    "libs/testing/src/odk.rs": ["Serial", "SerialBus"],
}
EXTRA_TOPICS = {"C13": ["VSignFull"]}


def tie_text(prop):
    ts = []
    for f in prop["anchors"]["files"]:
        for t in FILE_TOPICS.get(f, []):
            if t not in ts:
                ts.append(t)
    for t in EXTRA_TOPICS.get(prop["id"], []):
        if t not in ts:
            ts.append(t)
    return "; ".join("%s: %s" % (t, TOPIC_TEXT[t]) for t in ts)


def main():
    props = [json.loads(l) for l in open(os.path.join(ROOT, "properties.jsonl"))]
    checks = []
    na = []
    for p in props:
        pid = p["id"]
        if pid in CLAIMED:
            tech, text, note, ref = CLAIMED[pid]
            tt = tie_text(p)
            if tt:
                tech += "; static tie (topics of the anchored source files) — %s — re-translated from /repo into lean/Flipdot/Generated on every run and proved equal to the model on the whole domain (lean/Flipdot/Tie)" % tt
                note += " Static tie (DESIGN.md §13): when translate.py does not recognise the shape of the source the topic is reported as unavailable in the evidence and the differential correspondence alone ties that part."
            checks.append({
                "property_id": pid,
                "quick_cmd": "./check %s --tier quick" % pid,
                "thorough_cmd": "./check %s --tier thorough" % pid,
                "evidence_file": "evidence/%s.json" % pid,
                "replay_cmd_template": "./check %s --replay {path}" % pid,
                "engine": "lean4-model+correspondence",
                "level_claimed": {"category": "proof", "text": text, "design_ref": ref},
                "level_note": note,
                "technique": tech,
            })
        else:
            na.append({"property_id": pid,
                       "reason": PENDING.get(pid, "not claimed yet: the Lean theorems / correspondence for this property are still under construction in this session (planned in DESIGN.md §6); the technique applies")})
    m = {
        "version": 1,
        "setup_cmd": "./setup.sh",
        "hooks": {
            "guard": "flipdot_verif",
            "enable": "none needed: every observation point is public API, a mock Read/Write/SerialDevice or a SignBus implementation; the harness builds /repo's crates as path dependencies",
            "baseline_off_cmd": "cd /repo && cargo test --workspace --no-fail-fast --offline",
            "source_commits": [],
            "add_only": True,
        },
        "engines": [{
            "name": "lean4-model+correspondence",
            "path": "check",
            "serves_properties": sorted(CLAIMED.keys()),
            "kind_free_text": "Lean 4 theorems over a hand-written executable model (lean/), tied to /repo on every run by a differential correspondence check (harness/ Rust crate driving the real crates, lean/Driver model driver, line protocol) plus implementation-side property oracles",
        }],
        "checks": checks,
        "not_applicable": na,
        "notes": "See DESIGN.md. ./check Cxx --tier quick|thorough is the single entry point; VERIF_SEED seeds every random choice.",
    }
    json.dump(m, open(os.path.join(ROOT, "MANIFEST.json"), "w"), indent=1)
    print("claimed:", len(checks), "not claimed:", len(na))


if __name__ == "__main__":
    main()
