import Flipdot.Model.Frame
import Flipdot.Model.Message
import Flipdot.Model.SignType
import Flipdot.Model.Page
import Flipdot.Model.VSign
import Flipdot.Model.Controller
import Flipdot.Model.Compose
