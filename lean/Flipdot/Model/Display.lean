/-
Model of `impl Display for Page` (libs/core/src/page.rs): the ASCII-art rendering, as bytes.
`writeln!(f, "+{}+", border)`, then per row `|`, one character per pixel obtained with `get_pixel(x, y)`
(`'@'` lit, `' '` dark), `|` and a newline, then the border again without a newline.  A `get_pixel` that panics
makes the whole formatting panic, so the result is `Except Panic`.
-/
import Flipdot.Model.Page
namespace Flipdot

/-- `if self.get_pixel(x, y) { '@' } else { ' ' }`. -/
def dot (b : Bool) : UInt8 := if b then 64 else 32

/-- `"+" ++ "-" * width ++ "+"`. -/
def border (w : Nat) : List UInt8 := 43 :: (List.replicate w 45 ++ [43])

/-- The inner loop `for x in x0 .. x0 + n`. -/
def Page.dotsFrom (p : Page) (y : Nat) : Nat → Nat → Except Panic (List UInt8)
  | 0, _ => .ok []
  | n + 1, x =>
    match p.get x y with
    | .error e => .error e
    | .ok b =>
      match p.dotsFrom y n (x + 1) with
      | .error e => .error e
      | .ok ds => .ok (dot b :: ds)

/-- The outer loop `for y in y0 .. y0 + n`: each row is `|`, the dots, `|`, newline. -/
def Page.rowsFrom (p : Page) : Nat → Nat → Except Panic (List UInt8)
  | 0, _ => .ok []
  | n + 1, y =>
    match p.dotsFrom y p.w 0 with
    | .error e => .error e
    | .ok ds =>
      match p.rowsFrom n (y + 1) with
      | .error e => .error e
      | .ok rs => .ok (124 :: (ds ++ [124, 10]) ++ rs)

/-- `format!("{}", page)`. -/
def Page.render (p : Page) : Except Panic (List UInt8) :=
  match p.rowsFrom p.h 0 with
  | .error e => .error e
  | .ok rs => .ok (border p.w ++ [10] ++ rs ++ border p.w)

end Flipdot

namespace Flipdot

/-- The data part of `Display for Frame` / `Message::SendData`: `write!(f, "{:02X} ", byte)` for every byte. -/
def dataText : List UInt8 → List UInt8
  | [] => []
  | b :: bs => hexByte b ++ [32] ++ dataText bs

/-- `format!("{}", frame)`: `Type {:02X} | Addr {:04X}` and, when there is data, ` | Data ` and the bytes. -/
def Frame.display (f : Frame) : List UInt8 :=
  ([84, 121, 112, 101, 32] : List UInt8) ++ hexByte f.ty ++ ([32, 124, 32, 65, 100, 100, 114, 32] : List UInt8) ++
    hexByte (f.addr >>> 8).toUInt8 ++ hexByte f.addr.toUInt8 ++
    (if f.data.isEmpty then [] else ([32, 124, 32, 68, 97, 116, 97, 32] : List UInt8) ++ dataText f.data)

end Flipdot
