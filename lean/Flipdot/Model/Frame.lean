/-
Model of libs/core/src/frame.rs : `Data::try_new`, `Frame::{to_bytes, to_bytes_with_newline, from_bytes}`.
Imports nothing outside core so that the driver links as a `lean_exe`.
-/
namespace Flipdot

deriving instance DecidableEq for Except

/-- Reasons the Rust code can unwind.  "Never panics" theorems discharge these. -/
inductive Panic where
  | index      -- slice / Vec index out of range
  | oob        -- explicit `panic!` for pixel coordinates out of bounds
  | overflow   -- debug-profile arithmetic overflow
  | unwrap     -- `unwrap` / `expect` on `None` / `Err`
  deriving DecidableEq, Repr

structure Frame where
  addr : UInt16
  ty   : UInt8
  data : List UInt8
  deriving DecidableEq, Repr

/-- The `Data` invariant: at most 255 bytes. -/
def Frame.WF (f : Frame) : Prop := f.data.length ≤ 255

instance Frame.decWF (f : Frame) : Decidable f.WF := by unfold Frame.WF; infer_instance

inductive FrameErr where
  | tooLong  (max : Nat) (actual : Nat)
  | invalid
  | mismatch (expected actual : Nat)
  | badsum   (expected actual : UInt8)
  deriving DecidableEq, Repr

/-- `Data::try_new`. -/
def Data.tryNew (d : List UInt8) : Except FrameErr (List UInt8) :=
  if d.length > 0xFF then .error (.tooLong 0xFF d.length) else .ok d

/-- The verdict of `Data::try_new` as a function of the length alone (what the driver evaluates for
    blocks too large to materialise as a list). -/
def Data.tryNewLen (n : Nat) : Except FrameErr Unit :=
  if n > 0xFF then .error (.tooLong 0xFF n) else .ok ()

theorem Data.tryNew_verdict (d : List UInt8) :
    (Data.tryNew d).map (fun _ => ()) = Data.tryNewLen d.length := by
  unfold Data.tryNew Data.tryNewLen
  split <;> rfl

/-- `HEX_DIGITS[n]` for `n < 16`. -/
def hexDigit (n : UInt8) : UInt8 := if n < 10 then 48 + n else 55 + n

def hexByte (b : UInt8) : List UInt8 := [hexDigit (b >>> 4), hexDigit (b &&& 0x0F)]

def hexUpper : List UInt8 → List UInt8
  | [] => []
  | b :: bs => hexByte b ++ hexUpper bs

/-- `checksum`: wrapping subtract of every byte from zero. -/
def lrc (bs : List UInt8) : UInt8 := bs.foldl (· - ·) 0

/-- `Frame::payload`. -/
def payload (f : Frame) : List UInt8 :=
  [UInt8.ofNat f.data.length, (f.addr >>> 8).toUInt8, f.addr.toUInt8, f.ty] ++ f.data

/-- `Frame::to_bytes`. -/
def enc (f : Frame) : List UInt8 := 58 :: hexUpper (payload f ++ [lrc (payload f)])

/-- `Frame::to_bytes_with_newline`. -/
def encNL (f : Frame) : List UInt8 := enc f ++ [13, 10]

/-- Value of an ASCII hex digit of either case (`[[:xdigit:]]` + `from_str_radix(_, 16)`). -/
def hexVal? (c : UInt8) : Option UInt8 :=
  if 48 ≤ c ∧ c ≤ 57 then some (c - 48)
  else if 65 ≤ c ∧ c ≤ 70 then some (c - 55)
  else if 97 ≤ c ∧ c ≤ 102 then some (c - 87)
  else none

/-- Remove one trailing CR LF, if the string ends with one (`(?:\r\n)?$`). -/
def stripCRLF : List UInt8 → List UInt8
  | [] => []
  | [13, 10] => []
  | c :: cs => c :: stripCRLF cs

/-- Parse a string made only of hex-digit pairs into bytes. -/
def hexPairs : List UInt8 → Option (List UInt8)
  | [] => some []
  | [_] => none
  | a :: b :: rest =>
    match hexVal? a, hexVal? b, hexPairs rest with
    | some h, some l, some r => some ((h * 16 + l) :: r)
    | _, _, _ => none

/-- Length / checksum validation of the decoded numeric fields (everything after the regex). -/
def checkBytes : List UInt8 → Except FrameErr Frame
  | len :: ah :: al :: ty :: more =>
    match more.getLast? with
    | none => .error .invalid
    | some ck =>
      let data := more.dropLast
      if data.length ≠ len.toNat then .error (.mismatch len.toNat data.length)
      else
        match Data.tryNew data with
        | .error e => .error e
        | .ok data =>
          let f : Frame := ⟨ah.toUInt16 * 256 + al.toUInt16, ty, data⟩
          let c := lrc (payload f)
          if c ≠ ck then .error (.badsum ck c) else .ok f
  | _ => .error .invalid

/-- `Frame::from_bytes`. -/
def dec : List UInt8 → Except FrameErr Frame
  | 58 :: rest =>
    match hexPairs (stripCRLF rest) with
    | some bs => checkBytes bs
    | none => .error .invalid
  | _ => .error .invalid

end Flipdot
