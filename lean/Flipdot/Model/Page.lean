/-
Model of libs/core/src/page.rs.  `u32`/`usize` are `Nat`; with a 64-bit `usize` and `w, h < 2^32`
none of the index computations can overflow (see trusted base).
-/
import Flipdot.Model.Frame
namespace Flipdot

structure Page where
  w : Nat
  h : Nat
  bytes : List UInt8
  deriving DecidableEq, Repr

inductive FlipStyle where
  | automatic | manual
  deriving DecidableEq, Repr

/-- `bytes_per_column`. -/
def bpc (h : Nat) : Nat := (h + 7) / 8
/-- `data_bytes`. -/
def dataBytes (w h : Nat) : Nat := 4 + w * bpc h
/-- `total_bytes`. -/
def totalBytes (w h : Nat) : Nat := (dataBytes w h + 15) / 16 * 16

/-- A page whose byte vector has the length its dimensions demand (established by both
    constructors). -/
def Page.WF (p : Page) : Prop := p.bytes.length = totalBytes p.w p.h

instance Page.decWF (p : Page) : Decidable p.WF := by unfold Page.WF; infer_instance

/-- `Vec::resize(n, v)` on a list. -/
def resize (l : List UInt8) (n : Nat) (v : UInt8) : List UInt8 :=
  if n ≤ l.length then l.take n else l ++ List.replicate (n - l.length) v

/-- `Page::new`. -/
def Page.new (id : UInt8) (w h : Nat) : Page :=
  let b0 : List UInt8 := [id, 0x10, 0x00, 0x00]
  let b1 := resize b0 (dataBytes w h) 0x00
  let b2 := resize b1 (totalBytes w h) 0xFF
  ⟨w, h, b2⟩

inductive PageErr where
  | wrongLen (w h expected actual : Nat)
  deriving DecidableEq, Repr

/-- `Page::from_bytes`. -/
def Page.fromBytes (w h : Nat) (bs : List UInt8) : Except PageErr Page :=
  if bs.length ≠ totalBytes w h then .error (.wrongLen w h (totalBytes w h) bs.length)
  else .ok ⟨w, h, bs⟩

/-- Whether `Page::from_bytes` rejects a buffer, as a function of its length alone (what the driver evaluates for
    buffers too large to build as a list). -/
def Page.fromBytesLenErr (w h n : Nat) : Option PageErr :=
  if n ≠ totalBytes w h then some (.wrongLen w h (totalBytes w h) n) else none

theorem Page.fromBytes_verdict (w h : Nat) (bs : List UInt8) :
    (match Page.fromBytes w h bs with | .error e => some e | .ok _ => none) = Page.fromBytesLenErr w h bs.length := by
  unfold Page.fromBytes Page.fromBytesLenErr
  by_cases h : bs.length ≠ totalBytes w h <;> simp [h]

/-- `Page::id` (indexing `bytes[0]`). -/
def Page.id (p : Page) : Except Panic UInt8 :=
  match p.bytes[0]? with
  | some b => .ok b
  | none => .error .index

/-- `byte_bit_indices`. -/
def Page.indices (p : Page) (x y : Nat) : Except Panic (Nat × Nat) :=
  if x ≥ p.w ∨ y ≥ p.h then .error .oob
  else .ok (4 + x * bpc p.h + y / 8, y % 8)

def bitMask (bit : Nat) : UInt8 := (1 : UInt8) <<< (UInt8.ofNat bit)

/-- `*byte & mask == mask`. -/
def testMask (b : UInt8) (bit : Nat) : Bool := b &&& bitMask bit == bitMask bit

/-- `*byte |= mask` / `*byte &= !mask`. -/
def setMask (b : UInt8) (bit : Nat) (v : Bool) : UInt8 :=
  if v then b ||| bitMask bit else b &&& ~~~ (bitMask bit)

/-- `Page::get_pixel`. -/
def Page.get (p : Page) (x y : Nat) : Except Panic Bool :=
  match p.indices x y with
  | .error e => .error e
  | .ok (i, bit) =>
    match p.bytes[i]? with
    | none => .error .index
    | some b => .ok (testMask b bit)

/-- `Page::set_pixel`. -/
def Page.set (p : Page) (x y : Nat) (v : Bool) : Except Panic Page :=
  match p.indices x y with
  | .error e => .error e
  | .ok (i, bit) =>
    match p.bytes[i]? with
    | none => .error .index
    | some b => .ok { p with bytes := p.bytes.set i (setMask b bit v) }

/-- `slice[a..b].fill(v)`; panics when `a > b` or `b > len`. -/
def fillRange (l : List UInt8) (a b : Nat) (v : UInt8) : Except Panic (List UInt8) :=
  if a > b ∨ b > l.length then .error .index
  else .ok (l.take a ++ List.replicate (b - a) v ++ l.drop b)

/-- `Page::set_all_pixels`. -/
def Page.setAll (p : Page) (v : Bool) : Except Panic Page :=
  match fillRange p.bytes 4 (dataBytes p.w p.h) (if v then 0xFF else 0x00) with
  | .error e => .error e
  | .ok bs => .ok { p with bytes := bs }

end Flipdot
