/-
Model of libs/core/src/sign_type.rs.
-/
import Flipdot.Model.Frame
namespace Flipdot

inductive SignType where
  | max3000Front112x16 | max3000Front98x16 | max3000Side90x7 | max3000Rear30x10
  | max3000Rear23x10 | max3000Dash30x7
  | horizonFront160x16 | horizonFront140x16 | horizonSide96x8 | horizonRear48x16
  | horizonDash40x12
  deriving DecidableEq, Repr

def SignType.all : List SignType :=
  [.max3000Front112x16, .max3000Front98x16, .max3000Side90x7, .max3000Rear30x10,
   .max3000Rear23x10, .max3000Dash30x7, .horizonFront160x16, .horizonFront140x16,
   .horizonSide96x8, .horizonRear48x16, .horizonDash40x12]

inductive SignTypeErr where
  | wrongLen (expected : Nat) (actual : Nat)
  | unknownConfig
  deriving DecidableEq, Repr

def SignType.toBytes : SignType → List UInt8
  | .max3000Front112x16 => [0x04, 0x47, 0x00, 0x0F, 0x10, 0x1C, 0x1C, 0x1C, 0x1C, 0x10, 0x00, 0x00, 0x00, 0x00, 0x00, 0x00]
  | .max3000Front98x16  => [0x04, 0x4D, 0x00, 0x0D, 0x10, 0x0E, 0x1C, 0x1C, 0x1C, 0x10, 0x00, 0x00, 0x00, 0x00, 0x00, 0x00]
  | .max3000Side90x7    => [0x04, 0x20, 0x00, 0x06, 0x07, 0x1E, 0x1E, 0x1E, 0x00, 0x08, 0x00, 0x00, 0x00, 0x00, 0x00, 0x00]
  | .max3000Rear23x10   => [0x04, 0x61, 0x00, 0x04, 0x0A, 0x17, 0x00, 0x00, 0x00, 0x10, 0x00, 0x00, 0x00, 0x00, 0x00, 0x00]
  | .max3000Rear30x10   => [0x04, 0x62, 0x00, 0x04, 0x0A, 0x1E, 0x00, 0x00, 0x00, 0x10, 0x00, 0x00, 0x00, 0x00, 0x00, 0x00]
  | .max3000Dash30x7    => [0x04, 0x26, 0x00, 0x03, 0x07, 0x1E, 0x00, 0x00, 0x00, 0x08, 0x00, 0x00, 0x00, 0x00, 0x00, 0x00]
  | .horizonFront160x16 => [0x08, 0xB1, 0x00, 0x15, 0x0C, 0x10, 0x00, 0xA0, 0x04, 0x00, 0x28, 0x00, 0x00, 0x00, 0x00, 0x00]
  | .horizonFront140x16 => [0x08, 0xB2, 0x00, 0x12, 0x04, 0x10, 0x00, 0x8C, 0x01, 0x03, 0x14, 0x28, 0x00, 0x00, 0x00, 0x00]
  | .horizonSide96x8    => [0x08, 0xB4, 0x00, 0x07, 0x0C, 0x08, 0x00, 0x60, 0x02, 0x00, 0x30, 0x00, 0x00, 0x00, 0x00, 0x00]
  | .horizonRear48x16   => [0x08, 0xB5, 0x00, 0x07, 0x0C, 0x10, 0x00, 0x30, 0x01, 0x00, 0x30, 0x00, 0x00, 0x00, 0x00, 0x00]
  | .horizonDash40x12   => [0x08, 0xB9, 0x00, 0x06, 0x8C, 0x0C, 0x00, 0x28, 0x01, 0x00, 0x28, 0x00, 0x04, 0x00, 0x00, 0x00]

def SignType.dims : SignType → Nat × Nat
  | .max3000Front112x16 => (112, 16) | .max3000Front98x16 => (98, 16)
  | .max3000Side90x7 => (90, 7) | .max3000Rear23x10 => (23, 10)
  | .max3000Rear30x10 => (30, 10) | .max3000Dash30x7 => (30, 7)
  | .horizonFront160x16 => (160, 16) | .horizonFront140x16 => (140, 16)
  | .horizonSide96x8 => (96, 8) | .horizonRear48x16 => (48, 16)
  | .horizonDash40x12 => (40, 12)

/-- The `(family, id)` match of `SignType::from_bytes`. -/
def SignType.ofCode? (fam id : UInt8) : Option SignType :=
  if fam = 0x4 then
    if id = 0x47 then some .max3000Front112x16
    else if id = 0x4D then some .max3000Front98x16
    else if id = 0x20 then some .max3000Side90x7
    else if id = 0x62 then some .max3000Rear30x10
    else if id = 0x61 then some .max3000Rear23x10
    else if id = 0x26 then some .max3000Dash30x7
    else none
  else if fam = 0x8 then
    if id = 0xB1 then some .horizonFront160x16
    else if id = 0xB2 then some .horizonFront140x16
    else if id = 0xB4 then some .horizonSide96x8
    else if id = 0xB5 then some .horizonRear48x16
    else if id = 0xB9 then some .horizonDash40x12
    else none
  else none

/-- `SignType::from_bytes`; the two indexings `bytes[0]`, `bytes[1]` are guarded by the length test,
    which the `Except (Sum Panic _)` shape makes explicit. -/
def SignType.fromBytes (bs : List UInt8) : Except Panic (Except SignTypeErr SignType) :=
  if bs.length ≠ 16 then .ok (.error (.wrongLen 16 bs.length))
  else
    match bs[0]?, bs[1]? with
    | some fam, some id =>
      match SignType.ofCode? fam id with
      | some t => .ok (.ok t)
      | none => .ok (.error .unknownConfig)
    | _, _ => .error .index

/-- `SignType::from_bytes` on a string of `n` bytes that starts with `fam, id`, for `n ≠ 16`: the verdict depends on
    the length alone (what the driver evaluates for strings too long to build as a list). -/
def SignType.fromBytesLenErr (n : Nat) : Option SignTypeErr :=
  if n ≠ 16 then some (.wrongLen 16 n) else none

theorem SignType.fromBytes_wrongLen (bs : List UInt8) (h : bs.length ≠ 16) :
    SignType.fromBytes bs = .ok (.error (.wrongLen 16 bs.length)) ∧
      SignType.fromBytesLenErr bs.length = some (.wrongLen 16 bs.length) := by
  simp [SignType.fromBytes, SignType.fromBytesLenErr, h]

end Flipdot
