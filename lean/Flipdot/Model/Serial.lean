/-
Models of libs/serial/src/serial_sign_bus.rs (`SerialSignBus::process_message`),
libs/testing/src/odk.rs (`Odk::process_message`) and libs/serial/src/serial_port.rs
(`configure_port`, the two constructors).
-/
import Flipdot.Model.Io
import Flipdot.Model.Message
import Flipdot.Model.VSign
namespace Flipdot

/-! ### Serial sign bus -/

/-- What happens at the port, in order. -/
inductive PortEvent where
  | wrote (bytes : List UInt8) (ok : Bool)
  | sleep (ms : Nat)
  | readLine
  deriving DecidableEq, Repr

/-- `response_expected`. -/
def responseExpected : Msg → Bool
  | .hello _ | .queryState _ | .requestOp _ _ => true
  | _ => false

/-- `delay_after_send` (milliseconds). -/
def delayAfterSend : Msg → Option Nat
  | .sendData _ _ => some 30
  | _ => none

/-- `delay_after_receive` (milliseconds). -/
def delayAfterReceive : Msg → Option Nat
  | .reportState _ .pageLoadInProgress | .reportState _ .pageShowInProgress => some 100
  | _ => none

inductive BusResult where
  | ok (r : Option Msg)
  | err           -- Box<dyn Error>: write failure, read failure or undecodable reply
  deriving DecidableEq, Repr

structure Port where
  rd : List REvent
  wr : List WEvent
  deriving Repr

def sleepEv : Option Nat → List PortEvent
  | some ms => [.sleep ms]
  | none => []

/-- `SerialSignBus::process_message`. -/
def serialStep (m : Msg) (p : Port) : List PortEvent × BusResult × Port :=
  let w := frameWrite (toFrame m) p.wr
  let p1 : Port := { p with wr := w.2.2 }
  if !w.1 then ([.wrote w.2.1 false], .err, p1)
  else
    let evs := [PortEvent.wrote w.2.1 true] ++ sleepEv (delayAfterSend m)
    if responseExpected m then
      let r := frameRead p1.rd
      let p2 : Port := { p1 with rd := r.2 }
      match r.1 with
      | .ok f =>
        let reply := toMsg f
        (evs ++ [.readLine] ++ sleepEv (delayAfterReceive reply), .ok (some reply), p2)
      | _ => (evs ++ [.readLine], .err, p2)
    else (evs, .ok none, p1)

/-! ### ODK bridge -/

inductive OdkResult where
  | ok
  | comm    -- OdkError::Communication
  | bus     -- OdkError::Bus (never with a virtual bus)
  deriving DecidableEq, Repr

/-- `Odk::process_message` over a virtual bus: read a frame, forward it, write back the reply.
    Returns the result, the bytes written, the bus and the port. -/
def odkStep (bus : List VSign) (p : Port) : Except Panic (OdkResult × List UInt8 × List VSign × Port) :=
  let r := frameRead p.rd
  let p1 : Port := { p with rd := r.2 }
  match r.1 with
  | .ok f =>
    match busStep bus (toMsg f) with
    | .error e => .error e
    | .ok (bus', none) => .ok (.ok, [], bus', p1)
    | .ok (bus', some reply) =>
      let w := frameWrite (toFrame reply) p1.wr
      .ok (if w.1 then .ok else .comm, w.2.1, bus', { p1 with wr := w.2.2 })
  | _ => .ok (.comm, [], bus, p1)

/-! ### Port configuration -/

inductive Baud where
  | b110 | b300 | b600 | b1200 | b2400 | b4800 | b9600 | b19200 | b38400 | b57600 | b115200
  | other (n : Nat)
  deriving DecidableEq, Repr
inductive CharSize where | bits5 | bits6 | bits7 | bits8 deriving DecidableEq, Repr
inductive Parity where | none | odd | even deriving DecidableEq, Repr
inductive StopBits where | stop1 | stop2 deriving DecidableEq, Repr
inductive FlowControl where | none | software | hardware deriving DecidableEq, Repr

structure PortSettings where
  baud : Baud
  charSize : CharSize
  parity : Parity
  stopBits : StopBits
  flow : FlowControl
  deriving DecidableEq, Repr

/-- The device: its current settings and read timeout (milliseconds; `none` = never set). -/
structure Device where
  settings : PortSettings
  timeout : Option Nat
  deriving DecidableEq, Repr

/-- Which device call is made to fail. -/
inductive FailAt where
  | never | readSettings | setBaud | writeSettings | setTimeout
  deriving DecidableEq, Repr

def luminatorSettings : PortSettings := ⟨.b19200, .bits8, .none, .stop1, .none⟩

/-- `configure_port`: `reconfigure` (read settings, set the five fields, write them back) and then
    `set_timeout`.  Returns whether it succeeded and the device afterwards. -/
def configurePort (d : Device) (timeoutMs : Nat) (fail : FailAt) : Bool × Device :=
  match fail with
  | .readSettings => (false, d)
  | .setBaud => (false, d)
  | .writeSettings => (false, d)
  | .setTimeout => (false, { d with settings := luminatorSettings })
  | .never => (true, { settings := luminatorSettings, timeout := some timeoutMs })

/-- `SerialSignBus::try_new`: 5 s timeout; an object only on success. -/
def serialTryNew (d : Device) (fail : FailAt) : Bool × Device := configurePort d 5000 fail

/-- `Odk::try_new`: 10 s timeout. -/
def odkTryNew (d : Device) (fail : FailAt) : Bool × Device := configurePort d 10000 fail

end Flipdot
