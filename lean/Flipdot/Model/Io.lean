/-
Model of `Frame::read` / `Frame::write` (libs/core/src/frame.rs) over misbehaving streams.

std is modelled from its documented contracts, not verified:
* `BufReader::with_capacity(1, r).read_until(b'\n', &mut v)` asks the reader for one byte at a time,
  retries on `ErrorKind::Interrupted`, stops after the delimiter or at end of stream (a zero-length
  read), and returns any other error;
* `Write::write_all` calls `write` until everything is accepted, retries on `Interrupted`, turns a
  zero-length write into an error and returns any other error.
-/
import Flipdot.Model.Frame
namespace Flipdot

/-- What a reader does when asked for (at most) one byte. -/
inductive REvent where
  | byte (b : UInt8)
  | interrupted
  | error
  | eof
  deriving DecidableEq, Repr

inductive IoResult (α : Type) where
  | ok (a : α)
  | frameErr (e : FrameErr)
  | ioErr
  deriving DecidableEq, Repr

/-- `read_until(b'\n')`: the bytes of the line (including the line feed if one was found), whether
    an I/O error ended it, and what is left in the stream. -/
def readUntilLF : List REvent → List UInt8 → (Option (List UInt8)) × List REvent
  | [], acc => (some acc, [])
  | .byte b :: rest, acc => if b = 10 then (some (acc ++ [b]), rest) else readUntilLF rest (acc ++ [b])
  | .interrupted :: rest, acc => readUntilLF rest acc
  | .error :: rest, _ => (none, rest)
  | .eof :: rest, acc => (some acc, rest)

/-- The same function with the line accumulated in reverse (linear instead of quadratic in the line
    length); `readUntilLF_eq_impl` makes the compiler use it, the proofs keep the definition above. -/
def readUntilLFGo : List REvent → List UInt8 → (Option (List UInt8)) × List REvent
  | [], r => (some r.reverse, [])
  | .byte b :: rest, r => if b = 10 then (some (b :: r).reverse, rest) else readUntilLFGo rest (b :: r)
  | .interrupted :: rest, r => readUntilLFGo rest r
  | .error :: rest, _ => (none, rest)
  | .eof :: rest, r => (some r.reverse, rest)

theorem readUntilLFGo_eq (evs : List REvent) (r : List UInt8) :
    readUntilLFGo evs r = readUntilLF evs r.reverse := by
  induction evs generalizing r with
  | nil => simp [readUntilLFGo, readUntilLF]
  | cons e rest ih =>
    cases e with
    | byte b =>
      by_cases hb : b = 10
      · simp [readUntilLFGo, readUntilLF, hb]
      · simp [readUntilLFGo, readUntilLF, hb, ih]
    | interrupted => simp [readUntilLFGo, readUntilLF, ih]
    | error => simp [readUntilLFGo, readUntilLF]
    | eof => simp [readUntilLFGo, readUntilLF]

def readUntilLFImpl (evs : List REvent) (acc : List UInt8) : (Option (List UInt8)) × List REvent :=
  readUntilLFGo evs acc.reverse

@[csimp] theorem readUntilLF_eq_impl : @readUntilLF = @readUntilLFImpl := by
  funext evs acc
  simp [readUntilLFImpl, readUntilLFGo_eq]

/-- `Frame::read`. -/
def frameRead (evs : List REvent) : IoResult Frame × List REvent :=
  match readUntilLF evs [] with
  | (none, rest) => (.ioErr, rest)
  | (some line, rest) =>
    match dec line with
    | .ok f => (.ok f, rest)
    | .error e => (.frameErr e, rest)

/-- What a writer does when offered a non-empty buffer. -/
inductive WEvent where
  | accept (n : Nat)     -- accepts up to `n` bytes (`accept 0` is a zero-length write)
  | interrupted
  | error
  deriving DecidableEq, Repr

/-- `write_all`: returns whether it succeeded, the bytes delivered, and the remaining schedule.
    An exhausted schedule means "accepts everything from now on". -/
def writeAll : List WEvent → List UInt8 → Bool × List UInt8 × List WEvent
  | [], buf => (true, buf, [])
  | e :: rest, buf =>
    if buf.isEmpty then (true, [], e :: rest)
    else match e with
      | .interrupted => writeAll rest buf
      | .error => (false, [], rest)
      | .accept n =>
        if n = 0 then (false, [], rest)
        else
          let r := writeAll rest (buf.drop n)
          (r.1, buf.take n ++ r.2.1, r.2.2)

/-- `Frame::write`. -/
def frameWrite (f : Frame) (evs : List WEvent) : Bool × List UInt8 × List WEvent :=
  writeAll evs (encNL f)

end Flipdot
