/-
The full serial path: controller → SerialSignBus → byte stream → Odk → virtual bus, with the two
byte streams modelled as queues (what tests/ and the harness use instead of a real port).
-/
import Flipdot.Model.Serial
import Flipdot.Model.Controller
import Flipdot.Model.Compose
namespace Flipdot

/-- State of the far side: the virtual bus and the reply bytes not yet read by the serial bus. -/
structure Far where
  bus : List VSign
  pending : List UInt8
  deriving Repr

def byteEvents (bs : List UInt8) : List REvent := bs.map .byte

/-- Bytes still unread in a reader schedule made only of byte events. -/
def remainingBytes : List REvent → List UInt8
  | [] => []
  | .byte b :: rest => b :: remainingBytes rest
  | _ :: rest => remainingBytes rest

/-- One message through the whole path.  The ODK bridge processes each complete line as soon as it
    has been written; the serial bus then reads its reply (if it expects one) from whatever the
    bridge has written back so far. -/
def viaSerial (far : Far) (m : Msg) : Except Panic (Reply × Far) :=
  let line := encNL (toFrame m)
  match odkStep far.bus { rd := byteEvents line, wr := [] } with
  | .error e => .error e
  | .ok (_, written, bus', _) =>
    let avail := far.pending ++ written
    if responseExpected m then
      let r := frameRead (byteEvents avail)
      let rest := remainingBytes r.2
      match r.1 with
      | .ok f => .ok (.ok (some (toMsg f)), ⟨bus', rest⟩)
      | _ => .ok (.busError, ⟨bus', rest⟩)
    else .ok (.ok none, ⟨bus', avail⟩)

/-- Run a controller program through the serial path. -/
def Prog.runVia {α : Type} : Prog α → Far → Outcome α × Far
  | .done a, f => (.ok a, f)
  | .fail, f => (.proto, f)
  | .panic p, f => (.panic p, f)
  | .outOfFuel, f => (.outOfFuel, f)
  | .send m k, f =>
    match viaSerial f m with
    | .error p => (.panic p, f)
    | .ok (.busError, f') => (.bus, f')
    | .ok (.ok r, f') => (k r).runVia f'

end Flipdot
