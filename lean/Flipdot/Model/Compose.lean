/-
Controller programs run against a bus of virtual signs (tests/virtual_sign_bus_tests.rs shape:
`Sign` holding an `Rc<RefCell<VirtualSignBus>>`).
-/
import Flipdot.Model.Controller
import Flipdot.Model.VSign
namespace Flipdot

/-- Run a controller program with every message answered by the virtual bus.  A virtual bus never
    returns a bus error. -/
def Prog.runOn {α : Type} : Prog α → List VSign → Outcome α × List VSign
  | .done a, b => (.ok a, b)
  | .fail, b => (.proto, b)
  | .panic p, b => (.panic p, b)
  | .outOfFuel, b => (.outOfFuel, b)
  | .send m k, b =>
    match busStep b m with
    | .error p => (.panic p, b)
    | .ok (b', r) => (k r).runOn b'

end Flipdot

namespace Flipdot

/-- Run a controller program against a single virtual sign. -/
def Prog.runOn1 {α : Type} : Prog α → VSign → Outcome α × VSign
  | .done a, s => (.ok a, s)
  | .fail, s => (.proto, s)
  | .panic p, s => (.panic p, s)
  | .outOfFuel, s => (.outOfFuel, s)
  | .send m k, s =>
    match vstep s m with
    | .error p => (.panic p, s)
    | .ok (s', r) => (k r).runOn1 s'

end Flipdot
