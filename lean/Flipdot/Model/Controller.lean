/-
Model of src/sign.rs : the controller (`Sign`) as an interaction tree over bus replies.
-/
import Flipdot.Model.Message
import Flipdot.Model.SignType
import Flipdot.Model.Page
namespace Flipdot

/-- A controller operation: what it sends next is a function of the replies so far. -/
inductive Prog (α : Type) where
  | done (a : α)
  | fail                -- `SignError::UnexpectedResponse`
  | panic (p : Panic)
  | outOfFuel           -- model artefact for the one unbounded polling loop; never reached on a
                        -- finite reply script (`run` supplies more fuel than replies)
  | send (m : Msg) (k : Option Msg → Prog α)

/-- What a bus can do with one message. -/
inductive Reply where
  | ok (r : Option Msg)
  | busError
  deriving DecidableEq, Repr

inductive Outcome (α : Type) where
  | ok (a : α)
  | proto      -- SignError::UnexpectedResponse
  | bus        -- SignError::Bus
  | starved    -- the reply script ran out (harness artefact)
  | panic (p : Panic)
  | outOfFuel
  deriving DecidableEq, Repr

def Prog.bind {α β : Type} : Prog α → (α → Prog β) → Prog β
  | .done a, f => f a
  | .fail, _ => .fail
  | .panic p, _ => .panic p
  | .outOfFuel, _ => .outOfFuel
  | .send m k, f => .send m (fun r => (k r).bind f)

/-- Run a program against a finite reply script; returns the conversation (each message with the
    reply it got, `none` for a message the script had no reply left for) and the outcome. -/
def Prog.run {α : Type} : Prog α → List Reply → List (Msg × Option Reply) × Outcome α
  | .done a, _ => ([], .ok a)
  | .fail, _ => ([], .proto)
  | .panic p, _ => ([], .panic p)
  | .outOfFuel, _ => ([], .outOfFuel)
  | .send m _, [] => ([(m, none)], .starved)
  | .send m _, .busError :: _ => ([(m, some .busError)], .bus)
  | .send m k, .ok r :: rest =>
    let (tr, o) := (k r).run rest
    ((m, some (.ok r)) :: tr, o)

/-- The messages emitted. -/
def Prog.trace {α : Type} (p : Prog α) (script : List Reply) : List Msg :=
  (p.run script).1.map Prod.fst

/-- `send_message_expect_response`. -/
def expect {α : Type} (m : Msg) (want : Option Msg) (k : Prog α) : Prog α :=
  .send m (fun r => if r = want then k else .fail)

/-- `slice.chunks(16)`, with explicit fuel (`chunks16` supplies enough). -/
def chunksN : Nat → List UInt8 → List (List UInt8)
  | 0, _ => []
  | n + 1, l => if l.isEmpty then [] else l.take 16 :: chunksN n (l.drop 16)

def chunks16 (l : List UInt8) : List (List UInt8) := chunksN l.length l

/-- The `SendData` messages for one item, with offsets `(i * 16) as u16`. -/
def chunkMsgsFrom : Nat → List (List UInt8) → List Msg
  | _, [] => []
  | i, c :: cs => .sendData (UInt16.ofNat (i * 16)) c :: chunkMsgsFrom (i + 1) cs

def itemMsgs (item : List UInt8) : List Msg := chunkMsgsFrom 0 (chunks16 item)

def allChunkMsgs : List (List UInt8) → List Msg
  | [] => []
  | it :: its => itemMsgs it ++ allChunkMsgs its

/-- The inner loops of `send_data`: send every chunk expecting no reply, counting in a `u16`
    (`chunks_sent += 1` overflows — a debug-profile panic — on the 65 536th chunk). -/
def sendChunks {α : Type} : List Msg → Nat → (Nat → Prog α) → Prog α
  | [], n, k => k n
  | m :: ms, n, k =>
    .send m (fun r =>
      if r = none then
        if n + 1 ≥ 65536 then .panic .overflow else sendChunks ms (n + 1) k
      else .fail)

/-- `send_data` with `retries` further attempts allowed after this one (`MAX_ATTEMPTS - attempts`). -/
def transfer (a : UInt16) (msgs : List Msg) (op : Op) (succ failS : State) : Nat → Prog Unit
  | 0 =>
    expect (.requestOp a op) (some (.ackOp a op)) <|
    sendChunks msgs 0 fun n =>
    expect (.chunksSent (UInt16.ofNat n)) none <|
    .send (.queryState a) fun r =>
      if r = some (.reportState a succ) then .done () else .fail
  | retries + 1 =>
    expect (.requestOp a op) (some (.ackOp a op)) <|
    sendChunks msgs 0 fun n =>
    expect (.chunksSent (UInt16.ofNat n)) none <|
    .send (.queryState a) fun r =>
      if r = some (.reportState a failS) then transfer a msgs op succ failS retries
      else if r = some (.reportState a succ) then .done () else .fail

def finishResetSeq {α : Type} (a : UInt16) (k : Prog α) : Prog α :=
  expect (.requestOp a .finishReset) (some (.ackOp a .finishReset)) <|
  expect (.hello a) (some (.reportState a .unconfigured)) k

/-- `ensure_unconfigured`. -/
def ensureUnconfigured {α : Type} (a : UInt16) (k : Prog α) : Prog α :=
  .send (.hello a) fun r =>
    if r = some (.reportState a .unconfigured) then k
    else if r = some (.reportState a .readyToReset) then finishResetSeq a k
    else
      expect (.requestOp a .startReset) (some (.ackOp a .startReset)) <|
      expect (.hello a) (some (.reportState a .readyToReset)) <|
      finishResetSeq a k

/-- `Sign::configure`. -/
def configure (a : UInt16) (t : SignType) : Prog Unit :=
  ensureUnconfigured a <|
  transfer a (allChunkMsgs [t.toBytes]) .receiveConfig .configReceived .configFailed 2

def readyStates : List State :=
  [.configReceived, .showingPages, .pageLoaded, .pageShowInProgress, .pageShown, .pageLoadInProgress]

/-- `Some(Message::ReportState(address, state)) if address == self.address`: the state reported by
    the sign's own address, if that is what the reply is. -/
def ownReport? (a : UInt16) : Option Msg → Option State
  | some (.reportState a' s) => if a' = a then some s else none
  | _ => none

/-- `Sign::configure_if_needed`. -/
def configureIfNeeded (a : UInt16) (t : SignType) : Prog Unit :=
  .send (.hello a) fun r =>
    match ownReport? a r with
    | some s => if s ∈ readyStates then .done () else configure a t
    | none => configure a t

/-- `Sign::send_pages` on the byte images of the pages. -/
def sendPages (a : UInt16) (pages : List (List UInt8)) : Prog FlipStyle :=
  (transfer a (allChunkMsgs pages) .receivePixels .pixelsReceived .pixelsFailed 2).bind fun _ =>
  expect (.pixelsComplete a) none <|
  .send (.queryState a) fun r =>
    if r = some (.reportState a .showingPages) then .done .automatic else .done .manual

/-- `switch_page`; `fuel` bounds the number of polls. -/
def switchPage (a : UInt16) (target trigger : State) (op : Op) : Nat → Prog Unit
  | 0 => .outOfFuel
  | fuel + 1 =>
    .send (.queryState a) fun r =>
      match ownReport? a r with
      | some s =>
        if s = .showingPages then .done ()
        else if s = target then .done ()
        else if s = trigger then
          expect (.requestOp a op) (some (.ackOp a op)) (switchPage a target trigger op fuel)
        else if s = .pageLoadInProgress ∨ s = .pageShowInProgress then
          switchPage a target trigger op fuel
        else .fail
      | none => .fail

/-- `Sign::load_next_page`. -/
def loadNextPage (a : UInt16) (fuel : Nat) : Prog Unit :=
  switchPage a .pageLoaded .pageShown .loadNextPage fuel

/-- `Sign::show_loaded_page`. -/
def showLoadedPage (a : UInt16) (fuel : Nat) : Prog Unit :=
  switchPage a .pageShown .pageLoaded .showLoadedPage fuel

/-- `Sign::shut_down`. -/
def shutDown (a : UInt16) : Prog Unit := expect (.goodbye a) none (.done ())

end Flipdot
