/-
Model of libs/core/src/message.rs : `Message::from(Frame)` and `Frame::from(Message)`.
-/
import Flipdot.Model.Frame
namespace Flipdot

inductive State where
  | unconfigured | configInProgress | configReceived | configFailed
  | pixelsInProgress | pixelsReceived | pixelsFailed
  | pageLoaded | pageLoadInProgress | pageShown | pageShowInProgress
  | showingPages | readyToReset
  deriving DecidableEq, Repr

inductive Op where
  | receiveConfig | receivePixels | showLoadedPage | loadNextPage | startReset | finishReset
  deriving DecidableEq, Repr

inductive Msg where
  | sendData (off : UInt16) (data : List UInt8)
  | chunksSent (n : UInt16)
  | hello (a : UInt16)
  | queryState (a : UInt16)
  | reportState (a : UInt16) (s : State)
  | requestOp (a : UInt16) (o : Op)
  | ackOp (a : UInt16) (o : Op)
  | pixelsComplete (a : UInt16)
  | goodbye (a : UInt16)
  | unknown (f : Frame)
  deriving DecidableEq, Repr

def State.all : List State :=
  [.unconfigured, .configInProgress, .configReceived, .configFailed, .pixelsInProgress,
   .pixelsReceived, .pixelsFailed, .pageLoaded, .pageLoadInProgress, .pageShown,
   .pageShowInProgress, .showingPages, .readyToReset]

def Op.all : List Op :=
  [.receiveConfig, .receivePixels, .showLoadedPage, .loadNextPage, .startReset, .finishReset]

def State.code : State → UInt8
  | .unconfigured => 0x0F | .configInProgress => 0x0D | .configReceived => 0x07
  | .configFailed => 0x0C | .pixelsInProgress => 0x03 | .pixelsReceived => 0x01
  | .pixelsFailed => 0x0B | .pageLoaded => 0x10 | .pageLoadInProgress => 0x13
  | .pageShown => 0x12 | .pageShowInProgress => 0x11 | .showingPages => 0x00
  | .readyToReset => 0x08

def Op.reqCode : Op → UInt8
  | .receiveConfig => 0xA1 | .receivePixels => 0xA2 | .showLoadedPage => 0xA9
  | .loadNextPage => 0xAA | .startReset => 0xA6 | .finishReset => 0xA7

def Op.ackCode : Op → UInt8
  | .receiveConfig => 0x95 | .receivePixels => 0x91 | .showLoadedPage => 0x96
  | .loadNextPage => 0x97 | .startReset => 0x93 | .finishReset => 0x94

def State.ofCode? (b : UInt8) : Option State := State.all.find? (fun s => s.code == b)
def Op.ofReqCode? (b : UInt8) : Option Op := Op.all.find? (fun o => o.reqCode == b)
def Op.ofAckCode? (b : UInt8) : Option Op := Op.all.find? (fun o => o.ackCode == b)

/-- `Message::from(Frame)`.  Type 0 is a data chunk whatever its length (the protocol table of
    property C04; the pinned tree only did so for lengths ≥ 2 — finding F1). -/
def toMsg (f : Frame) : Msg :=
  if f.ty = 0 then .sendData f.addr f.data
  else match f.data with
  | [] => if f.ty = 1 then .chunksSent f.addr else .unknown f
  | [b] =>
    if f.ty = 2 then
      if b = 0xFF then .hello f.addr
      else if b = 0x00 then .queryState f.addr
      else if b = 0x55 then .goodbye f.addr
      else .unknown f
    else if f.ty = 4 then
      match State.ofCode? b with
      | some s => .reportState f.addr s
      | none => .unknown f
    else if f.ty = 3 then
      match Op.ofReqCode? b with
      | some o => .requestOp f.addr o
      | none => .unknown f
    else if f.ty = 5 then
      match Op.ofAckCode? b with
      | some o => .ackOp f.addr o
      | none => .unknown f
    else if f.ty = 6 then
      if b = 0x00 then .pixelsComplete f.addr else .unknown f
    else .unknown f
  | _ => .unknown f

/-- `Frame::from(Message)`. -/
def toFrame : Msg → Frame
  | .sendData off d => ⟨off, 0, d⟩
  | .chunksSent n => ⟨n, 1, []⟩
  | .hello a => ⟨a, 2, [0xFF]⟩
  | .goodbye a => ⟨a, 2, [0x55]⟩
  | .queryState a => ⟨a, 2, [0x00]⟩
  | .reportState a s => ⟨a, 4, [s.code]⟩
  | .requestOp a o => ⟨a, 3, [o.reqCode]⟩
  | .ackOp a o => ⟨a, 5, [o.ackCode]⟩
  | .pixelsComplete a => ⟨a, 6, [0x00]⟩
  | .unknown f => f

/-- Messages other than the unknown-frame wrapper. -/
def Msg.Specific : Msg → Prop
  | .unknown _ => False
  | _ => True

instance Msg.decSpecific (m : Msg) : Decidable m.Specific := by cases m <;> unfold Msg.Specific <;> infer_instance

/-- The `Data` length invariant carried by a message. -/
def Msg.WF : Msg → Prop
  | .sendData _ d => d.length ≤ 255
  | .unknown f => f.WF
  | _ => True

instance Msg.decWF (m : Msg) : Decidable m.WF := by cases m <;> unfold Msg.WF <;> infer_instance

/-- The address a message is directed at / comes from, if it has one. -/
def Msg.addr? : Msg → Option UInt16
  | .hello a | .queryState a | .reportState a _ | .requestOp a _ | .ackOp a _
  | .pixelsComplete a | .goodbye a => some a
  | _ => none

end Flipdot
