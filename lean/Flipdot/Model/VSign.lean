/-
Model of libs/testing/src/virtual_sign_bus.rs : `VirtualSign::process_message` and
`VirtualSignBus::process_message`.

The model mirrors the tree *with* the repairs F2–F5 (see DESIGN.md §7):
  F2 `flush_pixels` drops buffered data that is not a whole page instead of `expect`-panicking,
  F3 the Max3000 width is summed in `u32`,
  F4 the chunk counter is a saturating `u32`,
  F5 `start_reset` abandons the transfer in progress.
-/
import Flipdot.Model.Message
import Flipdot.Model.SignType
import Flipdot.Model.Page
namespace Flipdot

structure VSign where
  addr : UInt16
  style : FlipStyle
  state : State
  pages : List Page
  pending : List UInt8
  chunks : Nat
  w : Nat
  h : Nat
  signType : Option SignType
  deriving DecidableEq, Repr

/-- `VirtualSign::new`. -/
def VSign.new (a : UInt16) (style : FlipStyle) : VSign :=
  ⟨a, style, .unconfigured, [], [], 0, 0, 0, none⟩

/-- `flush_pixels`. -/
def VSign.flush (s : VSign) : VSign :=
  if s.pending.isEmpty then s
  else if s.w > 0 ∧ s.h > 0 then
    match Page.fromBytes s.w s.h s.pending with
    | .ok p => { s with pending := [], pages := s.pages ++ [p] }
    | .error _ => { s with pending := [] }
  else { s with pending := [] }

/-- `reset`. -/
def VSign.reset (s : VSign) : VSign :=
  { s with state := .unconfigured, pages := [], pending := [], chunks := 0, w := 0, h := 0,
           signType := none }

/-- `u32::saturating_add(1)`. -/
def satSucc (n : Nat) : Nat := if n + 1 ≥ 4294967296 then 4294967295 else n + 1

/-- `query_state`. -/
def VSign.queryState (s : VSign) : VSign × Option Msg :=
  let st := s.state
  let s' := match st with
    | .pageLoadInProgress => { s with state := .pageLoaded }
    | .pageShowInProgress => { s with state := .pageShown }
    | _ => s
  (s', some (.reportState s.addr st))

/-- Width and height bytes of a 16-byte configuration block, as the virtual sign digests them;
    `none` when the family byte is neither Max3000 (4) nor Horizon (8).  Every index is guarded by
    the length test in the caller, which the `Except Panic` makes explicit. -/
def configDims (data : List UInt8) : Except Panic (Option (Nat × Nat)) :=
  match data[0]? with
  | none => .error .index
  | some fam =>
    if fam = 0x04 then
      match data[4]?, data[5]?, data[6]?, data[7]?, data[8]? with
      | some hb, some a, some b, some c, some d =>
        .ok (some (a.toNat + b.toNat + c.toNat + d.toNat, hb.toNat))
      | _, _, _, _, _ => .error .index
    else if fam = 0x08 then
      match data[7]?, data[5]? with
      | some wb, some hb => .ok (some (wb.toNat, hb.toNat))
      | _, _ => .error .index
    else .ok none

/-- Buffer one accepted pixel chunk. -/
def VSign.appendChunk (s : VSign) (data : List UInt8) : VSign :=
  { s with pending := s.pending ++ data, chunks := satSucc s.chunks }

/-- `send_data`. -/
def VSign.sendData (s : VSign) (off : UInt16) (data : List UInt8) : Except Panic VSign :=
  if s.state = .configInProgress ∧ off = 0 ∧ data.length = 16 then
    match configDims data with
    | .error e => .error e
    | .ok none => .ok s
    | .ok (some (w, h)) =>
      match SignType.fromBytes data with
      | .error e => .error e
      | .ok r =>
        let t := match r with | .ok t => some t | .error _ => none
        .ok { s with signType := t, w := w, h := h, chunks := satSucc s.chunks }
  else if s.state = .pixelsInProgress then
    .ok ((if off = 0 then s.flush else s).appendChunk data)
  else .ok s

/-- The state a receiving sign moves to when the chunk count is announced. -/
def State.afterCount (st : State) (ok : Bool) : State :=
  match st with
  | .configInProgress => if ok then .configReceived else .configFailed
  | .pixelsInProgress => if ok then .pixelsReceived else .pixelsFailed
  | st => st

/-- `data_chunks_sent`. -/
def VSign.chunksSent (s : VSign) (n : UInt16) : VSign :=
  { ({ s with state := s.state.afterCount (s.chunks == n.toNat) } : VSign).flush with chunks := 0 }

def VSign.canReceivePixels : State → Bool
  | .configReceived | .pixelsFailed | .pageLoaded | .pageLoadInProgress | .pageShown
  | .pageShowInProgress | .showingPages => true
  | _ => false

/-- `VirtualSign::process_message`. -/
def vstep (s : VSign) (m : Msg) : Except Panic (VSign × Option Msg) :=
  match m with
  | .hello a | .queryState a => if a = s.addr then .ok s.queryState else .ok (s, none)
  | .sendData off data =>
    match s.sendData off data with
    | .error e => .error e
    | .ok s' => .ok (s', none)
  | .chunksSent n => .ok (s.chunksSent n, none)
  | .requestOp a op =>
    if a ≠ s.addr then .ok (s, none) else
    match op with
    | .receiveConfig =>
      if s.state = .unconfigured ∨ s.state = .configFailed then
        .ok ({ s with state := .configInProgress }, some (.ackOp s.addr .receiveConfig))
      else .ok (s, none)
    | .receivePixels =>
      if VSign.canReceivePixels s.state then
        .ok ({ s with state := .pixelsInProgress, pages := [] }, some (.ackOp s.addr .receivePixels))
      else .ok (s, none)
    | .showLoadedPage =>
      if s.state = .pageLoaded then
        .ok ({ s with state := .pageShowInProgress }, some (.ackOp s.addr .showLoadedPage))
      else .ok (s, none)
    | .loadNextPage =>
      if s.state = .pageShown then
        .ok ({ s with state := .pageLoadInProgress }, some (.ackOp s.addr .loadNextPage))
      else .ok (s, none)
    | .startReset =>
      .ok ({ s with state := .readyToReset, pending := [], chunks := 0 },
           some (.ackOp s.addr .startReset))
    | .finishReset =>
      if s.state = .readyToReset then .ok (s.reset, some (.ackOp s.addr .finishReset))
      else .ok (s, none)
  | .pixelsComplete a =>
    if a = s.addr ∧ s.state = .pixelsReceived then
      .ok ({ s with state := match s.style with
                              | .automatic => .showingPages
                              | .manual => .pageLoaded }, none)
    else .ok (s, none)
  | .goodbye a => if a = s.addr then .ok (s.reset, none) else .ok (s, none)
  | _ => .ok (s, none)

/-- `VirtualSignBus::process_message`: offer the message to each sign in turn; stop at the first
    reply. -/
def busStep : List VSign → Msg → Except Panic (List VSign × Option Msg)
  | [], _ => .ok ([], none)
  | s :: rest, m =>
    match vstep s m with
    | .error e => .error e
    | .ok (s', some r) => .ok (s' :: rest, some r)
    | .ok (s', none) =>
      match busStep rest m with
      | .error e => .error e
      | .ok (rest', r) => .ok (s' :: rest', r)

end Flipdot
