/-
Converse of `switchPage_refines`: every conversation the polling protocol (`SwitchSpec`) allows — other than the
model's own out-of-fuel artefact — is a conversation of the executable controller, for every fuel larger than the
conversation is long.  With the refinement this makes `SwitchSpec` exact for `show_loaded_page` / `load_next_page`.
-/
import Flipdot.Lemmas.SpecComplete
namespace Flipdot

theorem ownReport?_self (a : UInt16) (s : State) : ownReport? a (some (.reportState a s)) = some s := by
  simp [ownReport?]

theorem switchPage_complete (a : UInt16) (target trigger : State) (op : Op) (c : List Ex) (o : Outcome Unit)
    (h : SwitchSpec a target trigger op c o) :
    o ≠ .outOfFuel → ∀ fuel, c.length < fuel → (switchPage a target trigger op fuel).Conv c o := by
  induction h with
  | queryStarved =>
    intro _ fuel hf
    cases fuel with
    | zero => simp at hf
    | succ f => unfold switchPage; exact .starved _ _
  | queryBus =>
    intro _ fuel hf
    cases fuel with
    | zero => simp at hf
    | succ f => unfold switchPage; exact .bus _ _
  | showing =>
    intro _ fuel hf
    cases fuel with
    | zero => simp at hf
    | succ f =>
      unfold switchPage
      refine .step _ _ _ [] _ ?_
      simp only [ownReport?_self, ↓reduceIte]
      exact .done ()
  | reached =>
    intro _ fuel hf
    cases fuel with
    | zero => simp at hf
    | succ f =>
      unfold switchPage
      refine .step _ _ _ [] _ ?_
      simp only [ownReport?_self, ↓reduceIte]
      split <;> exact .done ()
  | requestStop c o ht1 ht2 hs =>
    intro _ fuel hf
    cases fuel with
    | zero => simp at hf
    | succ f =>
      unfold switchPage
      refine .step _ _ _ c o ?_
      simp only [ownReport?_self, ht1, ht2, ↓reduceIte]
      exact conv_expect_stop _ _ _ c o hs
  | requested c o ht1 ht2 _ ih =>
    intro ho fuel hf
    cases fuel with
    | zero => simp at hf
    | succ f =>
      unfold switchPage
      refine .step _ _ _ _ o ?_
      simp only [ownReport?_self, ht1, ht2, ↓reduceIte]
      refine conv_expect_ok _ _ _ c o (ih ho f ?_)
      simp only [List.length_cons] at hf; omega
  | waiting s c o h1 h2 h3 hs _ ih =>
    intro ho fuel hf
    cases fuel with
    | zero => simp at hf
    | succ f =>
      unfold switchPage
      refine .step _ _ _ c o ?_
      simp only [ownReport?_self, h1, h2, h3, hs, ↓reduceIte]
      refine ih ho f ?_
      simp only [List.length_cons] at hf; omega
  | unexpected r hr =>
    intro _ fuel hf
    cases fuel with
    | zero => simp at hf
    | succ f =>
      unfold switchPage
      refine .step _ _ r [] _ ?_
      cases ho : ownReport? a r with
      | none => exact .fail
      | some s =>
        have hr' := hr s ((ownReport?_eq_some a r s).1 ho)
        simp only [hr'.1, hr'.2.1, hr'.2.2.1, hr'.2.2.2.1, hr'.2.2.2.2, ↓reduceIte, or_self]
        exact .fail
  | outOfFuel => intro ho; exact absurd rfl ho

end Flipdot
