/-
Lemmas about the frame codec model.
-/
import Flipdot.Lemmas.Bytes
namespace Flipdot

theorem addr_join (a : UInt16) : (a >>> 8).toUInt8.toUInt16 * 256 + a.toUInt8.toUInt16 = a := by
  apply UInt16.toNat_inj.mp
  have := a.toNat_lt
  simp [UInt16.toNat_add, UInt16.toNat_mul, UInt16.toNat_shiftRight, Nat.shiftRight_eq_div_pow]
  omega

theorem ofNat_len_toNat (n : Nat) (h : n ≤ 255) : (UInt8.ofNat n).toNat = n := by
  simp [UInt8.toNat_ofNat']; omega

/-- `checkBytes` on the numeric fields of a well-formed frame followed by its LRC. -/
theorem checkBytes_payload (f : Frame) (h : f.WF) :
    checkBytes (payload f ++ [lrc (payload f)]) = .ok f := by
  obtain ⟨a, t, d⟩ := f
  unfold Frame.WF at h
  simp only at h
  simp only [payload, List.cons_append, List.nil_append, checkBytes]
  have h1 : (d ++ [lrc (UInt8.ofNat d.length :: (a >>> 8).toUInt8 :: a.toUInt8 :: t :: d)]).getLast? =
      some (lrc (UInt8.ofNat d.length :: (a >>> 8).toUInt8 :: a.toUInt8 :: t :: d)) := by simp
  rw [h1]
  simp only [List.dropLast_concat]
  rw [ofNat_len_toNat _ h]
  simp only [ne_eq, not_true_eq_false, ↓reduceIte, Data.tryNew]
  have h2 : ¬ d.length > 255 := by omega
  simp only [h2, ↓reduceIte, addr_join]
  simp

theorem dec_colon (rest : List UInt8) :
    dec (58 :: rest) =
      match hexPairs (stripCRLF rest) with
      | some bs => checkBytes bs
      | none => .error .invalid := rfl

theorem dec_hexUpper (bs : List UInt8) : dec (58 :: hexUpper bs) = checkBytes bs := by
  rw [dec_colon, stripCRLF_noCR _ (hexUpper_no_cr bs), hexPairs_hexUpper]

theorem dec_hexUpper_crlf (bs : List UInt8) : dec (58 :: hexUpper bs ++ [13, 10]) = checkBytes bs := by
  rw [List.cons_append, dec_colon, stripCRLF_append_crlf _ (hexUpper_no_cr bs), hexPairs_hexUpper]

end Flipdot
