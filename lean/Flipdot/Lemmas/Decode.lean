/-
Characterisation of the frame decoder model: which strings have the documented shape, and how
rejections are classified.
-/
import Flipdot.Lemmas.Frame
namespace Flipdot

/-- ASCII hex digit of either case. -/
def isHex (c : UInt8) : Bool := (hexVal? c).isSome

theorem isHex_iff (c : UInt8) :
    isHex c = true ↔ (48 ≤ c ∧ c ≤ 57) ∨ (65 ≤ c ∧ c ≤ 70) ∨ (97 ≤ c ∧ c ≤ 102) := by
  revert c; apply UInt8.forall_of_fin; decide +kernel

theorem isHex_ne_cr (c : UInt8) (h : isHex c = true) : c ≠ 13 := by
  revert h; revert c; apply UInt8.forall_of_fin; decide +kernel

theorem pairInduction {P : List UInt8 → Prop} (h0 : P []) (h1 : ∀ c, P [c])
    (h2 : ∀ a b rest, P rest → P (a :: b :: rest)) : ∀ l, P l := by
  have : ∀ n (l : List UInt8), l.length ≤ n → P l := by
    intro n
    induction n with
    | zero => intro l hl; have : l = [] := List.eq_nil_of_length_eq_zero (by omega); subst this; exact h0
    | succ n ih =>
      intro l hl
      match l with
      | [] => exact h0
      | [c] => exact h1 c
      | a :: b :: rest => exact h2 a b rest (ih rest (by simp at hl; omega))
  exact fun l => this l.length l (Nat.le_refl _)

theorem hexPairs_some {ds : List UInt8} {bs : List UInt8} (h : hexPairs ds = some bs) :
    ds.length = 2 * bs.length ∧ ∀ c ∈ ds, isHex c = true := by
  induction ds using pairInduction generalizing bs with
  | h0 => simp [hexPairs] at h; subst h; simp
  | h1 c => simp [hexPairs] at h
  | h2 a b rest ih =>
    simp only [hexPairs] at h
    cases ha : hexVal? a with
    | none => simp [ha] at h
    | some x =>
      cases hb : hexVal? b with
      | none => simp [ha, hb] at h
      | some y =>
        cases hr : hexPairs rest with
        | none => simp [ha, hb, hr] at h
        | some r =>
          simp only [ha, hb, hr, Option.some.injEq] at h
          subst h
          obtain ⟨i1, i2⟩ := ih hr
          refine ⟨by simp [i1]; omega, ?_⟩
          intro c hc
          simp only [List.mem_cons] at hc
          rcases hc with rfl | rfl | hc
          · simp [isHex, ha]
          · simp [isHex, hb]
          · exact i2 c hc

theorem hexPairs_of_hex (ds : List UInt8) (hh : ∀ c ∈ ds, isHex c = true) (he : ds.length % 2 = 0) :
    ∃ bs, hexPairs ds = some bs := by
  induction ds using pairInduction with
  | h0 => exact ⟨[], rfl⟩
  | h1 c => simp at he
  | h2 a b rest ih =>
    have ha := hh a (by simp)
    have hb := hh b (by simp)
    obtain ⟨r, hr⟩ := ih (fun c hc => hh c (by simp [hc])) (by simp at he; omega)
    simp only [isHex, Option.isSome_iff_exists] at ha hb
    obtain ⟨x, hx⟩ := ha
    obtain ⟨y, hy⟩ := hb
    exact ⟨(x * 16 + y) :: r, by simp [hexPairs, hx, hy, hr]⟩

theorem hexPairs_none_of_odd (ds : List UInt8) (h : ds.length % 2 = 1) : hexPairs ds = none := by
  cases hp : hexPairs ds with
  | none => rfl
  | some bs => have := (hexPairs_some hp).1; omega

theorem hexPairs_none_of_nonhex (ds : List UInt8) (c : UInt8) (hc : c ∈ ds) (hn : isHex c = false) :
    hexPairs ds = none := by
  cases hp : hexPairs ds with
  | none => rfl
  | some bs => have := (hexPairs_some hp).2 c hc; simp [hn] at this

/-- `stripCRLF` removes exactly one trailing CR LF, if there is one. -/
theorem stripCRLF_spec (l : List UInt8) :
    (∃ p, l = p ++ [13, 10] ∧ stripCRLF l = p) ∨ ((¬ ∃ p, l = p ++ [13, 10]) ∧ stripCRLF l = l) := by
  induction l with
  | nil => right; simp [stripCRLF]
  | cons c cs ih =>
    rw [stripCRLF_cons]
    by_cases h : c = 13 ∧ cs = [10]
    · obtain ⟨rfl, rfl⟩ := h
      left; exact ⟨[], rfl, by simp⟩
    · simp only [h, ↓reduceIte]
      rcases ih with ⟨p, hp, hs⟩ | ⟨hn, hs⟩
      · left; exact ⟨c :: p, by simp [hp], by rw [hs]⟩
      · right
        refine ⟨?_, by rw [hs]⟩
        rintro ⟨p, hp⟩
        cases p with
        | nil => simp at hp; exact h ⟨hp.1, hp.2⟩
        | cons x p => simp at hp; exact hn ⟨p, hp.2⟩

/-- The documented textual form: ':' + an even number (at least 10) of hex digits of either case +
    an optional single CR LF; nothing before, nothing after. -/
def Shape (bs : List UInt8) : Prop :=
  ∃ digits term, bs = 58 :: (digits ++ term) ∧ (term = [] ∨ term = [13, 10]) ∧
    (∀ c ∈ digits, isHex c = true) ∧ digits.length % 2 = 0 ∧ 10 ≤ digits.length

/-- The numeric fields of a string (everything the decoder looks at after the shape test). -/
def numsOf : List UInt8 → Option (List UInt8)
  | 58 :: rest => hexPairs (stripCRLF rest)
  | _ => none

theorem dec_eq (bs : List UInt8) :
    dec bs = match numsOf bs with
      | some nums => checkBytes nums
      | none => .error .invalid := by
  match bs with
  | [] => rfl
  | c :: rest =>
    by_cases hc : c = 58
    · subst hc; simp only [numsOf, dec_colon]; cases hexPairs (stripCRLF rest) <;> rfl
    · unfold dec numsOf
      split
      · rename_i heq; simp at heq; exact absurd heq.1 hc
      · split
        · rename_i heq; simp at heq
        · rfl

theorem shape_iff (bs : List UInt8) : Shape bs ↔ ∃ nums, numsOf bs = some nums ∧ 5 ≤ nums.length := by
  constructor
  · rintro ⟨digits, term, rfl, ht, hh, he, hl⟩
    have hnocr : ∀ c ∈ digits, c ≠ 13 := fun c hc => isHex_ne_cr c (hh c hc)
    obtain ⟨nums, hn⟩ := hexPairs_of_hex digits hh he
    have hlen := (hexPairs_some hn).1
    refine ⟨nums, ?_, by omega⟩
    simp only [numsOf]
    rcases ht with rfl | rfl
    · rw [List.append_nil, stripCRLF_noCR _ hnocr, hn]
    · rw [stripCRLF_append_crlf _ hnocr, hn]
  · rintro ⟨nums, hn, hl⟩
    unfold numsOf at hn
    split at hn
    · rename_i rest
      obtain ⟨hlen, hh⟩ := hexPairs_some hn
      rcases stripCRLF_spec rest with ⟨p, hp, hs⟩ | ⟨_, hs⟩
      · rw [hs] at hlen hh
        exact ⟨p, [13, 10], by rw [hp], .inr rfl, hh, by omega, by omega⟩
      · rw [hs] at hlen hh
        exact ⟨rest, [], by simp, .inl rfl, hh, by omega, by omega⟩
    · cases hn

/-- Split of a numeric field list of at least 5 bytes. -/
theorem nums_split (nums : List UInt8) (h : 5 ≤ nums.length) :
    ∃ len ah al ty data ck, nums = len :: ah :: al :: ty :: (data ++ [ck]) := by
  match nums, h with
  | len :: ah :: al :: ty :: x :: more, _ =>
    have hne : x :: more ≠ [] := by simp
    exact ⟨len, ah, al, ty, (x :: more).dropLast, (x :: more).getLast hne, by
      rw [List.dropLast_concat_getLast hne]⟩

theorem checkBytes_split (len ah al ty ck : UInt8) (data : List UInt8) :
    checkBytes (len :: ah :: al :: ty :: (data ++ [ck])) =
      if data.length ≠ len.toNat then .error (.mismatch len.toNat data.length)
      else if lrc (payload ⟨ah.toUInt16 * 256 + al.toUInt16, ty, data⟩) ≠ ck then
        .error (.badsum ck (lrc (payload ⟨ah.toUInt16 * 256 + al.toUInt16, ty, data⟩)))
      else .ok ⟨ah.toUInt16 * 256 + al.toUInt16, ty, data⟩ := by
  simp only [checkBytes, List.getLast?_concat, List.dropLast_concat]
  by_cases hl : data.length = len.toNat
  · have h255 : ¬ data.length > 255 := by have := len.toNat_lt; omega
    simp [hl, Data.tryNew, h255]
    have : ¬ len.toNat > 255 := by have := len.toNat_lt; omega
    simp [this]
  · simp [hl]

theorem checkBytes_short (nums : List UInt8) (h : nums.length < 5) : checkBytes nums = .error .invalid := by
  match nums, h with
  | [], _ => rfl
  | [_], _ => rfl
  | [_, _], _ => rfl
  | [_, _, _], _ => rfl
  | [_, _, _, _], _ => rfl

end Flipdot
