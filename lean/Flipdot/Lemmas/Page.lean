/-
Lemmas about the page model: index arithmetic, bit masks, list updates.
-/
import Flipdot.Model.Page
import Flipdot.Lemmas.Bytes
import Flipdot.Lemmas.Bits
namespace Flipdot

theorem totalBytes_ge (w h : Nat) : dataBytes w h ≤ totalBytes w h := by
  unfold totalBytes; omega

theorem totalBytes_mod (w h : Nat) : totalBytes w h % 16 = 0 := by
  unfold totalBytes; omega

theorem totalBytes_pad (w h : Nat) : totalBytes w h - dataBytes w h < 16 := by
  unfold totalBytes; omega

theorem dataBytes_ge4 (w h : Nat) : 4 ≤ dataBytes w h := by unfold dataBytes; omega

theorem resize_ge (l : List UInt8) (n : Nat) (v : UInt8) (h : l.length ≤ n) :
    resize l n v = l ++ List.replicate (n - l.length) v := by
  unfold resize
  by_cases hn : n ≤ l.length
  · have e : n = l.length := by omega
    subst e
    simp
  · simp [hn]

theorem row_lt (h y : Nat) (hy : y < h) : y / 8 < bpc h := by unfold bpc; omega

/-- An in-bounds pixel's byte lies in the data area. -/
theorem index_lt (w h x y : Nat) (hx : x < w) (hy : y < h) :
    4 + x * bpc h + y / 8 < dataBytes w h := by
  have h1 := row_lt h y hy
  have h2 : (x + 1) * bpc h ≤ w * bpc h := Nat.mul_le_mul_right _ (by omega)
  rw [Nat.succ_mul] at h2
  unfold dataBytes
  omega

theorem index_ge4 (h x y : Nat) : 4 ≤ 4 + x * bpc h + y / 8 := by omega

/-- Distinct in-bounds pixels never share a (byte, bit) position. -/
theorem index_inj (h x y x' y' : Nat) (hy : y < h) (hy' : y' < h)
    (hi : 4 + x * bpc h + y / 8 = 4 + x' * bpc h + y' / 8) (hb : y % 8 = y' % 8) :
    x = x' ∧ y = y' := by
  have h1 := row_lt h y hy
  have h2 := row_lt h y' hy'
  have hb0 : 0 < bpc h := by omega
  have e : x * bpc h + y / 8 = x' * bpc h + y' / 8 := by omega
  have d1 : (x * bpc h + y / 8) / bpc h = x := by
    rw [Nat.mul_comm, Nat.mul_add_div hb0, Nat.div_eq_of_lt h1]; rfl
  have d2 : (x' * bpc h + y' / 8) / bpc h = x' := by
    rw [Nat.mul_comm, Nat.mul_add_div hb0, Nat.div_eq_of_lt h2]; rfl
  have hx : x = x' := by rw [← d1, ← d2, e]
  subst hx
  constructor
  · rfl
  · omega

end Flipdot

namespace Flipdot

/-! ### get / set on well-formed pages -/

theorem Page.indices_inb (p : Page) (x y : Nat) (hx : x < p.w) (hy : y < p.h) :
    p.indices x y = .ok (4 + x * bpc p.h + y / 8, y % 8) := by
  unfold Page.indices
  have : ¬ (x ≥ p.w ∨ y ≥ p.h) := by omega
  simp [this]

theorem Page.indices_oob (p : Page) (x y : Nat) (h : x ≥ p.w ∨ y ≥ p.h) :
    p.indices x y = .error .oob := by
  unfold Page.indices; simp [h]

theorem Page.idx_lt (p : Page) (hp : p.WF) (x y : Nat) (hx : x < p.w) (hy : y < p.h) :
    4 + x * bpc p.h + y / 8 < p.bytes.length := by
  have := index_lt p.w p.h x y hx hy
  have := totalBytes_ge p.w p.h
  unfold Page.WF at hp
  omega

/-- The byte holding an in-bounds pixel exists. -/
theorem Page.byte_exists (p : Page) (hp : p.WF) (x y : Nat) (hx : x < p.w) (hy : y < p.h) :
    ∃ b, p.bytes[4 + x * bpc p.h + y / 8]? = some b :=
  ⟨_, List.getElem?_eq_getElem (p.idx_lt hp x y hx hy)⟩

theorem Page.get_inb (p : Page) (x y : Nat) (hx : x < p.w) (hy : y < p.h) (b : UInt8)
    (hb : p.bytes[4 + x * bpc p.h + y / 8]? = some b) :
    p.get x y = .ok (testMask b (y % 8)) := by
  unfold Page.get
  rw [p.indices_inb x y hx hy]
  simp only [hb]

theorem Page.set_inb (p : Page) (x y : Nat) (v : Bool) (hx : x < p.w) (hy : y < p.h) (b : UInt8)
    (hb : p.bytes[4 + x * bpc p.h + y / 8]? = some b) :
    p.set x y v = .ok { p with bytes := p.bytes.set (4 + x * bpc p.h + y / 8) (setMask b (y % 8) v) } := by
  unfold Page.set
  rw [p.indices_inb x y hx hy]
  simp only [hb]

end Flipdot
