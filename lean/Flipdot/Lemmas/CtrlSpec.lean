/-
Consequences of the protocol relations in Spec/CtrlProtocol.lean.
-/
import Flipdot.Spec.CtrlProtocol
namespace Flipdot

variable {α : Type}

theorem Stop.not_ok {m : Msg} {w : Option Msg} {c : List Ex} {o : Outcome α} (h : Stop m w c o) :
    ∀ u, o ≠ .ok u := by
  cases h <;> simp

theorem MustFail.not_ok {reqs : List (Msg × Option Msg)} {c : List Ex} {o : Outcome α}
    (h : MustFail reqs c o) : ∀ u, o ≠ .ok u := by
  obtain ⟨_, _, _, _, _, _, hs, _⟩ := h
  exact hs.not_ok

/-- A stopped exchange is a single entry for the message that was being sent. -/
theorem Stop.shape {m : Msg} {w : Option Msg} {c : List Ex} {o : Outcome α} (h : Stop m w c o) :
    ∃ x, c = [(m, x)] ∧ x ≠ some (.ok w) := by
  cases h
  · exact ⟨none, rfl, by simp⟩
  · exact ⟨some .busError, rfl, by simp⟩
  · rename_i r hr; exact ⟨some (.ok r), rfl, by simpa [ans] using hr⟩

/-- A transfer reports success only if the state report concluding its final attempt came from the
    sign's own address and was the 'received' state. -/
theorem TransferSpec.success_confirmed {a : UInt16} {msgs : List Msg} {op : Op} {succ failS : State}
    {n : Nat} {c : List Ex} {o : Outcome Unit} (h : TransferSpec a msgs op succ failS n c o)
    (ho : o = .ok ()) :
    c.getLast? = some (ans (.queryState a) (some (.reportState a succ))) := by
  induction h with
  | stopped n c o hm => exact absurd ho (hm.not_ok ())
  | queryStarved n => cases ho
  | queryBus n => cases ho
  | received n => simp
  | retry n c o _ ih =>
    have := ih ho
    rw [List.getLast?_append, List.getLast?_cons, this]
    simp
  | unexpected n r _ _ => cases ho

/-- The messages of a conversation. -/
def msgsOf (c : List Ex) : List Msg := c.map Prod.fst

@[simp] theorem msgsOf_append (c d : List Ex) : msgsOf (c ++ d) = msgsOf c ++ msgsOf d := by
  simp [msgsOf]

@[simp] theorem msgsOf_okConv (reqs : List (Msg × Option Msg)) : msgsOf (okConv reqs) = reqs.map Prod.fst := by
  simp [msgsOf, okConv, ans, Function.comp_def]

/-- The messages of one complete attempt, in order. -/
def attemptMsgs (a : UInt16) (msgs : List Msg) (op : Op) : List Msg :=
  .requestOp a op :: (msgs ++ [.chunksSent (UInt16.ofNat msgs.length), .queryState a])

theorem msgs_attemptReqs (a : UInt16) (msgs : List Msg) (op : Op) :
    (attemptReqs a msgs op).map Prod.fst ++ [.queryState a] = attemptMsgs a msgs op := by
  simp [attemptReqs, attemptMsgs, Function.comp_def]

/-- The messages of a failed requirement sequence are a prefix of the required messages. -/
theorem MustFail.msgs_prefix {reqs : List (Msg × Option Msg)} {c : List Ex} {o : Outcome α}
    (h : MustFail reqs c o) : msgsOf c <+: reqs.map Prod.fst := by
  obtain ⟨pre, m, w, post, c', e, hs, hc⟩ := h
  obtain ⟨x, hx, _⟩ := hs.shape
  subst e hc hx
  simp only [msgsOf_append, msgsOf_okConv, List.map_append, List.map_cons]
  refine ⟨post.map Prod.fst, ?_⟩
  simp [msgsOf]

/-- Shape of the message sequence of a transfer: some number of complete attempts, each exactly
    `[request] ++ chunks ++ [count, query]`, followed by a (possibly complete) prefix of one more. -/
inductive AttemptShape (E : List Msg) : Nat → List Msg → Prop where
  | last (n : Nat) (t : List Msg) : t <+: E → AttemptShape E n t
  | more (n : Nat) (t : List Msg) : AttemptShape E n t → AttemptShape E (n + 1) (E ++ t)

theorem TransferSpec.attempt_shape {a : UInt16} {msgs : List Msg} {op : Op} {succ failS : State}
    {n : Nat} {c : List Ex} {o : Outcome Unit} (h : TransferSpec a msgs op succ failS n c o) :
    AttemptShape (attemptMsgs a msgs op) n (msgsOf c) := by
  have full : ∀ x : Ex, x.1 = .queryState a →
      msgsOf (okConv (attemptReqs a msgs op) ++ [x]) = attemptMsgs a msgs op := by
    intro x hx
    rw [← msgs_attemptReqs, msgsOf_append, msgsOf_okConv]
    simp [msgsOf, hx]
  induction h with
  | stopped n c o hm =>
    refine .last n _ ?_
    obtain ⟨t, ht⟩ := hm.msgs_prefix
    refine ⟨t ++ [.queryState a], ?_⟩
    rw [← msgs_attemptReqs, ← List.append_assoc, ht]
  | queryStarved n => exact .last n _ (by rw [full _ rfl]; exact List.prefix_refl _)
  | queryBus n => exact .last n _ (by rw [full _ rfl]; exact List.prefix_refl _)
  | received n => exact .last n _ (by rw [full _ rfl]; exact List.prefix_refl _)
  | unexpected n r _ _ => exact .last n _ (by rw [full _ rfl]; exact List.prefix_refl _)
  | retry n c o _ ih =>
    have : msgsOf (okConv (attemptReqs a msgs op) ++ ans (.queryState a) (some (.reportState a failS)) :: c) =
        attemptMsgs a msgs op ++ msgsOf c := by
      rw [← full (ans (.queryState a) (some (.reportState a failS))) rfl]
      simp [msgsOf]
    rw [this]
    exact .more n _ ih

/-- At most `n + 1` attempts: the receive request appears at most `n + 1` times (the chunk messages
    themselves are never requests). -/
theorem AttemptShape.count_le {E : List Msg} {n : Nat} {t : List Msg} (h : AttemptShape E n t)
    (p : Msg → Bool) (hE : (E.filter p).length ≤ 1) : (t.filter p).length ≤ n + 1 := by
  induction h with
  | last n t ht =>
    obtain ⟨s, hs⟩ := ht
    have : (t.filter p).length ≤ (E.filter p).length := by
      rw [← hs, List.filter_append, List.length_append]; omega
    omega
  | more n t _ ih =>
    rw [List.filter_append, List.length_append]
    omega

/-- A retry happens only after the sign's own 'failed' report: in every conversation, an attempt
    that is followed by another one ended with exactly that exchange. -/
inductive RetryShape (a : UInt16) (msgs : List Msg) (op : Op) (failS : State) : List Ex → Prop where
  | single (c : List Ex) :
      (∀ e ∈ c.tail, e.1 ≠ .requestOp a op) → RetryShape a msgs op failS c
  | again (c : List Ex) : RetryShape a msgs op failS c →
      RetryShape a msgs op failS
        (okConv (attemptReqs a msgs op) ++ ans (.queryState a) (some (.reportState a failS)) :: c)

theorem okConv_tail_noreq (a : UInt16) (msgs : List Msg) (op : Op)
    (hm : ∀ m ∈ msgs, m ≠ .requestOp a op) :
    ∀ e ∈ (okConv (attemptReqs a msgs op)).tail, e.1 ≠ .requestOp a op := by
  intro e he
  simp only [okConv, attemptReqs, List.map_cons, List.tail_cons, List.map_append, List.map_map,
    List.mem_append, List.mem_map, Function.comp_apply, List.mem_singleton, List.map_nil] at he
  rcases he with ⟨m, hmm, rfl⟩ | ⟨_, rfl, rfl⟩
  · exact hm m hmm
  · simp [ans]

theorem TransferSpec.retry_shape {a : UInt16} {msgs : List Msg} {op : Op} {succ failS : State}
    {n : Nat} {c : List Ex} {o : Outcome Unit} (h : TransferSpec a msgs op succ failS n c o)
    (hm : ∀ m ∈ msgs, m ≠ .requestOp a op) : RetryShape a msgs op failS c := by
  have tail_single : ∀ x : Ex, x.1 ≠ .requestOp a op →
      ∀ e ∈ (okConv (attemptReqs a msgs op) ++ [x]).tail, e.1 ≠ .requestOp a op := by
    intro x hx e he
    have hne : okConv (attemptReqs a msgs op) ≠ [] := by simp [okConv, attemptReqs]
    rw [List.tail_append_of_ne_nil hne] at he
    simp only [List.mem_append, List.mem_singleton] at he
    rcases he with he | rfl
    · exact okConv_tail_noreq a msgs op hm e he
    · exact hx
  induction h with
  | stopped n c o hmf =>
    refine .single c ?_
    obtain ⟨pre, m, w, post, c', e, hs, hc⟩ := hmf
    obtain ⟨x, hx, _⟩ := hs.shape
    subst hc hx
    -- every message after the first is one of the required messages after the request
    intro ex hex
    have hpre : (okConv pre ++ [(m, x)]).map Prod.fst <+: (attemptReqs a msgs op).map Prod.fst := by
      refine ⟨post.map Prod.fst, ?_⟩
      rw [e]; simp [okConv, ans, Function.comp_def]
    have hmem : ex.1 ∈ ((okConv pre ++ [(m, x)]).map Prod.fst).tail := by
      rw [← List.map_tail]; exact List.mem_map_of_mem hex
    obtain ⟨s, hs'⟩ := hpre
    have : ex.1 ∈ ((attemptReqs a msgs op).map Prod.fst).tail := by
      rw [← hs']
      have hne : (okConv pre ++ [(m, x)]).map Prod.fst ≠ [] := by simp
      rw [List.tail_append_of_ne_nil hne]
      exact List.mem_append_left _ hmem
    simp only [attemptReqs, List.map_cons, List.tail_cons, List.map_append, List.map_map,
      List.mem_append, List.mem_map, Function.comp_apply, List.mem_singleton, List.map_nil] at this
    rcases this with ⟨m', hm', e'⟩ | h2
    · rw [← e']; exact hm m' hm'
    · rw [h2]; simp
  | queryStarved n => exact .single _ (tail_single _ (by simp))
  | queryBus n => exact .single _ (tail_single _ (by simp))
  | received n => exact .single _ (tail_single _ (by simp [ans]))
  | unexpected n r _ _ => exact .single _ (tail_single _ (by simp [ans]))
  | retry n c o _ ih => exact .again c ih

end Flipdot
