/-
Controller programs against virtual signs: focusing a bus on the addressed sign.
-/
import Flipdot.Model.Compose
import Flipdot.Lemmas.VSign
import Flipdot.Lemmas.CtrlTree
import Flipdot.Props.C13
import Flipdot.Props.C14
import Flipdot.Lemmas.Assemble
namespace Flipdot

variable {α : Type}

/-- The other signs on the bus: different address, in a state some history can produce, and not in
    the middle of receiving a transfer. -/
def Others (a : UInt16) (l : List VSign) : Prop :=
  ∀ t ∈ l, t.addr ≠ a ∧ t.Inv ∧ t.state.receiving = false

/-- A message the controller at `a` may send: addressed to `a`, or an unaddressed data message. -/
def CtrlMsg (a : UInt16) (m : Msg) : Prop := m.addr? = some a ∨ C14.isData m = true

theorem others_step (a : UInt16) (l : List VSign) (m : Msg) (hl : Others a l) (hm : CtrlMsg a m) :
    busStep l m = .ok (l, none) := by
  induction l with
  | nil => rfl
  | cons t rest ih =>
    obtain ⟨hta, hti, htr⟩ := hl t (by simp)
    have hrest := ih (fun u hu => hl u (by simp [hu]))
    have : vstep t m = .ok (t, none) := by
      rcases hm with hm | hm
      · exact C13.foreign_silent t m a hm (Ne.symm hta)
      · exact C14.data_nonreceiving_unchanged t m hm hti htr
    simp [busStep, this, hrest]

/-- On a bus where everybody else is idle, a controller message acts on the addressed sign alone. -/
theorem busStep_focus (a : UInt16) (pre post : List VSign) (s s' : VSign) (m : Msg) (r : Option Msg)
    (hpre : Others a pre) (hpost : Others a post) (hm : CtrlMsg a m)
    (hs : vstep s m = .ok (s', r)) :
    busStep (pre ++ s :: post) m = .ok (pre ++ s' :: post, r) := by
  induction pre with
  | nil =>
    simp only [List.nil_append, busStep, hs]
    cases r with
    | some x => rfl
    | none => simp [others_step a post m hpost hm]
  | cons t rest ih =>
    obtain ⟨hta, hti, htr⟩ := hpre t (by simp)
    have := ih (fun u hu => hpre u (by simp [hu]))
    have ht : vstep t m = .ok (t, none) := by
      rcases hm with hm | hm
      · exact C13.foreign_silent t m a hm (Ne.symm hta)
      · exact C14.data_nonreceiving_unchanged t m hm hti htr
    simp [busStep, ht, this]

theorem ownOrNone_ctrlMsg_of_data {a : UInt16} {m : Msg} (h : OwnOrNone a m)
    (hd : m.addr? = none → C14.isData m = true) : CtrlMsg a m := by
  rcases h with h | h
  · exact .inr (hd h)
  · exact .inl h

/-- Running on the whole bus = running on the addressed sign, for any program that only sends
    controller messages. -/
theorem runOn_focus (a : UInt16) (pre post : List VSign) (p : Prog α) (s : VSign)
    (hpre : Others a pre) (hpost : Others a post) (hp : p.AllSends (CtrlMsg a)) :
    p.runOn (pre ++ s :: post) = ((p.runOn1 s).1, pre ++ (p.runOn1 s).2 :: post) := by
  induction hp generalizing s with
  | done x => rfl
  | fail => rfl
  | panic q => rfl
  | outOfFuel => rfl
  | send m k hm _ ih =>
    simp only [Prog.runOn, Prog.runOn1]
    cases hv : vstep s m with
    | error e =>
      exfalso
      obtain ⟨r, hr⟩ := C12.vstep_no_panic s m
      rw [hr] at hv; cases hv
    | ok sr =>
      obtain ⟨s', r⟩ := sr
      rw [busStep_focus a pre post s s' m r hpre hpost hm hv]
      exact ih r s'

end Flipdot

namespace Flipdot

variable {α : Type}

theorem runOn1_send (m : Msg) (k : Option Msg → Prog α) (s s' : VSign) (r : Option Msg)
    (h : vstep s m = .ok (s', r)) : (Prog.send m k).runOn1 s = (k r).runOn1 s' := by
  simp [Prog.runOn1, h]

theorem runOn1_expect (m : Msg) (w : Option Msg) (k : Prog α) (s s' : VSign) (r : Option Msg)
    (h : vstep s m = .ok (s', r)) :
    (expect m w k).runOn1 s = if r = w then k.runOn1 s' else (.proto, s') := by
  unfold expect
  rw [runOn1_send _ _ _ _ _ h]
  split <;> rfl

/-- A reachable unconfigured sign is exactly a freshly created one. -/
theorem unconfigured_is_new (s : VSign) (hi : s.Inv) (hs : s.state = .unconfigured) :
    s = VSign.new s.addr s.style := by
  obtain ⟨hw, hh, ht⟩ := hi.blank hs
  obtain ⟨hc, hp⟩ := hi.idle (by rw [hs]; rfl)
  have hpg := hi.noPages (by rw [hs]; rfl)
  cases s
  simp_all [VSign.new]

/-- `ensure_unconfigured` against a virtual sign in any state some history can produce: always
    succeeds and leaves the sign blank. -/
theorem ensure_blank (s : VSign) (hi : s.Inv) (k : Prog α) :
    (ensureUnconfigured s.addr k).runOn1 s = k.runOn1 (VSign.new s.addr s.style) := by
  have hq : vstep s (.hello s.addr) = .ok (s.queryState.1, some (.reportState s.addr s.state)) := by
    simp [vstep, VSign.queryState]
  unfold ensureUnconfigured
  rw [runOn1_send _ _ _ _ _ hq]
  by_cases hu : s.state = .unconfigured
  · have e : s.queryState.1 = s := by simp [VSign.queryState, hu]
    simp only [hu, ↓reduceIte, e]
    rw [← unconfigured_is_new s hi hu]
  · have h1 : ¬ (some (Msg.reportState s.addr s.state) = some (Msg.reportState s.addr .unconfigured)) := by
      simpa using hu
    simp only [h1, ↓reduceIte]
    -- finishing a reset from the ready-to-reset state
    have fin : ∀ t : VSign, t.addr = s.addr → t.style = s.style → t.state = .readyToReset →
        (finishResetSeq s.addr k).runOn1 t = k.runOn1 (VSign.new s.addr s.style) := by
      intro t ha hst hr
      unfold finishResetSeq
      have h1 : vstep t (.requestOp s.addr .finishReset) =
          .ok (VSign.new s.addr s.style, some (.ackOp s.addr .finishReset)) := by
        simp [vstep, ← ha, hr, VSign.reset, VSign.new, hst]
      rw [runOn1_expect _ _ _ _ _ _ h1]
      simp only [↓reduceIte]
      have h2 : vstep (VSign.new s.addr s.style) (.hello s.addr) =
          .ok (VSign.new s.addr s.style, some (.reportState s.addr .unconfigured)) := by
        simp [vstep, VSign.queryState, VSign.new]
      rw [runOn1_expect _ _ _ _ _ _ h2]
      simp
    by_cases hr : s.state = .readyToReset
    · simp only [hr, ↓reduceIte]
      exact fin _ (by simp [VSign.queryState, hr]) (by simp [VSign.queryState, hr]) (by simp [VSign.queryState, hr])
    · have h2 : ¬ (some (Msg.reportState s.addr s.state) = some (Msg.reportState s.addr .readyToReset)) := by
        simpa using hr
      simp only [h2, ↓reduceIte]
      have hqa : s.queryState.1.addr = s.addr := by
        simp only [VSign.queryState]; cases s.state <;> rfl
      have hqs : s.queryState.1.style = s.style := by
        simp only [VSign.queryState]; cases s.state <;> rfl
      generalize s.queryState.1 = q at hqa hqs
      have h3 : vstep q (.requestOp s.addr .startReset) =
          .ok ({ q with state := .readyToReset, pending := [], chunks := 0 },
            some (.ackOp s.addr .startReset)) := by
        simp [vstep, hqa]
      rw [runOn1_expect _ _ _ _ _ _ h3]
      simp only [↓reduceIte]
      have h4 : vstep ({ q with state := .readyToReset, pending := [], chunks := 0 } : VSign)
          (.hello s.addr) =
          .ok ({ q with state := .readyToReset, pending := [], chunks := 0 },
            some (.reportState s.addr .readyToReset)) := by
        simp [vstep, VSign.queryState, hqa]
      rw [runOn1_expect _ _ _ _ _ _ h4]
      simp only [↓reduceIte]
      exact fin _ hqa hqs rfl

end Flipdot

namespace Flipdot

/-- The virtual sign right after a successful configuration as type `t`. -/
def VSign.configured (a : UInt16) (st : FlipStyle) (t : SignType) : VSign :=
  ⟨a, st, .configReceived, [], [], 0, t.dims.1, t.dims.2, some t⟩

theorem cfgMsgs_eq (t : SignType) : allChunkMsgs [t.toBytes] = [.sendData 0 t.toBytes] := by
  cases t <;> rfl

/-- The configuration transfer against a blank sign succeeds at the first attempt. -/
theorem transfer_config_blank (a : UInt16) (st : FlipStyle) (t : SignType) (n : Nat) :
    (transfer a (allChunkMsgs [t.toBytes]) .receiveConfig .configReceived .configFailed n).runOn1
      (VSign.new a st) = (.ok (), VSign.configured a st t) := by
  rw [cfgMsgs_eq]
  have h1 : vstep (VSign.new a st) (.requestOp a .receiveConfig) =
      .ok ({ VSign.new a st with state := .configInProgress }, some (.ackOp a .receiveConfig)) := by
    simp [vstep, VSign.new]
  have h2 : vstep ({ VSign.new a st with state := .configInProgress }) (.sendData 0 t.toBytes) =
      .ok (⟨a, st, .configInProgress, [], [], 1, t.dims.1, t.dims.2, some t⟩, none) := by
    simp only [vstep, VSign.sendData, VSign.new, C19.toBytes_len16, C19.vsign_dims_agree,
      C19.fromBytes_toBytes, and_self, ↓reduceIte]
    rfl
  have h3 : vstep (⟨a, st, .configInProgress, [], [], 1, t.dims.1, t.dims.2, some t⟩ : VSign)
      (.chunksSent (UInt16.ofNat (0 + 1))) = .ok (VSign.configured a st t, none) := by
    simp [vstep, VSign.chunksSent, State.afterCount, VSign.flush, VSign.configured]
  have h4 : vstep (VSign.configured a st t) (.queryState a) =
      .ok (VSign.configured a st t, some (.reportState a .configReceived)) := by
    simp [vstep, VSign.queryState, VSign.configured]
  cases n with
  | zero =>
    unfold transfer
    rw [runOn1_expect _ _ _ _ _ _ h1]
    simp only [↓reduceIte, sendChunks]
    rw [runOn1_send _ _ _ _ _ h2]
    simp only [↓reduceIte, Nat.zero_add, ge_iff_le, Nat.reduceLeDiff]
    rw [runOn1_expect _ _ _ _ _ _ h3]
    simp only [↓reduceIte]
    rw [runOn1_send _ _ _ _ _ h4]
    simp [Prog.runOn1]
  | succ n =>
    unfold transfer
    rw [runOn1_expect _ _ _ _ _ _ h1]
    simp only [↓reduceIte, sendChunks]
    rw [runOn1_send _ _ _ _ _ h2]
    simp only [↓reduceIte, Nat.zero_add, ge_iff_le, Nat.reduceLeDiff]
    rw [runOn1_expect _ _ _ _ _ _ h3]
    simp only [↓reduceIte]
    rw [runOn1_send _ _ _ _ _ h4]
    simp [Prog.runOn1]

/-- `configure` against a virtual sign in any state some history can produce: succeeds and leaves
    it configured as the requested type, with no pages. -/
theorem configure_runOn1 (s : VSign) (hi : s.Inv) (t : SignType) :
    (configure s.addr t).runOn1 s = (.ok (), VSign.configured s.addr s.style t) := by
  unfold configure
  rw [ensure_blank s hi, transfer_config_blank]

end Flipdot

namespace Flipdot
open C13

variable {α : Type}

theorem sendData_pixels (s : VSign) (off : UInt16) (d : List UInt8) (hs : s.state = .pixelsInProgress) :
    s.sendData off d = .ok ((if off = 0 then s.flush else s).appendChunk d) := by
  unfold VSign.sendData; simp [hs]

theorem sendData_pixels_fields (s : VSign) (off : UInt16) (d : List UInt8) :
    let s' := (if off = 0 then s.flush else s).appendChunk d
    s'.state = s.state ∧ s'.addr = s.addr ∧ s'.style = s.style ∧ s'.signType = s.signType := by
  obtain ⟨_, f2, _, _, _, f6, f7, f8⟩ := s.flush_fields
  simp only
  split <;> simp [VSign.appendChunk, *]

theorem sendAll_fields (s s' : VSign) (cs : List (UInt16 × List UInt8))
    (hs : s.state = .pixelsInProgress) (h : sendAll s cs = .ok s') :
    s'.state = .pixelsInProgress ∧ s'.addr = s.addr ∧ s'.style = s.style ∧ s'.signType = s.signType := by
  induction cs generalizing s with
  | nil => cases h; exact ⟨hs, rfl, rfl, rfl⟩
  | cons c cs ih =>
    obtain ⟨off, d⟩ := c
    simp only [sendAll, sendData_pixels s off d hs] at h
    obtain ⟨g1, g2, g3, g4⟩ := sendData_pixels_fields s off d
    obtain ⟨i1, i2, i3, i4⟩ := ih _ (by rw [g1, hs]) h
    exact ⟨i1, by rw [i2, g2], by rw [i3, g3], by rw [i4, g4]⟩

theorem runOn1_sendChunks (pairs : List (UInt16 × List UInt8)) (s s' : VSign) (n : Nat)
    (k : Nat → Prog α) (hs : s.state = .pixelsInProgress) (hall : sendAll s pairs = .ok s')
    (hn : n + pairs.length < 65536) :
    (sendChunks (pairs.map mkData) n k).runOn1 s = (k (n + pairs.length)).runOn1 s' := by
  induction pairs generalizing s n with
  | nil => cases hall; rfl
  | cons c cs ih =>
    obtain ⟨off, d⟩ := c
    simp only [sendAll, sendData_pixels s off d hs] at hall
    have hv : vstep s (mkData (off, d)) = .ok ((if off = 0 then s.flush else s).appendChunk d, none) := by
      simp [vstep, mkData, sendData_pixels s off d hs]
    simp only [List.map_cons, sendChunks]
    rw [runOn1_send _ _ _ _ _ hv]
    have h1 : ¬ (n + 1 ≥ 65536) := by simp at hn; omega
    simp only [↓reduceIte, h1]
    have g1 := (sendData_pixels_fields s off d).1
    rw [ih _ (n + 1) (by rw [g1, hs]) hall (by simp at hn; omega)]
    simp only [List.length_cons]
    congr 2
    omega

/-- The sign after a successful pixel transfer of `ps`, before pixels-complete. -/
def VSign.loaded (s : VSign) (ps : List Page) (st : State) : VSign :=
  { s with state := st, pages := ps, pending := [], chunks := 0 }

/-- The pixel transfer against a configured, idle virtual sign: succeeds at the first attempt and
    the sign then holds exactly the pages sent. -/
theorem transfer_pixels (s : VSign) (hi : s.Inv) (hst : VSign.canReceivePixels s.state = true)
    (hw : 0 < s.w) (hh : 0 < s.h) (hsz : totalBytes s.w s.h ≤ 65536)
    (ps : List Page) (hps : ∀ p ∈ ps, p.w = s.w ∧ p.h = s.h ∧ p.WF)
    (hn : (allChunkMsgs (ps.map (·.bytes))).length < 65536) (n : Nat) :
    (transfer s.addr (allChunkMsgs (ps.map (·.bytes))) .receivePixels .pixelsReceived .pixelsFailed n).runOn1 s =
      (.ok (), s.loaded ps .pixelsReceived) := by
  have hnr : s.state.receiving = false := by
    cases hs : s.state <;> simp_all [VSign.canReceivePixels, State.receiving]
  obtain ⟨hc0, hp0⟩ := hi.idle hnr
  -- 1. the request is acknowledged
  let s1 : VSign := { s with state := .pixelsInProgress, pages := [] }
  have h1 : vstep s (.requestOp s.addr .receivePixels) = .ok (s1, some (.ackOp s.addr .receivePixels)) := by
    simp [vstep, hst, s1]
  -- 2. all chunks
  rw [allChunkMsgs_pairs] at hn ⊢
  simp only [List.length_map] at hn
  obtain ⟨s2, hall, hpages, hpend, hw2, hh2⟩ :=
    pages_assembled s1 (allChunkPairs (ps.map (·.bytes))) (UInt16.ofNat (allChunkPairs (ps.map (·.bytes))).length) rfl
  obtain ⟨f1, f2, f3, f4⟩ := sendAll_fields s1 s2 _ rfl hall
  have hcnt : s2.chunks = (allChunkPairs (ps.map (·.bytes))).length := by
    rcases chunks_after_sendAll s1 s2 _ rfl hall with e | e
    · simp only [s1, hc0, Nat.zero_add] at e; omega
    · simp [s1, hc0] at e
  have hasm := (assemble_pages s.w s.h hw hh hsz ps hps []).1
  simp only [List.nil_append] at hasm
  -- 3. the count matches
  let s3 := s2.chunksSent (UInt16.ofNat (allChunkPairs (ps.map (·.bytes))).length)
  have h3 : vstep s2 (.chunksSent (UInt16.ofNat (0 + (allChunkPairs (ps.map (·.bytes))).length))) = .ok (s3, none) := by
    simp [vstep, s3]
  have hs3 : s3 = s.loaded ps .pixelsReceived := by
    have hst3 : s3.state = .pixelsReceived := by
      have := (count_spec s2 (UInt16.ofNat (allChunkPairs (ps.map (·.bytes))).length)).1 f1
      simp only [s3, this, hcnt, UInt16.toNat_ofNat']
      have : (allChunkPairs (ps.map (·.bytes))).length % 65536 = (allChunkPairs (ps.map (·.bytes))).length := by omega
      simp [this]
    have hpg3 : s3.pages = ps := by
      simp only [s3, hpages, s1, hp0]; exact hasm
    have hrest : s3.addr = s.addr ∧ s3.style = s.style ∧ s3.signType = s.signType ∧ s3.w = s.w ∧
        s3.h = s.h ∧ s3.chunks = 0 := by
      have ff := ({ s2 with state := s2.state.afterCount (s2.chunks == (UInt16.ofNat (allChunkPairs (ps.map (·.bytes))).length).toNat) } : VSign).flush_fields
      simp only [s3, VSign.chunksSent]
      obtain ⟨_, _, g3, g4, _, g6, g7, g8⟩ := ff
      simp only at g3 g4 g6 g7 g8
      exact ⟨by rw [g7, f2], by rw [g8, f3], by rw [g6, f4], by rw [g3, hw2], by rw [g4, hh2], trivial⟩
    obtain ⟨r1, r2, r3, r4, r5, r6⟩ := hrest
    have hpe3 : s3.pending = [] := hpend
    cases hh3 : s3
    simp only [hh3] at hst3 hpg3 r1 r2 r3 r4 r5 r6 hpe3
    simp only [VSign.loaded]
    cases s
    simp_all
  have h4 : vstep s3 (.queryState s.addr) = .ok (s3, some (.reportState s.addr .pixelsReceived)) := by
    rw [hs3]; simp [vstep, VSign.queryState, VSign.loaded]
  have finish : ∀ q : Option Msg → Prog Unit, q (some (.reportState s.addr .pixelsReceived)) = .done () →
      (expect (.requestOp s.addr .receivePixels) (some (.ackOp s.addr .receivePixels)) <|
        sendChunks ((allChunkPairs (ps.map (·.bytes))).map mkData) 0 fun cnt =>
          expect (.chunksSent (UInt16.ofNat cnt)) none <| .send (.queryState s.addr) q).runOn1 s =
        (.ok (), s.loaded ps .pixelsReceived) := by
    intro q hq
    rw [runOn1_expect _ _ _ _ _ _ h1]
    simp only [↓reduceIte]
    rw [runOn1_sendChunks _ s1 s2 0 _ rfl hall (by omega)]
    rw [runOn1_expect _ _ _ _ _ _ h3]
    simp only [↓reduceIte]
    rw [runOn1_send _ _ _ _ _ h4, hq, hs3]
    rfl
  cases n with
  | zero => unfold transfer; exact finish _ (by simp)
  | succ n => unfold transfer; exact finish _ (by simp)

end Flipdot
