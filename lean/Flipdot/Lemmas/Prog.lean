/-
Generic lemmas about interaction trees (`Prog`) and their runs against reply scripts.
-/
import Flipdot.Model.Controller
namespace Flipdot

variable {α β : Type}

@[simp] theorem Prog.run_done (a : α) (s : List Reply) : (Prog.done a).run s = ([], .ok a) := by
  cases s <;> rfl
@[simp] theorem Prog.run_fail (s : List Reply) : (Prog.fail : Prog α).run s = ([], .proto) := by
  cases s <;> rfl
@[simp] theorem Prog.run_panic (p : Panic) (s : List Reply) : (Prog.panic p : Prog α).run s = ([], .panic p) := by
  cases s <;> rfl
@[simp] theorem Prog.run_outOfFuel (s : List Reply) : (Prog.outOfFuel : Prog α).run s = ([], .outOfFuel) := by
  cases s <;> rfl
@[simp] theorem Prog.run_send_nil (m : Msg) (k : Option Msg → Prog α) :
    (Prog.send m k).run [] = ([(m, none)], .starved) := rfl
@[simp] theorem Prog.run_send_bus (m : Msg) (k : Option Msg → Prog α) (rest : List Reply) :
    (Prog.send m k).run (.busError :: rest) = ([(m, some .busError)], .bus) := rfl
@[simp] theorem Prog.run_send_ok (m : Msg) (k : Option Msg → Prog α) (r : Option Msg) (rest : List Reply) :
    (Prog.send m k).run (.ok r :: rest) =
      ((m, some (.ok r)) :: ((k r).run rest).1, ((k r).run rest).2) := rfl

/-- Every message a program can ever send satisfies `P`. -/
inductive Prog.AllSends (P : Msg → Prop) : Prog α → Prop where
  | done (a : α) : AllSends P (.done a)
  | fail : AllSends P .fail
  | panic (p : Panic) : AllSends P (.panic p)
  | outOfFuel : AllSends P .outOfFuel
  | send (m : Msg) (k : Option Msg → Prog α) : P m → (∀ r, AllSends P (k r)) → AllSends P (.send m k)

theorem Prog.AllSends.run {P : Msg → Prop} {p : Prog α} (h : p.AllSends P) (script : List Reply) :
    ∀ e ∈ (p.run script).1, P e.1 := by
  induction h generalizing script with
  | done a => simp
  | fail => simp
  | panic p => simp
  | outOfFuel => simp
  | send m k hm _ ih =>
    cases script with
    | nil => simp [hm]
    | cons r rest =>
      cases r with
      | busError => simp [hm]
      | ok x =>
        intro e he
        simp only [Prog.run_send_ok, List.mem_cons] at he
        rcases he with rfl | he
        · exact hm
        · exact ih x rest e he

theorem Prog.AllSends.bind {P : Msg → Prop} {p : Prog α} {f : α → Prog β}
    (hp : p.AllSends P) (hf : ∀ a, (f a).AllSends P) : (p.bind f).AllSends P := by
  induction hp with
  | done a => exact hf a
  | fail => exact .fail
  | panic p => exact .panic p
  | outOfFuel => exact .outOfFuel
  | send m k hm _ ih => exact .send m _ hm ih

/-- A bus error ends every conversation, whatever the program: it can only be the last entry, and
    the outcome is then the bus error. -/
theorem Prog.bus_error_last (p : Prog α) (script : List Reply) (i : Nat) (m : Msg)
    (h : (p.run script).1[i]? = some (m, some .busError)) :
    i + 1 = (p.run script).1.length ∧ (p.run script).2 = .bus := by
  induction p generalizing script i with
  | done a => simp at h
  | fail => simp at h
  | panic p => simp at h
  | outOfFuel => simp at h
  | send m' k ih =>
    cases script with
    | nil =>
      cases i with
      | zero => simp at h
      | succ i => simp at h
    | cons r rest =>
      cases r with
      | busError =>
        cases i with
        | zero => simp
        | succ i => simp at h
      | ok x =>
        cases i with
        | zero => simp at h
        | succ i =>
          simp only [Prog.run_send_ok, List.getElem?_cons_succ] at h
          have := ih x rest i h
          simp only [Prog.run_send_ok, List.length_cons]
          exact ⟨by omega, this.2⟩

/-- The outcome is a bus error only if the last reply consumed was one. -/
theorem Prog.bus_outcome (p : Prog α) (script : List Reply) (h : (p.run script).2 = .bus) :
    ∃ m, (p.run script).1.getLast? = some (m, some .busError) := by
  induction p generalizing script with
  | done a => simp at h
  | fail => simp at h
  | panic p => simp at h
  | outOfFuel => simp at h
  | send m' k ih =>
    cases script with
    | nil => simp at h
    | cons r rest =>
      cases r with
      | busError => exact ⟨m', by simp⟩
      | ok x =>
        simp only [Prog.run_send_ok] at h ⊢
        obtain ⟨m, hm⟩ := ih x rest h
        refine ⟨m, ?_⟩
        rw [List.getLast?_cons]
        simp [hm]

/-- How a reply looks to a controller at address `a`: only the sign's own state reports and
    acknowledgements, and silence, are distinguished; everything else is "unrelated". -/
inductive ReplyClass where
  | ownReport (s : State)
  | ownAck (o : Op)
  | silence
  | unrelated
  | busError
  deriving DecidableEq, Repr

def classify (a : UInt16) : Reply → ReplyClass
  | .busError => .busError
  | .ok none => .silence
  | .ok (some (.reportState a' s)) => if a' = a then .ownReport s else .unrelated
  | .ok (some (.ackOp a' o)) => if a' = a then .ownAck o else .unrelated
  | .ok (some _) => .unrelated

/-- A program whose continuation at every step depends only on the class of the reply. -/
inductive Prog.Respects (a : UInt16) : Prog α → Prop where
  | done (x : α) : Respects a (.done x)
  | fail : Respects a .fail
  | panic (p : Panic) : Respects a (.panic p)
  | outOfFuel : Respects a .outOfFuel
  | send (m : Msg) (k : Option Msg → Prog α) :
      (∀ r r', classify a (.ok r) = classify a (.ok r') → k r = k r') →
      (∀ r, Respects a (k r)) → Respects a (.send m k)

/-- Two scripts whose replies fall in the same classes produce the same messages and the same
    outcome. -/
theorem Prog.Respects.run_eq {a : UInt16} {p : Prog α} (h : p.Respects a) (s s' : List Reply)
    (hs : s.map (classify a) = s'.map (classify a)) :
    p.trace s = p.trace s' ∧ (p.run s).2 = (p.run s').2 := by
  induction h generalizing s s' with
  | done x => simp [Prog.trace]
  | fail => simp [Prog.trace]
  | panic p => simp [Prog.trace]
  | outOfFuel => simp [Prog.trace]
  | send m k hk _ ih =>
    cases s with
    | nil =>
      cases s' with
      | nil => simp [Prog.trace]
      | cons r' rest' => simp at hs
    | cons r rest =>
      cases s' with
      | nil => simp at hs
      | cons r' rest' =>
        simp only [List.map_cons, List.cons.injEq] at hs
        obtain ⟨hc, hrest⟩ := hs
        cases r with
        | busError =>
          cases r' with
          | busError => simp [Prog.trace]
          | ok x' =>
            exfalso
            cases x' with
            | none => simp [classify] at hc
            | some y => cases y <;> simp [classify] at hc <;> split at hc <;> cases hc
        | ok x =>
          cases r' with
          | busError =>
            exfalso
            cases x with
            | none => simp [classify] at hc
            | some y => cases y <;> simp [classify] at hc <;> split at hc <;> cases hc
          | ok x' =>
            have hkk := hk x x' hc
            have := ih x' rest rest' hrest
            simp only [Prog.trace, Prog.run_send_ok, List.map_cons, hkk] at this ⊢
            exact ⟨by rw [this.1], this.2⟩

end Flipdot
