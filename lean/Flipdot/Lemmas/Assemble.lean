/-
The chunk messages of a list of well-formed pages assemble, on the sign side, to exactly those pages.
-/
import Flipdot.Props.C13
import Flipdot.Lemmas.Chunks
namespace Flipdot
open C13

def chunkPairsFrom : Nat → List (List UInt8) → List (UInt16 × List UInt8)
  | _, [] => []
  | i, c :: cs => (UInt16.ofNat (i * 16), c) :: chunkPairsFrom (i + 1) cs

def itemPairs (item : List UInt8) : List (UInt16 × List UInt8) := chunkPairsFrom 0 (chunks16 item)

def allChunkPairs : List (List UInt8) → List (UInt16 × List UInt8)
  | [] => []
  | it :: its => itemPairs it ++ allChunkPairs its

def mkData (p : UInt16 × List UInt8) : Msg := .sendData p.1 p.2

theorem chunkMsgsFrom_pairs (i : Nat) (cs : List (List UInt8)) :
    chunkMsgsFrom i cs = (chunkPairsFrom i cs).map mkData := by
  induction cs generalizing i with
  | nil => rfl
  | cons c cs ih => simp [chunkMsgsFrom, chunkPairsFrom, mkData, ih]

theorem allChunkMsgs_pairs (items : List (List UInt8)) :
    allChunkMsgs items = (allChunkPairs items).map mkData := by
  induction items with
  | nil => rfl
  | cons it its ih => simp [allChunkMsgs, allChunkPairs, itemMsgs, itemPairs, chunkMsgsFrom_pairs, ih]

theorem ofNat16_ne_zero (n : Nat) (h0 : 0 < n) (h1 : n < 65536) : (UInt16.ofNat n) ≠ 0 := by
  intro h
  have := congrArg UInt16.toNat h
  simp [UInt16.toNat_ofNat'] at this
  omega

/-- Chunks after the first of an item (nonzero offsets) just extend the buffered data. -/
theorem assemble_tail_chunks (w h : Nat) (pages : List Page) (cur : List UInt8) (i : Nat)
    (cs : List (List UInt8)) (rest : List (UInt16 × List UInt8))
    (hi : 0 < i) (hb : (i + cs.length) * 16 ≤ 65536 + 15) :
    assemble w h pages cur (chunkPairsFrom i cs ++ rest) = assemble w h pages (cur ++ cs.flatten) rest := by
  induction cs generalizing i cur with
  | nil => simp [chunkPairsFrom]
  | cons c cs ih =>
    simp only [chunkPairsFrom, List.cons_append, assemble]
    have hne : UInt16.ofNat (i * 16) ≠ 0 := ofNat16_ne_zero _ (by omega) (by simp at hb; omega)
    simp only [hne, ↓reduceIte]
    rw [ih (cur ++ c) (i + 1) (by omega) (by simp at hb ⊢; omega)]
    simp

theorem chunks16_ne_nil (l : List UInt8) (h : l ≠ []) : ∃ c cs, chunks16 l = c :: cs := by
  unfold chunks16
  have hpos : 0 < l.length := List.length_pos_iff.mpr h
  cases hn : l.length with
  | zero => omega
  | succ n =>
    unfold chunksN
    have : l.isEmpty = false := by simpa using h
    simp [this]

theorem chunks16_length (l : List UInt8) : (chunks16 l).length = (l.length + 15) / 16 :=
  chunksN_length _ _ (Nat.le_refl _)

/-- All chunks of one (non-empty, at most 64 KiB) item: the buffered group is closed, then the
    item's bytes are buffered. -/
theorem assemble_item (w h : Nat) (pages : List Page) (cur item : List UInt8)
    (rest : List (UInt16 × List UInt8)) (hne : item ≠ []) (hlen : item.length ≤ 65536) :
    assemble w h pages cur (itemPairs item ++ rest) =
      assemble w h (closeGroup w h pages cur) item rest := by
  obtain ⟨c, cs, hc⟩ := chunks16_ne_nil item hne
  have hfl := chunks16_flatten item
  have hl := chunks16_length item
  unfold itemPairs
  rw [hc] at hfl hl ⊢
  simp only [chunkPairsFrom, Nat.zero_mul, List.cons_append, assemble]
  have h0 : (UInt16.ofNat 0) = 0 := rfl
  simp only [h0, ↓reduceIte, Nat.zero_add]
  rw [assemble_tail_chunks w h _ c 1 cs rest (by omega) (by simp at hl; omega)]
  simp only [List.flatten_cons] at hfl
  rw [hfl]

theorem closeGroup_page (w h : Nat) (acc : List Page) (q : Page) (hw : 0 < w) (hh : 0 < h)
    (hq : q.w = w ∧ q.h = h ∧ q.WF) : closeGroup w h acc q.bytes = acc ++ [q] := by
  obtain ⟨qw, qh, qwf⟩ := hq
  unfold Page.WF at qwf
  have h1 := totalBytes_ge q.w q.h
  have h2 := dataBytes_ge4 q.w q.h
  have hne : q.bytes ≠ [] := by
    intro e; rw [e] at qwf; simp at qwf; omega
  unfold closeGroup
  rw [qw, qh] at qwf
  simp only [hne, ↓reduceIte, hw, hh, qwf, and_self]
  cases q
  simp_all

/-- The chunk stream of well-formed pages of the configured size assembles to exactly those pages,
    in order. -/
theorem assemble_pages (w h : Nat) (hw : 0 < w) (hh : 0 < h) (hsz : totalBytes w h ≤ 65536)
    (ps : List Page) (hps : ∀ p ∈ ps, p.w = w ∧ p.h = h ∧ p.WF) (acc : List Page) :
    assemble w h acc [] (allChunkPairs (ps.map (·.bytes))) = acc ++ ps ∧
    ∀ q : Page, (q.w = w ∧ q.h = h ∧ q.WF) →
      assemble w h acc q.bytes (allChunkPairs (ps.map (·.bytes))) = acc ++ [q] ++ ps := by
  induction ps generalizing acc with
  | nil =>
    refine ⟨by simp [allChunkPairs, assemble, closeGroup], ?_⟩
    intro q hq
    simp only [List.map_nil, allChunkPairs, assemble, List.append_nil]
    exact closeGroup_page w h acc q hw hh hq
  | cons p ps ih =>
    have hp := hps p (by simp)
    have hps' : ∀ x ∈ ps, x.w = w ∧ x.h = h ∧ x.WF := fun x hx => hps x (by simp [hx])
    have pne : p.bytes ≠ [] := by
      obtain ⟨pw, ph, pwf⟩ := hp
      unfold Page.WF at pwf
      have h1 := totalBytes_ge p.w p.h
      have h2 := dataBytes_ge4 p.w p.h
      intro e; rw [e] at pwf; simp at pwf; omega
    have plen : p.bytes.length ≤ 65536 := by
      obtain ⟨pw, ph, pwf⟩ := hp
      unfold Page.WF at pwf
      rw [pwf, pw, ph]; exact hsz
    simp only [List.map_cons, allChunkPairs]
    refine ⟨?_, ?_⟩
    · rw [assemble_item w h acc [] p.bytes _ pne plen]
      have : closeGroup w h acc [] = acc := by simp [closeGroup]
      rw [this, (ih hps' acc).2 p hp]
      simp
    · intro q hq
      rw [assemble_item w h acc q.bytes p.bytes _ pne plen, closeGroup_page w h acc q hw hh hq,
        (ih hps' (acc ++ [q])).2 p hp]
      simp

end Flipdot
