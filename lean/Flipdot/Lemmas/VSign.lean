/-
Lemmas about the virtual sign model: flush, reachable-state invariant.
-/
import Flipdot.Model.VSign
import Flipdot.Lemmas.Page
namespace Flipdot

def State.receiving : State → Bool
  | .configInProgress | .pixelsInProgress => true
  | _ => false

def State.configPhase : State → Bool
  | .unconfigured | .configInProgress | .configReceived | .configFailed => true
  | _ => false

theorem VSign.flush_empty (s : VSign) (h : s.pending = []) : s.flush = s := by
  unfold VSign.flush; simp [h]

theorem VSign.flush_fields (s : VSign) :
    s.flush.pending = [] ∧ s.flush.state = s.state ∧ s.flush.w = s.w ∧ s.flush.h = s.h ∧
    s.flush.chunks = s.chunks ∧ s.flush.signType = s.signType ∧ s.flush.addr = s.addr ∧
    s.flush.style = s.style := by
  unfold VSign.flush
  split
  · rename_i h; simp_all
  · split
    · split <;> simp
    · simp

theorem VSign.flush_pages (s : VSign) :
    s.flush.pages = s.pages ∨
      ∃ p, s.flush.pages = s.pages ++ [p] ∧ p.w = s.w ∧ p.h = s.h ∧ p.WF ∧ p.bytes = s.pending := by
  unfold VSign.flush
  split
  · exact .inl rfl
  · split
    · split
      · rename_i p hp
        right
        unfold Page.fromBytes at hp
        split at hp
        · cases hp
        · rename_i hl
          cases hp
          refine ⟨_, rfl, rfl, rfl, ?_, rfl⟩
          unfold Page.WF
          simpa using hl
      · exact .inl rfl
    · exact .inl rfl

/-- Invariant of every state a virtual sign can be driven into. -/
structure VSign.Inv (s : VSign) : Prop where
  idle : s.state.receiving = false → s.chunks = 0 ∧ s.pending = []
  cfgNoPending : s.state = .configInProgress → s.pending = []
  noPages : s.state.configPhase = true → s.pages = []
  blank : s.state = .unconfigured → s.w = 0 ∧ s.h = 0 ∧ s.signType = none
  pagesOK : ∀ p ∈ s.pages, p.w = s.w ∧ p.h = s.h ∧ p.WF

theorem VSign.inv_new (a : UInt16) (st : FlipStyle) : (VSign.new a st).Inv := by
  constructor <;> simp [VSign.new]

theorem VSign.inv_reset (s : VSign) : s.reset.Inv := by
  constructor <;> simp [VSign.reset]

theorem VSign.inv_flush_pagesOK (s : VSign) (h : ∀ p ∈ s.pages, p.w = s.w ∧ p.h = s.h ∧ p.WF) :
    ∀ p ∈ s.flush.pages, p.w = s.flush.w ∧ p.h = s.flush.h ∧ p.WF := by
  obtain ⟨_, _, hw, hh, _⟩ := s.flush_fields
  rw [hw, hh]
  rcases s.flush_pages with e | ⟨q, e, qw, qh, qwf, _⟩
  · rw [e]; exact h
  · rw [e]
    intro p hp
    simp at hp
    rcases hp with hp | hp
    · exact h p hp
    · subst hp; exact ⟨qw, qh, qwf⟩

end Flipdot

namespace Flipdot

theorem VSign.inv_queryState (s : VSign) (hi : s.Inv) : s.queryState.1.Inv := by
  obtain ⟨i1, i2, i3, i4, i5⟩ := hi
  unfold VSign.queryState
  cases hs : s.state <;> simp only [hs] at i1 i2 i3 i4 ⊢ <;> constructor <;>
    simp_all [State.receiving, State.configPhase]

theorem VSign.inv_sendData (s s' : VSign) (off : UInt16) (data : List UInt8) (hi : s.Inv)
    (h : s.sendData off data = .ok s') : s'.Inv := by
  obtain ⟨i1, i2, i3, i4, i5⟩ := hi
  unfold VSign.sendData at h
  split at h
  · rename_i hc
    split at h
    · cases h
    · cases h; exact ⟨i1, i2, i3, i4, i5⟩
    · split at h
      · cases h
      · cases h
        have hp := i3 (by simp [hc.1, State.configPhase])
        constructor <;> simp_all [State.receiving, State.configPhase]
  · split at h
    · rename_i hn hs
      cases h
      have key : ∀ t : VSign, t.state = .pixelsInProgress →
          (∀ p ∈ t.pages, p.w = t.w ∧ p.h = t.h ∧ p.WF) → (t.appendChunk data).Inv := by
        intro t ht hp
        constructor <;> simp_all [VSign.appendChunk, State.receiving, State.configPhase]
      split
      · obtain ⟨_, fs, _⟩ := s.flush_fields
        exact key s.flush (by rw [fs, hs]) (s.inv_flush_pagesOK i5)
      · exact key s hs i5
    · cases h; exact ⟨i1, i2, i3, i4, i5⟩

theorem VSign.inv_chunksSent (s : VSign) (n : UInt16) (hi : s.Inv) : (s.chunksSent n).Inv := by
  obtain ⟨i1, i2, i3, i4, i5⟩ := hi
  unfold VSign.chunksSent
  generalize hok : (s.chunks == n.toNat) = ok
  -- the sign with its new state, before the flush
  have hfl := ({ s with state := s.state.afterCount ok } : VSign).flush_fields
  have hpg := ({ s with state := s.state.afterCount ok } : VSign).flush_pages
  have hpo := ({ s with state := s.state.afterCount ok } : VSign).inv_flush_pagesOK (by simpa using i5)
  generalize ({ s with state := s.state.afterCount ok } : VSign).flush = t at hfl hpg hpo
  obtain ⟨f1, f2, f3, f4, f5, f6, f7, f8⟩ := hfl
  simp only at f2 f3 f4 f5 f6 hpg
  constructor
  · intro _; exact ⟨rfl, f1⟩
  · intro _; exact f1
  · intro hc
    simp only [f2] at hc
    -- configuration phase after the count: the sign was in a configuration phase before, with
    -- nothing buffered, so the flush did nothing
    have hc0 : s.state.configPhase = true := by
      cases hs : s.state <;> cases ok <;> simp_all [State.afterCount, State.configPhase]
    have hp0 : s.pending = [] := by
      cases hs : s.state <;> simp_all [State.receiving, State.configPhase]
    rcases hpg with e | ⟨p, e, _, _, pwf, pb⟩
    · simp only; rw [e]; exact i3 hc0
    · exfalso
      have h1 := totalBytes_ge p.w p.h
      have h2 := dataBytes_ge4 p.w p.h
      unfold Page.WF at pwf
      rw [pb, hp0] at pwf
      simp at pwf
      omega
  · intro hu
    simp only [f2] at hu
    have : s.state = .unconfigured := by
      cases hs : s.state <;> cases ok <;> simp_all [State.afterCount]
    simp only [f3, f4, f6]
    exact i4 this
  · simpa using hpo

end Flipdot

namespace Flipdot

/-- One message preserves the invariant. -/
theorem vstep_inv (s s' : VSign) (m : Msg) (r : Option Msg) (hi : s.Inv)
    (h : vstep s m = .ok (s', r)) : s'.Inv := by
  cases m with
  | sendData off data =>
    simp only [vstep] at h
    split at h
    · cases h
    · rename_i t ht; cases h; exact VSign.inv_sendData s _ off data hi ht
  | chunksSent n => simp only [vstep] at h; cases h; exact s.inv_chunksSent n hi
  | hello a =>
    simp only [vstep] at h
    split at h <;> cases h
    · exact s.inv_queryState hi
    · exact hi
  | queryState a =>
    simp only [vstep] at h
    split at h <;> cases h
    · exact s.inv_queryState hi
    · exact hi
  | reportState a st => simp only [vstep] at h; cases h; exact hi
  | ackOp a op => simp only [vstep] at h; cases h; exact hi
  | unknown f => simp only [vstep] at h; cases h; exact hi
  | pixelsComplete a =>
    simp only [vstep] at h
    split at h
    · rename_i hc
      cases h
      obtain ⟨i1, i2, i3, i4, i5⟩ := hi
      cases s.style <;> constructor <;> simp_all [State.receiving, State.configPhase]
    · cases h; exact hi
  | goodbye a =>
    simp only [vstep] at h
    split at h <;> cases h
    · exact s.inv_reset
    · exact hi
  | requestOp a op =>
    simp only [vstep] at h
    split at h
    · cases h; exact hi
    · obtain ⟨i1, i2, i3, i4, i5⟩ := hi
      cases op <;> simp only at h
      · split at h
        · rename_i hc; cases h
          rcases hc with hc | hc <;> constructor <;> simp_all [State.receiving, State.configPhase]
        · cases h; exact ⟨i1, i2, i3, i4, i5⟩
      · split at h
        · rename_i hc; cases h
          constructor <;> simp_all [State.receiving, State.configPhase]
        · cases h; exact ⟨i1, i2, i3, i4, i5⟩
      · split at h
        · rename_i hc; cases h
          constructor <;> simp_all [State.receiving, State.configPhase]
        · cases h; exact ⟨i1, i2, i3, i4, i5⟩
      · split at h
        · rename_i hc; cases h
          constructor <;> simp_all [State.receiving, State.configPhase]
        · cases h; exact ⟨i1, i2, i3, i4, i5⟩
      · cases h
        constructor <;> simp_all [State.receiving, State.configPhase]
      · split at h
        · cases h; exact s.inv_reset
        · cases h; exact ⟨i1, i2, i3, i4, i5⟩

/-- The states a virtual sign can be driven into from `VirtualSign::new` by any message history. -/
inductive VSign.Reachable : VSign → Prop where
  | init (a : UInt16) (st : FlipStyle) : VSign.Reachable (VSign.new a st)
  | step {s s' : VSign} {m : Msg} {r : Option Msg} :
      VSign.Reachable s → vstep s m = .ok (s', r) → VSign.Reachable s'

theorem VSign.Reachable.inv {s : VSign} (h : s.Reachable) : s.Inv := by
  induction h with
  | init a st => exact VSign.inv_new a st
  | step _ hs ih => exact vstep_inv _ _ _ _ ih hs

end Flipdot
