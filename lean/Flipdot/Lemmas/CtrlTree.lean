/-
Structural facts about the controller programs: which messages they can send (`AllSends`), that
their behaviour depends only on the class of each reply (`Respects`), and that replies the
protocol does not allow end them (`Strict`).
-/
import Flipdot.Lemmas.Prog
namespace Flipdot

variable {α β : Type}

/-! ### AllSends -/

theorem allSends_expect {P : Msg → Prop} {m : Msg} {w : Option Msg} {k : Prog α}
    (hm : P m) (hk : k.AllSends P) : (expect m w k).AllSends P := by
  unfold expect
  refine .send _ _ hm (fun r => ?_)
  split
  · exact hk
  · exact .fail

theorem allSends_sendChunks {P : Msg → Prop} (ms : List Msg) (n : Nat) (k : Nat → Prog α)
    (hms : ∀ m ∈ ms, P m) (hk : ∀ n, (k n).AllSends P) : (sendChunks ms n k).AllSends P := by
  induction ms generalizing n with
  | nil => exact hk n
  | cons m ms ih =>
    simp only [sendChunks]
    refine .send _ _ (hms m (by simp)) (fun r => ?_)
    split
    · split
      · exact .panic _
      · exact ih (n + 1) (fun x hx => hms x (by simp [hx]))
    · exact .fail

theorem allSends_transfer {P : Msg → Prop} (a : UInt16) (msgs : List Msg) (op : Op)
    (succ failS : State) (n : Nat) (hreq : P (.requestOp a op)) (hms : ∀ m ∈ msgs, P m)
    (hcs : ∀ c, P (.chunksSent c)) (hq : P (.queryState a)) :
    (transfer a msgs op succ failS n).AllSends P := by
  induction n with
  | zero =>
    unfold transfer
    refine allSends_expect hreq (allSends_sendChunks _ _ _ hms fun c => allSends_expect (hcs _) ?_)
    refine .send _ _ hq (fun r => ?_)
    split
    · exact .done _
    · exact .fail
  | succ n ih =>
    unfold transfer
    refine allSends_expect hreq (allSends_sendChunks _ _ _ hms fun c => allSends_expect (hcs _) ?_)
    refine .send _ _ hq (fun r => ?_)
    split
    · exact ih
    · split
      · exact .done _
      · exact .fail

/-- "Carries the controller's own address, or no address at all". -/
def OwnOrNone (a : UInt16) (m : Msg) : Prop := m.addr? = none ∨ m.addr? = some a

theorem chunkMsgsFrom_sendData (i : Nat) (cs : List (List UInt8)) :
    ∀ m ∈ chunkMsgsFrom i cs, ∃ off d, m = .sendData off d := by
  induction cs generalizing i with
  | nil => simp [chunkMsgsFrom]
  | cons c cs ih =>
    intro m hm
    simp only [chunkMsgsFrom, List.mem_cons] at hm
    rcases hm with rfl | hm
    · exact ⟨_, _, rfl⟩
    · exact ih (i + 1) m hm

theorem allChunkMsgs_sendData (items : List (List UInt8)) :
    ∀ m ∈ allChunkMsgs items, ∃ off d, m = .sendData off d := by
  induction items with
  | nil => simp [allChunkMsgs]
  | cons it its ih =>
    intro m hm
    simp only [allChunkMsgs, List.mem_append] at hm
    rcases hm with hm | hm
    · exact chunkMsgsFrom_sendData 0 _ m hm
    · exact ih m hm

theorem allChunkMsgs_own (a : UInt16) (items : List (List UInt8)) :
    ∀ m ∈ allChunkMsgs items, OwnOrNone a m := by
  intro m hm
  obtain ⟨off, d, rfl⟩ := allChunkMsgs_sendData items m hm
  exact .inl rfl

theorem allSends_ensure {P : Msg → Prop} (a : UInt16) (k : Prog α)
    (hh : P (.hello a)) (hr : ∀ o, P (.requestOp a o)) (hk : k.AllSends P) :
    (ensureUnconfigured a k).AllSends P := by
  have hfin : (finishResetSeq a k).AllSends P :=
    allSends_expect (hr _) (allSends_expect hh hk)
  unfold ensureUnconfigured
  refine .send _ _ hh (fun r => ?_)
  split
  · exact hk
  · split
    · exact hfin
    · exact allSends_expect (hr _) (allSends_expect hh hfin)

theorem own_hello (a : UInt16) : OwnOrNone a (.hello a) := .inr rfl
theorem own_query (a : UInt16) : OwnOrNone a (.queryState a) := .inr rfl
theorem own_request (a : UInt16) (o : Op) : OwnOrNone a (.requestOp a o) := .inr rfl
theorem own_count (a : UInt16) (c : UInt16) : OwnOrNone a (.chunksSent c) := .inl rfl

theorem configure_own (a : UInt16) (t : SignType) : (configure a t).AllSends (OwnOrNone a) := by
  unfold configure
  exact allSends_ensure a _ (own_hello a) (own_request a)
    (allSends_transfer a _ _ _ _ _ (own_request a _) (allChunkMsgs_own a _) (own_count a) (own_query a))

theorem configureIfNeeded_own (a : UInt16) (t : SignType) :
    (configureIfNeeded a t).AllSends (OwnOrNone a) := by
  unfold configureIfNeeded
  refine .send _ _ (own_hello a) (fun r => ?_)
  split
  · split
    · exact .done _
    · exact configure_own a t
  · exact configure_own a t

theorem sendPages_own (a : UInt16) (pages : List (List UInt8)) :
    (sendPages a pages).AllSends (OwnOrNone a) := by
  unfold sendPages
  refine Prog.AllSends.bind
    (allSends_transfer a _ _ _ _ _ (own_request a _) (allChunkMsgs_own a _) (own_count a) (own_query a))
    (fun _ => allSends_expect (.inr rfl) ?_)
  refine .send _ _ (own_query a) (fun r => ?_)
  split <;> exact .done _

theorem switchPage_own (a : UInt16) (target trigger : State) (op : Op) (fuel : Nat) :
    (switchPage a target trigger op fuel).AllSends (OwnOrNone a) := by
  induction fuel with
  | zero => exact .outOfFuel
  | succ fuel ih =>
    unfold switchPage
    refine .send _ _ (own_query a) (fun r => ?_)
    split
    · split
      · exact .done _
      · split
        · exact .done _
        · split
          · exact allSends_expect (own_request a _) ih
          · split
            · exact ih
            · exact .fail
    · exact .fail

theorem shutDown_own (a : UInt16) : (shutDown a).AllSends (OwnOrNone a) :=
  allSends_expect (.inr rfl) (.done _)

/-! ### Respects: behaviour depends only on the class of each reply -/

theorem ite_iff_congr {γ : Type} {p q : Prop} [Decidable p] [Decidable q] (h : p ↔ q) {x x' y y' : γ}
    (hx : x = x') (hy : y = y') : (if p then x else y) = (if q then x' else y') := by
  subst hx hy
  by_cases hp : p
  · simp [hp, h.mp hp]
  · have hq : ¬ q := fun hq => hp (h.mpr hq)
    simp [hp, hq]

theorem classify_silence (a : UInt16) (r : Option Msg) : classify a (.ok r) = .silence ↔ r = none := by
  cases r with
  | none => simp [classify]
  | some m => cases m <;> simp [classify] <;> split <;> simp

theorem classify_ownAck (a : UInt16) (r : Option Msg) (o : Op) :
    classify a (.ok r) = .ownAck o ↔ r = some (.ackOp a o) := by
  cases r with
  | none => simp [classify]
  | some m =>
    cases m <;> simp [classify]
    · split <;> simp
    · rename_i a' o'
      by_cases h : a' = a <;> simp [h]

theorem classify_ownReport (a : UInt16) (r : Option Msg) (s : State) :
    classify a (.ok r) = .ownReport s ↔ r = some (.reportState a s) := by
  cases r with
  | none => simp [classify]
  | some m =>
    cases m <;> simp [classify]
    · rename_i a' s'
      by_cases h : a' = a <;> simp [h]
    · split <;> simp

/-- The replies a controller ever compares against. -/
inductive Wanted (a : UInt16) : Option Msg → Prop where
  | silence : Wanted a none
  | ack (o : Op) : Wanted a (some (.ackOp a o))
  | report (s : State) : Wanted a (some (.reportState a s))

theorem eq_want_iff {a : UInt16} {w : Option Msg} (hw : Wanted a w) {r r' : Option Msg}
    (hc : classify a (.ok r) = classify a (.ok r')) : (r = w ↔ r' = w) := by
  cases hw with
  | silence => rw [← classify_silence a r, ← classify_silence a r', hc]
  | ack o => rw [← classify_ownAck a r, ← classify_ownAck a r', hc]
  | report s => rw [← classify_ownReport a r, ← classify_ownReport a r', hc]

theorem ownReport?_class {a : UInt16} {r r' : Option Msg}
    (hc : classify a (.ok r) = classify a (.ok r')) : ownReport? a r = ownReport? a r' := by
  cases h : ownReport? a r with
  | some s =>
    have := (classify_ownReport a r s).mpr (by
      cases r with
      | none => simp [ownReport?] at h
      | some m =>
        cases m <;> simp [ownReport?] at h
        obtain ⟨rfl, rfl⟩ := h; rfl)
    rw [hc] at this
    have e := (classify_ownReport a r' s).mp this
    subst e
    simp [ownReport?]
  | none =>
    cases h' : ownReport? a r' with
    | none => rfl
    | some s =>
      exfalso
      have e : r' = some (.reportState a s) := by
        cases r' with
        | none => simp [ownReport?] at h'
        | some m =>
          cases m <;> simp [ownReport?] at h'
          obtain ⟨rfl, rfl⟩ := h'; rfl
      have := (classify_ownReport a r' s).mpr e
      rw [← hc] at this
      have e2 := (classify_ownReport a r s).mp this
      subst e2
      simp [ownReport?] at h

theorem respects_expect {a : UInt16} {m : Msg} {w : Option Msg} {k : Prog α}
    (hw : Wanted a w) (hk : k.Respects a) : (expect m w k).Respects a := by
  unfold expect
  refine .send _ _ (fun r r' hc => ?_) (fun r => ?_)
  · exact ite_iff_congr (eq_want_iff hw hc) rfl rfl
  · split
    · exact hk
    · exact .fail

theorem respects_sendChunks {a : UInt16} (ms : List Msg) (n : Nat) (k : Nat → Prog α)
    (hk : ∀ n, (k n).Respects a) : (sendChunks ms n k).Respects a := by
  induction ms generalizing n with
  | nil => exact hk n
  | cons m ms ih =>
    simp only [sendChunks]
    refine .send _ _ (fun r r' hc => ?_) (fun r => ?_)
    · exact ite_iff_congr (eq_want_iff (Wanted.silence (a := a)) hc) rfl rfl
    · split
      · split
        · exact .panic _
        · exact ih (n + 1)
      · exact .fail

theorem respects_transfer (a : UInt16) (msgs : List Msg) (op : Op) (succ failS : State) (n : Nat) :
    (transfer a msgs op succ failS n).Respects a := by
  induction n with
  | zero =>
    unfold transfer
    refine respects_expect (.ack _) (respects_sendChunks _ _ _ fun c => respects_expect .silence ?_)
    refine .send _ _ (fun r r' hc => ?_) (fun r => ?_)
    · exact ite_iff_congr (eq_want_iff (Wanted.report (a := a) succ) hc) rfl rfl
    · split
      · exact .done _
      · exact .fail
  | succ n ih =>
    unfold transfer
    refine respects_expect (.ack _) (respects_sendChunks _ _ _ fun c => respects_expect .silence ?_)
    refine .send _ _ (fun r r' hc => ?_) (fun r => ?_)
    · have h1 := eq_want_iff (Wanted.report (a := a) succ) hc
      have h2 := eq_want_iff (Wanted.report (a := a) failS) hc
      exact ite_iff_congr h2 rfl (ite_iff_congr h1 rfl rfl)
    · split
      · exact ih
      · split
        · exact .done _
        · exact .fail

theorem respects_ensure (a : UInt16) (k : Prog α) (hk : k.Respects a) :
    (ensureUnconfigured a k).Respects a := by
  have hfin : (finishResetSeq a k).Respects a :=
    respects_expect (.ack _) (respects_expect (.report _) hk)
  unfold ensureUnconfigured
  refine .send _ _ (fun r r' hc => ?_) (fun r => ?_)
  · have h1 := eq_want_iff (Wanted.report (a := a) .unconfigured) hc
    have h2 := eq_want_iff (Wanted.report (a := a) .readyToReset) hc
    exact ite_iff_congr h1 rfl (ite_iff_congr h2 rfl rfl)
  · split
    · exact hk
    · split
      · exact hfin
      · exact respects_expect (.ack _) (respects_expect (.report _) hfin)

theorem configure_respects (a : UInt16) (t : SignType) : (configure a t).Respects a :=
  respects_ensure a _ (respects_transfer a _ _ _ _ _)

theorem configureIfNeeded_respects (a : UInt16) (t : SignType) :
    (configureIfNeeded a t).Respects a := by
  unfold configureIfNeeded
  refine .send _ _ (fun r r' hc => ?_) (fun r => ?_)
  · simp only [ownReport?_class hc]
  · split
    · split
      · exact .done _
      · exact configure_respects a t
    · exact configure_respects a t

theorem Prog.Respects.bind {a : UInt16} {p : Prog α} {f : α → Prog β}
    (hp : p.Respects a) (hf : ∀ x, (f x).Respects a) : (p.bind f).Respects a := by
  induction hp with
  | done x => exact hf x
  | fail => exact .fail
  | panic p => exact .panic p
  | outOfFuel => exact .outOfFuel
  | send m k hk _ ih =>
    exact .send m _ (fun r r' hc => by rw [hk r r' hc]) ih

theorem sendPages_respects (a : UInt16) (pages : List (List UInt8)) :
    (sendPages a pages).Respects a := by
  unfold sendPages
  refine Prog.Respects.bind (respects_transfer a _ _ _ _ _) (fun _ => respects_expect .silence ?_)
  refine .send _ _ (fun r r' hc => ?_) (fun r => ?_)
  · exact ite_iff_congr (eq_want_iff (Wanted.report (a := a) .showingPages) hc) rfl rfl
  · split <;> exact .done _

theorem switchPage_respects (a : UInt16) (target trigger : State) (op : Op) (fuel : Nat) :
    (switchPage a target trigger op fuel).Respects a := by
  induction fuel with
  | zero => exact .outOfFuel
  | succ fuel ih =>
    unfold switchPage
    refine .send _ _ (fun r r' hc => ?_) (fun r => ?_)
    · simp only [ownReport?_class hc]
    · split
      · split
        · exact .done _
        · split
          · exact .done _
          · split
            · exact respects_expect (.ack _) ih
            · split
              · exact ih
              · exact .fail
      · exact .fail

theorem shutDown_respects (a : UInt16) : (shutDown a).Respects a :=
  respects_expect .silence (.done _)

end Flipdot

namespace Flipdot

variable {α β : Type}

/-! ### Strict: replies the protocol does not allow end the conversation -/

/-- The one reply the protocol allows after `m`, for the messages where it allows only one:
    an operation request must be acknowledged by the sign itself; data chunks, the chunk count,
    pixels-complete and goodbye must be met with silence. -/
def requiredReply (a : UInt16) : Msg → Option (Option Msg)
  | .requestOp _ o => some (some (.ackOp a o))
  | .sendData _ _ | .chunksSent _ | .pixelsComplete _ | .goodbye _ => some none
  | _ => none

inductive Prog.Strict (a : UInt16) : Prog α → Prop where
  | done (x : α) : Strict a (.done x)
  | fail : Strict a .fail
  | panic (p : Panic) : Strict a (.panic p)
  | outOfFuel : Strict a .outOfFuel
  | send (m : Msg) (k : Option Msg → Prog α) :
      (∀ w, requiredReply a m = some w → ∀ r, r ≠ w → k r = .fail) →
      (∀ r, Strict a (k r)) → Strict a (.send m k)

/-- In every run of a strict program, a reply other than the required one is the last thing that
    happens, and the outcome is a protocol error. -/
theorem Prog.Strict.run {a : UInt16} {p : Prog α} (h : p.Strict a) (script : List Reply) (i : Nat)
    (m : Msg) (r w : Option Msg) (hi : (p.run script).1[i]? = some (m, some (.ok r)))
    (hw : requiredReply a m = some w) (hr : r ≠ w) :
    i + 1 = (p.run script).1.length ∧ (p.run script).2 = .proto := by
  induction h generalizing script i with
  | done x => simp at hi
  | fail => simp at hi
  | panic p => simp at hi
  | outOfFuel => simp at hi
  | send m' k hk _ ih =>
    cases script with
    | nil => cases i <;> simp at hi
    | cons x rest =>
      cases x with
      | busError => cases i <;> simp at hi
      | ok y =>
        cases i with
        | zero =>
          simp only [Prog.run_send_ok, List.getElem?_cons_zero, Option.some.injEq, Prod.mk.injEq,
            Reply.ok.injEq] at hi
          obtain ⟨rfl, rfl⟩ := hi
          have := hk w hw y hr
          simp [this]
        | succ i =>
          simp only [Prog.run_send_ok, List.getElem?_cons_succ] at hi
          have := ih y rest i hi
          simp only [Prog.run_send_ok, List.length_cons]
          exact ⟨by omega, this.2⟩

theorem strict_expect {a : UInt16} {m : Msg} {w : Option Msg} {k : Prog α}
    (hm : ∀ w', requiredReply a m = some w' → w' = w) (hk : k.Strict a) :
    (expect m w k).Strict a := by
  unfold expect
  refine .send _ _ (fun w' hw' r hr => ?_) (fun r => ?_)
  · rw [hm w' hw'] at hr; simp [hr]
  · split
    · exact hk
    · exact .fail

/-- A message after which any reply is acceptable to the protocol at this level (hello, query). -/
theorem strict_send_free {a : UInt16} {m : Msg} {k : Option Msg → Prog α}
    (hm : requiredReply a m = none) (hk : ∀ r, (k r).Strict a) : (Prog.send m k).Strict a :=
  .send _ _ (fun w hw => by rw [hm] at hw; cases hw) hk

theorem strict_sendChunks {a : UInt16} (ms : List Msg) (n : Nat) (k : Nat → Prog α)
    (hms : ∀ m ∈ ms, requiredReply a m = some none) (hk : ∀ n, (k n).Strict a) :
    (sendChunks ms n k).Strict a := by
  induction ms generalizing n with
  | nil => exact hk n
  | cons m ms ih =>
    simp only [sendChunks]
    refine .send _ _ (fun w hw r hr => ?_) (fun r => ?_)
    · rw [hms m (by simp)] at hw
      cases hw
      simp [hr]
    · split
      · split
        · exact .panic _
        · exact ih (n + 1) (fun x hx => hms x (by simp [hx]))
      · exact .fail

theorem strict_transfer (a : UInt16) (msgs : List Msg) (op : Op) (succ failS : State) (n : Nat)
    (hms : ∀ m ∈ msgs, requiredReply a m = some none) :
    (transfer a msgs op succ failS n).Strict a := by
  induction n with
  | zero =>
    unfold transfer
    refine strict_expect (by intro w h; simpa [requiredReply] using h.symm)
      (strict_sendChunks _ _ _ hms fun c =>
        strict_expect (by intro w h; simpa [requiredReply] using h.symm) ?_)
    refine strict_send_free rfl (fun r => ?_)
    split
    · exact .done _
    · exact .fail
  | succ n ih =>
    unfold transfer
    refine strict_expect (by intro w h; simpa [requiredReply] using h.symm)
      (strict_sendChunks _ _ _ hms fun c =>
        strict_expect (by intro w h; simpa [requiredReply] using h.symm) ?_)
    refine strict_send_free rfl (fun r => ?_)
    split
    · exact ih
    · split
      · exact .done _
      · exact .fail

theorem allChunkMsgs_required (a : UInt16) (items : List (List UInt8)) :
    ∀ m ∈ allChunkMsgs items, requiredReply a m = some none := by
  intro m hm
  obtain ⟨off, d, rfl⟩ := allChunkMsgs_sendData items m hm
  rfl

theorem strict_ensure (a : UInt16) (k : Prog α) (hk : k.Strict a) :
    (ensureUnconfigured a k).Strict a := by
  have hreq : ∀ o, ∀ w', requiredReply a (.requestOp a o) = some w' → w' = some (.ackOp a o) := by
    intro o w h; simpa [requiredReply] using h.symm
  have hhello : ∀ w w', requiredReply a (.hello a) = some w' → w' = w := by
    intro w w' h; simp [requiredReply] at h
  have hfin : (finishResetSeq a k).Strict a :=
    strict_expect (hreq _) (strict_expect (hhello _) hk)
  unfold ensureUnconfigured
  refine strict_send_free rfl (fun r => ?_)
  split
  · exact hk
  · split
    · exact hfin
    · exact strict_expect (hreq _) (strict_expect (hhello _) hfin)

theorem configure_strict (a : UInt16) (t : SignType) : (configure a t).Strict a :=
  strict_ensure a _ (strict_transfer a _ _ _ _ _ (allChunkMsgs_required a _))

theorem configureIfNeeded_strict (a : UInt16) (t : SignType) : (configureIfNeeded a t).Strict a := by
  unfold configureIfNeeded
  refine strict_send_free rfl (fun r => ?_)
  split
  · split
    · exact .done _
    · exact configure_strict a t
  · exact configure_strict a t

theorem Prog.Strict.bind {a : UInt16} {p : Prog α} {f : α → Prog β}
    (hp : p.Strict a) (hf : ∀ x, (f x).Strict a) : (p.bind f).Strict a := by
  induction hp with
  | done x => exact hf x
  | fail => exact .fail
  | panic p => exact .panic p
  | outOfFuel => exact .outOfFuel
  | send m k hk _ ih =>
    exact .send m _ (fun w hw r hr => by rw [hk w hw r hr]; rfl) ih

theorem sendPages_strict (a : UInt16) (pages : List (List UInt8)) : (sendPages a pages).Strict a := by
  unfold sendPages
  refine Prog.Strict.bind (strict_transfer a _ _ _ _ _ (allChunkMsgs_required a _))
    (fun _ => strict_expect (by intro w h; simpa [requiredReply] using h.symm) ?_)
  refine strict_send_free rfl (fun r => ?_)
  split <;> exact .done _

theorem switchPage_strict (a : UInt16) (target trigger : State) (op : Op) (fuel : Nat) :
    (switchPage a target trigger op fuel).Strict a := by
  induction fuel with
  | zero => exact .outOfFuel
  | succ fuel ih =>
    unfold switchPage
    refine strict_send_free rfl (fun r => ?_)
    split
    · split
      · exact .done _
      · split
        · exact .done _
        · split
          · exact strict_expect (by intro w h; simpa [requiredReply] using h.symm) ih
          · split
            · exact ih
            · exact .fail
    · exact .fail

theorem shutDown_strict (a : UInt16) : (shutDown a).Strict a :=
  strict_expect (by intro w h; simpa [requiredReply] using h.symm) (.done _)

end Flipdot
