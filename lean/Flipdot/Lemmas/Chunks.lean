/-
Lemmas about `chunks16` / chunk message construction.
-/
import Flipdot.Model.Controller
namespace Flipdot

theorem chunksN_flatten (n : Nat) (l : List UInt8) (h : l.length ≤ n) : (chunksN n l).flatten = l := by
  induction n generalizing l with
  | zero =>
    have : l = [] := List.eq_nil_of_length_eq_zero (by omega)
    subst this; rfl
  | succ n ih =>
    unfold chunksN
    by_cases he : l.isEmpty
    · simp only [he, ↓reduceIte, List.flatten_nil]
      exact (List.isEmpty_iff.mp he).symm
    · simp only [he, Bool.false_eq_true, ↓reduceIte, List.flatten_cons]
      have hne : l ≠ [] := by simpa using he
      have hpos : 0 < l.length := List.length_pos_iff.mpr hne
      rw [ih (l.drop 16) (by simp; omega), List.take_append_drop]

/-- The chunks concatenate back to the item. -/
theorem chunks16_flatten (l : List UInt8) : (chunks16 l).flatten = l :=
  chunksN_flatten _ _ (Nat.le_refl _)

theorem chunksN_len (n : Nat) (l : List UInt8) : ∀ c ∈ chunksN n l, 1 ≤ c.length ∧ c.length ≤ 16 := by
  induction n generalizing l with
  | zero => simp [chunksN]
  | succ n ih =>
    unfold chunksN
    by_cases he : l.isEmpty
    · simp [he]
    · simp only [he, Bool.false_eq_true, ↓reduceIte, List.mem_cons]
      have hne : l ≠ [] := by simpa using he
      have hpos : 0 < l.length := List.length_pos_iff.mpr hne
      intro c hc
      rcases hc with rfl | hc
      · simp; omega
      · exact ih _ c hc

/-- Every chunk has between 1 and 16 bytes. -/
theorem chunks16_len (l : List UInt8) : ∀ c ∈ chunks16 l, 1 ≤ c.length ∧ c.length ≤ 16 :=
  chunksN_len _ _

theorem chunksN_getElem? (n : Nat) (l : List UInt8) (h : l.length ≤ n) (i : Nat) :
    (chunksN n l)[i]? = if i * 16 < l.length then some ((l.drop (i * 16)).take 16) else none := by
  induction n generalizing l i with
  | zero =>
    have : l = [] := List.eq_nil_of_length_eq_zero (by omega)
    subst this; simp [chunksN]
  | succ n ih =>
    unfold chunksN
    by_cases he : l.isEmpty
    · have : l = [] := List.isEmpty_iff.mp he
      subst this; simp
    · simp only [he, Bool.false_eq_true, ↓reduceIte]
      have hne : l ≠ [] := by simpa using he
      have hpos : 0 < l.length := List.length_pos_iff.mpr hne
      cases i with
      | zero => simp [hpos]
      | succ i =>
        simp only [List.getElem?_cons_succ]
        rw [ih (l.drop 16) (by simp; omega) i]
        simp only [List.length_drop, List.drop_drop]
        have e : 16 + i * 16 = (i + 1) * 16 := by omega
        by_cases hlt : i * 16 < l.length - 16
        · have : (i + 1) * 16 < l.length := by omega
          simp [hlt, this, e]
        · have : ¬ (i + 1) * 16 < l.length := by omega
          simp [hlt, this]

/-- Chunk `i` is bytes `16 i .. 16 i + 15` of the item (consecutive, in order). -/
theorem chunks16_getElem? (l : List UInt8) (i : Nat) :
    (chunks16 l)[i]? = if i * 16 < l.length then some ((l.drop (i * 16)).take 16) else none :=
  chunksN_getElem? _ _ (Nat.le_refl _) i

theorem chunkMsgsFrom_getElem? (j : Nat) (cs : List (List UInt8)) (i : Nat) :
    (chunkMsgsFrom j cs)[i]? = cs[i]?.map (fun c => Msg.sendData (UInt16.ofNat ((j + i) * 16)) c) := by
  induction cs generalizing j i with
  | nil => simp [chunkMsgsFrom]
  | cons c cs ih =>
    cases i with
    | zero => simp [chunkMsgsFrom]
    | succ i =>
      simp only [chunkMsgsFrom, List.getElem?_cons_succ]
      rw [ih (j + 1) i]
      have : j + 1 + i = j + (i + 1) := by omega
      rw [this]

/-- The `i`-th message for an item carries chunk `i` at offset `16 i` (as a 16-bit value). -/
theorem itemMsgs_getElem? (item : List UInt8) (i : Nat) :
    (itemMsgs item)[i]? =
      if i * 16 < item.length then
        some (.sendData (UInt16.ofNat (i * 16)) ((item.drop (i * 16)).take 16))
      else none := by
  unfold itemMsgs
  rw [chunkMsgsFrom_getElem?, chunks16_getElem?]
  split <;> simp

theorem chunkMsgsFrom_length (j : Nat) (cs : List (List UInt8)) : (chunkMsgsFrom j cs).length = cs.length := by
  induction cs generalizing j with
  | nil => rfl
  | cons c cs ih => simp [chunkMsgsFrom, ih]

theorem chunksN_length (n : Nat) (l : List UInt8) (h : l.length ≤ n) : (chunksN n l).length = (l.length + 15) / 16 := by
  induction n generalizing l with
  | zero =>
    have : l = [] := List.eq_nil_of_length_eq_zero (by omega)
    subst this; rfl
  | succ n ih =>
    unfold chunksN
    by_cases he : l.isEmpty
    · have : l = [] := List.isEmpty_iff.mp he
      subst this; simp
    · simp only [he, Bool.false_eq_true, ↓reduceIte, List.length_cons]
      have hne : l ≠ [] := by simpa using he
      have hpos : 0 < l.length := List.length_pos_iff.mpr hne
      rw [ih (l.drop 16) (by simp; omega)]
      simp only [List.length_drop]
      omega

/-- An item of `n` bytes is sent as `ceil(n / 16)` chunks. -/
theorem itemMsgs_length (item : List UInt8) : (itemMsgs item).length = (item.length + 15) / 16 := by
  unfold itemMsgs chunks16
  rw [chunkMsgsFrom_length, chunksN_length _ _ (Nat.le_refl _)]

theorem allChunkMsgs_eq_flatMap (items : List (List UInt8)) :
    allChunkMsgs items = items.flatMap itemMsgs := by
  induction items with
  | nil => rfl
  | cons it its ih => simp [allChunkMsgs, ih]

end Flipdot
