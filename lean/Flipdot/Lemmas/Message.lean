/-
Lemmas about the message mapping model.
-/
import Flipdot.Model.Message
namespace Flipdot

theorem State.ofCode?_code (s : State) : State.ofCode? s.code = some s := by cases s <;> rfl
theorem Op.ofReqCode?_code (o : Op) : Op.ofReqCode? o.reqCode = some o := by cases o <;> rfl
theorem Op.ofAckCode?_code (o : Op) : Op.ofAckCode? o.ackCode = some o := by cases o <;> rfl

theorem State.code_of_ofCode? {b : UInt8} {s : State} (h : State.ofCode? b = some s) : s.code = b := by
  have := List.find?_some h
  simpa using this

theorem Op.reqCode_of_ofReqCode? {b : UInt8} {o : Op} (h : Op.ofReqCode? b = some o) : o.reqCode = b := by
  have := List.find?_some h
  simpa using this

theorem Op.ackCode_of_ofAckCode? {b : UInt8} {o : Op} (h : Op.ofAckCode? b = some o) : o.ackCode = b := by
  have := List.find?_some h
  simpa using this

theorem State.code_inj {s t : State} (h : s.code = t.code) : s = t := by
  have h1 := State.ofCode?_code s
  rw [h, State.ofCode?_code t] at h1
  exact (Option.some.inj h1).symm

theorem Op.reqCode_inj {s t : Op} (h : s.reqCode = t.reqCode) : s = t := by
  have h1 := Op.ofReqCode?_code s
  rw [h, Op.ofReqCode?_code t] at h1
  exact (Option.some.inj h1).symm

theorem Op.ackCode_inj {s t : Op} (h : s.ackCode = t.ackCode) : s = t := by
  have h1 := Op.ofAckCode?_code s
  rw [h, Op.ofAckCode?_code t] at h1
  exact (Option.some.inj h1).symm

/-- Frame → Message → Frame is the identity, for every frame. -/
theorem toFrame_toMsg (f : Frame) : toFrame (toMsg f) = f := by
  obtain ⟨a, t, d⟩ := f
  unfold toMsg
  simp only
  split
  · rename_i h; subst h; rfl
  · split
    · split
      · rename_i h; subst h; rfl
      · rfl
    · rename_i b
      split
      · rename_i h; subst h
        split
        · rename_i h; subst h; rfl
        · split
          · rename_i h; subst h; rfl
          · split
            · rename_i h; subst h; rfl
            · rfl
      · split
        · rename_i h; subst h
          split
          · rename_i s hs; simp [toFrame, State.code_of_ofCode? hs]
          · rfl
        · split
          · rename_i h; subst h
            split
            · rename_i s hs; simp [toFrame, Op.reqCode_of_ofReqCode? hs]
            · rfl
          · split
            · rename_i h; subst h
              split
              · rename_i s hs; simp [toFrame, Op.ackCode_of_ofAckCode? hs]
              · rfl
            · split
              · rename_i h; subst h
                split
                · rename_i h; subst h; rfl
                · rfl
              · rfl
    · rfl

/-- Message → Frame → Message is the identity on specific messages. -/
theorem toMsg_toFrame (m : Msg) (h : m.Specific) : toMsg (toFrame m) = m := by
  cases m with
  | unknown f => exact absurd h (by simp [Msg.Specific])
  | sendData off d => simp [toFrame, toMsg]
  | chunksSent n => simp [toFrame, toMsg]
  | hello a => simp [toFrame, toMsg]
  | queryState a => simp [toFrame, toMsg]
  | goodbye a => simp [toFrame, toMsg]
  | pixelsComplete a => simp [toFrame, toMsg]
  | reportState a s => simp [toFrame, toMsg, State.ofCode?_code]
  | requestOp a o => simp [toFrame, toMsg, Op.ofReqCode?_code]
  | ackOp a o => simp [toFrame, toMsg, Op.ofAckCode?_code]

end Flipdot
