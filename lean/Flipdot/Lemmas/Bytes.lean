/-
Byte-level helper lemmas (finite facts by kernel evaluation over all 256 bytes).
-/
import Flipdot.Model.Frame
namespace Flipdot

theorem UInt8.forall_of_fin {p : UInt8 → Prop} (h : ∀ i : Fin 256, p (UInt8.ofNat i.val)) :
    ∀ b, p b := by
  intro b
  have := h ⟨b.toNat, b.toNat_lt⟩
  simpa using this

theorem hexVal_hi (b : UInt8) : hexVal? (hexDigit (b >>> 4)) = some (b >>> 4) := by
  revert b; apply UInt8.forall_of_fin; decide +kernel

theorem hexVal_lo (b : UInt8) : hexVal? (hexDigit (b &&& 0x0F)) = some (b &&& 0x0F) := by
  revert b; apply UInt8.forall_of_fin; decide +kernel

theorem nibbles_join (b : UInt8) : (b >>> 4) * 16 + (b &&& 0x0F) = b := by
  revert b; apply UInt8.forall_of_fin; decide +kernel

theorem hexDigit_hi_ne_cr (b : UInt8) : hexDigit (b >>> 4) ≠ 13 := by
  revert b; apply UInt8.forall_of_fin; decide +kernel

theorem hexDigit_lo_ne_cr (b : UInt8) : hexDigit (b &&& 0x0F) ≠ 13 := by
  revert b; apply UInt8.forall_of_fin; decide +kernel

theorem hexPairs_hexUpper (bs : List UInt8) : hexPairs (hexUpper bs) = some bs := by
  induction bs with
  | nil => rfl
  | cons b bs ih =>
    simp [hexUpper, hexByte, hexPairs, hexVal_hi, hexVal_lo, ih, nibbles_join]

theorem hexUpper_append (a b : List UInt8) : hexUpper (a ++ b) = hexUpper a ++ hexUpper b := by
  induction a with
  | nil => rfl
  | cons x xs ih => simp [hexUpper, ih]

theorem hexUpper_length (bs : List UInt8) : (hexUpper bs).length = 2 * bs.length := by
  induction bs with
  | nil => rfl
  | cons b bs ih => simp [hexUpper, hexByte, ih]; omega

theorem hexUpper_no_cr (bs : List UInt8) : ∀ c ∈ hexUpper bs, c ≠ 13 := by
  induction bs with
  | nil => simp [hexUpper]
  | cons b bs ih =>
    intro c hc
    simp [hexUpper, hexByte] at hc
    rcases hc with h | h | h
    · subst h; exact hexDigit_hi_ne_cr b
    · subst h; exact hexDigit_lo_ne_cr b
    · exact ih c h

theorem stripCRLF_cons (c : UInt8) (cs : List UInt8) :
    stripCRLF (c :: cs) = if c = 13 ∧ cs = [10] then [] else c :: stripCRLF cs := by
  by_cases h : c = 13 ∧ cs = [10]
  · obtain ⟨rfl, rfl⟩ := h; rfl
  · rw [if_neg h]
    conv => lhs; unfold stripCRLF
    split
    · rename_i heq; cases heq
    · rename_i heq; simp at heq; exact absurd ⟨heq.1, heq.2⟩ h
    · rename_i c' cs' _ heq; cases heq; rfl

theorem stripCRLF_noCR (l : List UInt8) (h : ∀ c ∈ l, c ≠ 13) : stripCRLF l = l := by
  induction l with
  | nil => rfl
  | cons c cs ih =>
    have hc : c ≠ 13 := h c (by simp)
    rw [stripCRLF_cons, if_neg (fun hh => hc hh.1), ih (fun d hd => h d (by simp [hd]))]

theorem stripCRLF_append_crlf (l : List UInt8) (h : ∀ c ∈ l, c ≠ 13) :
    stripCRLF (l ++ [13, 10]) = l := by
  induction l with
  | nil => rfl
  | cons c cs ih =>
    have hc : c ≠ 13 := h c (by simp)
    rw [List.cons_append, stripCRLF_cons, if_neg (fun hh => hc hh.1),
      ih (fun d hd => h d (by simp [hd]))]

/-- The LRC makes the payload plus checksum sum to zero (wrapping). -/
theorem lrc_fold (bs : List UInt8) (a s : UInt8) :
    bs.foldl (· - ·) a + bs.foldl (· + ·) s = a + s := by
  induction bs generalizing a s with
  | nil => rfl
  | cons b bs ih =>
    simp only [List.foldl_cons]
    rw [ih]
    apply UInt8.eq_of_toBitVec_eq
    simp
    bv_omega

theorem lrc_sum_zero (bs : List UInt8) : (bs ++ [lrc bs]).foldl (· + ·) 0 = 0 := by
  have := lrc_fold bs 0 0
  simp only [List.foldl_append, List.foldl_cons, List.foldl_nil, lrc]
  rw [UInt8.add_comm]
  simpa using this

end Flipdot
