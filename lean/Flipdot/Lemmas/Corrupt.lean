/-
Lemmas for C02: how the decoder model reacts to damaged encodings.
-/
import Flipdot.Props.C03
import Flipdot.Props.C05
namespace Flipdot

/-- Wrapping byte sum. -/
def bsum (l : List UInt8) : UInt8 := l.foldl (· + ·) 0

theorem foldl_add_start (l : List UInt8) (a : UInt8) : l.foldl (· + ·) a = a + l.foldl (· + ·) 0 := by
  induction l generalizing a with
  | nil => simp
  | cons b l ih =>
    simp only [List.foldl_cons]
    rw [ih (a + b), ih (0 + b)]
    apply UInt8.eq_of_toBitVec_eq
    simp
    bv_omega

theorem bsum_cons (b : UInt8) (l : List UInt8) : bsum (b :: l) = b + bsum l := by
  unfold bsum
  simp only [List.foldl_cons]
  rw [foldl_add_start l (0 + b)]
  simp

theorem bsum_append (a b : List UInt8) : bsum (a ++ b) = bsum a + bsum b := by
  induction a with
  | nil => simp [bsum]
  | cons x a ih =>
    simp only [List.cons_append, bsum_cons, ih]
    apply UInt8.eq_of_toBitVec_eq
    simp
    bv_omega

/-- The numeric fields of a well-formed frame's encoding. -/
def numsF (f : Frame) : List UInt8 := payload f ++ [lrc (payload f)]

theorem bsum_numsF (f : Frame) : bsum (numsF f) = 0 := lrc_sum_zero (payload f)

theorem numsF_length (f : Frame) : (numsF f).length = f.data.length + 5 := by
  simp [numsF, payload]

/-- Whatever is accepted has numeric fields summing to zero and determines the frame. -/
theorem accepted (bs : List UInt8) (g : Frame) (h : dec bs = .ok g) :
    numsOf bs = some (numsF g) ∧ g.WF := (C03.dec_ok_iff bs g).mp h

theorem numsF_inj (f g : Frame) (hf : f.WF) (hg : g.WF) (h : numsF g = numsF f) : g = f := by
  apply C05.enc_injective g f hg hf
  simp only [enc]
  show 58 :: hexUpper (numsF g) = 58 :: hexUpper (numsF f)
  rw [h]

/-- If the damaged string's numeric fields are the original's, the decoded frame is the original. -/
theorem same_nums (bs : List UInt8) (f g : Frame) (hf : f.WF) (h : dec bs = .ok g)
    (hn : numsOf bs = some (numsF f)) : g = f := by
  obtain ⟨h1, hg⟩ := accepted bs g h
  rw [hn] at h1
  exact numsF_inj f g hf hg (Option.some.inj h1).symm

/-- If the numeric fields do not sum to zero, nothing is accepted. -/
theorem badsum_rejected (bs : List UInt8) (g : Frame) (nums : List UInt8) (h : dec bs = .ok g)
    (hn : numsOf bs = some nums) (hs : bsum nums ≠ 0) : False := by
  obtain ⟨h1, _⟩ := accepted bs g h
  rw [hn] at h1
  have := Option.some.inj h1
  rw [this] at hs
  exact hs (bsum_numsF g)

theorem none_rejected (bs : List UInt8) (g : Frame) (h : dec bs = .ok g) (hn : numsOf bs = none) : False := by
  obtain ⟨h1, _⟩ := accepted bs g h
  rw [hn] at h1; cases h1

/-! ### stripCRLF on damaged strings -/

def EndsCRLF (A : List UInt8) : Prop := ∃ p, A = p ++ [13, 10]

theorem strip_of_not_ends (A : List UInt8) (h : ¬ EndsCRLF A) : stripCRLF A = A := by
  rcases stripCRLF_spec A with ⟨p, hp, _⟩ | ⟨_, hs⟩
  · exact absurd ⟨p, hp⟩ h
  · exact hs

theorem strip_append_crlf (A : List UInt8) : stripCRLF (A ++ [13, 10]) = A := by
  rcases stripCRLF_spec (A ++ [13, 10]) with ⟨p, hp, hs⟩ | ⟨hn, _⟩
  · have : A = p := List.append_cancel_right hp
    rw [hs, this]
  · exact absurd ⟨A, rfl⟩ hn

theorem numsOf_crlf (A : List UInt8) : numsOf (58 :: (A ++ [13, 10])) = hexPairs A := by
  simp only [numsOf, strip_append_crlf]

theorem numsOf_plain (A : List UInt8) (h : ¬ EndsCRLF A) : numsOf (58 :: A) = hexPairs A := by
  simp only [numsOf, strip_of_not_ends A h]

theorem endsCRLF_two (A : List UInt8) (u v : UInt8) : EndsCRLF (A ++ [u, v]) ↔ u = 13 ∧ v = 10 := by
  constructor
  · rintro ⟨p, hp⟩
    have h1 : (A ++ [u, v]).length = (p ++ [13, 10]).length := by rw [hp]
    have hl : A.length = p.length := by simp at h1; omega
    have := List.append_inj hp hl
    simpa using this.2
  · rintro ⟨rfl, rfl⟩; exact ⟨A, rfl⟩

theorem not_endsCRLF_one (u : UInt8) : ¬ EndsCRLF [u] := by
  rintro ⟨p, hp⟩
  have := congrArg List.length hp
  simp at this

theorem not_endsCRLF_nil : ¬ EndsCRLF [] := by
  rintro ⟨p, hp⟩
  have := congrArg List.length hp
  simp at this

/-- A string whose last character is a hex digit does not end in CR LF. -/
theorem not_endsCRLF_of_last_hex (A : List UInt8) (c : UInt8) (hc : isHex c = true) : ¬ EndsCRLF (A ++ [c]) := by
  rintro ⟨p, hp⟩
  have : A ++ [c] = (p ++ [13]) ++ [10] := by simp [hp]
  have h1 : (A ++ [c]).length = ((p ++ [13]) ++ [10]).length := by rw [this]
  have hl : A.length = (p ++ [13]).length := by simp at h1 ⊢; omega
  have := (List.append_inj this hl).2
  simp at this
  subst this
  revert hc; decide

/-! ### hexPairs and concatenation -/

theorem hexPairs_append (A B : List UInt8) (na : List UInt8) (ha : hexPairs A = some na) :
    hexPairs (A ++ B) = (hexPairs B).map (na ++ ·) := by
  induction A using pairInduction generalizing na with
  | h0 => simp [hexPairs] at ha; subst ha; simp
  | h1 c => simp [hexPairs] at ha
  | h2 a b rest ih =>
    simp only [hexPairs] at ha
    cases hva : hexVal? a with
    | none => simp [hva] at ha
    | some x =>
      cases hvb : hexVal? b with
      | none => simp [hva, hvb] at ha
      | some y =>
        cases hr : hexPairs rest with
        | none => simp [hva, hvb, hr] at ha
        | some r =>
          simp only [hva, hvb, hr, Option.some.injEq] at ha
          subst ha
          simp only [List.cons_append, hexPairs, hva, hvb, ih r hr]
          cases hexPairs B <;> simp

theorem hexPairs_upper_append (na : List UInt8) (B : List UInt8) :
    hexPairs (hexUpper na ++ B) = (hexPairs B).map (na ++ ·) :=
  hexPairs_append _ B na (hexPairs_hexUpper na)

theorem hexPairs_none_append (A B : List UInt8) (na : List UInt8) (ha : hexPairs A = some na)
    (hb : hexPairs B = none) : hexPairs (A ++ B) = none := by
  rw [hexPairs_append A B na ha, hb]; rfl

theorem isHex_hexDigit_hi (b : UInt8) : isHex (hexDigit (b >>> 4)) = true := by
  simp [isHex, hexVal_hi]
theorem isHex_hexDigit_lo (b : UInt8) : isHex (hexDigit (b &&& 0x0F)) = true := by
  simp [isHex, hexVal_lo]

theorem hexUpper_all_hex (bs : List UInt8) : ∀ c ∈ hexUpper bs, isHex c = true := by
  induction bs with
  | nil => simp [hexUpper]
  | cons b bs ih =>
    intro c hc
    simp only [hexUpper, hexByte, List.cons_append, List.nil_append, List.mem_cons] at hc
    rcases hc with rfl | rfl | hc
    · exact isHex_hexDigit_hi b
    · exact isHex_hexDigit_lo b
    · exact ih c hc

theorem isHex_ne_colon (c : UInt8) (h : isHex c = true) : c ≠ 58 := by
  revert h; revert c; apply UInt8.forall_of_fin; decide +kernel

theorem not_isHex_13 : isHex 13 = false := by decide
theorem not_isHex_10 : isHex 10 = false := by decide
theorem not_isHex_58 : isHex 58 = false := by decide

theorem hexPairs_none_of_mem (A : List UInt8) (c : UInt8) (hc : c ∈ A) (hn : isHex c = false) :
    hexPairs A = none := hexPairs_none_of_nonhex A c hc hn

end Flipdot

namespace Flipdot

/-! ### Where a position of an encoding lies -/

def hiD (b : UInt8) : UInt8 := hexDigit (b >>> 4)
def loD (b : UInt8) : UInt8 := hexDigit (b &&& 0x0F)

theorem hexUpper_cons (b : UInt8) (bs : List UInt8) : hexUpper (b :: bs) = hiD b :: loD b :: hexUpper bs := rfl

theorem hexUpper_mid (NA : List UInt8) (b : UInt8) (NB : List UInt8) :
    hexUpper (NA ++ b :: NB) = hexUpper NA ++ hiD b :: loD b :: hexUpper NB := by
  rw [hexUpper_append, hexUpper_cons]

/-- Position in the whole string: the colon, a digit, or a terminator character. -/
theorem split_wire (D T pre post : List UInt8) (x : UInt8) (h : 58 :: (D ++ T) = pre ++ x :: post) :
    (pre = [] ∧ x = 58 ∧ post = D ++ T) ∨
    (∃ dpre dpost, D = dpre ++ x :: dpost ∧ pre = 58 :: dpre ∧ post = dpost ++ T) ∨
    (∃ tpre tpost, T = tpre ++ x :: tpost ∧ pre = 58 :: (D ++ tpre) ∧ post = tpost) := by
  cases pre with
  | nil => simp at h; exact .inl ⟨rfl, h.1.symm, h.2.symm⟩
  | cons p pre' =>
    simp only [List.cons_append, List.cons.injEq] at h
    obtain ⟨hp, h⟩ := h
    subst hp
    rcases List.append_eq_append_iff.mp h with ⟨a', h1, h2⟩ | ⟨c', h1, h2⟩
    · -- D is a prefix of pre'
      exact .inr (.inr ⟨a', post, h2, by rw [h1], rfl⟩)
    · cases c' with
      | nil =>
        simp at h1 h2
        exact .inr (.inr ⟨[], post, h2.symm, by simp [h1], rfl⟩)
      | cons y c'' =>
        simp only [List.cons_append, List.cons.injEq] at h2
        obtain ⟨hy, h2⟩ := h2
        subst hy
        exact .inr (.inl ⟨pre', c'', h1, rfl, h2⟩)

/-- Position inside the digits: the high or the low digit of some numeric byte. -/
theorem split_hexUpper (N dpre dpost : List UInt8) (x : UInt8) (h : hexUpper N = dpre ++ x :: dpost) :
    ∃ NA b NB, N = NA ++ b :: NB ∧
      ((dpre = hexUpper NA ∧ x = hiD b ∧ dpost = loD b :: hexUpper NB) ∨
       (dpre = hexUpper NA ++ [hiD b] ∧ x = loD b ∧ dpost = hexUpper NB)) := by
  induction N generalizing dpre with
  | nil => simp [hexUpper] at h
  | cons b0 N' ih =>
    rw [hexUpper_cons] at h
    match dpre, h with
    | [], h =>
      simp only [List.nil_append, List.cons.injEq] at h
      exact ⟨[], b0, N', rfl, .inl ⟨rfl, h.1.symm, h.2.symm⟩⟩
    | [d], h =>
      simp only [List.cons_append, List.nil_append, List.cons.injEq] at h
      exact ⟨[], b0, N', rfl, .inr ⟨by simp [hexUpper, h.1], h.2.1.symm, h.2.2.symm⟩⟩
    | d1 :: d2 :: dpre', h =>
      simp only [List.cons_append, List.cons.injEq] at h
      obtain ⟨NA, b, NB, hN, hcase⟩ := ih dpre' h.2.2
      refine ⟨b0 :: NA, b, NB, by simp [hN], ?_⟩
      rcases hcase with ⟨e1, e2, e3⟩ | ⟨e1, e2, e3⟩
      · exact .inl ⟨by rw [hexUpper_cons, e1, ← h.1, ← h.2.1], e2, e3⟩
      · exact .inr ⟨by rw [hexUpper_cons, e1, ← h.1, ← h.2.1]; simp, e2, e3⟩

/-! ### Arithmetic on the checksum -/

theorem one_byte_changed (NA NB : List UInt8) (b b' : UInt8) (h0 : bsum (NA ++ b :: NB) = 0)
    (hne : b' ≠ b) : bsum (NA ++ b' :: NB) ≠ 0 := by
  rw [bsum_append, bsum_cons] at h0 ⊢
  intro h1
  apply hne
  generalize bsum NA = sa at h0 h1
  generalize bsum NB = sb at h0 h1
  apply UInt8.eq_of_toBitVec_eq
  have e0 := congrArg UInt8.toBitVec h0
  have e1 := congrArg UInt8.toBitVec h1
  simp at e0 e1
  bv_omega

theorem two_bytes_changed (NA NB : List UInt8) (b1 b2 c1 c2 : UInt8)
    (h0 : bsum (NA ++ b1 :: b2 :: NB) = 0) (hne : c1 + c2 ≠ b1 + b2) :
    bsum (NA ++ c1 :: c2 :: NB) ≠ 0 := by
  rw [bsum_append, bsum_cons, bsum_cons] at h0 ⊢
  intro h1
  apply hne
  generalize bsum NA = sa at h0 h1
  generalize bsum NB = sb at h0 h1
  apply UInt8.eq_of_toBitVec_eq
  have e0 := congrArg UInt8.toBitVec h0
  have e1 := congrArg UInt8.toBitVec h1
  simp at e0 e1 ⊢
  bv_omega

/-- The value of a pair of digits. -/
theorem hexPairs_pair (p q : UInt8) (B : List UInt8) :
    hexPairs (p :: q :: B) =
      match hexVal? p, hexVal? q, hexPairs B with
      | some h, some l, some r => some ((h * 16 + l) :: r)
      | _, _, _ => none := rfl

theorem hexVal_hiD (b : UInt8) : hexVal? (hiD b) = some (b >>> 4) := hexVal_hi b
theorem hexVal_loD (b : UInt8) : hexVal? (loD b) = some (b &&& 0x0F) := hexVal_lo b

/-- Numeric fields of digits `hexUpper NA ++ p :: q :: hexUpper NB`. -/
theorem hexPairs_around (NA NB : List UInt8) (p q : UInt8) :
    hexPairs (hexUpper NA ++ p :: q :: hexUpper NB) =
      match hexVal? p, hexVal? q with
      | some h, some l => some (NA ++ (h * 16 + l) :: NB)
      | _, _ => none := by
  rw [hexPairs_upper_append, hexPairs_pair, hexPairs_hexUpper]
  cases hexVal? p <;> cases hexVal? q <;> simp

theorem swap_same_byte : ∀ b : UInt8,
    (b &&& (0x0F : UInt8)) * (16 : UInt8) + (b >>> (4 : UInt8)) = b → (b &&& (0x0F : UInt8)) = (b >>> (4 : UInt8)) := by
  apply UInt8.forall_of_fin; decide +kernel

/-- 15·x = 15·y (mod 256) forces x = y for nibbles. -/
theorem nibble_cancel : ∀ x y : Fin 16,
    (UInt8.ofNat y.val + UInt8.ofNat x.val * (16 : UInt8) = UInt8.ofNat x.val + UInt8.ofNat y.val * (16 : UInt8)) → x = y := by
  decide +kernel

end Flipdot

namespace Flipdot

/-! ### Counting non-hex characters -/

def nonhex (A : List UInt8) : Nat := (A.filter (fun c => !isHex c)).length

theorem nonhex_append (A B : List UInt8) : nonhex (A ++ B) = nonhex A + nonhex B := by
  simp [nonhex, List.filter_append]

theorem nonhex_cons (c : UInt8) (A : List UInt8) :
    nonhex (c :: A) = (if isHex c then 0 else 1) + nonhex A := by
  by_cases h : isHex c = true <;> simp [nonhex, List.filter_cons, h] <;> omega

theorem nonhex_of_all_hex (A : List UInt8) (h : ∀ c ∈ A, isHex c = true) : nonhex A = 0 := by
  simp only [nonhex, List.length_eq_zero_iff, List.filter_eq_nil_iff]
  intro c hc; simp [h c hc]

theorem nonhex_hexUpper (N : List UInt8) : nonhex (hexUpper N) = 0 :=
  nonhex_of_all_hex _ (hexUpper_all_hex N)

theorem nonhex_ends (A : List UInt8) (h : EndsCRLF A) : 2 ≤ nonhex A := by
  obtain ⟨p, rfl⟩ := h
  rw [nonhex_append]
  have : nonhex [13, 10] = 2 := by decide
  omega

theorem all_hex_of_nonhex_zero (A : List UInt8) (h : nonhex A = 0) : ∀ c ∈ A, isHex c = true := by
  simp only [nonhex, List.length_eq_zero_iff, List.filter_eq_nil_iff] at h
  intro c hc
  have := h c hc
  simpa using this

/-- Terminator of the two encodings. -/
def term (nl : Bool) : List UInt8 := if nl then [13, 10] else []

/-- Numeric fields of "colon + almost-hex digits + terminator". -/
theorem numsOf_digits (A : List UInt8) (nl : Bool) (h : nonhex A ≤ 1) :
    numsOf (58 :: (A ++ term nl)) = hexPairs A := by
  cases nl with
  | true => exact numsOf_crlf A
  | false =>
    simp only [term, Bool.false_eq_true, ↓reduceIte, List.append_nil]
    apply numsOf_plain
    intro he
    have := nonhex_ends A he
    omega

theorem numsOf_head_ne (c : UInt8) (X : List UInt8) (h : c ≠ 58) : numsOf (c :: X) = none := by
  unfold numsOf
  split
  · rename_i heq; simp at heq; exact absurd heq.1 h
  · rfl

theorem numsOf_nil : numsOf [] = none := rfl

/-- The two encodings of a frame in one form. -/
def wire (f : Frame) (nl : Bool) : List UInt8 := 58 :: (hexUpper (numsF f) ++ term nl)

theorem wire_false (f : Frame) : wire f false = enc f := by simp [wire, term, enc, numsF]
theorem wire_true (f : Frame) : wire f true = encNL f := by simp [wire, term, encNL, enc, numsF]

theorem dec_wire (f : Frame) (hf : f.WF) (nl : Bool) : dec (wire f nl) = .ok f := by
  cases nl
  · rw [wire_false]; exact C01.dec_enc f hf
  · rw [wire_true]; exact C01.dec_encNL f hf

theorem same_wire (f g : Frame) (hf : f.WF) (nl : Bool) (h : dec (wire f nl) = .ok g) : g = f := by
  rw [dec_wire f hf nl] at h
  exact (Except.ok.inj h).symm

/-- Outcome of replacing one numeric byte: either the same byte (same frame) or a rejection. -/
theorem byte_replaced (bs : List UInt8) (f g : Frame) (hf : f.WF) (NA NB : List UInt8) (b b' : UInt8)
    (hN : numsF f = NA ++ b :: NB) (hn : numsOf bs = some (NA ++ b' :: NB)) (h : dec bs = .ok g) : g = f := by
  by_cases hb : b' = b
  · subst hb
    exact same_nums bs f g hf h (by rw [hn, hN])
  · exfalso
    have h0 : bsum (NA ++ b :: NB) = 0 := by rw [← hN]; exact bsum_numsF f
    exact badsum_rejected bs g _ h hn (one_byte_changed NA NB b b' h0 hb)

end Flipdot
