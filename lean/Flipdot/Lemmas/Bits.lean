/-
Bit-mask facts for the page model, by kernel evaluation over all bytes x bit positions.
-/
import Flipdot.Model.Page
import Flipdot.Lemmas.Bytes
namespace Flipdot

/-! ### bit masks -/

theorem mask_facts : ∀ b : UInt8, ∀ i j : Fin 8, ∀ v : Bool,
    testMask (setMask b i.val v) j.val = (if i = j then v else testMask b j.val) := by
  apply UInt8.forall_of_fin; decide +kernel

theorem testMask_set_same (b : UInt8) (i : Nat) (hi : i < 8) (v : Bool) :
    testMask (setMask b i v) i = v := by
  have := mask_facts b ⟨i, hi⟩ ⟨i, hi⟩ v
  simpa using this

theorem testMask_set_other (b : UInt8) (i j : Nat) (hi : i < 8) (hj : j < 8) (hne : i ≠ j) (v : Bool) :
    testMask (setMask b i v) j = testMask b j := by
  have := mask_facts b ⟨i, hi⟩ ⟨j, hj⟩ v
  simp only [Fin.mk.injEq, hne, ↓reduceIte] at this
  exact this

theorem testMask_ff : ∀ i : Fin 8, testMask 0xFF i.val = true := by decide +kernel
theorem testMask_00 : ∀ i : Fin 8, testMask 0x00 i.val = false := by decide +kernel

/-- The mask test is "bit `i` counted from the least significant bit". -/
theorem testMask_eq_shift : ∀ b : UInt8, ∀ i : Fin 8,
    testMask b i.val = ((b >>> UInt8.ofNat i.val) &&& 1 == 1) := by
  apply UInt8.forall_of_fin; decide +kernel

end Flipdot
