/-
Converse of the refinement theorems: every conversation the protocol relations allow is a
conversation of the executable controller — so the relations describe its behaviour exactly.
-/
import Flipdot.Spec.CtrlProtocol
import Flipdot.Lemmas.CtrlSpec
namespace Flipdot

variable {α β : Type}

/-- The conversations a program can have (the run semantics as a relation). -/
inductive Prog.Conv : Prog α → List Ex → Outcome α → Prop where
  | done (a : α) : Conv (.done a) [] (.ok a)
  | fail : Conv .fail [] .proto
  | panic (p : Panic) : Conv (.panic p) [] (.panic p)
  | outOfFuel : Conv .outOfFuel [] .outOfFuel
  | starved (m : Msg) (k : Option Msg → Prog α) : Conv (.send m k) [(m, none)] .starved
  | bus (m : Msg) (k : Option Msg → Prog α) : Conv (.send m k) [(m, some .busError)] .bus
  | step (m : Msg) (k : Option Msg → Prog α) (r : Option Msg) (c : List Ex) (o : Outcome α) :
      Conv (k r) c o → Conv (.send m k) (ans m r :: c) o

/-- The replies contained in a conversation, in order. -/
def repliesOf (c : List Ex) : List Reply := c.filterMap (·.2)

/-- A conversation of a program is exactly its run on that conversation's replies. -/
theorem Prog.Conv.run {p : Prog α} {c : List Ex} {o : Outcome α} (h : p.Conv c o) :
    p.run (repliesOf c) = (c, o) := by
  induction h with
  | done a => simp [repliesOf]
  | fail => simp [repliesOf]
  | panic q => simp [repliesOf]
  | outOfFuel => simp [repliesOf]
  | starved m k => simp [repliesOf]
  | bus m k => simp [repliesOf]
  | step m k r c o _ ih =>
    simp only [repliesOf, ans, List.filterMap_cons] at ih ⊢
    rw [Prog.run_send_ok, ih]

/-- Every run is a conversation. -/
theorem Prog.conv_of_run (p : Prog α) (script : List Reply) :
    p.Conv (p.run script).1 (p.run script).2 := by
  induction p generalizing script with
  | done a => simpa using Prog.Conv.done a
  | fail => simpa using Prog.Conv.fail
  | panic q => simpa using Prog.Conv.panic q
  | outOfFuel => simpa using Prog.Conv.outOfFuel
  | send m k ih =>
    cases script with
    | nil => exact .starved m k
    | cons r rest =>
      cases r with
      | busError => exact .bus m k
      | ok x => exact .step m k x _ _ (ih x rest)

theorem conv_expect_ok (m : Msg) (w : Option Msg) (k : Prog α) (c : List Ex) (o : Outcome α)
    (h : k.Conv c o) : (expect m w k).Conv (ans m w :: c) o := by
  unfold expect
  refine .step m _ w c o ?_
  simpa using h

theorem conv_expect_stop (m : Msg) (w : Option Msg) (k : Prog α) (c : List Ex) (o : Outcome α)
    (h : Stop m w c o) : (expect m w k).Conv c o := by
  unfold expect
  cases h with
  | starved => exact .starved m _
  | bus => exact .bus m _
  | wrong r hr => exact .step m _ r [] _ (by simp only [hr, ↓reduceIte]; exact .fail)

theorem conv_must_ok (reqs : List (Msg × Option Msg)) (k : Prog α) (c : List Ex) (o : Outcome α)
    (h : k.Conv c o) : (mustProg reqs k).Conv (okConv reqs ++ c) o := by
  induction reqs with
  | nil => simpa [mustProg, okConv] using h
  | cons mw reqs ih =>
    obtain ⟨m, w⟩ := mw
    exact conv_expect_ok m w _ _ o ih

theorem conv_must_fail (reqs : List (Msg × Option Msg)) (k : Prog α) (c : List Ex) (o : Outcome α)
    (h : MustFail reqs c o) : (mustProg reqs k).Conv c o := by
  obtain ⟨pre, m, w, post, c', e, hs, hc⟩ := h
  subst e hc
  have : mustProg (pre ++ (m, w) :: post) k = mustProg pre (expect m w (mustProg post k)) := by
    simp [mustProg, List.foldr_append]
  rw [this]
  exact conv_must_ok pre _ c' o (conv_expect_stop m w _ c' o hs)

theorem conv_sendChunks_ok (ms : List Msg) (n : Nat) (k : Nat → Prog α) (c : List Ex) (o : Outcome α)
    (hlen : n + ms.length < 65536) (h : (k (n + ms.length)).Conv c o) :
    (sendChunks ms n k).Conv (okConv (ms.map (·, none)) ++ c) o := by
  induction ms generalizing n with
  | nil => simpa [sendChunks, okConv] using h
  | cons m ms ih =>
    have h1 : ¬ (n + 1 ≥ 65536) := by simp at hlen; omega
    simp only [sendChunks, List.map_cons, okConv, List.cons_append]
    refine .step m _ none _ o ?_
    simp only [↓reduceIte, h1]
    have e : n + (m :: ms).length = n + 1 + ms.length := by simp; omega
    rw [e] at h
    exact ih (n + 1) (by simp at hlen ⊢; omega) h

theorem conv_sendChunks_fail (ms : List Msg) (n : Nat) (k : Nat → Prog α) (c : List Ex) (o : Outcome α)
    (hlen : n + ms.length < 65536) (h : MustFail (ms.map (·, none)) c o) :
    (sendChunks ms n k).Conv c o := by
  induction ms generalizing n c with
  | nil =>
    obtain ⟨pre, m, w, post, c', e, _, _⟩ := h
    simp at e
  | cons m ms ih =>
    obtain ⟨pre, m', w, post, c', e, hs, hc⟩ := h
    cases pre with
    | nil =>
      simp only [List.map_cons, List.nil_append, List.cons.injEq, Prod.mk.injEq] at e
      obtain ⟨⟨rfl, rfl⟩, _⟩ := e
      subst hc
      simp only [okConv, List.map_nil, List.nil_append, sendChunks]
      cases hs with
      | starved => exact .starved _ _
      | bus => exact .bus _ _
      | wrong r hr => exact .step _ _ r [] _ (by simp only [hr, ↓reduceIte]; exact .fail)
    | cons p pre' =>
      simp only [List.map_cons, List.cons_append, List.cons.injEq] at e
      obtain ⟨rfl, e⟩ := e
      subst hc
      have h1 : ¬ (n + 1 ≥ 65536) := by simp at hlen; omega
      simp only [okConv, List.map_cons, List.cons_append, sendChunks]
      refine .step m _ none _ o ?_
      simp only [↓reduceIte, h1]
      exact ih (n + 1) _ (by simp at hlen ⊢; omega) ⟨pre', m', w, post, c', e, hs, rfl⟩

/-- The body of one transfer attempt, as a requirement sequence followed by the query. -/
theorem conv_attempt_ok (a : UInt16) (msgs : List Msg) (op : Op) (q : Option Msg → Prog Unit)
    (c : List Ex) (o : Outcome Unit) (hlen : msgs.length < 65536)
    (h : (Prog.send (.queryState a) q).Conv c o) :
    (expect (.requestOp a op) (some (.ackOp a op)) <|
      sendChunks msgs 0 fun cnt =>
        expect (.chunksSent (UInt16.ofNat cnt)) none <| .send (.queryState a) q).Conv
      (okConv (attemptReqs a msgs op) ++ c) o := by
  rw [okConv_attempt]
  apply conv_expect_ok
  apply conv_sendChunks_ok msgs 0 _ _ o (by omega)
  simp only [Nat.zero_add]
  exact conv_expect_ok _ _ _ _ o h

theorem conv_attempt_fail (a : UInt16) (msgs : List Msg) (op : Op) (q : Option Msg → Prog Unit)
    (c : List Ex) (o : Outcome Unit) (hlen : msgs.length < 65536)
    (h : MustFail (attemptReqs a msgs op) c o) :
    (expect (.requestOp a op) (some (.ackOp a op)) <|
      sendChunks msgs 0 fun cnt =>
        expect (.chunksSent (UInt16.ofNat cnt)) none <| .send (.queryState a) q).Conv c o := by
  obtain ⟨pre, m, w, post, c', e, hs, hc⟩ := h
  subst hc
  cases pre with
  | nil =>
    simp only [attemptReqs, List.nil_append, List.cons.injEq, Prod.mk.injEq] at e
    obtain ⟨⟨rfl, rfl⟩, _⟩ := e
    simpa [okConv] using conv_expect_stop _ _ _ c' o hs
  | cons p pre' =>
    simp only [attemptReqs, List.cons_append, List.cons.injEq] at e
    obtain ⟨rfl, e⟩ := e
    simp only [okConv, List.map_cons, List.cons_append]
    apply conv_expect_ok
    -- is the failing requirement a chunk, or the count?
    rcases List.append_eq_append_iff.mp e with ⟨a', h1, h2⟩ | ⟨c'', h1, h2⟩
    · cases a' with
      | nil =>
        simp only [List.append_nil, List.nil_append, List.cons.injEq, Prod.mk.injEq] at h1 h2
        obtain ⟨⟨rfl, rfl⟩, rfl⟩ := h2
        subst h1
        have := conv_sendChunks_ok msgs 0 (fun cnt =>
          expect (.chunksSent (UInt16.ofNat cnt)) none <| Prog.send (.queryState a) q) c' o (by omega)
          (by simp only [Nat.zero_add]; exact conv_expect_stop _ _ _ c' o hs)
        simpa [okConv] using this
      | cons x a'' =>
        exfalso
        simp only [List.cons_append, List.cons.injEq] at h2
        have := congrArg List.length h2.2
        simp at this
    · cases c'' with
      | nil =>
        simp only [List.append_nil, List.nil_append] at h1 h2
        have hcount : (m, w) = (.chunksSent (UInt16.ofNat msgs.length), none) ∧ post = [] := by
          cases post with
          | nil => simp at h2; exact ⟨by rw [h2.1, h2.2], rfl⟩
          | cons y ys =>
            have := congrArg List.length h2
            simp at this
        obtain ⟨hmw, rfl⟩ := hcount
        cases hmw
        subst h1
        have := conv_sendChunks_ok msgs 0 (fun cnt =>
          expect (.chunksSent (UInt16.ofNat cnt)) none <| Prog.send (.queryState a) q) c' o (by omega)
          (by simp only [Nat.zero_add]; exact conv_expect_stop _ _ _ c' o hs)
        simpa [okConv] using this
      | cons y ys =>
        simp only [List.cons_append, List.cons.injEq] at h2
        have hmf : MustFail (msgs.map (·, none)) (okConv pre' ++ c') o :=
          ⟨pre', m, w, ys, c', by rw [h1, h2.1], hs, rfl⟩
        have := conv_sendChunks_fail msgs 0 (fun cnt =>
          expect (.chunksSent (UInt16.ofNat cnt)) none <| Prog.send (.queryState a) q) _ o (by omega) hmf
        simpa [okConv] using this

/-- Every conversation the transfer protocol allows is a conversation of `transfer`
    (for distinct success / failure states, as in both uses). -/
theorem transfer_complete (a : UInt16) (msgs : List Msg) (op : Op) (succ failS : State) (n : Nat)
    (c : List Ex) (o : Outcome Unit) (hlen : msgs.length < 65536) (hne : succ ≠ failS)
    (h : TransferSpec a msgs op succ failS n c o) : (transfer a msgs op succ failS n).Conv c o := by
  induction h with
  | stopped n c o hm => cases n <;> (unfold transfer; exact conv_attempt_fail a msgs op _ c o hlen hm)
  | queryStarved n => cases n <;> (unfold transfer; exact conv_attempt_ok a msgs op _ _ _ hlen (.starved _ _))
  | queryBus n => cases n <;> (unfold transfer; exact conv_attempt_ok a msgs op _ _ _ hlen (.bus _ _))
  | received n =>
    have hsf : ¬ (some (Msg.reportState a succ) = some (Msg.reportState a failS)) := by
      simpa using hne
    cases n <;>
      (unfold transfer
       refine conv_attempt_ok a msgs op _ _ _ hlen (.step _ _ _ [] _ ?_)
       simp only [hsf, ↓reduceIte]
       exact .done ())
  | retry n c o _ ih =>
    unfold transfer
    refine conv_attempt_ok a msgs op _ _ _ hlen (.step _ _ _ c o ?_)
    simp only [↓reduceIte]
    exact ih
  | unexpected n r h1 h2 =>
    cases n with
    | zero =>
      unfold transfer
      refine conv_attempt_ok a msgs op _ _ _ hlen (.step _ _ r [] _ ?_)
      simp only [h1, ↓reduceIte]
      exact .fail
    | succ n =>
      have hf : ¬ r = some (.reportState a failS) := by
        rcases h2 with h2 | h2
        · omega
        · exact h2
      unfold transfer
      refine conv_attempt_ok a msgs op _ _ _ hlen (.step _ _ r [] _ ?_)
      simp only [hf, h1, ↓reduceIte]
      exact .fail

end Flipdot

namespace Flipdot

variable {α β : Type}

theorem conv_ensure_ok (a : UInt16) (k : Prog α) (c1 c : List Ex) (o : Outcome α)
    (h1 : EnsureOK a c1) (hk : k.Conv c o) : (ensureUnconfigured a k).Conv (c1 ++ c) o := by
  unfold ensureUnconfigured
  cases h1 with
  | already =>
    refine .step _ _ _ _ o ?_
    simpa using hk
  | finish =>
    refine .step _ _ _ _ o ?_
    simp only [Option.some.injEq, Msg.reportState.injEq, reduceCtorEq, and_false, ↓reduceIte, true_and]
    have : finishResetSeq a k = mustProg (finishReqs a) k := rfl
    rw [this]
    exact conv_must_ok _ k c o hk
  | full r hr1 hr2 =>
    refine .step _ _ r _ o ?_
    simp only [hr1, hr2, ↓reduceIte]
    have : (expect (.requestOp a .startReset) (some (.ackOp a .startReset)) <|
        expect (.hello a) (some (.reportState a .readyToReset)) <| finishResetSeq a k) =
        mustProg (startReqs a) k := rfl
    rw [this]
    exact conv_must_ok _ k c o hk

theorem conv_ensure_stop (a : UInt16) (k : Prog α) (c : List Ex) (o : Outcome α)
    (h : EnsureStop a c o) : (ensureUnconfigured a k).Conv c o := by
  unfold ensureUnconfigured
  cases h with
  | helloStarved => exact .starved _ _
  | helloBus => exact .bus _ _
  | finish c' o hm =>
    refine .step _ _ _ _ o ?_
    simp only [Option.some.injEq, Msg.reportState.injEq, reduceCtorEq, and_false, ↓reduceIte, true_and]
    have : finishResetSeq a k = mustProg (finishReqs a) k := rfl
    rw [this]
    exact conv_must_fail _ k c' o hm
  | full r c' o hr1 hr2 hm =>
    refine .step _ _ r _ o ?_
    simp only [hr1, hr2, ↓reduceIte]
    have : (expect (.requestOp a .startReset) (some (.ackOp a .startReset)) <|
        expect (.hello a) (some (.reportState a .readyToReset)) <| finishResetSeq a k) =
        mustProg (startReqs a) k := rfl
    rw [this]
    exact conv_must_fail _ k c' o hm

theorem configure_complete (a : UInt16) (t : SignType) (c : List Ex) (o : Outcome Unit)
    (h : ConfigureSpec a t c o) : (configure a t).Conv c o := by
  unfold configure
  cases h with
  | ensureStop c o he => exact conv_ensure_stop a _ c o he
  | transfer c1 c2 o h1 ht =>
    exact conv_ensure_ok a _ c1 c2 o h1
      (transfer_complete a _ _ _ _ 2 c2 o (by have := cfgMsgs_length t; unfold cfgMsgs at this; omega) (by decide) ht)

theorem configureIfNeeded_complete (a : UInt16) (t : SignType) (c : List Ex) (o : Outcome Unit)
    (h : ConfigureIfNeededSpec a t c o) : (configureIfNeeded a t).Conv c o := by
  unfold configureIfNeeded
  cases h with
  | helloStarved => exact .starved _ _
  | helloBus => exact .bus _ _
  | ready s hs =>
    refine .step _ _ _ [] _ ?_
    simp only [ownReport?, ↓reduceIte, hs]
    exact .done ()
  | configure r c o hr hc =>
    refine .step _ _ r c o ?_
    have hconf := configure_complete a t c o hc
    cases hor : ownReport? a r with
    | none => simpa using hconf
    | some s =>
      have e := (ownReport?_eq_some a r s).mp hor
      have : s ∉ readyStates := fun hs => hr s hs e
      simp only [this, ↓reduceIte]
      exact hconf

theorem conv_bind_ok (p : Prog α) (f : α → Prog β) (c1 c2 : List Ex) (x : α) (o : Outcome β)
    (h1 : p.Conv c1 (.ok x)) (h2 : (f x).Conv c2 o) : (p.bind f).Conv (c1 ++ c2) o := by
  generalize ho : Outcome.ok x = o1 at h1
  induction h1 with
  | done a => cases ho; simpa [Prog.bind] using h2
  | fail => cases ho
  | panic q => cases ho
  | outOfFuel => cases ho
  | starved m k => cases ho
  | bus m k => cases ho
  | step m k r c o' _ ih => exact .step m _ r _ o (ih ho)

theorem conv_bind_stop (p : Prog α) (f : α → Prog β) (c : List Ex) (o : Outcome α)
    (h : p.Conv c o) (hn : ∀ x, o ≠ .ok x) : (p.bind f).Conv c o.cast := by
  induction h with
  | done a => exact absurd rfl (hn a)
  | fail => exact .fail
  | panic q => exact .panic q
  | outOfFuel => exact .outOfFuel
  | starved m k => exact .starved m _
  | bus m k => exact .bus m _
  | step m k r c o _ ih => exact .step m _ r c _ (ih hn)

theorem sendPages_complete (a : UInt16) (pages : List (List UInt8)) (c : List Ex) (o : Outcome FlipStyle)
    (hlen : (allChunkMsgs pages).length < 65536) (h : SendPagesSpec a pages c o) :
    (sendPages a pages).Conv c o := by
  have tc := fun c o h => transfer_complete a (allChunkMsgs pages) .receivePixels .pixelsReceived
    .pixelsFailed 2 c o hlen (by decide) h
  unfold sendPages
  cases h with
  | transferStop c o' hn ht => exact conv_bind_stop _ _ c o' (tc c o' ht) hn
  | completeStop c1 c2 o ht hs =>
    exact conv_bind_ok _ _ c1 c2 () o (tc c1 _ ht) (conv_expect_stop _ _ _ c2 o hs)
  | queryStarved c1 ht =>
    exact conv_bind_ok _ _ c1 _ () _ (tc c1 _ ht) (conv_expect_ok _ _ _ _ _ (.starved _ _))
  | queryBus c1 ht =>
    exact conv_bind_ok _ _ c1 _ () _ (tc c1 _ ht) (conv_expect_ok _ _ _ _ _ (.bus _ _))
  | automatic c1 ht =>
    refine conv_bind_ok _ _ c1 _ () _ (tc c1 _ ht) (conv_expect_ok _ _ _ _ _ (.step _ _ _ [] _ ?_))
    simp only [↓reduceIte]
    exact .done _
  | manual c1 r hr ht =>
    refine conv_bind_ok _ _ c1 _ () _ (tc c1 _ ht) (conv_expect_ok _ _ _ _ _ (.step _ _ r [] _ ?_))
    simp only [hr, ↓reduceIte]
    exact .done _

theorem shutDown_complete (a : UInt16) (c : List Ex) (o : Outcome Unit) (h : ShutDownSpec a c o) :
    (shutDown a).Conv c o := by
  unfold shutDown
  cases h with
  | stop c o hs => exact conv_expect_stop _ _ _ c o hs
  | ok => exact conv_expect_ok _ _ _ [] _ (.done ())

end Flipdot
