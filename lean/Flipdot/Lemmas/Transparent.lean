/-
C17, last step: for the controller operations the serial path and the direct path agree on success
and on the final virtual signs, with no side condition.
-/
import Flipdot.Props.C17
namespace Flipdot
open C17

variable {α : Type}

theorem vstep_addr (s s' : VSign) (m : Msg) (r : Option Msg) (h : vstep s m = .ok (s', r)) :
    s'.addr = s.addr := by
  have hinv : ∀ t : VSign, t.flush.addr = t.addr := fun t => t.flush_fields.2.2.2.2.2.2.1
  cases m with
  | sendData off d =>
    simp only [vstep] at h
    split at h
    · cases h
    · rename_i t ht
      cases h
      unfold VSign.sendData at ht
      split at ht
      · split at ht
        · cases ht
        · cases ht; rfl
        · split at ht
          · cases ht
          · cases ht; rfl
      · split at ht
        · cases ht
          split <;> simp [VSign.appendChunk, hinv]
        · cases ht; rfl
  | chunksSent n => simp only [vstep] at h; cases h; simp [VSign.chunksSent, hinv]
  | hello a =>
    simp only [vstep] at h
    split at h <;> cases h
    · show (VSign.queryState s).1.addr = s.addr
      unfold VSign.queryState
      cases s.state <;> rfl
    · rfl
  | queryState a =>
    simp only [vstep] at h
    split at h <;> cases h
    · show (VSign.queryState s).1.addr = s.addr
      unfold VSign.queryState
      cases s.state <;> rfl
    · rfl
  | reportState a st => simp only [vstep] at h; cases h; rfl
  | ackOp a op => simp only [vstep] at h; cases h; rfl
  | unknown f => simp only [vstep] at h; cases h; rfl
  | pixelsComplete a => simp only [vstep] at h; split at h <;> cases h <;> rfl
  | goodbye a => simp only [vstep] at h; split at h <;> cases h <;> simp [VSign.reset]
  | requestOp a op =>
    simp only [vstep] at h
    split at h
    · cases h; rfl
    · cases op <;> simp only at h <;> first
        | (cases h; rfl)
        | (split at h <;> cases h <;> first | rfl | simp [VSign.reset])

/-- The population of a virtual bus never changes. -/
theorem busStep_addrs (bus bus' : List VSign) (m : Msg) (r : Option Msg)
    (h : busStep bus m = .ok (bus', r)) : bus'.map (·.addr) = bus.map (·.addr) := by
  induction bus generalizing bus' r with
  | nil => simp only [busStep] at h; cases h; rfl
  | cons s rest ih =>
    simp only [busStep] at h
    split at h
    · cases h
    · rename_i s' x hs
      cases h
      simp [vstep_addr s s' m _ hs]
    · rename_i s' hs
      split at h
      · cases h
      · rename_i rest' r' hr
        cases h
        simp [vstep_addr s s' m _ hs, ih rest' _ hr]

/-- A sign that is on the bus answers hello and state query. -/
theorem present_answered (bus bus' : List VSign) (a : UInt16) (m : Msg) (r : Option Msg)
    (hm : m = .hello a ∨ m = .queryState a) (hp : a ∈ bus.map (·.addr))
    (h : busStep bus m = .ok (bus', r)) : r ≠ none := by
  induction bus generalizing bus' r with
  | nil => simp at hp
  | cons s rest ih =>
    simp only [busStep] at h
    split at h
    · cases h
    · cases h; simp
    · rename_i s' hs
      split at h
      · cases h
      · rename_i rest' r' hr
        cases h
        simp only [List.map_cons, List.mem_cons] at hp
        rcases hp with rfl | hp
        · -- the head sign has the address: it would have answered
          exfalso
          obtain ⟨t, x, hx⟩ := present_answers s m hm
          rw [hx] at hs; cases hs
        · exact ih rest' _ hp hr

/-- What the serial path needs to know about an operation of the controller at address `a`. -/
structure CtrlOp (a : UInt16) (p : Prog α) : Prop where
  canonical : p.AllSends Canonical
  strict : p.Strict a
  expecting : p.AllSends (fun m => responseExpected m = true →
    m = .hello a ∨ m = .queryState a ∨ ∃ o, m = .requestOp a o)

theorem requiredReply_request (a : UInt16) (o : Op) :
    requiredReply a (.requestOp a o) = some (some (.ackOp a o)) := rfl

/-- With the addressed sign present, the strict and the plain direct runs differ at most by
    "bus error" versus "protocol error" at the same point, with the same virtual signs. -/
theorem present_runs (a : UInt16) (p : Prog α) (hc : p.Strict a)
    (he : p.AllSends (fun m => responseExpected m = true →
      m = .hello a ∨ m = .queryState a ∨ ∃ o, m = .requestOp a o))
    (bus : List VSign) (hp : a ∈ bus.map (·.addr)) :
    runStrict p bus = p.runOn bus ∨
      ((runStrict p bus).1 = .bus ∧ (p.runOn bus).1 = .proto ∧ (runStrict p bus).2 = (p.runOn bus).2) := by
  induction hc generalizing bus with
  | done x => exact .inl rfl
  | fail => exact .inl rfl
  | panic q => exact .inl rfl
  | outOfFuel => exact .inl rfl
  | send m k hk _ ih =>
    cases he with
    | send _ _ hm hrest =>
      simp only [runStrict, Prog.runOn, directStrict]
      cases hb : busStep bus m with
      | error e => exact .inl rfl
      | ok br =>
        obtain ⟨bus', r⟩ := br
        have hp' : a ∈ bus'.map (·.addr) := by rw [busStep_addrs bus bus' m r hb]; exact hp
        by_cases hc' : responseExpected m = true ∧ r = none
        · obtain ⟨hexp, rfl⟩ := hc'
          simp only [hexp, and_self, ↓reduceIte]
          rcases hm hexp with rfl | rfl | ⟨o, rfl⟩
          · exact absurd rfl (present_answered bus bus' a _ none (.inl rfl) hp hb)
          · exact absurd rfl (present_answered bus bus' a _ none (.inr rfl) hp hb)
          · have := hk _ (requiredReply_request a o) none (by simp)
            rw [this]
            exact .inr ⟨trivial, rfl, rfl⟩
        · simp only [hc', ↓reduceIte]
          exact ih r (hrest r) bus' hp'

/-- A program that, when nobody answers its addressed messages, fails without ever succeeding and
    without sending anything unaddressed. -/
inductive Prog.QuietFail (a : UInt16) : Prog α → Prop where
  | fail : QuietFail a .fail
  | send (m : Msg) (k : Option Msg → Prog α) : m.addr? = some a → QuietFail a (k none) →
      QuietFail a (.send m k)

theorem quietFail_runOn (a : UInt16) (p : Prog α) (h : p.QuietFail a) (bus : List VSign)
    (habs : ∀ s ∈ bus, s.addr ≠ a) : p.runOn bus = (.proto, bus) := by
  induction h with
  | fail => rfl
  | send m k hm _ ih =>
    simp only [Prog.runOn, C14.absent_noop bus m a hm habs]
    exact ih

theorem quietFail_expect (a : UInt16) (m : Msg) (w : Option Msg) (k : Prog α)
    (hm : m.addr? = some a) (hw : w ≠ none) : (expect m w k).QuietFail a := by
  unfold expect
  refine .send m _ hm ?_
  have : ¬ (none = w) := fun h => hw h.symm
  simp only [this, ↓reduceIte]
  exact .fail

/-- With the address absent, an operation whose first message is due a reply gets a bus error over
    the wire and a protocol error directly — the virtual signs untouched either way. -/
theorem absent_runs (a : UInt16) (m : Msg) (k : Option Msg → Prog α)
    (hexp : responseExpected m = true) (hm : m.addr? = some a) (hq : (Prog.send m k).QuietFail a)
    (bus : List VSign) (habs : ∀ s ∈ bus, s.addr ≠ a) :
    runStrict (.send m k) bus = (.bus, bus) ∧ (Prog.send m k).runOn bus = (.proto, bus) := by
  refine ⟨?_, quietFail_runOn a _ hq bus habs⟩
  simp [runStrict, directStrict, C14.absent_noop bus m a hm habs, hexp]

end Flipdot

namespace Flipdot
open C17

variable {α : Type}

/-- The shape shared by configure / configure-if-needed / send-pages / show / load-next: the first
    message is due a reply, and if nobody answers the operation fails quietly. -/
structure FirstAsks (a : UInt16) (p : Prog α) : Prop where
  shape : ∃ m k, p = .send m k ∧ responseExpected m = true ∧ m.addr? = some a
  quiet : p.QuietFail a

/-- Transparency for such an operation, on every virtual bus: same success (and same returned value),
    same virtual signs, nothing left in the pipe. -/
theorem op_transparent (a : UInt16) (p : Prog α) (hop : CtrlOp a p) (hf : FirstAsks a p) (bus : List VSign) :
    (∀ x, (p.runVia ⟨bus, []⟩).1 = .ok x ↔ (p.runOn bus).1 = .ok x) ∧
    (p.runVia ⟨bus, []⟩).2.bus = (p.runOn bus).2 ∧ (p.runVia ⟨bus, []⟩).2.pending = [] := by
  rw [runVia_eq_runStrict p hop.canonical bus]
  simp only [and_true]
  by_cases hp : a ∈ bus.map (·.addr)
  · rcases present_runs a p hop.strict hop.expecting bus hp with e | ⟨e1, e2, e3⟩
    · rw [e]; exact ⟨fun _ => Iff.rfl, rfl⟩
    · refine ⟨fun x => ?_, e3⟩
      rw [e1, e2]; simp
  · have habs : ∀ s ∈ bus, s.addr ≠ a := by
      intro s hs h
      exact hp (List.mem_map.mpr ⟨s, hs, h⟩)
    obtain ⟨m, k, rfl, hexp, hm⟩ := hf.shape
    obtain ⟨h1, h2⟩ := absent_runs a m k hexp hm hf.quiet bus habs
    rw [h1, h2]
    exact ⟨fun x => by simp, rfl⟩

/-- The predicate "a message due a reply is hello / query / request of address `a`". -/
def ExpOwn (a : UInt16) (m : Msg) : Prop :=
  responseExpected m = true → m = .hello a ∨ m = .queryState a ∨ ∃ o, m = .requestOp a o

theorem expOwn_hello (a : UInt16) : ExpOwn a (.hello a) := fun _ => .inl rfl
theorem expOwn_query (a : UInt16) : ExpOwn a (.queryState a) := fun _ => .inr (.inl rfl)
theorem expOwn_request (a : UInt16) (o : Op) : ExpOwn a (.requestOp a o) := fun _ => .inr (.inr ⟨o, rfl⟩)
theorem expOwn_count (a : UInt16) (c : UInt16) : ExpOwn a (.chunksSent c) := fun h => by simp [responseExpected] at h
theorem expOwn_chunks (a : UInt16) (items : List (List UInt8)) : ∀ m ∈ allChunkMsgs items, ExpOwn a m := by
  intro m hm
  obtain ⟨off, d, rfl⟩ := allChunkMsgs_sendData items m hm
  intro h; simp [responseExpected] at h

theorem configure_expOwn (a : UInt16) (t : SignType) : (configure a t).AllSends (ExpOwn a) := by
  unfold configure
  exact allSends_ensure a _ (expOwn_hello a) (expOwn_request a)
    (allSends_transfer a _ _ _ _ _ (expOwn_request a _) (expOwn_chunks a _) (expOwn_count a) (expOwn_query a))

theorem sendPages_expOwn (a : UInt16) (pages : List (List UInt8)) : (sendPages a pages).AllSends (ExpOwn a) := by
  unfold sendPages
  refine Prog.AllSends.bind
    (allSends_transfer a _ _ _ _ _ (expOwn_request a _) (expOwn_chunks a _) (expOwn_count a) (expOwn_query a))
    (fun _ => allSends_expect (fun h => by simp [responseExpected] at h) ?_)
  refine .send _ _ (expOwn_query a) (fun r => ?_)
  split <;> exact .done _

theorem configureIfNeeded_expOwn (a : UInt16) (t : SignType) :
    (configureIfNeeded a t).AllSends (ExpOwn a) := by
  unfold configureIfNeeded
  refine .send _ _ (expOwn_hello a) (fun r => ?_)
  split
  · split
    · exact .done _
    · exact configure_expOwn a t
  · exact configure_expOwn a t

theorem configureIfNeeded_canonical (a : UInt16) (t : SignType) :
    (configureIfNeeded a t).AllSends Canonical := by
  unfold configureIfNeeded
  refine .send _ _ (canon _ (by simp [Msg.Specific]) (by simp [Msg.WF])) (fun r => ?_)
  split
  · split
    · exact .done _
    · exact configure_canonical a t
  · exact configure_canonical a t

theorem switchPage_canonical (a : UInt16) (target trigger : State) (op : Op) (fuel : Nat) :
    (switchPage a target trigger op fuel).AllSends Canonical := by
  induction fuel with
  | zero => exact .outOfFuel
  | succ fuel ih =>
    unfold switchPage
    refine .send _ _ (canon _ (by simp [Msg.Specific]) (by simp [Msg.WF])) (fun r => ?_)
    split
    · split
      · exact .done _
      · split
        · exact .done _
        · split
          · exact allSends_expect (canon _ (by simp [Msg.Specific]) (by simp [Msg.WF])) ih
          · split
            · exact ih
            · exact .fail
    · exact .fail

theorem switchPage_expOwn (a : UInt16) (target trigger : State) (op : Op) (fuel : Nat) :
    (switchPage a target trigger op fuel).AllSends (ExpOwn a) := by
  induction fuel with
  | zero => exact .outOfFuel
  | succ fuel ih =>
    unfold switchPage
    refine .send _ _ (expOwn_query a) (fun r => ?_)
    split
    · split
      · exact .done _
      · split
        · exact .done _
        · split
          · exact allSends_expect (expOwn_request a _) ih
          · split
            · exact ih
            · exact .fail
    · exact .fail

theorem configure_quiet (a : UInt16) (t : SignType) : (configure a t).QuietFail a := by
  unfold configure ensureUnconfigured
  refine .send _ _ rfl ?_
  simp only [reduceCtorEq, ↓reduceIte]
  exact quietFail_expect a _ _ _ rfl (by simp)

theorem configure_firstAsks (a : UInt16) (t : SignType) : FirstAsks a (configure a t) :=
  ⟨⟨_, _, rfl, rfl, rfl⟩, configure_quiet a t⟩

theorem configureIfNeeded_firstAsks (a : UInt16) (t : SignType) : FirstAsks a (configureIfNeeded a t) := by
  refine ⟨⟨_, _, rfl, rfl, rfl⟩, ?_⟩
  unfold configureIfNeeded
  refine .send _ _ rfl ?_
  simp only [ownReport?]
  exact configure_quiet a t

theorem transfer_first (a : UInt16) (msgs : List Msg) (op : Op) (succ failS : State) (n : Nat) :
    ∃ k, transfer a msgs op succ failS n = .send (.requestOp a op) k ∧ k none = .fail := by
  cases n <;> exact ⟨_, rfl, by simp⟩

theorem sendPages_firstAsks (a : UInt16) (pages : List (List UInt8)) : FirstAsks a (sendPages a pages) := by
  obtain ⟨k, hk, hnone⟩ := transfer_first a (allChunkMsgs pages) .receivePixels .pixelsReceived .pixelsFailed 2
  unfold sendPages
  rw [hk]
  refine ⟨⟨_, _, rfl, rfl, rfl⟩, ?_⟩
  simp only [Prog.bind]
  refine .send _ _ rfl ?_
  rw [hnone]
  exact .fail

theorem switchPage_firstAsks (a : UInt16) (target trigger : State) (op : Op) (fuel : Nat) :
    FirstAsks a (switchPage a target trigger op (fuel + 1)) := by
  refine ⟨⟨_, _, rfl, rfl, rfl⟩, ?_⟩
  unfold switchPage
  refine .send _ _ rfl ?_
  simp only [ownReport?]
  exact .fail

theorem answered_of_silent (p : Prog α) (hs : p.AllSends (fun m => responseExpected m = false))
    (bus : List VSign) : Answered p bus := by
  induction hs generalizing bus with
  | done x => trivial
  | fail => trivial
  | panic q => trivial
  | outOfFuel => trivial
  | send m k hm _ ih =>
    simp only [Answered]
    cases hb : busStep bus m with
    | error e => trivial
    | ok br =>
      obtain ⟨b', r⟩ := br
      exact ⟨fun h => (by rw [hm] at h; cases h), ih r b'⟩

/-- Programs that never ask for a reply (shut-down) are the same over the wire and directly. -/
theorem silent_transparent (p : Prog α) (hc : p.AllSends Canonical)
    (hs : p.AllSends (fun m => responseExpected m = false)) (bus : List VSign) :
    p.runVia ⟨bus, []⟩ = ((p.runOn bus).1, ⟨(p.runOn bus).2, []⟩) :=
  transparent_partial p hc bus (answered_of_silent p hs bus)

end Flipdot
