/-
The documented controller protocol as relations on conversations (a different shape from the
executable interaction tree in Model/Controller.lean), and the proof principle relating the two.
-/
import Flipdot.Lemmas.Prog
namespace Flipdot

variable {α : Type}

/-- One exchange: a message and what the bus did with it (`none`: the script had no reply left). -/
abbrev Ex := Msg × Option Reply

/-- The exchange "message `m` answered by `r`". -/
def ans (m : Msg) (r : Option Msg) : Ex := (m, some (.ok r))

/-- All conversations of a program lie in the language `L`. -/
inductive Prog.ConvsIn : (List Ex → Outcome α → Prop) → Prog α → Prop where
  | done (L) (a : α) : L [] (.ok a) → ConvsIn L (.done a)
  | fail (L) : L [] .proto → ConvsIn L .fail
  | panic (L) (p : Panic) : L [] (.panic p) → ConvsIn L (.panic p)
  | outOfFuel (L) : L [] .outOfFuel → ConvsIn L .outOfFuel
  | send (L) (m : Msg) (k : Option Msg → Prog α) :
      L [(m, none)] .starved → L [(m, some .busError)] .bus →
      (∀ r, ConvsIn (fun c o => L (ans m r :: c) o) (k r)) → ConvsIn L (.send m k)

/-- Soundness of the principle: every run against every script is in the language. -/
theorem Prog.ConvsIn.run {L : List Ex → Outcome α → Prop} {p : Prog α} (h : p.ConvsIn L)
    (script : List Reply) : L (p.run script).1 (p.run script).2 := by
  induction h generalizing script with
  | done L a h => simpa using h
  | fail L h => simpa using h
  | panic L p h => simpa using h
  | outOfFuel L h => simpa using h
  | send L m k h1 h2 _ ih =>
    cases script with
    | nil => simpa using h1
    | cons r rest =>
      cases r with
      | busError => simpa using h2
      | ok x => simpa [ans] using ih x rest

theorem Prog.ConvsIn.mono {L L' : List Ex → Outcome α → Prop} {p : Prog α} (h : p.ConvsIn L)
    (hl : ∀ c o, L c o → L' c o) : p.ConvsIn L' := by
  induction h generalizing L' with
  | done L a h => exact .done _ a (hl _ _ h)
  | fail L h => exact .fail _ (hl _ _ h)
  | panic L p h => exact .panic _ p (hl _ _ h)
  | outOfFuel L h => exact .outOfFuel _ (hl _ _ h)
  | send L m k h1 h2 _ ih =>
    exact .send _ m k (hl _ _ h1) (hl _ _ h2) (fun r => ih r (fun c o h => hl _ _ h))

/-! ### Protocol building blocks -/

/-- The ways an exchange that must be answered by exactly `want` ends the conversation early. -/
inductive Stop (m : Msg) (want : Option Msg) : List Ex → Outcome α → Prop where
  | starved : Stop m want [(m, none)] .starved
  | bus : Stop m want [(m, some .busError)] .bus
  | wrong (r : Option Msg) : r ≠ want → Stop m want [ans m r] .proto

/-- The conversation in which each required exchange got exactly the reply it needs. -/
def okConv (reqs : List (Msg × Option Msg)) : List Ex := reqs.map fun mw => ans mw.1 mw.2

/-- A sequence of required exchanges fails at some position: everything before it was answered as
    required, the exchange at that position stops the conversation. -/
def MustFail (reqs : List (Msg × Option Msg)) (c : List Ex) (o : Outcome α) : Prop :=
  ∃ pre m w post c', reqs = pre ++ (m, w) :: post ∧ Stop m w c' o ∧ c = okConv pre ++ c'

theorem MustFail.cons {reqs : List (Msg × Option Msg)} {c : List Ex} {o : Outcome α} (m : Msg)
    (w : Option Msg) (h : MustFail reqs c o) : MustFail ((m, w) :: reqs) (ans m w :: c) o := by
  obtain ⟨pre, m', w', post, c', e, hs, hc⟩ := h
  exact ⟨(m, w) :: pre, m', w', post, c', by simp [e], hs, by simp [okConv, hc]⟩

theorem MustFail.head {m : Msg} {w : Option Msg} {rest : List (Msg × Option Msg)} {c : List Ex}
    {o : Outcome α} (h : Stop m w c o) : MustFail ((m, w) :: rest) c o :=
  ⟨[], m, w, rest, c, rfl, h, by simp [okConv]⟩

/-- `expect m want k`: either the exchange stops the conversation, or it is answered `want` and
    the continuation follows. -/
theorem convsIn_expect {L : List Ex → Outcome α → Prop} (m : Msg) (want : Option Msg) (k : Prog α)
    (hstop : ∀ c o, Stop m want c o → L c o)
    (hk : k.ConvsIn (fun c o => L (ans m want :: c) o)) : (expect m want k).ConvsIn L := by
  unfold expect
  refine .send _ m _ (hstop _ _ .starved) (hstop _ _ .bus) ?_
  intro r
  by_cases hr : r = want
  · simp only [hr, ↓reduceIte]; exact hk
  · simp only [hr, ↓reduceIte]
    exact .fail _ (hstop _ _ (.wrong r hr))

end Flipdot

namespace Flipdot

variable {α : Type}

theorem MustFail.append_right {reqs : List (Msg × Option Msg)} {c : List Ex} {o : Outcome α}
    (more : List (Msg × Option Msg)) (h : MustFail reqs c o) : MustFail (reqs ++ more) c o := by
  obtain ⟨pre, m, w, post, c', e, hs, hc⟩ := h
  exact ⟨pre, m, w, post ++ more, c', by simp [e], hs, hc⟩

theorem MustFail.last {pre : List (Msg × Option Msg)} {m : Msg} {w : Option Msg} {c : List Ex}
    {o : Outcome α} (h : Stop m w c o) : MustFail (pre ++ [(m, w)]) (okConv pre ++ c) o :=
  ⟨pre, m, w, [], c, rfl, h, rfl⟩

/-- The inner chunk loop: every chunk must be answered by silence. -/
theorem convsIn_sendChunks {L : List Ex → Outcome α → Prop} (ms : List Msg) (n : Nat)
    (k : Nat → Prog α) (hlen : n + ms.length < 65536)
    (hfail : ∀ c o, MustFail (ms.map (·, none)) c o → L c o)
    (hk : (k (n + ms.length)).ConvsIn (fun c o => L (okConv (ms.map (·, none)) ++ c) o)) :
    (sendChunks ms n k).ConvsIn L := by
  induction ms generalizing n L with
  | nil => simpa [sendChunks, okConv] using hk
  | cons m ms ih =>
    simp only [sendChunks]
    refine .send _ m _ (hfail _ _ (.head .starved)) (hfail _ _ (.head .bus)) ?_
    intro r
    by_cases hr : r = none
    · have h1 : ¬ (n + 1 ≥ 65536) := by simp at hlen; omega
      simp only [hr, ↓reduceIte, h1]
      apply ih (n + 1) (by simp at hlen; omega)
      · intro c o h; exact hfail _ _ (h.cons m none)
      · have e : n + 1 + ms.length = n + (m :: ms).length := by simp; omega
        rw [e]
        exact hk.mono (fun c o h => by simpa [okConv] using h)
    · simp only [hr, ↓reduceIte]
      exact .fail _ (hfail _ _ (.head (.wrong r hr)))

/-! ### The data-transfer protocol (`send_data` doc comment) -/

/-- What one attempt must exchange before it may ask for the result: the receive request must be
    acknowledged by the sign itself, every chunk and the chunk count must be met with silence. -/
def attemptReqs (a : UInt16) (msgs : List Msg) (op : Op) : List (Msg × Option Msg) :=
  (.requestOp a op, some (.ackOp a op)) ::
    (msgs.map (·, none) ++ [(.chunksSent (UInt16.ofNat msgs.length), none)])

/-- "Requests `operation` from the sign and fails if it does not acknowledge. Sends `data` in
    16-byte chunks, then queries the sign's state. If `success`, we're done. If `failure`, repeat
    the process a fixed number of times. Fails after exhausting the retries or if any other state
    is reported."  `n` = retries still allowed after this attempt. -/
inductive TransferSpec (a : UInt16) (msgs : List Msg) (op : Op) (succ failS : State) :
    Nat → List Ex → Outcome Unit → Prop where
  | stopped (n) (c o) : MustFail (attemptReqs a msgs op) c o → TransferSpec a msgs op succ failS n c o
  | queryStarved (n) :
      TransferSpec a msgs op succ failS n (okConv (attemptReqs a msgs op) ++ [(.queryState a, none)]) .starved
  | queryBus (n) :
      TransferSpec a msgs op succ failS n
        (okConv (attemptReqs a msgs op) ++ [(.queryState a, some .busError)]) .bus
  | received (n) :
      TransferSpec a msgs op succ failS n
        (okConv (attemptReqs a msgs op) ++ [ans (.queryState a) (some (.reportState a succ))]) (.ok ())
  | retry (n) (c o) : TransferSpec a msgs op succ failS n c o →
      TransferSpec a msgs op succ failS (n + 1)
        (okConv (attemptReqs a msgs op) ++ ans (.queryState a) (some (.reportState a failS)) :: c) o
  | unexpected (n) (r : Option Msg) : r ≠ some (.reportState a succ) →
      (n = 0 ∨ r ≠ some (.reportState a failS)) →
      TransferSpec a msgs op succ failS n (okConv (attemptReqs a msgs op) ++ [ans (.queryState a) r]) .proto

theorem okConv_attempt (a : UInt16) (msgs : List Msg) (op : Op) (tail : List Ex) :
    okConv (attemptReqs a msgs op) ++ tail =
      ans (.requestOp a op) (some (.ackOp a op)) ::
        (okConv (msgs.map (·, none)) ++ ans (.chunksSent (UInt16.ofNat msgs.length)) none :: tail) := by
  simp [okConv, attemptReqs]

/-- The executable transfer refines the documented protocol, for every reply script. -/
theorem transfer_refines (a : UInt16) (msgs : List Msg) (op : Op) (succ failS : State) (n : Nat)
    (hlen : msgs.length < 65536) :
    (transfer a msgs op succ failS n).ConvsIn (TransferSpec a msgs op succ failS n) := by
  -- the part common to both equations of `transfer`: up to the query
  have common : ∀ (n : Nat) (q : Option Msg → Prog Unit),
      (∀ r, (q r).ConvsIn (fun c o => TransferSpec a msgs op succ failS n
        (okConv (attemptReqs a msgs op) ++ ans (.queryState a) r :: c) o)) →
      (expect (.requestOp a op) (some (.ackOp a op)) <|
        sendChunks msgs 0 fun cnt =>
          expect (.chunksSent (UInt16.ofNat cnt)) none <| .send (.queryState a) q).ConvsIn
        (TransferSpec a msgs op succ failS n) := by
    intro n q hq
    apply convsIn_expect
    · intro c o h; exact .stopped n c o (.head h)
    · apply convsIn_sendChunks msgs 0 _ (by omega)
      · intro c o h
        exact .stopped n _ o ((h.append_right _).cons _ _)
      · simp only [Nat.zero_add]
        apply convsIn_expect
        · intro c o h
          have := MustFail.last (pre := (.requestOp a op, some (.ackOp a op)) :: msgs.map (·, none)) h
          exact .stopped n _ o (by simpa [attemptReqs, okConv] using this)
        · refine .send _ _ _ ?_ ?_ ?_
          · have := TransferSpec.queryStarved (a := a) (msgs := msgs) (op := op) (succ := succ) (failS := failS) n
            rw [okConv_attempt] at this; exact this
          · have := TransferSpec.queryBus (a := a) (msgs := msgs) (op := op) (succ := succ) (failS := failS) n
            rw [okConv_attempt] at this; exact this
          · intro r
            exact (hq r).mono (fun c o h => by rw [okConv_attempt] at h; exact h)
  induction n with
  | zero =>
    unfold transfer
    apply common
    intro r
    by_cases hr : r = some (.reportState a succ)
    · simp only [hr, ↓reduceIte]
      exact .done _ _ (.received 0)
    · simp only [hr, ↓reduceIte]
      exact .fail _ (.unexpected 0 r hr (.inl rfl))
  | succ n ih =>
    unfold transfer
    apply common
    intro r
    by_cases hf : r = some (.reportState a failS)
    · simp only [hf, ↓reduceIte]
      exact ih.mono (fun c o h => .retry n c o h)
    · simp only [hf, ↓reduceIte]
      by_cases hr : r = some (.reportState a succ)
      · simp only [hr, ↓reduceIte]
        exact .done _ _ (.received (n + 1))
      · simp only [hr, ↓reduceIte]
        exact .fail _ (.unexpected (n + 1) r hr (.inr hf))

end Flipdot

namespace Flipdot

variable {α β : Type}

/-- A fixed sequence of exchanges each of which must get exactly the given reply. -/
def mustProg (reqs : List (Msg × Option Msg)) (k : Prog α) : Prog α :=
  reqs.foldr (fun mw p => expect mw.1 mw.2 p) k

theorem convsIn_must {L : List Ex → Outcome α → Prop} (reqs : List (Msg × Option Msg)) (k : Prog α)
    (hfail : ∀ c o, MustFail reqs c o → L c o)
    (hk : k.ConvsIn (fun c o => L (okConv reqs ++ c) o)) : (mustProg reqs k).ConvsIn L := by
  induction reqs generalizing L with
  | nil => simpa [mustProg, okConv] using hk
  | cons mw rest ih =>
    obtain ⟨m, w⟩ := mw
    simp only [mustProg, List.foldr_cons]
    apply convsIn_expect
    · intro c o h; exact hfail _ _ (.head h)
    · apply ih
      · intro c o h; exact hfail _ _ (h.cons m w)
      · exact hk.mono (fun c o h => by simpa [okConv] using h)

/-- Non-`ok` outcomes carry over unchanged when an operation is continued by another. -/
def Outcome.cast : Outcome α → Outcome β
  | .ok _ => .proto   -- never used on `ok`
  | .proto => .proto
  | .bus => .bus
  | .starved => .starved
  | .panic p => .panic p
  | .outOfFuel => .outOfFuel

/-- Language of `p.bind f` in terms of the languages of `p` and of `f`. -/
def BindL (f : α → Prog β) (L : List Ex → Outcome β → Prop) (c : List Ex) (o : Outcome α) : Prop :=
  match o with
  | .ok a => (f a).ConvsIn (fun c' o' => L (c ++ c') o')
  | o => L c o.cast

theorem convsIn_bind_aux {p : Prog α} {f : α → Prog β} {M : List Ex → Outcome α → Prop}
    (h : p.ConvsIn M) : ∀ L : List Ex → Outcome β → Prop, (∀ c o, M c o → BindL f L c o) →
      (p.bind f).ConvsIn L := by
  induction h with
  | done M a h =>
    intro L hl
    have := hl _ _ h
    simpa [BindL, Prog.bind] using this
  | fail M h => intro L hl; exact .fail _ (by simpa [BindL, Outcome.cast] using hl _ _ h)
  | panic M p h => intro L hl; exact .panic _ p (by simpa [BindL, Outcome.cast] using hl _ _ h)
  | outOfFuel M h => intro L hl; exact .outOfFuel _ (by simpa [BindL, Outcome.cast] using hl _ _ h)
  | send M m k h1 h2 _ ih =>
    intro L hl
    simp only [Prog.bind]
    refine .send _ m _ (by simpa [BindL, Outcome.cast] using hl _ _ h1)
      (by simpa [BindL, Outcome.cast] using hl _ _ h2) ?_
    intro r
    apply ih r
    intro c o hm
    have := hl _ _ hm
    cases o <;> simpa [BindL] using this

theorem convsIn_bind {p : Prog α} {f : α → Prog β} {L : List Ex → Outcome β → Prop}
    (h : p.ConvsIn (BindL f L)) : (p.bind f).ConvsIn L :=
  convsIn_bind_aux h L (fun _ _ h => h)

/-! ### `ensure_unconfigured` -/

def finishReqs (a : UInt16) : List (Msg × Option Msg) :=
  [(.requestOp a .finishReset, some (.ackOp a .finishReset)),
   (.hello a, some (.reportState a .unconfigured))]

def startReqs (a : UInt16) : List (Msg × Option Msg) :=
  [(.requestOp a .startReset, some (.ackOp a .startReset)),
   (.hello a, some (.reportState a .readyToReset))] ++ finishReqs a

/-- "Ensures that the sign is in the `Unconfigured` state. If it already is, nothing to do.
    Otherwise start or finish a reset as appropriate": the successful conversations. -/
inductive EnsureOK (a : UInt16) : List Ex → Prop where
  | already : EnsureOK a [ans (.hello a) (some (.reportState a .unconfigured))]
  | finish : EnsureOK a (ans (.hello a) (some (.reportState a .readyToReset)) :: okConv (finishReqs a))
  | full (r : Option Msg) : r ≠ some (.reportState a .unconfigured) →
      r ≠ some (.reportState a .readyToReset) → EnsureOK a (ans (.hello a) r :: okConv (startReqs a))

/-- ... and the ways it ends early. -/
inductive EnsureStop (a : UInt16) : List Ex → Outcome α → Prop where
  | helloStarved : EnsureStop a [(.hello a, none)] .starved
  | helloBus : EnsureStop a [(.hello a, some .busError)] .bus
  | finish (c o) : MustFail (finishReqs a) c o →
      EnsureStop a (ans (.hello a) (some (.reportState a .readyToReset)) :: c) o
  | full (r : Option Msg) (c o) : r ≠ some (.reportState a .unconfigured) →
      r ≠ some (.reportState a .readyToReset) → MustFail (startReqs a) c o →
      EnsureStop a (ans (.hello a) r :: c) o

theorem convsIn_ensure {L : List Ex → Outcome α → Prop} (a : UInt16) (k : Prog α)
    (hstop : ∀ c o, EnsureStop a c o → L c o)
    (hk : ∀ c1, EnsureOK a c1 → k.ConvsIn (fun c o => L (c1 ++ c) o)) :
    (ensureUnconfigured a k).ConvsIn L := by
  unfold ensureUnconfigured
  refine .send _ _ _ (hstop _ _ .helloStarved) (hstop _ _ .helloBus) ?_
  intro r
  by_cases h1 : r = some (.reportState a .unconfigured)
  · simp only [h1, ↓reduceIte]
    exact (hk _ .already).mono (fun c o h => by simpa using h)
  · simp only [h1, ↓reduceIte]
    by_cases h2 : r = some (.reportState a .readyToReset)
    · simp only [h2, ↓reduceIte]
      have : finishResetSeq a k = mustProg (finishReqs a) k := rfl
      rw [this]
      apply convsIn_must
      · intro c o h; exact hstop _ _ (.finish c o h)
      · exact (hk _ .finish).mono (fun c o h => by simpa using h)
    · simp only [h2, ↓reduceIte]
      have : (expect (.requestOp a .startReset) (some (.ackOp a .startReset)) <|
          expect (.hello a) (some (.reportState a .readyToReset)) <| finishResetSeq a k) =
          mustProg (startReqs a) k := rfl
      rw [this]
      apply convsIn_must
      · intro c o h; exact hstop _ _ (.full r c o h1 h2 h)
      · exact (hk _ (.full r h1 h2)).mono (fun c o h => by simpa using h)

/-! ### `configure`, `configure_if_needed` -/

/-- The chunk messages of the configuration transfer: the 16-byte block of the sign type. -/
def cfgMsgs (t : SignType) : List Msg := allChunkMsgs [t.toBytes]

inductive ConfigureSpec (a : UInt16) (t : SignType) : List Ex → Outcome Unit → Prop where
  | ensureStop (c o) : EnsureStop a c o → ConfigureSpec a t c o
  | transfer (c1 c2 o) : EnsureOK a c1 →
      TransferSpec a (cfgMsgs t) .receiveConfig .configReceived .configFailed 2 c2 o →
      ConfigureSpec a t (c1 ++ c2) o

theorem cfgMsgs_length (t : SignType) : (cfgMsgs t).length = 1 := by cases t <;> rfl

theorem configure_refines (a : UInt16) (t : SignType) :
    (configure a t).ConvsIn (ConfigureSpec a t) := by
  unfold configure
  apply convsIn_ensure
  · intro c o h; exact .ensureStop c o h
  · intro c1 h1
    have := transfer_refines a (cfgMsgs t) .receiveConfig .configReceived .configFailed 2
      (by rw [cfgMsgs_length]; omega)
    exact this.mono (fun c o h => .transfer c1 c o h1 h)

/-- "If the sign has already been configured and is in a state where it can receive pages, nothing
    will happen. Otherwise, it will be reset" (i.e. `configure`). -/
inductive ConfigureIfNeededSpec (a : UInt16) (t : SignType) : List Ex → Outcome Unit → Prop where
  | helloStarved : ConfigureIfNeededSpec a t [(.hello a, none)] .starved
  | helloBus : ConfigureIfNeededSpec a t [(.hello a, some .busError)] .bus
  | ready (s : State) : s ∈ readyStates →
      ConfigureIfNeededSpec a t [ans (.hello a) (some (.reportState a s))] (.ok ())
  | configure (r : Option Msg) (c o) : (∀ s ∈ readyStates, r ≠ some (.reportState a s)) →
      ConfigureSpec a t c o → ConfigureIfNeededSpec a t (ans (.hello a) r :: c) o

theorem ownReport?_eq_some (a : UInt16) (r : Option Msg) (s : State) :
    ownReport? a r = some s ↔ r = some (.reportState a s) := by
  cases r with
  | none => simp [ownReport?]
  | some m =>
    cases m <;> simp [ownReport?]

theorem configureIfNeeded_refines (a : UInt16) (t : SignType) :
    (configureIfNeeded a t).ConvsIn (ConfigureIfNeededSpec a t) := by
  unfold configureIfNeeded
  refine .send _ _ _ .helloStarved .helloBus ?_
  intro r
  cases hr : ownReport? a r with
  | some s =>
    have e := (ownReport?_eq_some a r s).mp hr
    by_cases hs : s ∈ readyStates
    · simp only [hs, ↓reduceIte]
      subst e
      exact .done _ _ (.ready s hs)
    · simp only [hs, ↓reduceIte]
      refine (configure_refines a t).mono (fun c o h => .configure r c o ?_ h)
      intro s' hs' e'
      rw [e] at e'
      have : s = s' := by simpa using e'
      subst this
      exact hs hs'
  | none =>
    simp only
    refine (configure_refines a t).mono (fun c o h => .configure r c o ?_ h)
    intro s' _ e'
    rw [← ownReport?_eq_some] at e'
    rw [hr] at e'
    cases e'

/-! ### `send_pages` -/

inductive SendPagesSpec (a : UInt16) (pages : List (List UInt8)) :
    List Ex → Outcome FlipStyle → Prop where
  | transferStop (c) (o : Outcome Unit) : (∀ u, o ≠ .ok u) →
      TransferSpec a (allChunkMsgs pages) .receivePixels .pixelsReceived .pixelsFailed 2 c o →
      SendPagesSpec a pages c o.cast
  | completeStop (c1 c2 o) :
      TransferSpec a (allChunkMsgs pages) .receivePixels .pixelsReceived .pixelsFailed 2 c1 (.ok ()) →
      Stop (.pixelsComplete a) none c2 o → SendPagesSpec a pages (c1 ++ c2) o
  | queryStarved (c1) :
      TransferSpec a (allChunkMsgs pages) .receivePixels .pixelsReceived .pixelsFailed 2 c1 (.ok ()) →
      SendPagesSpec a pages (c1 ++ [ans (.pixelsComplete a) none, (.queryState a, none)]) .starved
  | queryBus (c1) :
      TransferSpec a (allChunkMsgs pages) .receivePixels .pixelsReceived .pixelsFailed 2 c1 (.ok ()) →
      SendPagesSpec a pages (c1 ++ [ans (.pixelsComplete a) none, (.queryState a, some .busError)]) .bus
  | automatic (c1) :
      TransferSpec a (allChunkMsgs pages) .receivePixels .pixelsReceived .pixelsFailed 2 c1 (.ok ()) →
      SendPagesSpec a pages
        (c1 ++ [ans (.pixelsComplete a) none, ans (.queryState a) (some (.reportState a .showingPages))])
        (.ok .automatic)
  | manual (c1) (r : Option Msg) : r ≠ some (.reportState a .showingPages) →
      TransferSpec a (allChunkMsgs pages) .receivePixels .pixelsReceived .pixelsFailed 2 c1 (.ok ()) →
      SendPagesSpec a pages (c1 ++ [ans (.pixelsComplete a) none, ans (.queryState a) r]) (.ok .manual)

theorem sendPages_refines (a : UInt16) (pages : List (List UInt8))
    (hlen : (allChunkMsgs pages).length < 65536) :
    (sendPages a pages).ConvsIn (SendPagesSpec a pages) := by
  unfold sendPages
  apply convsIn_bind
  refine (transfer_refines a _ .receivePixels .pixelsReceived .pixelsFailed 2 hlen).mono ?_
  intro c o h
  cases o with
  | ok u =>
    cases u
    simp only [BindL]
    apply convsIn_expect
    · intro c2 o2 hs; exact .completeStop c c2 o2 h hs
    · refine .send _ _ _ (.queryStarved c h) (.queryBus c h) ?_
      intro r
      by_cases hr : r = some (.reportState a .showingPages)
      · simp only [hr, ↓reduceIte]
        exact .done _ _ (by simpa using SendPagesSpec.automatic c h)
      · simp only [hr, ↓reduceIte]
        exact .done _ _ (by simpa using SendPagesSpec.manual c r hr h)
  | proto => exact .transferStop c _ (by simp) h
  | bus => exact .transferStop c _ (by simp) h
  | starved => exact .transferStop c _ (by simp) h
  | panic p => exact .transferStop c _ (by simp) h
  | outOfFuel => exact .transferStop c _ (by simp) h

/-! ### `shut_down` -/

inductive ShutDownSpec (a : UInt16) : List Ex → Outcome Unit → Prop where
  | stop (c o) : Stop (.goodbye a) none c o → ShutDownSpec a c o
  | ok : ShutDownSpec a [ans (.goodbye a) none] (.ok ())

theorem shutDown_refines (a : UInt16) : (shutDown a).ConvsIn (ShutDownSpec a) := by
  unfold shutDown
  apply convsIn_expect
  · intro c o h; exact .stop c o h
  · exact .done _ _ .ok

end Flipdot

namespace Flipdot

/-! ### `switch_page` (show / load-next) -/

/-- "Queries the sign's current state. If `target`, we're done. If `trigger`, request `operation`.
    Continue looping while the state is `PageLoadInProgress` or `PageShowInProgress`, waiting to
    enter `target`. Fails if any other state is reported."  (A sign that flips its own pages —
    `ShowingPages` — makes both calls no-ops.) -/
inductive SwitchSpec (a : UInt16) (target trigger : State) (op : Op) : List Ex → Outcome Unit → Prop where
  | queryStarved : SwitchSpec a target trigger op [(.queryState a, none)] .starved
  | queryBus : SwitchSpec a target trigger op [(.queryState a, some .busError)] .bus
  | showing : SwitchSpec a target trigger op [ans (.queryState a) (some (.reportState a .showingPages))] (.ok ())
  | reached : SwitchSpec a target trigger op [ans (.queryState a) (some (.reportState a target))] (.ok ())
  | requestStop (c o) : trigger ≠ .showingPages → trigger ≠ target →
      Stop (.requestOp a op) (some (.ackOp a op)) c o →
      SwitchSpec a target trigger op (ans (.queryState a) (some (.reportState a trigger)) :: c) o
  | requested (c o) : trigger ≠ .showingPages → trigger ≠ target →
      SwitchSpec a target trigger op c o →
      SwitchSpec a target trigger op
        (ans (.queryState a) (some (.reportState a trigger)) ::
          ans (.requestOp a op) (some (.ackOp a op)) :: c) o
  | waiting (s : State) (c o) : s ≠ .showingPages → s ≠ target → s ≠ trigger →
      s = .pageLoadInProgress ∨ s = .pageShowInProgress → SwitchSpec a target trigger op c o →
      SwitchSpec a target trigger op (ans (.queryState a) (some (.reportState a s)) :: c) o
  | unexpected (r : Option Msg) :
      (∀ s, r = some (.reportState a s) → s ≠ .showingPages ∧ s ≠ target ∧ s ≠ trigger ∧
        s ≠ .pageLoadInProgress ∧ s ≠ .pageShowInProgress) →
      SwitchSpec a target trigger op [ans (.queryState a) r] .proto
  | outOfFuel : SwitchSpec a target trigger op [] .outOfFuel   -- model artefact, see `switch_fuel_enough`

theorem switchPage_refines (a : UInt16) (target trigger : State) (op : Op) (fuel : Nat) :
    (switchPage a target trigger op fuel).ConvsIn (SwitchSpec a target trigger op) := by
  induction fuel with
  | zero => exact .outOfFuel _ .outOfFuel
  | succ fuel ih =>
    unfold switchPage
    refine .send _ _ _ .queryStarved .queryBus ?_
    intro r
    cases hr : ownReport? a r with
    | none =>
      simp only
      refine .fail _ (.unexpected r ?_)
      intro s hs
      rw [← ownReport?_eq_some, hr] at hs
      cases hs
    | some s =>
      have e := (ownReport?_eq_some a r s).mp hr
      subst e
      simp only
      by_cases h1 : s = .showingPages
      · simp only [h1, ↓reduceIte]; exact .done _ _ .showing
      · simp only [h1, ↓reduceIte]
        by_cases h2 : s = target
        · simp only [h2, ↓reduceIte]; exact .done _ _ .reached
        · simp only [h2, ↓reduceIte]
          by_cases h3 : s = trigger
          · subst h3
            simp only [↓reduceIte]
            apply convsIn_expect
            · intro c o h; exact .requestStop c o h1 h2 h
            · exact ih.mono (fun c o h => .requested c o h1 h2 h)
          · simp only [h3, ↓reduceIte]
            by_cases h4 : s = .pageLoadInProgress ∨ s = .pageShowInProgress
            · simp only [h4, ↓reduceIte]
              exact ih.mono (fun c o h => .waiting s c o h1 h2 h3 h4 h)
            · simp only [h4, ↓reduceIte]
              refine .fail _ (.unexpected _ ?_)
              intro s' hs'
              have : s = s' := by simpa using hs'
              subst this
              simp only [not_or] at h4
              exact ⟨h1, h2, h3, h4.1, h4.2⟩

/-- The fuel of the model's polling loop never binds on a finite script: each round consumes at
    least one reply. -/
theorem switch_fuel_enough (a : UInt16) (target trigger : State) (op : Op) (fuel : Nat)
    (script : List Reply) (h : script.length < fuel) :
    ((switchPage a target trigger op fuel).run script).2 ≠ .outOfFuel := by
  induction fuel generalizing script with
  | zero => omega
  | succ fuel ih =>
    unfold switchPage
    cases script with
    | nil => simp
    | cons r rest =>
      cases r with
      | busError => simp
      | ok x =>
        simp only [Prog.run_send_ok]
        have hl : rest.length < fuel := by simp at h; omega
        cases ownReport? a x with
        | none => simp
        | some s =>
          simp only
          split
          · simp
          · split
            · simp
            · split
              · unfold expect
                cases rest with
                | nil => simp
                | cons r2 rest2 =>
                  cases r2 with
                  | busError => simp
                  | ok y =>
                    simp only [Prog.run_send_ok]
                    split
                    · exact ih rest2 (by simp at hl; omega)
                    · simp
              · split
                · exact ih rest hl
                · simp

end Flipdot
