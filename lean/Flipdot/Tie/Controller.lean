/-
Static tie for src/sign.rs: every protocol method of `impl Sign`, compiled statement by statement
into an interaction tree by `translate_ctrl.py` (`Flipdot.Generated.Controller`, regenerated from
/repo on every run), is the hand-written model's tree (`Flipdot.Model.Controller`) — equal as
functions of the replies, hence equal on every reply script, bus and history.  Obligations added to
`./check C08 … C11` and `C17`.

The proofs are deliberately *semantic*: `prog_eq` peels the common sends and decides the remaining
if-chains over a reply by case analysis, so a rewrite of the Rust source that keeps the behaviour
(arms reordered, `match` turned into `if`/early `return`, a condition spelled differently) still
checks, while a changed reaction to some reply leaves an unsolved goal whose hypotheses spell out
the offending reply sequence.
-/
import Flipdot.Generated.Controller
import Flipdot.Props.C10
import Flipdot.Props.C11
import Flipdot.Props.C09
set_option linter.unusedSimpArgs false
namespace Flipdot.Tie.Controller
open Flipdot
namespace G
export Flipdot.Generated.Controller (ensureUnconfigured sendDataLoop sendData configure configureIfNeeded
  sendPages switchPageLoop switchPage loadNextPage showLoadedPage shutDown)
end G

/-- Equality of two interaction trees: peel equal sends, split the if-chains / matches over the
    reply on both sides, and close each combination of cases by simplification. -/
macro "prog_eq" : tactic => `(tactic|
  (simp only [ctrl_unfold, expect, finishResetSeq, Prog.send_bind, Prog.ite_bind, Prog.done_bind, Prog.fail_bind,
     ownReport_some_iff, anyReport_some_iff]
   repeat' (first
     | rfl
     | (apply send_congr; intro _)
     | (apply sendChunks_congr; intro _)
     | (funext _)
     | (split <;> simp_all [ownReport_some_iff, anyReport_some_iff, ownReport_none_iff]))))

/-- `ensure_unconfigured`, compiled from the source, is the model's (with `Ok(())` as continuation). -/
theorem ensureUnconfigured_eq (a : UInt16) :
    G.ensureUnconfigured a = Flipdot.ensureUnconfigured a (.done ()) := by
  unfold Generated.Controller.ensureUnconfigured Flipdot.ensureUnconfigured
  prog_eq

/-- The model's `ensureUnconfigured` threads its continuation. -/
theorem ensure_bind {β : Type} (a : UInt16) (f : Unit → Prog β) :
    (Flipdot.ensureUnconfigured a (.done ())).bind f = Flipdot.ensureUnconfigured a (f ()) := by
  unfold Flipdot.ensureUnconfigured finishResetSeq
  simp only [Prog.bind]
  congr 1; funext r
  split
  · rfl
  · split
    · simp only [expect_bind]; rfl
    · simp only [expect_bind]; rfl

/-- The retry loop of `send_data`, compiled from the source (attempt counter, `MAX_ATTEMPTS`, the
    chunking template), at attempt `3 - retries` with enough fuel, is the model's `transfer` with
    `retries` retries left. -/
theorem sendDataLoop_eq (a : UInt16) (data : List (List UInt8)) (op : Op) (succ failS : State) :
    ∀ retries fuel, retries ≤ 2 → retries < fuel →
      G.sendDataLoop a data op succ failS (3 - retries) fuel
        = transfer a (allChunkMsgs data) op succ failS retries := by
  intro retries
  induction retries with
  | zero =>
    intro fuel _ hf
    obtain ⟨f, rfl⟩ : ∃ f, fuel = f + 1 := ⟨fuel - 1, by omega⟩
    simp only [Generated.Controller.sendDataLoop, transfer, chunkMsgsGen_16]
    prog_eq
  | succ n ih =>
    intro fuel hr hf
    obtain ⟨f, rfl⟩ : ∃ f, fuel = f + 1 := ⟨fuel - 1, by omega⟩
    have hlt : 3 - (n + 1) < 3 := by omega
    have hstep : 3 - (n + 1) + 1 = 3 - n := by omega
    have ih' := ih f (by omega) (by omega)
    simp only [Generated.Controller.sendDataLoop, transfer, chunkMsgsGen_16, hstep, ih']
    prog_eq

/-- `send_data` compiled from the source is the model's three-attempt `transfer`. -/
theorem sendData_eq (a : UInt16) (data : List (List UInt8)) (op : Op) (succ failS : State) (fuel : Nat)
    (h : 3 ≤ fuel) : G.sendData a data op succ failS fuel = transfer a (allChunkMsgs data) op succ failS 2 := by
  unfold Generated.Controller.sendData
  exact sendDataLoop_eq a data op succ failS 2 fuel (by omega) (by omega)

/-- `Sign::configure`. -/
theorem configure_eq (a : UInt16) (t : SignType) (fuel : Nat) (h : 3 ≤ fuel) :
    G.configure a t fuel = Flipdot.configure a t := by
  unfold Generated.Controller.configure Flipdot.configure
  rw [ensureUnconfigured_eq, ensure_bind, sendData_eq _ _ _ _ _ _ h]

/-- `Sign::configure_if_needed`. -/
theorem configureIfNeeded_eq (a : UInt16) (t : SignType) (fuel : Nat) (h : 3 ≤ fuel) :
    G.configureIfNeeded a t fuel = Flipdot.configureIfNeeded a t := by
  unfold Generated.Controller.configureIfNeeded Flipdot.configureIfNeeded
  simp only [Prog.bind_done_unit, configure_eq a t fuel h]
  apply send_congr; intro r
  cases ho : ownReport? a r with
  | none =>
    have hne : ∀ s, r ≠ some (.reportState a s) := ownReport_none_iff.1 ho
    simp [hne, ownReport_some_iff]
  | some s =>
    have hr := (ownReport_some_iff).1 ho
    subst hr
    cases s <;> simp [readyStates, ownReport_some_iff]

/-- `Sign::send_pages`. -/
theorem sendPages_eq (a : UInt16) (pages : List (List UInt8)) (fuel : Nat) (h : 3 ≤ fuel) :
    G.sendPages a pages fuel = Flipdot.sendPages a pages := by
  unfold Generated.Controller.sendPages Flipdot.sendPages
  rw [sendData_eq _ _ _ _ _ _ h]
  congr 1; funext _
  prog_eq

/-- One polling loop instance: after fixing target, trigger and operation (the private `switch_page` is
    only ever called with the two combinations below) the compiled loop is the model's, for every fuel.
    The reply is classified as own report of one of the 13 states / anything else, which decides every
    condition on both sides. -/
macro "switch_page_eq" a:ident : tactic => `(tactic|
  (unfold Generated.Controller.switchPage
   intro fuel
   induction fuel with
   | zero => rfl
   | succ f ih =>
     simp only [Generated.Controller.switchPageLoop, Flipdot.switchPage, ih, ctrl_unfold, Prog.send_bind, Prog.ite_bind, Prog.done_bind, Prog.fail_bind, expect]
     apply send_congr; intro r
     cases ho : ownReport? $a r with
     | none =>
       have hne : ∀ s, r ≠ some (.reportState $a s) := ownReport_none_iff.1 ho
       simp [hne, ownReport_some_iff]
     | some s =>
       have hr := (ownReport_some_iff).1 ho
       subst hr
       cases s <;> simp [ctrl_unfold, Prog.send_bind, Prog.ite_bind, ownReport_some_iff, expect]))

/-- `Sign::load_next_page` = `switch_page(PageLoaded, PageShown, LoadNextPage)`. -/
theorem loadNextPage_eq (a : UInt16) : ∀ fuel, G.loadNextPage a fuel = Flipdot.loadNextPage a fuel := by
  unfold Generated.Controller.loadNextPage Flipdot.loadNextPage
  switch_page_eq a

/-- `Sign::show_loaded_page` = `switch_page(PageShown, PageLoaded, ShowLoadedPage)`. -/
theorem showLoadedPage_eq (a : UInt16) : ∀ fuel, G.showLoadedPage a fuel = Flipdot.showLoadedPage a fuel := by
  unfold Generated.Controller.showLoadedPage Flipdot.showLoadedPage
  switch_page_eq a

theorem shutDown_eq (a : UInt16) : G.shutDown a = Flipdot.shutDown a := by
  unfold Generated.Controller.shutDown Flipdot.shutDown
  prog_eq

/-! ### C10 and C11 stated of the source text

With the equalities above, the property theorems (about the model's trees) are theorems about the interaction trees
compiled from src/sign.rs as it is today: for every reply script — of any length, with any replies — the conversation
the source's method holds is one the documented protocol prescribes, with the prescribed outcome. -/

theorem src_configure_follows_protocol (a : UInt16) (t : SignType) (fuel : Nat) (h : 3 ≤ fuel) (script : List Reply) :
    ConfigureSpec a t ((G.configure a t fuel).run script).1 ((G.configure a t fuel).run script).2 := by
  rw [configure_eq a t fuel h]; exact C10.configure_follows_protocol a t script

theorem src_configureIfNeeded_follows_protocol (a : UInt16) (t : SignType) (fuel : Nat) (h : 3 ≤ fuel)
    (script : List Reply) :
    ConfigureIfNeededSpec a t ((G.configureIfNeeded a t fuel).run script).1
      ((G.configureIfNeeded a t fuel).run script).2 := by
  rw [configureIfNeeded_eq a t fuel h]; exact C10.configureIfNeeded_follows_protocol a t script

theorem src_sendPages_follows_protocol (a : UInt16) (pages : List (List UInt8)) (fuel : Nat) (h : 3 ≤ fuel)
    (script : List Reply) (hn : (allChunkMsgs pages).length < 65536) :
    SendPagesSpec a pages ((G.sendPages a pages fuel).run script).1 ((G.sendPages a pages fuel).run script).2 := by
  rw [sendPages_eq a pages fuel h]; exact C10.sendPages_follows_protocol a pages script hn

theorem src_showLoadedPage_follows_protocol (a : UInt16) (fuel : Nat) (script : List Reply) :
    SwitchSpec a .pageShown .pageLoaded .showLoadedPage
      ((G.showLoadedPage a fuel).run script).1 ((G.showLoadedPage a fuel).run script).2 := by
  rw [showLoadedPage_eq a fuel]; exact C10.showLoadedPage_follows_protocol a fuel script

theorem src_loadNextPage_follows_protocol (a : UInt16) (fuel : Nat) (script : List Reply) :
    SwitchSpec a .pageLoaded .pageShown .loadNextPage
      ((G.loadNextPage a fuel).run script).1 ((G.loadNextPage a fuel).run script).2 := by
  rw [loadNextPage_eq a fuel]; exact C10.loadNextPage_follows_protocol a fuel script

theorem src_shutDown_follows_protocol (a : UInt16) (script : List Reply) :
    ShutDownSpec a ((G.shutDown a).run script).1 ((G.shutDown a).run script).2 := by
  rw [shutDown_eq a]; exact C10.shutDown_follows_protocol a script

/-- C11 on the source text: every addressed message `configure` / `send_pages` send carries the controller's own
    address, whatever the replies. -/
theorem src_configure_own_address (a : UInt16) (t : SignType) (fuel : Nat) (h : 3 ≤ fuel) (script : List Reply) :
    ∀ e ∈ ((G.configure a t fuel).run script).1, OwnOrNone a e.1 := by
  rw [configure_eq a t fuel h]; exact C11.configure_own_address a t script

theorem src_sendPages_own_address (a : UInt16) (pages : List (List UInt8)) (fuel : Nat) (h : 3 ≤ fuel)
    (script : List Reply) :
    ∀ e ∈ ((G.sendPages a pages fuel).run script).1, OwnOrNone a e.1 := by
  rw [sendPages_eq a pages fuel h]; exact C11.sendPages_own_address a pages script

/-- C09 on the source text: whenever `configure` reaches the configuration phase, what follows is a transfer of the
    sign type's 16-byte block in attempts of (request, every chunk in order, chunk count, query); otherwise no data
    message was sent at all. -/
theorem src_configure_shape (a : UInt16) (t : SignType) (fuel : Nat) (h : 3 ≤ fuel) (script : List Reply) :
    (∃ c1 c2, ((G.configure a t fuel).run script).1 = c1 ++ c2 ∧ EnsureOK a c1 ∧
        AttemptShape (attemptMsgs a [.sendData 0 t.toBytes] .receiveConfig) 2 (msgsOf c2)) ∨
    (EnsureStop a ((G.configure a t fuel).run script).1 ((G.configure a t fuel).run script).2) := by
  rw [configure_eq a t fuel h]; exact C09.configure_shape a t script

end Flipdot.Tie.Controller
