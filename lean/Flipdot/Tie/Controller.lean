/-
Static tie for src/sign.rs: every protocol method of `impl Sign`, compiled statement by statement
into an interaction tree by `translate_ctrl.py` (`Flipdot.Generated.Controller`, regenerated from
/repo on every run), is the hand-written model's tree (`Flipdot.Model.Controller`) — equal as
functions of the replies, hence equal on every reply script, bus and history.  Obligations added to
`./check C08 … C11`.
-/
import Flipdot.Generated.Controller
namespace Flipdot.Tie.Controller
open Flipdot
namespace G
export Flipdot.Generated.Controller (ensureUnconfigured sendDataLoop sendData configure configureIfNeeded
  sendPages switchPageLoop switchPage loadNextPage showLoadedPage shutDown)
end G

/-- `ensure_unconfigured`, compiled from the source, is the model's (with `Ok(())` as continuation). -/
theorem ensureUnconfigured_eq (a : UInt16) :
    G.ensureUnconfigured a = Flipdot.ensureUnconfigured a (.done ()) := rfl

/-- The model's `ensureUnconfigured` threads its continuation. -/
theorem ensure_bind {β : Type} (a : UInt16) (f : Unit → Prog β) :
    (Flipdot.ensureUnconfigured a (.done ())).bind f = Flipdot.ensureUnconfigured a (f ()) := by
  unfold Flipdot.ensureUnconfigured finishResetSeq
  simp only [Prog.bind]
  congr 1; funext r
  split
  · rfl
  · split
    · simp only [expect_bind]; rfl
    · simp only [expect_bind]; rfl

/-- The retry loop of `send_data`, compiled from the source (attempt counter, `MAX_ATTEMPTS`, the
    chunking template), at attempt `3 - retries` with enough fuel, is the model's `transfer` with
    `retries` retries left. -/
theorem sendDataLoop_eq (a : UInt16) (data : List (List UInt8)) (op : Op) (succ failS : State) :
    ∀ retries fuel, retries ≤ 2 → retries < fuel →
      G.sendDataLoop a data op succ failS (3 - retries) fuel
        = transfer a (allChunkMsgs data) op succ failS retries := by
  intro retries
  induction retries with
  | zero =>
    intro fuel _ hf
    obtain ⟨f, rfl⟩ : ∃ f, fuel = f + 1 := ⟨fuel - 1, by omega⟩
    simp only [Generated.Controller.sendDataLoop, transfer, chunkMsgsGen_16]
    apply expect_congr; apply sendChunks_congr; intro n; apply expect_congr; apply send_congr; intro r
    simp
  | succ n ih =>
    intro fuel hr hf
    obtain ⟨f, rfl⟩ : ∃ f, fuel = f + 1 := ⟨fuel - 1, by omega⟩
    have hlt : 3 - (n + 1) < 3 := by omega
    have hstep : 3 - (n + 1) + 1 = 3 - n := by omega
    simp only [Generated.Controller.sendDataLoop, transfer, chunkMsgsGen_16]
    apply expect_congr; apply sendChunks_congr; intro k; apply expect_congr; apply send_congr; intro r
    simp only [hlt, and_true, hstep]
    rw [ih f (by omega) (by omega)]

/-- `send_data` compiled from the source is the model's three-attempt `transfer`. -/
theorem sendData_eq (a : UInt16) (data : List (List UInt8)) (op : Op) (succ failS : State) (fuel : Nat)
    (h : 3 ≤ fuel) : G.sendData a data op succ failS fuel = transfer a (allChunkMsgs data) op succ failS 2 :=
  sendDataLoop_eq a data op succ failS 2 fuel (by omega) (by omega)

/-- `Sign::configure`. -/
theorem configure_eq (a : UInt16) (t : SignType) (fuel : Nat) (h : 3 ≤ fuel) :
    G.configure a t fuel = Flipdot.configure a t := by
  unfold Generated.Controller.configure Flipdot.configure
  rw [ensureUnconfigured_eq, ensure_bind, sendData_eq _ _ _ _ _ _ h]

/-- `Sign::configure_if_needed`. -/
theorem configureIfNeeded_eq (a : UInt16) (t : SignType) (fuel : Nat) (h : 3 ≤ fuel) :
    G.configureIfNeeded a t fuel = Flipdot.configureIfNeeded a t := by
  unfold Generated.Controller.configureIfNeeded Flipdot.configureIfNeeded
  apply send_congr; intro r
  simp only [Prog.bind_done_unit, configure_eq a t fuel h]
  cases ho : ownReport? a r with
  | none =>
    have hne : ∀ s, r ≠ some (.reportState a s) := fun s hr => by
      rw [(ownReport?_eq_some).2 hr] at ho; cases ho
    simp [hne]
  | some s =>
    have hr := (ownReport?_eq_some).1 ho
    subst hr
    cases s <;> simp [readyStates]

/-- `Sign::send_pages`. -/
theorem sendPages_eq (a : UInt16) (pages : List (List UInt8)) (fuel : Nat) (h : 3 ≤ fuel) :
    G.sendPages a pages fuel = Flipdot.sendPages a pages := by
  unfold Generated.Controller.sendPages Flipdot.sendPages
  rw [sendData_eq _ _ _ _ _ _ h]
  congr 1; funext _
  apply expect_congr; apply send_congr; intro r2
  by_cases hr : r2 = some (.reportState a .showingPages)
  · subst hr; simp [ownReport?]
  · have : ownReport? a r2 ≠ some .showingPages := fun h' => hr ((ownReport?_eq_some).1 h')
    simp [hr, this]

/-- `switch_page`: the polling loop compiled from the source is the model's, for every fuel. -/
theorem switchPage_eq (a : UInt16) (target trigger : State) (op : Op) (fuel : Nat) :
    G.switchPage a target trigger op fuel = Flipdot.switchPage a target trigger op fuel := by
  unfold Generated.Controller.switchPage
  induction fuel with
  | zero => rfl
  | succ f ih =>
    simp only [Generated.Controller.switchPageLoop, Flipdot.switchPage]
    apply send_congr; intro r
    cases ho : ownReport? a r with
    | none =>
      have hne : ∀ s, r ≠ some (.reportState a s) := fun s hr => by
        rw [(ownReport?_eq_some).2 hr] at ho; cases ho
      simp [hne]
    | some s =>
      have hr := (ownReport?_eq_some).1 ho
      subst hr
      simp only [Option.some.injEq, Msg.reportState.injEq, true_and, ih]

theorem loadNextPage_eq (a : UInt16) (fuel : Nat) : G.loadNextPage a fuel = Flipdot.loadNextPage a fuel :=
  switchPage_eq a _ _ _ fuel

theorem showLoadedPage_eq (a : UInt16) (fuel : Nat) : G.showLoadedPage a fuel = Flipdot.showLoadedPage a fuel :=
  switchPage_eq a _ _ _ fuel

theorem shutDown_eq (a : UInt16) : G.shutDown a = Flipdot.shutDown a := rfl

end Flipdot.Tie.Controller
