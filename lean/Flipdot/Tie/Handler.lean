/-
The handler methods of `VirtualSign` that `process_message` dispatches to (names only); the
regenerated dispatch table of `Flipdot.Generated.VSign` maps message kinds to these.
-/
namespace Flipdot

inductive Handler where
  | queryState | receiveConfig | sendData | dataChunksSent | receivePixels | pixelsComplete
  | showLoadedPage | loadNextPage | startReset | finishReset | goodbye
  deriving DecidableEq, Repr

end Flipdot
