/-
Combinators the statement-level translation of `SerialSignBus::process_message` and `Odk::process_message`
(`translate_serial.py` → `Flipdot.Generated.SerialBus`) is written in: one per effectful statement of the two
methods, in continuation-passing style over the model's port (`Flipdot.Port`) and event trace.

  frame.write(&mut self.port)?;              SM.write frame <| rest          OM.write frame <| rest
  if let Some(d) = delay { thread::sleep(d) } SM.sleep delay <| rest
  let f = Frame::read(&mut self.port)?;       SM.read fun f => rest           OM.read fun f => rest
  let r = self.bus.process_message(m)?;                                       OM.bus m fun r => rest
  Ok(v)                                       SM.ret (.ok v)                  OM.ret

`?` on a failed write / read ends the method with the error (`BusResult.err`, `OdkResult.comm`), as in the
model (`serialStep`, `odkStep`); what std's `write_all` / `read_until` do underneath is the model's
`frameWrite` / `frameRead` (Model/Io.lean, tied by the C15 correspondence run).
-/
import Flipdot.Model.Serial
namespace Flipdot

/-- A `SerialSignBus::process_message` computation from some point on: the events from there, the result,
    the port afterwards. -/
abbrev SM := Port → List PortEvent × BusResult × Port

def SM.write (f : Frame) (k : SM) : SM := fun p =>
  let w := frameWrite f p.wr
  let p1 : Port := { p with wr := w.2.2 }
  if w.1 then
    let r := k p1
    (.wrote w.2.1 true :: r.1, r.2.1, r.2.2)
  else ([.wrote w.2.1 false], .err, p1)

def SM.sleep (d : Option Nat) (k : SM) : SM := fun p =>
  let r := k p
  (sleepEv d ++ r.1, r.2.1, r.2.2)

def SM.read (k : Frame → SM) : SM := fun p =>
  let r := frameRead p.rd
  let p2 : Port := { p with rd := r.2 }
  match r.1 with
  | .ok f =>
    let q := k f p2
    (.readLine :: q.1, q.2.1, q.2.2)
  | _ => ([.readLine], .err, p2)

def SM.ret (r : BusResult) : SM := fun p => ([], r, p)

/-- An `Odk::process_message` computation from some point on, over a virtual bus. -/
abbrev OM := List VSign → Port → Except Panic (OdkResult × List UInt8 × List VSign × Port)

def OM.read (k : Frame → OM) : OM := fun bus p =>
  let r := frameRead p.rd
  let p1 : Port := { p with rd := r.2 }
  match r.1 with
  | .ok f => k f bus p1
  | _ => .ok (.comm, [], bus, p1)

def OM.bus (m : Msg) (k : Option Msg → OM) : OM := fun bus p =>
  match busStep bus m with
  | .error e => .error e
  | .ok (bus', r) => k r bus' p

def OM.write (f : Frame) (k : OM) : OM := fun bus p =>
  let w := frameWrite f p.wr
  let p1 : Port := { p with wr := w.2.2 }
  if w.1 then
    match k bus p1 with
    | .error e => .error e
    | .ok r => .ok (r.1, w.2.1 ++ r.2.1, r.2.2.1, r.2.2.2)
  else .ok (.comm, w.2.1, bus, p1)

def OM.ret : OM := fun bus p => .ok (.ok, [], bus, p)

end Flipdot
