/-
Static tie for libs/core/src/message.rs: the tables that `translate.py` regenerates from the Rust
source on every run (`Flipdot.Generated.Message`) equal the hand-written model (`toMsg`, `toFrame`)
on their whole domain.  Theorems here are the obligations `./check C04` and `./check C05` add to
those of `Props/`; they are re-proved against whatever the source says now.
-/
import Flipdot.Generated.Message
import Flipdot.Lemmas.Bytes
import Flipdot.Lemmas.Message
namespace Flipdot.Tie.Message
open Flipdot Flipdot.Generated.Message

/-- Empty data: the source's match on the message type is the model's classification. -/
theorem decode0_eq : ∀ ty : UInt8, decodeKind0 ty = kindOf ty [] := by
  apply UInt8.forall_of_fin; decide +kernel

/-- One data byte, the seven types the protocol table mentions: all 7 × 256 (type, byte) pairs. -/
theorem decode1_listed : ∀ b : UInt8, ∀ ty ∈ tableTypes, decodeKind1 ty b = kindOf ty [b] := by
  apply UInt8.forall_of_fin; decide +kernel

set_option linter.unusedSimpArgs false in
/-- One data byte, any other type: every arm of the source's match names a type in the table, so the
    catch-all applies. -/
theorem decode1_other (ty b : UInt8) (h : ty ∉ tableTypes) : decodeKind1 ty b = .unknown := by
  simp only [tableTypes, List.mem_cons, List.not_mem_nil, or_false, not_or] at h
  obtain ⟨h0, h1, h2, h3, h4, h5, h6⟩ := h
  unfold decodeKind1
  simp [h0, h1, h2, h3, h4, h5, h6]

/-- One data byte: all 65536 (type, byte) pairs. -/
theorem decode1_eq (ty b : UInt8) : decodeKind1 ty b = kindOf ty [b] := by
  by_cases h : ty ∈ tableTypes
  · exact decode1_listed b ty h
  · rw [decode1_other ty b h, kindOf_other ty b h]

/-- Two or more data bytes. -/
theorem decodeN_eq : ∀ ty : UInt8, decodeKindN ty = kindOf ty [0, 0] := by
  apply UInt8.forall_of_fin; decide +kernel

/-- `Message::from(Frame)` as the source spells it: the outer match on the data length, the three
    generated inner tables, and the field copying of `Kind.build`. -/
def srcToMsg (f : Frame) : Msg :=
  (match f.data with
   | [] => decodeKind0 f.ty
   | [b] => decodeKind1 f.ty b
   | _ :: _ :: _ => decodeKindN f.ty).build f

/-- The regenerated decoder is the model's `toMsg` on every frame. -/
theorem src_toMsg (f : Frame) : srcToMsg f = toMsg f := by
  rw [toMsg_eq_build]
  unfold srcToMsg
  obtain ⟨a, ty, d⟩ := f
  match d with
  | [] => simp only [decode0_eq]
  | [b] => simp only [decode1_eq]
  | x :: y :: r => simp only [decodeN_eq, kindOf_long]

/-- `Frame::from(Message)` as the source spells it. -/
def srcToFrame (m : Msg) : Frame := (encodeShape m.kind).apply m.fields

/-- The regenerated encoder is the model's `toFrame` on every message. -/
theorem src_toFrame (m : Msg) : srcToFrame m = toFrame m := by
  cases m with
  | reportState a s => cases s <;> rfl
  | requestOp a o => cases o <;> rfl
  | ackOp a o => cases o <;> rfl
  | _ => rfl

/-- Consequently the round trip through the *regenerated* tables is the identity (C04's first
    sentence, stated for the source's own tables). -/
theorem src_roundtrip (f : Frame) : srcToFrame (srcToMsg f) = f := by
  rw [src_toMsg, src_toFrame]
  exact toFrame_toMsg f

end Flipdot.Tie.Message
