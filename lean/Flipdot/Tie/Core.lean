/-
Static tie for libs/core/src/page.rs and the encoder side of libs/core/src/frame.rs, statement level:
the functions compiled from the source by `translate_core.py` (`Flipdot.Generated.Core`, regenerated
from /repo on every run) are the hand-written model's.  Obligations added to `./check C01 C06 C07`
(and C02 / C03 / C08, which rest on the same definitions).
-/
import Flipdot.Generated.Core
import Flipdot.Lemmas.Bytes
import Flipdot.Props.C01
import Flipdot.Props.C06
set_option linter.unusedSimpArgs false
namespace Flipdot.Tie.Core
open Flipdot
namespace GP
export Flipdot.Generated.Core.Page (headerLen bytesPerColumn dataBytes totalBytes byteBitIndices new fromBytes
  getPixel setPixel setAllPixels id)
end GP
namespace GF
export Flipdot.Generated.Core.Frame (checksum payload payloadPure toBytes toBytesWithNewline dataMax dataMaxReported
  frameRegexIsPinned fromCaptures)
end GF

/-! ### page.rs -/

theorem nat_shr3 (n : Nat) : n >>> 3 = n / 8 := by simp [Nat.shiftRight_eq_div_pow]
theorem nat_and7 (n : Nat) : n &&& 7 = n % 8 := by
  have := Nat.and_two_pow_sub_one_eq_mod n 3
  simpa using this

theorem bytesPerColumn_eq (h : Nat) : GP.bytesPerColumn h = bpc h := by
  simp [Generated.Core.Page.bytesPerColumn, bpc, nat_shr3]

theorem dataBytes_eq (w h : Nat) : GP.dataBytes w h = dataBytes w h := by
  simp [Generated.Core.Page.dataBytes, dataBytes, bytesPerColumn_eq]

theorem totalBytes_eq (w h : Nat) : GP.totalBytes w h = totalBytes w h := by
  simp [Generated.Core.Page.totalBytes, totalBytes, dataBytes_eq]

theorem ofNat_mod8 (y : Nat) : (UInt8.ofNat (y % 8)).toNat = y % 8 := by
  have : y % 8 < 256 := by omega
  simp [UInt8.toNat_ofNat, Nat.mod_eq_of_lt this]

theorem byteBitIndices_eq (p : Page) (x y : Nat) : GP.byteBitIndices p x y = p.indices x y := by
  have h256 : y % 8 % 256 = y % 8 := Nat.mod_eq_of_lt (by omega)
  simp [Generated.Core.Page.byteBitIndices, Page.indices, bytesPerColumn_eq, ofNat_mod8, nat_shr3, nat_and7, h256]

theorem new_eq (id : UInt8) (w h : Nat) : GP.new id w h = Page.new id w h := by
  simp [Generated.Core.Page.new, Page.new, dataBytes_eq, totalBytes_eq]

theorem fromBytes_eq (w h : Nat) (bs : List UInt8) : GP.fromBytes w h bs = Page.fromBytes w h bs := by
  simp [Generated.Core.Page.fromBytes, Page.fromBytes, totalBytes_eq]

theorem getPixel_eq (p : Page) (x y : Nat) : GP.getPixel p x y = p.get x y := by
  unfold Generated.Core.Page.getPixel Page.get
  rw [byteBitIndices_eq]
  cases h : p.indices x y with
  | error e => rfl
  | ok ib =>
    obtain ⟨i, bit⟩ := ib
    simp only [liftE, idxE]
    cases p.bytes[i]? with
    | none => rfl
    | some b =>
      simp only [testMask, bitMask]
      congr 1
      try (by_cases hb : b &&& (1 : UInt8) <<< UInt8.ofNat bit = (1 : UInt8) <<< UInt8.ofNat bit <;> simp [hb])

theorem setPixel_eq (p : Page) (x y : Nat) (v : Bool) : GP.setPixel p x y v = p.set x y v := by
  unfold Generated.Core.Page.setPixel Page.set
  rw [byteBitIndices_eq]
  cases h : p.indices x y with
  | error e => rfl
  | ok ib =>
    obtain ⟨i, bit⟩ := ib
    simp only [liftE, idxE]
    cases p.bytes[i]? with
    | none => rfl
    | some b => cases v <;> simp [setMask, bitMask]

theorem setAllPixels_eq (p : Page) (v : Bool) : GP.setAllPixels p v = p.setAll v := by
  unfold Generated.Core.Page.setAllPixels Page.setAll
  simp only [dataBytes_eq, liftE]
  cases v
  · cases fillRange p.bytes 4 (dataBytes p.w p.h) (if false = true then (255 : UInt8) else 0) <;> rfl
  · cases fillRange p.bytes 4 (dataBytes p.w p.h) (if true = true then (255 : UInt8) else 0) <;> rfl

theorem id_eq (p : Page) : GP.id p = p.id := by
  unfold Generated.Core.Page.id Page.id idxE
  cases p.bytes[0]? <;> rfl

/-! ### frame.rs (encoder) -/

theorem u8_neg (x : UInt8) : ~~~ x + 1 = 0 - x := by
  revert x; apply UInt8.forall_of_fin; decide +kernel

theorem sum_acc (bs : List UInt8) (c : UInt8) : bs.foldl (· + ·) c = c + bs.foldl (· + ·) 0 := by
  induction bs generalizing c with
  | nil => simp
  | cons d ds ih =>
    simp only [List.foldl_cons]
    rw [ih (c + d), ih (0 + d)]
    simp only [UInt8.zero_add, UInt8.add_assoc]

theorem lrc_acc (bs : List UInt8) (a : UInt8) : bs.foldl (· - ·) a = a - bs.foldl (· + ·) 0 := by
  induction bs generalizing a with
  | nil => simp
  | cons b bs ih =>
    simp only [List.foldl_cons]
    rw [ih (a - b), sum_acc bs (0 + b)]
    generalize bs.foldl (· + ·) 0 = t
    apply UInt8.eq_of_toBitVec_eq
    simp
    bv_omega

/-- The checksum: a wrapping subtraction of every byte from zero, or (the source's own comment) the two's
    complement of the wrapping sum — both spellings are the model's `lrc`. -/
theorem checksum_eq (bs : List UInt8) : GF.checksum bs = lrc bs := by
  first
    | rfl
    | (simp only [Generated.Core.Frame.checksum, lrc, u8_neg]
       exact (lrc_acc bs 0).symm)

theorem payload_eq (f : Frame) : GF.payload f = .ok (Flipdot.payload f) := by
  simp [Generated.Core.Frame.payload, Flipdot.payload]

/-- The two table look-ups of the hex loop never go out of bounds and give the model's digits. -/
theorem hexLookup (b : UInt8) (acc : List UInt8) :
    (idxE [0x30, 0x31, 0x32, 0x33, 0x34, 0x35, 0x36, 0x37, 0x38, 0x39, 0x41, 0x42, 0x43, 0x44, 0x45, 0x46]
        (b >>> (0x04 : UInt8)).toNat fun b3 =>
      idxE [0x30, 0x31, 0x32, 0x33, 0x34, 0x35, 0x36, 0x37, 0x38, 0x39, 0x41, 0x42, 0x43, 0x44, 0x45, 0x46]
          (b &&& (0x0F : UInt8)).toNat fun b4 =>
        (.ok ((acc ++ [b3]) ++ [b4]) : Except Panic (List UInt8)))
      = .ok (acc ++ hexByte b) := by
  have : ∀ b : UInt8,
      [0x30, 0x31, 0x32, 0x33, 0x34, 0x35, 0x36, 0x37, 0x38, 0x39, 0x41, 0x42, 0x43, 0x44, 0x45, (0x46 : UInt8)][(b >>> (0x04 : UInt8)).toNat]? = some (hexDigit (b >>> 4)) ∧
      [0x30, 0x31, 0x32, 0x33, 0x34, 0x35, 0x36, 0x37, 0x38, 0x39, 0x41, 0x42, 0x43, 0x44, 0x45, (0x46 : UInt8)][(b &&& (0x0F : UInt8)).toNat]? = some (hexDigit (b &&& 0x0F)) := by
    apply UInt8.forall_of_fin; decide +kernel
  obtain ⟨h1, h2⟩ := this b
  simp only [idxE, h1, h2, hexByte, List.append_assoc, List.cons_append, List.nil_append]

theorem hexFold (bs acc : List UInt8) :
    foldlE bs acc (fun acc byte =>
      idxE [0x30, 0x31, 0x32, 0x33, 0x34, 0x35, 0x36, 0x37, 0x38, 0x39, 0x41, 0x42, 0x43, 0x44, 0x45, 0x46]
          (byte >>> (0x04 : UInt8)).toNat fun b3 =>
        idxE [0x30, 0x31, 0x32, 0x33, 0x34, 0x35, 0x36, 0x37, 0x38, 0x39, 0x41, 0x42, 0x43, 0x44, 0x45, 0x46]
            (byte &&& (0x0F : UInt8)).toNat fun b4 =>
          (.ok ((acc ++ [b3]) ++ [b4]) : Except Panic (List UInt8)))
      = .ok (acc ++ hexUpper bs) := by
  induction bs generalizing acc with
  | nil => simp [foldlE, hexUpper]
  | cons b bs ih =>
    have hl := hexLookup b acc
    simp only [List.append_assoc] at hl
    simp only [foldlE, List.append_assoc, hl, hexUpper]
    have := ih (acc ++ hexByte b)
    simp only [List.append_assoc] at this
    exact this

theorem toBytes_eq (f : Frame) : GF.toBytes f = .ok (enc f) := by
  unfold Generated.Core.Frame.toBytes
  simp only [payload_eq, liftE, hexFold, checksum_eq, enc, List.nil_append, List.cons_append]

theorem toBytesWithNewline_eq (f : Frame) : GF.toBytesWithNewline f = .ok (encNL f) := by
  unfold Generated.Core.Frame.toBytesWithNewline
  simp only [toBytes_eq, liftE, encNL]

/-- `Data::try_new`: the bound and the reported maximum are the model's 255. -/
theorem dataMax_eq : GF.dataMax = 255 ∧ GF.dataMaxReported = 255 := by decide

theorem tryNew_src (d : List UInt8) :
    Data.tryNew d = if d.length > GF.dataMax then .error (.tooLong GF.dataMaxReported d.length) else .ok d := by
  simp [Data.tryNew, dataMax_eq.1, dataMax_eq.2]

theorem regex_pinned : GF.frameRegexIsPinned = true := rfl

theorem payloadPure_eq (f : Frame) : GF.payloadPure f = Flipdot.payload f := by
  simp [Generated.Core.Frame.payloadPure, Flipdot.payload]

/-- The decoder after the regular expression: the translated tail (length test, `Data::try_new`, checksum
    test, in the source's order, with the source's error fields) applied to the parsed groups is the model's
    `checkBytes` on the numeric bytes `len, addr_hi, addr_lo, type, data…, checksum`. -/
theorem fromCaptures_eq (len ah al ty ck : UInt8) (data : List UInt8) :
    GF.fromCaptures len (ah.toUInt16 * 256 + al.toUInt16) ty data ck
      = checkBytes (len :: ah :: al :: ty :: (data ++ [ck])) := by
  unfold Generated.Core.Frame.fromCaptures checkBytes
  simp only [List.getLast?_append, List.getLast?_singleton, Option.some_or, List.dropLast_concat, payloadPure_eq, checksum_eq]
  by_cases hl : data.length = len.toNat
  · simp only [hl, ne_eq, not_true_eq_false, ↓reduceIte]
    cases hd : Data.tryNew data with
    | error e => rfl
    | ok d =>
      first
        | rfl
        | (by_cases hc : lrc (Flipdot.payload ⟨ah.toUInt16 * 256 + al.toUInt16, ty, d⟩) = ck <;> simp [hc])
  · simp [hl]


/-! ### C01, C06 and C07 stated of the source text

With the equalities above, the property theorems about the model are theorems about the functions compiled from
libs/core/src/frame.rs and libs/core/src/page.rs as they are today. -/

/-- C01: what `to_bytes` (as written in the source) produces decodes back to the frame, for every frame whose data
    block `Data::try_new` admits. -/
theorem src_dec_toBytes (f : Frame) (h : f.WF) : ∃ bs, GF.toBytes f = .ok bs ∧ dec bs = .ok f :=
  ⟨enc f, toBytes_eq f, C01.dec_enc f h⟩

theorem src_dec_toBytesWithNewline (f : Frame) (h : f.WF) :
    ∃ bs, GF.toBytesWithNewline f = .ok bs ∧ dec bs = .ok f :=
  ⟨encNL f, toBytesWithNewline_eq f, C01.dec_encNL f h⟩

/-- C01: the source's encoder never panics, and its output has the documented length. -/
theorem src_toBytes_length (f : Frame) : ∃ bs, GF.toBytes f = .ok bs ∧ bs.length = 1 + 2 * (f.data.length + 5) :=
  ⟨enc f, toBytes_eq f, C01.enc_length f⟩

/-- C06: out-of-bounds coordinates panic in the source's accessors, in-bounds ones never do (on a well-formed page). -/
theorem src_oob_panics (p : Page) (x y : Nat) (v : Bool) (h : x ≥ p.w ∨ y ≥ p.h) :
    GP.getPixel p x y = .error .oob ∧ GP.setPixel p x y v = .error .oob := by
  rw [getPixel_eq, setPixel_eq]; exact C06.oob_panics p x y v h

theorem src_inb_no_panic (p : Page) (hp : p.WF) (x y : Nat) (v : Bool) (hx : x < p.w) (hy : y < p.h) :
    (∃ b, GP.getPixel p x y = .ok b) ∧ (∃ p', GP.setPixel p x y v = .ok p') := by
  rw [getPixel_eq, setPixel_eq]; exact C06.inb_no_panic p hp x y v hx hy

/-- C06: `set_pixel` then `get_pixel` of the same pixel reads the value back; every other pixel is unchanged. -/
theorem src_get_set_same (p p' : Page) (hp : p.WF) (x y : Nat) (v : Bool)
    (h : GP.setPixel p x y v = .ok p') : GP.getPixel p' x y = .ok v := by
  rw [setPixel_eq] at h; rw [getPixel_eq]; exact C06.get_set_same p p' hp x y v h

theorem src_get_set_other (p p' : Page) (hp : p.WF) (x y x' y' : Nat) (v : Bool)
    (hx' : x' < p.w) (hy' : y' < p.h) (hne : (x', y') ≠ (x, y))
    (h : GP.setPixel p x y v = .ok p') : GP.getPixel p' x' y' = GP.getPixel p x' y' := by
  rw [setPixel_eq] at h; rw [getPixel_eq, getPixel_eq]; exact C06.get_set_other p p' hp x y x' y' v hx' hy' hne h

/-- C07: the byte and bit a pixel lives in, as computed by the source's `byte_bit_indices`, for every page size
    (no bound on width or height: the arithmetic is in `usize`, modelled as `Nat`). -/
theorem src_pixel_position (p : Page) (x y : Nat) (hx : x < p.w) (hy : y < p.h) :
    GP.byteBitIndices p x y = .ok (4 + x * bpc p.h + y / 8, y % 8) := by
  rw [byteBitIndices_eq]
  unfold Page.indices
  have : ¬ (x ≥ p.w ∨ y ≥ p.h) := by omega
  simp [this]

end Flipdot.Tie.Core
