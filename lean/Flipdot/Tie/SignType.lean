/-
Static tie for libs/core/src/sign_type.rs: the regenerated tables (`Flipdot.Generated.SignType`)
equal the model's `SignType.ofCode?`, `SignType.dims`, `SignType.toBytes` and the length guard of
`SignType.fromBytes` on their whole domain.  Obligations added to `./check C19`.
-/
import Flipdot.Generated.SignType
import Flipdot.Lemmas.Bytes
namespace Flipdot.Tie.SignType
open Flipdot

/-- The families the source's match mentions. -/
def families : List UInt8 := [0x04, 0x08]

theorem ofCode_listed : ∀ id : UInt8, ∀ fam ∈ families,
    Generated.SignType.ofCode fam id = SignType.ofCode? fam id := by
  apply UInt8.forall_of_fin; decide +kernel

set_option linter.unusedSimpArgs false in
theorem ofCode_other (fam id : UInt8) (h : fam ∉ families) : Generated.SignType.ofCode fam id = none := by
  simp only [families, List.mem_cons, List.not_mem_nil, or_false, not_or] at h
  obtain ⟨h4, h8⟩ := h
  unfold Generated.SignType.ofCode
  simp [h4, h8]

theorem model_ofCode_other (fam id : UInt8) (h : fam ∉ families) : SignType.ofCode? fam id = none := by
  simp only [families, List.mem_cons, List.not_mem_nil, or_false, not_or] at h
  obtain ⟨h4, h8⟩ := h
  unfold SignType.ofCode?
  simp [h4, h8]

/-- The source's `(family, id)` match is the model's, for all 65536 pairs. -/
theorem ofCode_eq (fam id : UInt8) : Generated.SignType.ofCode fam id = SignType.ofCode? fam id := by
  by_cases h : fam ∈ families
  · exact ofCode_listed id fam h
  · rw [ofCode_other fam id h, model_ofCode_other fam id h]

theorem dims_eq (t : SignType) : Generated.SignType.dims t = t.dims := by cases t <;> rfl

theorem toBytes_eq (t : SignType) : Generated.SignType.toBytes t = t.toBytes := by cases t <;> rfl

/-- The guard length and the length reported in the error are the model's 16. -/
theorem configLen_eq : Generated.SignType.configLen = 16 ∧ Generated.SignType.configLenReported = 16 := by
  decide

/-- `from_bytes` as the source spells it: length guard, then the regenerated match. -/
def srcFromBytes (bs : List UInt8) : Except Panic (Except SignTypeErr SignType) :=
  if bs.length ≠ Generated.SignType.configLen then
    .ok (.error (.wrongLen Generated.SignType.configLenReported bs.length))
  else
    match bs[0]?, bs[1]? with
    | some fam, some id =>
      match Generated.SignType.ofCode fam id with
      | some t => .ok (.ok t)
      | none => .ok (.error .unknownConfig)
    | _, _ => .error .index

theorem src_fromBytes (bs : List UInt8) : srcFromBytes bs = SignType.fromBytes bs := by
  unfold srcFromBytes SignType.fromBytes
  simp only [configLen_eq.1, configLen_eq.2, ofCode_eq]
  split
  · rfl
  · cases bs[0]? <;> cases bs[1]? <;> rfl

/-- So the source's own tables round-trip every supported type (C19's first sentence). -/
theorem src_roundtrip (t : SignType) : srcFromBytes (Generated.SignType.toBytes t) = .ok (.ok t) := by
  rw [src_fromBytes, toBytes_eq]; cases t <;> decide

end Flipdot.Tie.SignType
