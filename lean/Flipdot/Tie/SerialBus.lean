/-
Static tie for the two transport methods, statement level: `SerialSignBus::process_message`
(libs/serial/src/serial_sign_bus.rs) and `Odk::process_message` (libs/testing/src/odk.rs) as compiled from the
source by `translate_serial.py` (`Flipdot.Generated.SerialBus`, regenerated from /repo on every run) are the
model's `serialStep` and `odkStep`: the same port events in the same order (write, pause, read, pause), the
same result, the same port afterwards, for every message, every read / write schedule and every bus.
Obligations added to `./check C16`, `C17` and `C18`.
-/
import Flipdot.Generated.SerialBus
import Flipdot.Tie.Serial
import Flipdot.Props.C16
import Flipdot.Props.C18
import Flipdot.Props.C17_compose
set_option linter.unusedSimpArgs false
namespace Flipdot.Tie.SerialBus
open Flipdot Flipdot.Generated.SerialBus

/-- `SerialSignBus::process_message` as written in the source = the model's `serialStep`. -/
theorem processMessage_eq (m : Msg) (p : Port) : processMessage m p = serialStep m p := by
  unfold processMessage serialStep
  simp only [Tie.Serial.respExpected_eq, Tie.Serial.delaySend_eq, Tie.Serial.delayReceive_eq]
  by_cases hw : (frameWrite (toFrame m) p.wr).1 = true
  · by_cases hr : responseExpected m = true
    · cases hf : (frameRead p.rd).1 <;>
        simp [SM.write, SM.sleep, SM.read, SM.ret, hw, hr, hf]
    · simp [SM.write, SM.sleep, SM.read, SM.ret, hw, hr]
  · simp [SM.write, SM.sleep, SM.read, SM.ret, hw]

/-- `Odk::process_message` as written in the source = the model's `odkStep`. -/
theorem odkProcessMessage_eq (bus : List VSign) (p : Port) : odkProcessMessage bus p = odkStep bus p := by
  unfold odkProcessMessage odkStep
  cases hf : (frameRead p.rd).1 with
  | ok f =>
    cases hb : busStep bus (toMsg f) with
    | error e => simp [OM.read, OM.bus, hf, hb]
    | ok r =>
      obtain ⟨bus', reply⟩ := r
      cases reply with
      | none => simp [OM.read, OM.bus, OM.ret, hf, hb]
      | some reply =>
        by_cases hw : (frameWrite (toFrame reply) p.wr).1 = true <;>
          simp [OM.read, OM.bus, OM.write, OM.ret, hf, hb, hw]
  | frameErr e => simp [OM.read, hf]
  | ioErr => simp [OM.read, hf]

/-! ### C16 and C18 stated of the source text

The property theorems of Props/C16.lean and Props/C18.lean are about the model's `serialStep`; with
`processMessage_eq` they are theorems about the method as it is written in libs/serial/src/serial_sign_bus.rs today. -/

/-- C16: the exchange starts by writing (a prefix of, and on success exactly) the message's frame with its line
    terminator; everything after that first event is a pause or the one read. -/
theorem src_writes_exact (m : Msg) (p : Port) :
    ∃ d ok rest, (processMessage m p).1 = .wrote d ok :: rest ∧ d <+: encNL (toFrame m) ∧
      (ok = true → d = encNL (toFrame m)) ∧ (∀ e ∈ rest, C16.IsAux e) := by
  rw [processMessage_eq]; exact C16.writes_exact m p

/-- C16: a line is read iff the write succeeded and a reply is due, and then exactly once. -/
theorem src_reads_iff_expected (m : Msg) (p : Port) :
    (.readLine ∈ (processMessage m p).1 ↔
      ((frameWrite (toFrame m) p.wr).1 = true ∧ responseExpected m = true)) ∧
    ((processMessage m p).1.filter (· == .readLine)).length ≤ 1 := by
  rw [processMessage_eq]; exact C16.reads_iff_expected m p

/-- C16: a failed write is an error and nothing is read. -/
theorem src_write_failure_is_error (m : Msg) (p : Port) (h : (frameWrite (toFrame m) p.wr).1 = false) :
    (processMessage m p).2.1 = .err ∧ (processMessage m p).2.2.rd = p.rd := by
  rw [processMessage_eq]; exact C16.write_failure_is_error m p h

/-- C18: after a successful write comes the 30 ms pause iff the message is a data chunk — directly after the write,
    before anything is read — and every later pause is the 100 ms one. -/
theorem src_sleep_after_send_iff (m : Msg) (p : Port) (hw : (frameWrite (toFrame m) p.wr).1 = true) :
    ∃ tail, (processMessage m p).1 =
      .wrote (encNL (toFrame m)) true :: (sleepEv (delayAfterSend m) ++ tail) ∧
      (∀ e ∈ tail, ∀ ms, e = .sleep ms → ms = 100) ∧
      (sleepEv (delayAfterSend m) = [.sleep 30] ↔ ∃ off d, m = .sendData off d) ∧
      (sleepEv (delayAfterSend m) = [] ↔ ¬ ∃ off d, m = .sendData off d) := by
  rw [processMessage_eq]; exact C18.sleep_after_send_iff m p hw

/-- C18: a failed write is followed by no pause at all. -/
theorem src_no_sleep_after_failed_write (m : Msg) (p : Port) (h : (frameWrite (toFrame m) p.wr).1 = false) :
    ∀ ms, .sleep ms ∉ (processMessage m p).1 := by
  rw [processMessage_eq]; exact C18.no_sleep_after_failed_write m p h

/-- C18: without a decoded reply there is no 100 ms wait. -/
theorem src_no_recv_sleep_without_reply (m : Msg) (p : Port)
    (h : responseExpected m = false ∨ ∀ f, (frameRead p.rd).1 ≠ .ok f) :
    .sleep 100 ∉ (processMessage m p).1 := by
  rw [processMessage_eq]; exact C18.no_recv_sleep_without_reply m p h

/-! ### C17: the end-to-end path is the two source methods composed through a byte pipe -/

/-- One message through the whole serial path (Model/Pipe.lean, the subject of the C17 transparency theorems) is:
    the bridge's `process_message` — as compiled from libs/testing/src/odk.rs — on the line the serial bus wrote, then
    the serial bus's `process_message` — as compiled from libs/serial/src/serial_sign_bus.rs — reading from what the
    bridge wrote back after whatever was still pending. -/
theorem src_viaSerial (far : Far) (m : Msg) :
    viaSerial far m =
      match odkProcessMessage far.bus { rd := byteEvents (encNL (toFrame m)), wr := [] } with
      | .error e => .error e
      | .ok (_, written, bus', _) =>
        let s := processMessage m { rd := byteEvents (far.pending ++ written), wr := [] }
        .ok (C17.toReply s.2.1, ⟨bus', remainingBytes s.2.2.rd⟩) := by
  rw [odkProcessMessage_eq]
  simp only [processMessage_eq]
  exact C17.viaSerial_compose far m

end Flipdot.Tie.SerialBus
