/-
Support for the regenerated virtual sign (`Flipdot.Generated.VSignFull`): the combinators the
translator (`translate_vsign.py`) emits for state threading and for the operations that can panic
in Rust (indexing, slicing), over the record and the `Panic` type of the hand-written model.
-/
import Flipdot.Model.VSign
namespace Flipdot

/-- `self.method(..)` followed by more statements: thread the state, propagate a panic. -/
def bindE {σ α β : Type} (x : Except Panic (σ × α)) (k : σ → α → Except Panic β) : Except Panic β :=
  match x with
  | .error e => .error e
  | .ok (s, a) => k s a

/-- A call that can panic but does not touch the sign's state. -/
def liftE {α β : Type} (x : Except Panic α) (k : α → Except Panic β) : Except Panic β :=
  match x with
  | .error e => .error e
  | .ok a => k a

/-- `slice[i]`: panics when out of bounds. -/
def idxE {β : Type} (l : List UInt8) (i : Nat) (k : UInt8 → Except Panic β) : Except Panic β :=
  match l[i]? with
  | some b => k b
  | none => .error .index

/-- `slice[lo..hi]`: panics unless `lo ≤ hi ≤ len`. -/
def sliceE {β : Type} (l : List UInt8) (lo hi : Nat) (k : List UInt8 → Except Panic β) : Except Panic β :=
  if lo ≤ hi ∧ hi ≤ l.length then k ((l.drop lo).take (hi - lo)) else .error .index

end Flipdot
