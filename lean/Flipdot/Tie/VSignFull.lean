/-
Static tie for libs/testing/src/virtual_sign_bus.rs, statement level: every method of
`impl VirtualSign`, compiled into a state-passing function by `translate_vsign.py`
(`Flipdot.Generated.VSignFull`, regenerated from /repo on every run), is the hand-written model:
`processMessage s m = vstep s m` for every sign state and every message, and the bus loop is
`busStep`.  Obligations added to `./check C12 C13 C14` (and C08 / C19, which rest on the same model).
-/
import Flipdot.Generated.VSignFull
import Flipdot.Props.C14
set_option linter.unusedSimpArgs false
namespace Flipdot.Tie.VSignFull
open Flipdot
namespace G
export Flipdot.Generated.VSignFull (new flushPixels dataChunksSent reset finishReset goodbye loadNextPage
  pixelsComplete queryState receiveConfig receivePixels sendData showLoadedPage startReset processMessage
  busProcessMessage)
end G

/-- Equality of two state-passing functions on a sign whose fields are exposed: split every `if` / `match`
    on both sides and close each combination of cases by simplification and linear arithmetic.  Used for
    every handler so that behaviour-preserving rewrites of the source (early returns, conditions negated
    or reordered, `match` ↔ `if`) keep checking. -/
macro "vs_cases" : tactic => `(tactic|
  (repeat' (first
     | rfl
     | (split <;> (try simp_all) <;> (try omega)))))

theorem new_eq (a : UInt16) (st : FlipStyle) : G.new a st = VSign.new a st := rfl

/-- `flush_pixels`. -/
theorem flushPixels_eq (s : VSign) : G.flushPixels s = .ok (s.flush, ()) := by
  unfold Generated.VSignFull.flushPixels VSign.flush
  obtain ⟨addr, style, state, pages, pending, chunks, w, h, st⟩ := s
  simp only [List.isEmpty_iff]
  vs_cases

/-- `reset`. -/
theorem reset_eq (s : VSign) : G.reset s = .ok (s.reset, ()) := by
  unfold Generated.VSignFull.reset VSign.reset
  first | rfl | (obtain ⟨addr, style, state, pages, pending, chunks, w, h, st⟩ := s; vs_cases)

/-- `data_chunks_sent`. -/
theorem dataChunksSent_eq (s : VSign) (n : UInt16) : G.dataChunksSent s n = .ok (s.chunksSent n, none) := by
  unfold Generated.VSignFull.dataChunksSent VSign.chunksSent
  simp only [flushPixels_eq, bindE]
  obtain ⟨addr, style, state, pages, pending, chunks, w, h, st⟩ := s
  by_cases hc : chunks = n.toNat
  · subst hc; cases state <;> simp [State.afterCount]
  · have hb : (chunks == n.toNat) = false := by simpa using hc
    have hc' : ¬ n.toNat = chunks := fun h => hc h.symm
    cases state <;> simp [hc, hc', hb, State.afterCount]

/-- The configuration branch of `send_data` on a 16-byte block: the indexing and slicing the source
    does never panic there and yield the model's `configDims`. -/
theorem sendData_config (s : VSign) (data : List UInt8) (h : data.length = 16) :
    (idxE data 0 fun b1 =>
      if b1 = (0x04 : UInt8) then
        sliceE data 5 9 fun xs2 => idxE data 4 fun b3 => liftE (SignType.fromBytes data) fun p =>
          (.ok ({ s with signType := p.toOption, w := (xs2.map (·.toNat)).sum, h := b3.toNat, chunks := satSucc s.chunks }, none)
            : Except Panic (VSign × Option Msg))
      else if b1 = (0x08 : UInt8) then
        idxE data 7 fun b5 => idxE data 5 fun b6 => liftE (SignType.fromBytes data) fun p =>
          .ok ({ s with signType := p.toOption, w := b5.toNat, h := b6.toNat, chunks := satSucc s.chunks }, none)
      else .ok (s, none))
    = (match configDims data with
       | .error e => .error e
       | .ok none => .ok (s, none)
       | .ok (some (w, h)) =>
         match SignType.fromBytes data with
         | .error e => .error e
         | .ok r => .ok ({ s with signType := (match r with | .ok t => some t | .error _ => none), w := w, h := h,
                                  chunks := satSucc s.chunks }, none)) := by
  match data, h with
  | [d0, d1, d2, d3, d4, d5, d6, d7, d8, d9, d10, d11, d12, d13, d14, d15], _ =>
    simp only [idxE, sliceE, liftE, configDims]
    by_cases h4 : d0 = 0x04
    · subst h4
      simp only [List.getElem?_cons_zero, ↓reduceIte, List.length_cons, List.length_nil]
      cases hp : SignType.fromBytes [0x04, d1, d2, d3, d4, d5, d6, d7, d8, d9, d10, d11, d12, d13, d14, d15] with
      | error e => simp [hp]
      | ok r => cases r <;> simp [hp, Except.toOption, Nat.add_assoc]
    · by_cases h8 : d0 = 0x08
      · subst h8
        simp only [List.getElem?_cons_zero, ↓reduceIte, List.length_cons, List.length_nil]
        cases hp : SignType.fromBytes [0x08, d1, d2, d3, d4, d5, d6, d7, d8, d9, d10, d11, d12, d13, d14, d15] with
        | error e => simp [hp]
        | ok r => cases r <;> simp [hp, Except.toOption]
      · simp [h4, h8]

/-- `send_data`. -/
theorem sendData_eq (s : VSign) (off : UInt16) (d : List UInt8) :
    G.sendData s off d = (match s.sendData off d with | .error e => .error e | .ok s' => .ok (s', none)) := by
  unfold Generated.VSignFull.sendData VSign.sendData
  by_cases hc : s.state = .configInProgress ∧ off = 0 ∧ d.length = 16
  · obtain ⟨h1, h2, h3⟩ := hc
    rw [if_pos (show (s.state = .configInProgress ∧ off = 0) ∧ d.length = 16 from ⟨⟨h1, h2⟩, h3⟩),
      if_pos (show s.state = .configInProgress ∧ off = 0 ∧ d.length = 16 from ⟨h1, h2, h3⟩)]
    rw [sendData_config s d h3]
    cases configDims d with
    | error e => rfl
    | ok o =>
      cases o with
      | none => rfl
      | some wh =>
        obtain ⟨w, h⟩ := wh
        simp only
        cases SignType.fromBytes d <;> rfl
  · have hc' : ¬ ((s.state = .configInProgress ∧ off = 0) ∧ d.length = 16) := by
      rintro ⟨⟨a, b⟩, c⟩; exact hc ⟨a, b, c⟩
    simp only [hc, hc', ↓reduceIte]
    by_cases hp : s.state = .pixelsInProgress
    · by_cases ho : off = 0
      · simp [hp, ho, flushPixels_eq, bindE, VSign.appendChunk]
      · simp [hp, ho, VSign.appendChunk]
    · simp [hp]

/-- `VirtualSign::process_message` compiled from the source is the model's `vstep`, for every sign
    state (reachable or not) and every message. -/
theorem processMessage_eq (s : VSign) (m : Msg) : G.processMessage s m = vstep s m := by
  cases m with
  | hello a =>
    simp only [Generated.VSignFull.processMessage, vstep, Generated.VSignFull.queryState, VSign.queryState]
    obtain ⟨addr, style, state, pages, pending, chunks, w, h, st⟩ := s
    by_cases h : a = addr
    · cases state <;> simp [h, bindE]
    · simp [h]
  | queryState a =>
    simp only [Generated.VSignFull.processMessage, vstep, Generated.VSignFull.queryState, VSign.queryState]
    obtain ⟨addr, style, state, pages, pending, chunks, w, h, st⟩ := s
    by_cases h : a = addr
    · cases state <;> simp [h, bindE]
    · simp [h]
  | sendData off d =>
    simp only [Generated.VSignFull.processMessage, vstep, sendData_eq, bindE]
    cases s.sendData off d <;> rfl
  | chunksSent n =>
    simp only [Generated.VSignFull.processMessage, vstep, dataChunksSent_eq, bindE]
  | requestOp a o =>
    obtain ⟨addr, style, state, pages, pending, chunks, w, h', st⟩ := s
    by_cases h : a = addr
    · cases o <;> cases state <;>
        simp [Generated.VSignFull.processMessage, vstep, h, bindE, Generated.VSignFull.receiveConfig,
          Generated.VSignFull.receivePixels, Generated.VSignFull.showLoadedPage, Generated.VSignFull.loadNextPage,
          Generated.VSignFull.startReset, Generated.VSignFull.finishReset, reset_eq, VSign.canReceivePixels, VSign.reset]
    · cases o <;> simp [Generated.VSignFull.processMessage, vstep, h]
  | pixelsComplete a =>
    simp only [Generated.VSignFull.processMessage, vstep, Generated.VSignFull.pixelsComplete]
    obtain ⟨addr, style, state, pages, pending, chunks, w, h', st⟩ := s
    by_cases h : a = addr
    · cases state <;> cases style <;> simp [h, bindE]
    · simp [h]
  | goodbye a =>
    simp only [Generated.VSignFull.processMessage, vstep, Generated.VSignFull.goodbye, reset_eq, bindE]
    try (by_cases h : a = s.addr <;> simp [h])
  | reportState a st => rfl
  | ackOp a o => rfl
  | unknown f => rfl

/-- The bus loop is the model's `busStep`. -/
theorem busProcessMessage_eq (bus : List VSign) (m : Msg) : G.busProcessMessage bus m = busStep bus m := by
  induction bus with
  | nil => rfl
  | cons s rest ih =>
    simp only [Generated.VSignFull.busProcessMessage, busStep, processMessage_eq, ih]
    cases hv : vstep s m with
    | error e => rfl
    | ok p =>
      obtain ⟨s', r⟩ := p
      cases r with
      | some r => rfl
      | none => simp only []; cases busStep rest m with
        | error e => rfl
        | ok q => rfl

/-! ### C12, C13 and C14 stated of the source text

With `processMessage_eq` / `busProcessMessage_eq` the property theorems about the model's `vstep` / `busStep` are theorems
about `VirtualSign::process_message` / `VirtualSignBus::process_message` as compiled from the source today. -/

/-- C12: for every sign state (reachable or not) and every message, the source's `process_message` does not panic. -/
theorem src_no_panic (s : VSign) (m : Msg) : ∃ r, G.processMessage s m = .ok r := by
  rw [processMessage_eq]; exact C12.vstep_no_panic s m

/-- C12: nor does the bus loop, for any number of signs in any states. -/
theorem src_bus_no_panic (bus : List VSign) (m : Msg) : ∃ r, G.busProcessMessage bus m = .ok r := by
  rw [busProcessMessage_eq]; exact C12.busStep_no_panic bus m

/-- C13: the reply and the reported state are those of the documented sign-side machine. -/
theorem src_step_refines (s : VSign) (m : Msg) :
    ∃ s', G.processMessage s m = .ok (s', (C13.specStep s m).1) ∧ s'.state = (C13.specStep s m).2 := by
  rw [processMessage_eq]; exact C13.step_refines s m

/-- C14: with distinct addresses every sign on the bus ends up exactly where it would be had it received the message
    alone (through its own `process_message`). -/
theorem src_each_sign_as_if_alone (bus bus' : List VSign) (m : Msg) (r : Option Msg)
    (hd : (bus.map (·.addr)).Nodup) (h : G.busProcessMessage bus m = .ok (bus', r)) :
    ∀ (i : Nat) (s : VSign), bus[i]? = some s →
      ∃ s' r', G.processMessage s m = .ok (s', r') ∧ bus'[i]? = some s' := by
  rw [busProcessMessage_eq] at h
  intro i s hs
  obtain ⟨s', r', h1, h2⟩ := C14.each_sign_as_if_alone bus bus' m r hd h i s hs
  exact ⟨s', r', by rw [processMessage_eq]; exact h1, h2⟩

end Flipdot.Tie.VSignFull
