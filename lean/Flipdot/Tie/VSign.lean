/-
Static tie for libs/testing/src/virtual_sign_bus.rs: the dispatch table of `process_message` and the
per-handler state tables that `translate.py` regenerates from the Rust source
(`Flipdot.Generated.VSign`) give, glued together as the source glues them, exactly the documented
sign-side machine `C13.specStep`, which `C13.step_refines` shows the model `vstep` to implement.
Obligations added to `./check C13` (and reported by C12 / C14 / C08, which rest on the same model).
-/
import Flipdot.Generated.VSign
import Flipdot.Props.C13
namespace Flipdot.Tie.VSign
open Flipdot Flipdot.Generated.VSign

/-- The handler an operation request is dispatched to. -/
def opHandler : Op → Handler
  | .receiveConfig => .receiveConfig | .receivePixels => .receivePixels
  | .showLoadedPage => .showLoadedPage | .loadNextPage => .loadNextPage
  | .startReset => .startReset | .finishReset => .finishReset

/-- `process_message` hands each kind of message to the handler the model assumes, with the address
    guard exactly on the addressed kinds, and ignores everything else. -/
theorem dispatch_eq : ∀ k : Kind, dispatch k =
    (match k with
     | .hello | .query => some (true, .queryState)
     | .request o => some (true, opHandler o)
     | .data => some (false, .sendData)
     | .chunks => some (false, .dataChunksSent)
     | .pixelsComplete => some (true, .pixelsComplete)
     | .goodbye => some (true, .goodbye)
     | .report _ | .ack _ | .unknown => none) := by
  apply Kind.forall_of_all; decide

/-- The states in which each operation is accepted are the legality table of C13. -/
theorem accepts_eq : ∀ o : Op, ∀ s : State, decide (s ∈ opAccepts o) = C13.legal o s := by
  apply Op.forall_of_all
  have : ∀ o ∈ Op.all, ∀ s ∈ State.all, decide (s ∈ opAccepts o) = C13.legal o s := by decide
  exact fun o ho => State.forall_of_all (this o ho)

/-- The state an accepted operation leads to is C13's target. -/
theorem target_eq : ∀ o : Op, opTarget o = C13.target o := by
  apply Op.forall_of_all; decide

/-- `query_state` completes exactly the two in-progress states. -/
theorem queryNext_eq : ∀ s : State, queryNext s = C13.afterReport s := by
  apply State.forall_of_all; decide

/-- `data_chunks_sent`: the two tables are the model's `State.afterCount`. -/
theorem count_eq : ∀ s : State, countOk s = s.afterCount true ∧ countBad s = s.afterCount false := by
  apply State.forall_of_all; decide

theorem complete_eq : completeFrom = .pixelsReceived ∧
    (∀ st : FlipStyle, completeTo st = match st with | .automatic => .showingPages | .manual => .pageLoaded) :=
  ⟨by decide, fun st => by cases st <;> decide⟩

theorem reset_eq : resetState = .unconfigured := by decide

/-- Reply and next state of `process_message`, assembled from the regenerated tables the way the
    source assembles them: dispatch on the kind, address guard, then the handler's table. -/
def srcStep (s : VSign) (m : Msg) : Option Msg × State :=
  match dispatch m.kind with
  | none => (none, s.state)
  | some (guarded, h) =>
    if guarded = true ∧ m.addr? ≠ some s.addr then (none, s.state)
    else match h, m with
      | .queryState, _ => (some (.reportState s.addr s.state), queryNext s.state)
      | .sendData, _ => (none, s.state)
      | .dataChunksSent, .chunksSent n =>
        (none, if s.chunks = n.toNat then countOk s.state else countBad s.state)
      | .pixelsComplete, _ =>
        (none, if s.state = completeFrom then completeTo s.style else s.state)
      | .goodbye, _ => (none, resetState)
      | _, .requestOp _ o =>
        if s.state ∈ opAccepts o then (some (.ackOp s.addr o), opTarget o) else (none, s.state)
      | _, _ => (none, s.state)

/-- The machine read off the source is the documented machine. -/
theorem srcStep_eq (s : VSign) (m : Msg) : srcStep s m = C13.specStep s m := by
  unfold srcStep
  rw [dispatch_eq]
  cases m with
  | hello a =>
    simp only [Msg.kind, Msg.addr?, C13.specStep, queryNext_eq]
    by_cases h : a = s.addr <;> simp [h]
  | queryState a =>
    simp only [Msg.kind, Msg.addr?, C13.specStep, queryNext_eq]
    by_cases h : a = s.addr <;> simp [h]
  | requestOp a o =>
    simp only [Msg.kind, Msg.addr?, C13.specStep]
    by_cases h : a = s.addr
    · have hl := accepts_eq o s.state
      by_cases hm : s.state ∈ opAccepts o
      · have : C13.legal o s.state = true := by rw [← hl]; simpa using hm
        cases o <;> simp [h, hm, this, opHandler, target_eq]
      · have : C13.legal o s.state = false := by rw [← hl]; simpa using hm
        cases o <;> simp [h, hm, this, opHandler]
    · simp [h]
  | chunksSent n =>
    simp only [Msg.kind, C13.specStep]
    have hc := count_eq s.state
    by_cases hn : s.chunks = n.toNat
    · cases hs : s.state <;> simp_all [State.afterCount]
    · cases hs : s.state <;> simp_all [State.afterCount]
  | pixelsComplete a =>
    simp only [Msg.kind, Msg.addr?, C13.specStep, complete_eq.1, complete_eq.2]
    by_cases h : a = s.addr <;> by_cases hs : s.state = .pixelsReceived <;> simp [h, hs]
    cases s.style <;> rfl
  | goodbye a =>
    simp only [Msg.kind, Msg.addr?, C13.specStep, reset_eq]
    by_cases h : a = s.addr <;> simp [h]
  | sendData off d => simp [Msg.kind, C13.specStep]
  | reportState a st => simp [Msg.kind, C13.specStep]
  | ackOp a o => simp [Msg.kind, C13.specStep]
  | unknown f => simp [Msg.kind, C13.specStep]

/-- Hence the model's virtual sign answers and moves as the tables read off the source say, for
    every sign state and every message. -/
theorem vstep_refines_src (s : VSign) (m : Msg) :
    ∃ s', vstep s m = .ok (s', (srcStep s m).1) ∧ s'.state = (srcStep s m).2 := by
  rw [srcStep_eq]; exact C13.step_refines s m

/-- The guards of `send_data` read off the source are the model's. -/
theorem sendData_consts : configState = .configInProgress ∧ configOffset = 0 ∧ configChunkLen = 16 ∧
    pixelState = .pixelsInProgress ∧ flushOffset = 0 := by decide

/-- Outside the two receiving states read off the source, a data chunk changes nothing. -/
theorem sendData_ignored (s : VSign) (off : UInt16) (d : List UInt8)
    (h1 : s.state ≠ configState) (h2 : s.state ≠ pixelState) : s.sendData off d = .ok s := by
  rw [sendData_consts.1] at h1
  rw [sendData_consts.2.2.2.1] at h2
  simp [VSign.sendData, h1, h2]

/-- The configuration digest read off the source (which bytes make the width and the height for each
    family) is the model's `configDims` on every 16-byte block. -/
theorem digest_eq (data : List UInt8) (h : data.length = 16) :
    configDims data = .ok ((digest (data[0]'(by omega))).map fun (ws, hi) =>
      ((ws.map fun i => (data[i]?.getD 0).toNat).sum, (data[hi]?.getD 0).toNat)) := by
  match data, h with
  | [d0, d1, d2, d3, d4, d5, d6, d7, d8, d9, d10, d11, d12, d13, d14, d15], _ =>
    unfold configDims digest
    by_cases h4 : d0 = 0x04
    · subst h4; simp [List.range', Nat.add_assoc]
    · by_cases h8 : d0 = 0x08
      · subst h8; simp
      · simp [h4, h8]

end Flipdot.Tie.VSign
