/-
Static tie for libs/serial/src/serial_sign_bus.rs, libs/serial/src/serial_port.rs and the
constructor of libs/testing/src/odk.rs: the regenerated classification tables, timeouts and port
settings (`Flipdot.Generated.Serial`) equal the model's.  Obligations added to `./check C16`,
`C18` and `C20`.
-/
import Flipdot.Generated.Serial
namespace Flipdot.Tie.Serial
open Flipdot Flipdot.Generated.Serial

theorem respExpected_kind : ∀ k : Kind, respExpected k = responseExpected (k.build ⟨0, 0, []⟩) := by
  apply Kind.forall_of_all; decide

theorem delaySend_kind : ∀ k : Kind, delaySend k = delayAfterSend (k.build ⟨0, 0, []⟩) := by
  apply Kind.forall_of_all; decide

theorem delayReceive_kind : ∀ k : Kind, delayReceive k = delayAfterReceive (k.build ⟨0, 0, []⟩) := by
  apply Kind.forall_of_all; decide

/-- `response_expected` as regenerated from the source is the model's, on every message. -/
theorem respExpected_eq (m : Msg) : respExpected m.kind = responseExpected m := by
  rw [respExpected_kind, responseExpected_kind]

/-- `delay_after_send` likewise (C18: 30 ms after a data chunk and after nothing else). -/
theorem delaySend_eq (m : Msg) : delaySend m.kind = delayAfterSend m := by
  rw [delaySend_kind, delayAfterSend_kind]

/-- `delay_after_receive` likewise (C18: 100 ms after the two in-progress reports only). -/
theorem delayReceive_eq (m : Msg) : delayReceive m.kind = delayAfterReceive m := by
  rw [delayReceive_kind, delayAfterReceive_kind]

/-- The five settings written by `configure_port` are the model's 19200 8N1, no flow control. -/
theorem portSettings_eq : portSettings = luminatorSettings := by decide

/-- The constructors' read timeouts are the model's. -/
theorem serialTryNew_eq (d : Device) (f : FailAt) : serialTryNew d f = configurePort d serialTimeoutMs f := rfl
theorem odkTryNew_eq (d : Device) (f : FailAt) : odkTryNew d f = configurePort d odkTimeoutMs f := rfl

/-- `configure_port` with the regenerated settings in place of the model's literal. -/
theorem configurePort_src (d : Device) (t : Nat) :
    configurePort d t .never = (true, { settings := portSettings, timeout := some t }) := by
  rw [portSettings_eq]; rfl

end Flipdot.Tie.Serial
