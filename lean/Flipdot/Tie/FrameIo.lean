/-
Static tie for `Frame::read` / `Frame::write` (libs/core/src/frame.rs).  The two methods are recognised as wholes by
`translate.py` (topic FrameIo: token for token, layout and comments aside); what is read off them — the capacity of the
`BufReader`, the delimiter of `read_until`, and that `write` is `write_all` of the encoding with its line terminator — is
what the model of Model/Io.lean assumes.  Obligations added to `./check C15`.

What std does underneath (`read_until` asks a capacity-1 `BufReader` for one byte at a time, retries on `Interrupted`,
stops after the delimiter or at end of stream; `write_all` loops until everything is accepted) is modelled from the
documented contracts, not verified; the C15 correspondence run compares it with the real std on every run.
-/
import Flipdot.Generated.FrameIo
namespace Flipdot.Tie.FrameIo
open Flipdot Flipdot.Generated.FrameIo

/-- The reader is buffered one byte at a time: nothing past the line feed is ever taken from the stream
    (with a larger buffer the read-ahead would be lost when the `BufReader` is dropped). -/
theorem capacity_one : readBufferCapacity = 1 := by decide

/-- The line ends at the source's delimiter, which is the model's line feed. -/
theorem delimiter_eq : readDelimiter = 10 := by decide

/-- `read_until` of the model stops exactly after the source's delimiter and leaves the rest of the stream alone. -/
theorem readUntil_stops (acc : List UInt8) (rest : List REvent) :
    readUntilLF (.byte readDelimiter :: rest) acc = (some (acc ++ [readDelimiter]), rest) := by
  simp [readUntilLF, delimiter_eq]

/-- … and goes on past every other byte. -/
theorem readUntil_continues (b : UInt8) (hb : b ≠ readDelimiter) (acc : List UInt8) (rest : List REvent) :
    readUntilLF (.byte b :: rest) acc = readUntilLF rest (acc ++ [b]) := by
  have : b ≠ 10 := by simpa [delimiter_eq] using hb
  simp [readUntilLF, this]

/-- `Frame::read` = decode the line `read_until` produced (`?` on the I/O error, `?` on the decoder's). -/
theorem frameRead_src (evs : List REvent) :
    frameRead evs =
      match readUntilLF evs [] with
      | (none, rest) => (.ioErr, rest)
      | (some line, rest) =>
        match dec line with
        | .ok f => (.ok f, rest)
        | .error e => (.frameErr e, rest) := rfl

/-- `Frame::write` = `write_all` of the encoding with its line terminator. -/
theorem frameWrite_src (f : Frame) (evs : List WEvent) :
    writeIsWriteAllOfEncodingWithNewline = true ∧ frameWrite f evs = writeAll evs (encNL f) := ⟨rfl, rfl⟩

end Flipdot.Tie.FrameIo
