/-
Support for the regenerated core (`Flipdot.Generated.Core`): a fold whose body can panic (`for x in &v
{ … v[i] … }`), over the combinators of `VSignSupport`.
-/
import Flipdot.Tie.VSignSupport
import Flipdot.Model.Page
namespace Flipdot

/-- `for x in &xs { body }` where the body updates one accumulator and may panic. -/
def foldlE {α β : Type} : List α → β → (β → α → Except Panic β) → Except Panic β
  | [], acc, _ => .ok acc
  | x :: xs, acc, f =>
    match f acc x with
    | .error e => .error e
    | .ok acc' => foldlE xs acc' f

end Flipdot
