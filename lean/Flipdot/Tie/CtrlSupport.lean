/-
Support for the regenerated controller (`Flipdot.Generated.Controller`): the one template of the
translator — the double `for` loop of `send_data` that cuts every item into chunks of `n` bytes and
sends chunk `i` of an item at offset `(i * m) as u16` — as a function of the two constants read
from the source, and the facts that connect it and the `Prog` combinators with the model.
-/
import Flipdot.Model.Controller
import Lean.Meta.Tactic.Simp.RegisterCommand

/-- Definitions compiled from src/sign.rs that are not recursive (everything but the two polling / retry
    loops): the tie proofs unfold all of them, so that a helper method extracted or inlined in the source
    makes no difference. -/
register_simp_attr ctrl_unfold

namespace Flipdot

/-- `slice.chunks(n)` with explicit fuel. -/
def chunksGenN (n : Nat) : Nat → List UInt8 → List (List UInt8)
  | 0, _ => []
  | f + 1, l => if l.isEmpty then [] else l.take n :: chunksGenN n f (l.drop n)

/-- `item.chunks(n).enumerate()` turned into `SendData(Offset((i * m) as u16), chunk)` messages. -/
def chunkMsgsGenFrom (m : Nat) : Nat → List (List UInt8) → List Msg
  | _, [] => []
  | i, c :: cs => .sendData (UInt16.ofNat (i * m)) c :: chunkMsgsGenFrom m (i + 1) cs

/-- All the data messages of one transfer attempt: items in order, chunks in order. -/
def chunkMsgsGen (n m : Nat) : List (List UInt8) → List Msg
  | [] => []
  | it :: its => chunkMsgsGenFrom m 0 (chunksGenN n it.length it) ++ chunkMsgsGen n m its

theorem chunksGenN_16 (f : Nat) (l : List UInt8) : chunksGenN 16 f l = chunksN f l := by
  induction f generalizing l with
  | zero => rfl
  | succ f ih => simp [chunksGenN, chunksN, ih]

theorem chunkMsgsGenFrom_16 (i : Nat) (cs : List (List UInt8)) : chunkMsgsGenFrom 16 i cs = chunkMsgsFrom i cs := by
  induction cs generalizing i with
  | nil => rfl
  | cons c cs ih => simp [chunkMsgsGenFrom, chunkMsgsFrom, ih]

/-- With the constants of the pinned source (16-byte chunks, offset 16·i) the template is the model's
    `allChunkMsgs`. -/
theorem chunkMsgsGen_16 (items : List (List UInt8)) : chunkMsgsGen 16 16 items = allChunkMsgs items := by
  induction items with
  | nil => rfl
  | cons it its ih => simp [chunkMsgsGen, allChunkMsgs, itemMsgs, chunks16, chunksGenN_16, chunkMsgsGenFrom_16, ih]

/-- `Some(Message::ReportState(_, state))`: the state reported, whatever the address. -/
def anyReport? : Option Msg → Option State
  | some (.reportState _ s) => some s
  | _ => none

@[simp] theorem Prog.bind_done_unit (p : Prog Unit) : (p.bind fun _ => .done ()) = p := by
  induction p with
  | done a => rfl
  | fail => rfl
  | panic p => rfl
  | outOfFuel => rfl
  | send m k ih => simp only [Prog.bind]; congr 1; funext r; exact ih r

theorem expect_congr {α : Type} {m : Msg} {w : Option Msg} {k1 k2 : Prog α} (h : k1 = k2) :
    expect m w k1 = expect m w k2 := by rw [h]

theorem send_congr {α : Type} {m : Msg} {k1 k2 : Option Msg → Prog α} (h : ∀ r, k1 r = k2 r) :
    Prog.send m k1 = Prog.send m k2 := by
  congr 1; funext r; exact h r

theorem sendChunks_congr {α : Type} {ms : List Msg} {i : Nat} {k1 k2 : Nat → Prog α} (h : ∀ n, k1 n = k2 n) :
    sendChunks ms i k1 = sendChunks ms i k2 := by
  congr 1; funext n; exact h n

theorem Prog.ite_bind {α β : Type} (c : Prop) [Decidable c] (x y : Prog α) (f : α → Prog β) :
    (if c then x else y).bind f = if c then x.bind f else y.bind f := by
  split <;> rfl

@[simp] theorem Prog.done_bind {α β : Type} (a : α) (f : α → Prog β) : (Prog.done a).bind f = f a := rfl
@[simp] theorem Prog.fail_bind {α β : Type} (f : α → Prog β) : (Prog.fail : Prog α).bind f = .fail := rfl
theorem Prog.send_bind {α β : Type} (m : Msg) (k : Option Msg → Prog α) (f : α → Prog β) :
    (Prog.send m k).bind f = .send m (fun r => (k r).bind f) := rfl

theorem expect_bind {α β : Type} (m : Msg) (w : Option Msg) (k : Prog α) (f : α → Prog β) :
    (expect m w k).bind f = expect m w (k.bind f) := by
  simp only [expect, Prog.bind]
  congr 1; funext r
  split <;> rfl

theorem ownReport_some_iff {a : UInt16} {r : Option Msg} {s : State} :
    ownReport? a r = some s ↔ r = some (.reportState a s) := by
  constructor
  · intro h
    unfold ownReport? at h
    split at h
    · rename_i a' s'
      by_cases h' : a' = a
      · subst h'; simp at h; subst h; rfl
      · simp [h'] at h
    · cases h
  · intro h
    subst h
    simp [ownReport?]

theorem ownReport_none_iff {a : UInt16} {r : Option Msg} :
    ownReport? a r = none ↔ ∀ s, r ≠ some (.reportState a s) := by
  constructor
  · intro h s hr
    rw [(ownReport_some_iff).2 hr] at h; cases h
  · intro h
    cases ho : ownReport? a r with
    | none => rfl
    | some s => exact absurd ((ownReport_some_iff).1 ho) (h s)

theorem anyReport_some_iff {r : Option Msg} {s : State} :
    anyReport? r = some s ↔ ∃ a', r = some (.reportState a' s) := by
  constructor
  · intro h
    unfold anyReport? at h
    split at h
    · rename_i a' s'; simp at h; subst h; exact ⟨a', rfl⟩
    · cases h
  · rintro ⟨a', rfl⟩; rfl

end Flipdot
