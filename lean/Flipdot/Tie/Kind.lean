/-
The finite "kind" of a protocol message: everything about a `Msg` except the address / offset /
count field, the payload of a data chunk and the frame wrapped by `unknown`.  The tables that the
translator (`/verif/translate.py`) extracts from the Rust sources are functions over `Kind`, so
that their agreement with the model is a finite statement that `decide` settles; the lemmas here
show, once and for all, that the model's functions are determined by the kind.
-/
import Flipdot.Model.Message
import Flipdot.Model.Serial
namespace Flipdot

inductive Kind where
  | data | chunks | hello | query | goodbye
  | report (s : State) | request (o : Op) | ack (o : Op)
  | pixelsComplete | unknown
  deriving DecidableEq, Repr

def Kind.all : List Kind :=
  [.data, .chunks, .hello, .query, .goodbye, .pixelsComplete, .unknown]
  ++ State.all.map .report ++ Op.all.map .request ++ Op.all.map .ack

theorem State.mem_all (s : State) : s ∈ State.all := by cases s <;> decide
theorem Op.mem_all (o : Op) : o ∈ Op.all := by cases o <;> decide

theorem State.forall_of_all {p : State → Prop} (h : ∀ s ∈ State.all, p s) : ∀ s, p s :=
  fun s => h s (State.mem_all s)
theorem Op.forall_of_all {p : Op → Prop} (h : ∀ o ∈ Op.all, p o) : ∀ o, p o :=
  fun o => h o (Op.mem_all o)

theorem Kind.mem_all (k : Kind) : k ∈ Kind.all := by
  unfold Kind.all
  cases k with
  | report s => simp [State.mem_all]
  | request o => simp [Op.mem_all]
  | ack o => simp [Op.mem_all]
  | _ => simp

/-- A statement about every kind follows from checking the finite list. -/
theorem Kind.forall_of_all {p : Kind → Prop} (h : ∀ k ∈ Kind.all, p k) : ∀ k, p k :=
  fun k => h k (Kind.mem_all k)

def Msg.kind : Msg → Kind
  | .sendData _ _ => .data
  | .chunksSent _ => .chunks
  | .hello _ => .hello
  | .queryState _ => .query
  | .goodbye _ => .goodbye
  | .reportState _ s => .report s
  | .requestOp _ o => .request o
  | .ackOp _ o => .ack o
  | .pixelsComplete _ => .pixelsComplete
  | .unknown _ => .unknown

/-- The message of kind `k` made from the fields of frame `f`, as `Message::from(Frame)` builds it:
    address field, payload, or the whole frame. -/
def Kind.build (k : Kind) (f : Frame) : Msg :=
  match k with
  | .data => .sendData f.addr f.data
  | .chunks => .chunksSent f.addr
  | .hello => .hello f.addr
  | .query => .queryState f.addr
  | .goodbye => .goodbye f.addr
  | .report s => .reportState f.addr s
  | .request o => .requestOp f.addr o
  | .ack o => .ackOp f.addr o
  | .pixelsComplete => .pixelsComplete f.addr
  | .unknown => .unknown f

@[simp] theorem Kind.kind_build (k : Kind) (f : Frame) : (k.build f).kind = k := by
  cases k <;> rfl

/-- The frame-shaped carrier of a message's variable fields: address / offset / count, payload, or the
    wrapped frame itself. -/
def Msg.fields : Msg → Frame
  | .sendData off d => ⟨off, 0, d⟩
  | .chunksSent n => ⟨n, 0, []⟩
  | .hello a | .queryState a | .goodbye a | .pixelsComplete a => ⟨a, 0, []⟩
  | .reportState a _ | .requestOp a _ | .ackOp a _ => ⟨a, 0, []⟩
  | .unknown f => f

@[simp] theorem Msg.build_fields (m : Msg) : m.kind.build m.fields = m := by
  cases m <;> rfl

/-- The kind `toMsg` assigns depends on the type and the data only. -/
def kindOf (ty : UInt8) (data : List UInt8) : Kind := (toMsg ⟨0, ty, data⟩).kind

/-- `toMsg` is parametric in the address: it classifies by `(type, data)` and then copies the
    frame's fields. -/
theorem toMsg_eq_build (f : Frame) : toMsg f = (kindOf f.ty f.data).build f := by
  obtain ⟨a, ty, d⟩ := f
  unfold kindOf toMsg
  simp only
  split
  · rfl
  · split
    · split <;> rfl
    · repeat' split
      all_goals rfl
    · rfl

/-- With two or more data bytes only the type matters. -/
theorem kindOf_long (ty x y : UInt8) (r : List UInt8) : kindOf ty (x :: y :: r) = kindOf ty [0, 0] := by
  unfold kindOf toMsg
  simp only
  split <;> rfl

/-- The message types the protocol table mentions; any other type is `unknown` unless empty-typed
    data chunk rules apply (type 0 is in the list). -/
def tableTypes : List UInt8 := [0, 1, 2, 3, 4, 5, 6]

/-- One data byte with a type outside the table: unknown. -/
theorem kindOf_other (ty b : UInt8) (h : ty ∉ tableTypes) : kindOf ty [b] = .unknown := by
  simp only [tableTypes, List.mem_cons, List.not_mem_nil, or_false, not_or] at h
  obtain ⟨h0, _, h2, h3, h4, h5, h6⟩ := h
  unfold kindOf toMsg
  simp only [h0, h2, h3, h4, h5, h6, ↓reduceIte]
  rfl

/-- How `Frame::from(Message)` lays out a message of a given kind. -/
inductive EncShape where
  | fixed (ty : UInt8) (data : List UInt8)   -- `Frame::new(address, MsgType(ty), Data::from(&[..]))`
  | payload (ty : UInt8)                      -- `Frame::new(Address(offset), MsgType(ty), data)`
  | passthrough                               -- `Message::Unknown(frame) => frame`
  deriving DecidableEq, Repr

def EncShape.apply (s : EncShape) (f : Frame) : Frame :=
  match s with
  | .fixed ty d => ⟨f.addr, ty, d⟩
  | .payload ty => ⟨f.addr, ty, f.data⟩
  | .passthrough => f

/-- The serial bus' three classifications depend on the kind only. -/
theorem responseExpected_kind (m : Msg) (f : Frame) : responseExpected (m.kind.build f) = responseExpected m := by
  cases m <;> rfl
theorem delayAfterSend_kind (m : Msg) (f : Frame) : delayAfterSend (m.kind.build f) = delayAfterSend m := by
  cases m <;> rfl
theorem delayAfterReceive_kind (m : Msg) (f : Frame) : delayAfterReceive (m.kind.build f) = delayAfterReceive m := by
  cases m with
  | reportState a s => cases s <;> rfl
  | _ => rfl

end Flipdot
