/-
C18, across calls: several exchanges on one bus object.  The property forbids the NEXT write within
30 ms of a data chunk's write and a return within 100 ms of an in-progress report; stated here on the
event sequence of a whole run (the port is the only state the model's bus carries from one exchange to
the next).
-/
import Flipdot.Props.C18
namespace Flipdot.C18
open Flipdot

/-- The port events of several `process_message` calls in a row on the same bus. -/
def serialRun : List Msg → Port → List PortEvent
  | [], _ => []
  | m :: ms, p => (serialStep m p).1 ++ serialRun ms (serialStep m p).2.2

/-- A data chunk whose write completes is followed by a 30 ms pause before anything else happens on the
    bus — in particular before the write of whatever message comes next. -/
theorem chunk_then_pause (off : UInt16) (d : List UInt8) (ms : List Msg) (p : Port)
    (hw : (frameWrite (toFrame (.sendData off d)) p.wr).1 = true) :
    serialRun (.sendData off d :: ms) p =
      .wrote (encNL (toFrame (.sendData off d))) true :: .sleep 30 ::
        serialRun ms (serialStep (.sendData off d) p).2.2 := by
  have hd := (C15.write_only_the_encoding (toFrame (.sendData off d)) p.wr).2 hw
  simp only [serialRun]
  rw [C16.events_shape, hw, hd]
  simp [delayAfterSend, sleepEv, responseExpected]

/-- A data chunk whose write fails is followed by no pause (and no read). -/
theorem failed_chunk_no_pause (off : UInt16) (d : List UInt8) (ms : List Msg) (p : Port)
    (hw : (frameWrite (toFrame (.sendData off d)) p.wr).1 = false) :
    ∃ bs, serialRun (.sendData off d :: ms) p =
      .wrote bs false :: serialRun ms (serialStep (.sendData off d) p).2.2 := by
  refine ⟨(frameWrite (toFrame (.sendData off d)) p.wr).2.1, ?_⟩
  simp only [serialRun]
  rw [C16.events_shape, hw]
  simp

/-- An exchange whose reply is an in-progress report ends with a 100 ms wait; only then does the next
    exchange start. -/
theorem report_then_wait (m : Msg) (ms : List Msg) (p : Port) (f : Frame)
    (hw : (frameWrite (toFrame m) p.wr).1 = true) (he : responseExpected m = true)
    (hr : (frameRead p.rd).1 = .ok f)
    (hf : ∃ a, toMsg f = .reportState a .pageLoadInProgress ∨ toMsg f = .reportState a .pageShowInProgress) :
    serialRun (m :: ms) p =
      (.wrote (encNL (toFrame m)) true :: (sleepEv (delayAfterSend m) ++ [.readLine, .sleep 100])) ++
        serialRun ms (serialStep m p).2.2 := by
  obtain ⟨h1, h2, _⟩ := sleep_after_recv_iff m p f hw he hr
  simp only [serialRun]
  rw [h1, h2.2 hf]

/-- No other exchange waits: a message that is not a data chunk, answered by anything but an in-progress
    report (or not answered), contributes no `sleep` event at all. -/
theorem no_other_wait (m : Msg) (p : Port)
    (hm : ¬ ∃ off d, m = .sendData off d)
    (hr : ∀ f, (frameRead p.rd).1 = .ok f →
      ¬ ∃ a, toMsg f = .reportState a .pageLoadInProgress ∨ toMsg f = .reportState a .pageShowInProgress) :
    ∀ e ∈ (serialStep m p).1, ∀ n, e ≠ .sleep n := by
  intro e he n hn
  subst hn
  rw [C16.events_shape] at he
  have hsend : sleepEv (delayAfterSend m) = [] := by
    cases m <;> simp_all [delayAfterSend, sleepEv]
  split at he
  · simp only [hsend, List.nil_append, List.cons_append, List.mem_cons, reduceCtorEq, false_or] at he
    split at he
    · simp only [List.mem_cons, reduceCtorEq, false_or] at he
      split at he
      · rename_i f hf
        have := hr f hf
        cases hd : delayAfterReceive (toMsg f) with
        | none => simp [sleepEv, hd] at he
        | some x =>
          have := (delayAfterReceive_iff _ _).mp hd
          exact absurd this.1 (hr f hf)
      · simp at he
    · simp at he
  · simp at he

-- Non-vacuity: a data chunk followed by the count announcement on a port that accepts everything.
example : serialRun [.sendData 0 [1, 2], .chunksSent 1] ⟨[], []⟩ =
    [.wrote (encNL (toFrame (.sendData 0 [1, 2]))) true, .sleep 30,
     .wrote (encNL (toFrame (.chunksSent 1))) true] := by decide

end Flipdot.C18
