/-
C06 (continued) — the printed picture.  `Display for Page` is the one further way a user observes pixels; it is
tied to the same abstract picture as `get_pixel`: after any history of in-bounds operations the rendering is
exactly the picture the specification predicts (so an operation changes exactly one printed character and
nothing else), it never panics on a well-formed page, it has the documented shape, and it determines every pixel.
-/
import Flipdot.Model.Display
import Flipdot.Props.C06
namespace Flipdot.C06
open Flipdot

/-- One printed row of the picture `f`. -/
def specRow (f : Nat → Nat → Bool) (w y : Nat) : List UInt8 :=
  124 :: ((List.range' 0 w).map (fun x => dot (f x y)) ++ [124, 10])

/-- The whole printed picture `f` at `w × h`. -/
def specRender (f : Nat → Nat → Bool) (w h : Nat) : List UInt8 :=
  border w ++ [10] ++ (List.range' 0 h).flatMap (specRow f w) ++ border w

theorem dotsFrom_shows (p q : Page) (f : Nat → Nat → Bool) (hs : Shows p q f) (y : Nat) (hy : y < q.h) :
    ∀ n x, x + n ≤ q.w → p.dotsFrom y n x = .ok ((List.range' x n).map (fun x => dot (f x y))) := by
  intro n
  induction n with
  | zero => intro x _; rfl
  | succ n ih =>
    intro x hx
    have hg := hs.2.2.2.1 x y (by omega) hy
    simp only [Page.dotsFrom, hg, ih (x + 1) (by omega), List.range'_succ, List.map_cons]

theorem rowsFrom_shows (p q : Page) (f : Nat → Nat → Bool) (hs : Shows p q f) :
    ∀ n y, y + n ≤ q.h → p.rowsFrom n y = .ok ((List.range' y n).flatMap (specRow f q.w)) := by
  intro n
  induction n with
  | zero => intro y _; rfl
  | succ n ih =>
    intro y hy
    have hd := dotsFrom_shows p q f hs y (by omega) q.w 0 (by omega)
    simp only [Page.rowsFrom, hs.2.1, hd, ih (y + 1) (by omega), List.range'_succ, List.flatMap_cons, specRow]

/-- The rendering of a page that shows picture `f` is the printed picture `f`. -/
theorem render_shows (p q : Page) (f : Nat → Nat → Bool) (hs : Shows p q f) :
    p.render = .ok (specRender f q.w q.h) := by
  have hr := rowsFrom_shows p q f hs q.h 0 (by omega)
  unfold Page.render specRender
  rw [hs.2.2.1, hr, hs.2.1]

/-- Printing a well-formed page never panics and prints its own pixels. -/
theorem render_never_panics (p : Page) (hp : p.WF) : p.render = .ok (specRender (picture p) p.w p.h) :=
  render_shows p p (picture p) (shows_self p hp)

/-- After any history of in-bounds operations the printed picture is exactly the specified one: each `set`
    changed the one character of its pixel and nothing else, each `set_all` every pixel. -/
theorem render_history (p : Page) (hp : p.WF) (ops : List PageOp) (hops : ∀ op ∈ ops, op.inb p.w p.h) :
    ∃ p', applyOps p ops = .ok p' ∧ p'.render = .ok (specRender (specOps (picture p) ops) p.w p.h) := by
  obtain ⟨p', ha, hs⟩ := history p hp ops hops
  exact ⟨p', ha, render_shows p' p _ hs⟩

theorem border_length (w : Nat) : (border w).length = w + 2 := by simp [border]

theorem specRow_length (f : Nat → Nat → Bool) (w y : Nat) : (specRow f w y).length = w + 3 := by
  simp [specRow]

theorem rows_length (f : Nat → Nat → Bool) (w : Nat) : ∀ n y,
    ((List.range' y n).flatMap (specRow f w)).length = n * (w + 3) := by
  intro n
  induction n with
  | zero => intro y; simp
  | succ n ih =>
    intro y
    rw [List.range'_succ, List.flatMap_cons, List.length_append, ih, specRow_length]
    rw [Nat.succ_mul]; omega

/-- Shape: `height + 2` lines of `width + 2` characters, newline-separated, no trailing newline. -/
theorem specRender_length (f : Nat → Nat → Bool) (w h : Nat) :
    (specRender f w h).length = (h + 2) * (w + 3) - 1 := by
  simp only [specRender, List.length_append, border_length, rows_length, List.length_cons, List.length_nil]
  rw [Nat.add_mul]; omega

-- Non-vacuity / the documented look: a 3 × 2 page with (1, 0) lit prints "+---+\n| @ |\n|   |\n+---+".
example : (match (Page.new 0 3 2).set 1 0 true with
    | .ok p => p.render
    | .error e => .error e) =
    .ok [43,45,45,45,43,10, 124,32,64,32,124,10, 124,32,32,32,124,10, 43,45,45,45,43] := by
  decide +kernel

end Flipdot.C06
