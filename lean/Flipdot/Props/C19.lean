/-
C19 — Sign-type configuration blocks are self-consistent and decoding them is total.
-/
import Flipdot.Model.SignType
import Flipdot.Model.VSign
namespace Flipdot.C19
open Flipdot

/-- Every configuration block is 16 bytes. -/
theorem toBytes_len16 (t : SignType) : t.toBytes.length = 16 := by cases t <;> rfl

/-- A block decodes back to its type. -/
theorem fromBytes_toBytes (t : SignType) : SignType.fromBytes t.toBytes = .ok (.ok t) := by
  cases t <;> rfl

/-- The (family, id) bytes of a type. -/
def code (t : SignType) : UInt8 × UInt8 := (t.toBytes.getD 0 0, t.toBytes.getD 1 0)

/-- Byte `i` of the block as a number. -/
def field (t : SignType) (i : Nat) : Nat := (t.toBytes.getD i 0).toNat

def isMax3000 (t : SignType) : Prop := t.toBytes.getD 0 0 = 0x04
def isHorizon (t : SignType) : Prop := t.toBytes.getD 0 0 = 0x08

instance (t : SignType) : Decidable (isMax3000 t) := by unfold isMax3000; infer_instance
instance (t : SignType) : Decidable (isHorizon t) := by unfold isHorizon; infer_instance

theorem family_total (t : SignType) : isMax3000 t ∨ isHorizon t := by cases t <;> decide

/-- Max3000: height byte, sum of the four panel widths and bits-per-column agree with the
    reported dimensions. -/
theorem max3000_fields (t : SignType) (h : isMax3000 t) :
    field t 4 = t.dims.2 ∧ field t 5 + field t 6 + field t 7 + field t 8 = t.dims.1 ∧
    field t 9 = 8 * ((t.dims.2 + 7) / 8) := by
  cases t <;> first | decide | exact absurd h (by decide)

/-- Horizon: height byte, width byte = A1*B1 + A2*B2 agree with the reported dimensions. -/
theorem horizon_fields (t : SignType) (h : isHorizon t) :
    field t 5 = t.dims.2 ∧ field t 7 = t.dims.1 ∧
    field t 8 * field t 10 + field t 9 * field t 11 = t.dims.1 := by
  cases t <;> first | decide | exact absurd h (by decide)

/-- What a virtual sign derives from the block is the type's reported dimensions. -/
theorem vsign_dims_agree (t : SignType) : configDims t.toBytes = .ok (some t.dims) := by
  cases t <;> rfl

/-- Decoding never panics (the two index operations are guarded by the length test). -/
theorem fromBytes_no_panic (bs : List UInt8) : ∃ r, SignType.fromBytes bs = .ok r := by
  unfold SignType.fromBytes
  by_cases h : bs.length ≠ 16
  · simp [h]
  · simp only [h, ↓reduceIte]
    have h16 : bs.length = 16 := by omega
    have h0 : 0 < bs.length := by omega
    have h1 : 1 < bs.length := by omega
    simp only [List.getElem?_eq_getElem h0, List.getElem?_eq_getElem h1]
    split <;> exact ⟨_, rfl⟩

/-- Every length other than 16 is rejected, reporting the expected and actual lengths. -/
theorem fromBytes_len (bs : List UInt8) (h : bs.length ≠ 16) :
    SignType.fromBytes bs = .ok (.error (.wrongLen 16 bs.length)) := by
  unfold SignType.fromBytes; simp [h]

theorem ofCode?_code (t : SignType) : SignType.ofCode? (code t).1 (code t).2 = some t := by
  cases t <;> rfl

theorem code_of_ofCode? (fam id : UInt8) (t : SignType) (h : SignType.ofCode? fam id = some t) :
    (fam, id) = code t := by
  unfold SignType.ofCode? at h
  repeat' split at h
  all_goals first
    | (cases h; subst_vars; rfl)
    | (exact absurd h (by simp))

/-- A 16-byte block is accepted exactly when its family and id bytes are those of a supported
    type (the other 14 bytes are not looked at). -/
theorem fromBytes_ok_iff (bs : List UInt8) (h : bs.length = 16) (t : SignType) :
    SignType.fromBytes bs = .ok (.ok t) ↔ (bs.getD 0 0, bs.getD 1 0) = code t := by
  unfold SignType.fromBytes
  have h0 : 0 < bs.length := by omega
  have h1 : 1 < bs.length := by omega
  simp only [h, ne_eq, not_true_eq_false, ↓reduceIte, List.getElem?_eq_getElem h0,
    List.getElem?_eq_getElem h1, List.getD_eq_getElem?_getD, Option.getD_some]
  constructor
  · intro hh
    split at hh
    · rename_i t' ht'
      have : t' = t := by simpa using hh
      subst this
      exact code_of_ofCode? _ _ _ ht'
    · simp at hh
  · intro hh
    have := ofCode?_code t
    rw [← hh] at this
    simp only at this
    rw [this]

/-- Rejections of 16-byte blocks are "unknown configuration". -/
theorem fromBytes_unknown (bs : List UInt8) (h : bs.length = 16)
    (hn : ∀ t, (bs.getD 0 0, bs.getD 1 0) ≠ code t) :
    SignType.fromBytes bs = .ok (.error .unknownConfig) := by
  obtain ⟨r, hr⟩ := fromBytes_no_panic bs
  rw [hr]
  cases r with
  | ok t => exact absurd ((fromBytes_ok_iff bs h t).mp hr) (hn t)
  | error e =>
    unfold SignType.fromBytes at hr
    have h0 : 0 < bs.length := by omega
    have h1 : 1 < bs.length := by omega
    simp only [h, ne_eq, not_true_eq_false, ↓reduceIte, List.getElem?_eq_getElem h0,
      List.getElem?_eq_getElem h1] at hr
    split at hr
    · simp at hr
    · simp at hr; rw [← hr]

/-- The 11 types have pairwise different (family, id) codes. -/
theorem codes_distinct : (SignType.all.map code).Nodup ∧ SignType.all.length = 11 := by decide

example : isMax3000 .max3000Side90x7 ∧ isHorizon .horizonDash40x12 := by decide
example : SignType.fromBytes (List.replicate 16 0) = .ok (.error .unknownConfig) := by decide
example : SignType.fromBytes [4, 0x20] = .ok (.error (.wrongLen 16 2)) := by decide

end Flipdot.C19
