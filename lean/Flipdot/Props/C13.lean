/-
C13 — Virtual sign implements the sign-side protocol state machine.
-/
import Flipdot.Lemmas.VSign
import Flipdot.Props.C12
namespace Flipdot.C13
open Flipdot

/-! ### The documented sign-side machine, as tables -/

/-- In which states a sign accepts (acknowledges) an operation request. -/
def legal : Op → State → Bool
  | .receiveConfig, s => s == .unconfigured || s == .configFailed
  | .receivePixels, s =>
      s == .configReceived || s == .pixelsFailed || s == .pageLoaded || s == .pageLoadInProgress ||
      s == .pageShown || s == .pageShowInProgress || s == .showingPages
  | .showLoadedPage, s => s == .pageLoaded
  | .loadNextPage, s => s == .pageShown
  | .startReset, _ => true
  | .finishReset, s => s == .readyToReset

/-- The state an accepted operation leads to. -/
def target : Op → State
  | .receiveConfig => .configInProgress
  | .receivePixels => .pixelsInProgress
  | .showLoadedPage => .pageShowInProgress
  | .loadNextPage => .pageLoadInProgress
  | .startReset => .readyToReset
  | .finishReset => .unconfigured

/-- In-progress load/show states complete after being reported once. -/
def afterReport : State → State
  | .pageLoadInProgress => .pageLoaded
  | .pageShowInProgress => .pageShown
  | s => s

/-- Hello / query: the sign answers with its current state; in-progress states then complete;
    nothing else changes. -/
theorem query_spec (s : VSign) (m : Msg) (hm : m = .hello s.addr ∨ m = .queryState s.addr) :
    vstep s m = .ok ({ s with state := afterReport s.state }, some (.reportState s.addr s.state)) := by
  rcases hm with rfl | rfl <;> simp only [vstep, ↓reduceIte, VSign.queryState] <;>
    cases hs : s.state <;> simp [afterReport, ← hs]

/-- An operation request to the sign's own address is acknowledged exactly in the states where
    the operation is legal, and then leads to the operation's target state. -/
theorem request_legal (s : VSign) (op : Op) (h : legal op s.state = true) :
    ∃ s', vstep s (.requestOp s.addr op) = .ok (s', some (.ackOp s.addr op)) ∧
      s'.state = target op ∧ s'.addr = s.addr ∧ s'.style = s.style := by
  cases op <;> simp only [vstep, ne_eq, not_true_eq_false, ↓reduceIte] <;>
    simp only [legal, Bool.or_eq_true, beq_iff_eq] at h
  · simp only [h, ↓reduceIte]; exact ⟨_, rfl, rfl, rfl, rfl⟩
  · have : VSign.canReceivePixels s.state = true := by
      rcases h with (((((h | h) | h) | h) | h) | h) | h <;> rw [h] <;> rfl
    simp only [this, ↓reduceIte]; exact ⟨_, rfl, rfl, rfl, rfl⟩
  · simp only [h, ↓reduceIte]; exact ⟨_, rfl, rfl, rfl, rfl⟩
  · simp only [h, ↓reduceIte]; exact ⟨_, rfl, rfl, rfl, rfl⟩
  · exact ⟨_, rfl, rfl, rfl, rfl⟩
  · simp only [h, ↓reduceIte]; exact ⟨_, rfl, rfl, rfl, rfl⟩

/-- ... and otherwise the sign stays silent and completely unchanged. -/
theorem request_illegal (s : VSign) (op : Op) (h : legal op s.state = false) :
    vstep s (.requestOp s.addr op) = .ok (s, none) := by
  cases op <;> simp only [vstep, ne_eq, not_true_eq_false, ↓reduceIte] <;>
    simp only [legal, Bool.or_eq_false_iff, beq_eq_false_iff_ne, ne_eq] at h
  · have : ¬ (s.state = .unconfigured ∨ s.state = .configFailed) := by simp [h.1, h.2]
    simp only [this, ↓reduceIte]
  · have : VSign.canReceivePixels s.state = false := by
      cases hs : s.state <;> simp_all [VSign.canReceivePixels]
    simp [this]
  · simp [h]
  · simp [h]
  · simp at h
  · simp [h]

/-- Accepting `ReceivePixels` discards the pages stored so far; `FinishReset` and `Goodbye`
    return the sign to the blank unconfigured condition it was created in. -/
theorem receivePixels_clears (s : VSign) (h : legal .receivePixels s.state = true) :
    ∃ s', vstep s (.requestOp s.addr .receivePixels) = .ok (s', some (.ackOp s.addr .receivePixels)) ∧
      s'.pages = [] := by
  have : VSign.canReceivePixels s.state = true := by
    simp only [legal, Bool.or_eq_true, beq_iff_eq] at h
    rcases h with (((((h | h) | h) | h) | h) | h) | h <;> rw [h] <;> rfl
  simp only [vstep, ne_eq, not_true_eq_false, ↓reduceIte, this]
  exact ⟨_, rfl, rfl⟩

theorem reset_blank (s : VSign) (h : s.state = .readyToReset) :
    vstep s (.requestOp s.addr .finishReset) =
      .ok (VSign.new s.addr s.style, some (.ackOp s.addr .finishReset)) := by
  simp [vstep, h, VSign.reset, VSign.new]

theorem goodbye_blank (s : VSign) :
    vstep s (.goodbye s.addr) = .ok (VSign.new s.addr s.style, none) := by
  simp [vstep, VSign.reset, VSign.new]

/-- Messages addressed to another sign, and messages a sign never acts on (reports,
    acknowledgements, unknown frames), leave it silent and unchanged. -/
theorem foreign_silent (s : VSign) (m : Msg) (a : UInt16) (ha : m.addr? = some a) (hne : a ≠ s.addr) :
    vstep s m = .ok (s, none) := by
  cases m <;> simp only [Msg.addr?, Option.some.injEq, reduceCtorEq] at ha <;> subst ha <;>
    simp [vstep, hne]

/-- Announcing the chunk count: a receiving sign moves to 'received' exactly when the announced
    count equals the number of chunks it accepted, and to 'failed' otherwise. -/
theorem count_spec (s : VSign) (n : UInt16) :
    (s.state = .pixelsInProgress →
      (s.chunksSent n).state = (if s.chunks = n.toNat then .pixelsReceived else .pixelsFailed)) ∧
    (s.state = .configInProgress →
      (s.chunksSent n).state = (if s.chunks = n.toNat then .configReceived else .configFailed)) ∧
    (s.state ≠ .pixelsInProgress → s.state ≠ .configInProgress → (s.chunksSent n).state = s.state) := by
  have fs : ∀ t : VSign, t.flush.state = t.state := fun t => t.flush_fields.2.1
  refine ⟨?_, ?_, ?_⟩ <;> intro h
  · simp only [VSign.chunksSent, fs, h, State.afterCount]
    by_cases hc : s.chunks = n.toNat <;> simp [hc]
  · simp only [VSign.chunksSent, fs, h, State.afterCount]
    by_cases hc : s.chunks = n.toNat <;> simp [hc]
  · intro h2
    simp only [VSign.chunksSent, fs]
    cases hs : s.state <;> simp_all [State.afterCount]

/-- The counter counts accepted pixel chunks one by one (saturating far above any 16-bit
    announced value, so an overlong transfer can never match). -/
theorem pixel_chunk_counted (s s' : VSign) (off : UInt16) (d : List UInt8)
    (hs : s.state = .pixelsInProgress) (h : s.sendData off d = .ok s') :
    s'.chunks = satSucc s.chunks ∧ s'.state = .pixelsInProgress := by
  unfold VSign.sendData at h
  simp only [hs, reduceCtorEq, false_and, ↓reduceIte] at h
  cases h
  obtain ⟨_, fst, _, _, fc, _⟩ := s.flush_fields
  split <;> simp [VSign.appendChunk, fc, fst, hs]

/-- After `k` accepted chunks the announced count `n` matches iff `k = n` (for every `k`,
    including `k ≥ 65536`). -/
theorem announce_matches_iff (k : Nat) (n : UInt16) : min k 4294967295 = n.toNat ↔ k = n.toNat := by
  have := n.toNat_lt
  omega

/-! ### Stored pages: complete pages of the configured size, assembled in arrival order -/

/-- Closing the group of chunks buffered so far: stored iff it is a complete page. -/
def closeGroup (w h : Nat) (pages : List Page) (cur : List UInt8) : List Page :=
  if cur = [] then pages
  else if w > 0 ∧ h > 0 ∧ cur.length = totalBytes w h then pages ++ [⟨w, h, cur⟩]
  else pages

/-- The pages a pixel transfer stores: chunks are concatenated in arrival order; a chunk at
    offset 0 starts a new page; the final group is closed by the chunk count. -/
def assemble (w h : Nat) : List Page → List UInt8 → List (UInt16 × List UInt8) → List Page
  | pages, cur, [] => closeGroup w h pages cur
  | pages, cur, (off, d) :: rest =>
    if off = 0 then assemble w h (closeGroup w h pages cur) d rest
    else assemble w h pages (cur ++ d) rest

/-- Deliver data chunks one after another. -/
def sendAll (s : VSign) : List (UInt16 × List UInt8) → Except Panic VSign
  | [] => .ok s
  | (off, d) :: rest =>
    match s.sendData off d with
    | .error e => .error e
    | .ok s' => sendAll s' rest

/-- After any `k` chunks the counter holds `min k (2^32 - 1)`: it counts accepted chunks exactly,
    far beyond the 16-bit range of an announced count. -/
theorem chunks_after_sendAll (s s' : VSign) (cs : List (UInt16 × List UInt8))
    (hs : s.state = .pixelsInProgress) (h : sendAll s cs = .ok s') :
    s'.chunks = min (s.chunks + cs.length) 4294967295 ∨ 4294967295 < s.chunks := by
  induction cs generalizing s with
  | nil => cases h; simp; omega
  | cons c cs ih =>
    obtain ⟨off, d⟩ := c
    simp only [sendAll] at h
    split at h
    · cases h
    · rename_i t ht
      obtain ⟨hc, hst⟩ := pixel_chunk_counted s t off d hs ht
      rcases ih t hst h with e | e
      · rw [e, hc]; unfold satSucc; simp only [List.length_cons]; split <;> omega
      · rw [hc] at e; unfold satSucc at e; split at e <;> omega

theorem flush_eq_closeGroup (s : VSign) :
    s.flush.pages = closeGroup s.w s.h s.pages s.pending ∧ s.flush.pending = [] := by
  refine ⟨?_, s.flush_fields.1⟩
  unfold VSign.flush closeGroup Page.fromBytes
  by_cases hp : s.pending = []
  · simp [hp]
  · have : s.pending.isEmpty = false := by simpa using hp
    simp only [this, Bool.false_eq_true, ↓reduceIte, hp]
    by_cases hwh : s.w > 0 ∧ s.h > 0
    · by_cases hl : s.pending.length = totalBytes s.w s.h
      · simp [hwh, hl]
      · simp [hwh, hl]
    · have : ¬ (s.w > 0 ∧ s.h > 0 ∧ s.pending.length = totalBytes s.w s.h) := fun hh => hwh ⟨hh.1, hh.2.1⟩
      simp [hwh, this]

/-- For every sequence of chunks (any offsets, any lengths, lost / short / extra chunks included)
    followed by the chunk count: the stored pages are exactly `assemble` of the chunk log. -/
theorem pages_assembled (s : VSign) (cs : List (UInt16 × List UInt8)) (n : UInt16)
    (hs : s.state = .pixelsInProgress) :
    ∃ s', sendAll s cs = .ok s' ∧
      (s'.chunksSent n).pages = assemble s.w s.h s.pages s.pending cs ∧
      (s'.chunksSent n).pending = [] ∧ s'.w = s.w ∧ s'.h = s.h := by
  induction cs generalizing s with
  | nil =>
    refine ⟨s, rfl, ?_, ?_, rfl, rfl⟩
    · simp only [VSign.chunksSent, assemble]
      exact (flush_eq_closeGroup _).1
    · simp only [VSign.chunksSent]
      exact (flush_eq_closeGroup _).2
  | cons c cs ih =>
    obtain ⟨off, d⟩ := c
    have hsd : s.sendData off d = .ok ((if off = 0 then s.flush else s).appendChunk d) := by
      unfold VSign.sendData; simp [hs]
    obtain ⟨_, fst, fw, fh, _⟩ := s.flush_fields
    have hst : ((if off = 0 then s.flush else s).appendChunk d).state = .pixelsInProgress := by
      split <;> simp [VSign.appendChunk, fst, hs]
    obtain ⟨s', h1, h2, h3, h4, h5⟩ := ih _ hst
    refine ⟨s', by simp [sendAll, hsd, h1], ?_, h3, ?_, ?_⟩
    · rw [h2]
      by_cases ho : off = 0
      · simp only [ho, ↓reduceIte, VSign.appendChunk, assemble, (flush_eq_closeGroup s).1,
          (flush_eq_closeGroup s).2, List.nil_append, fw, fh]
      · simp only [ho, ↓reduceIte, VSign.appendChunk, assemble]
    · rw [h4]; split <;> simp [VSign.appendChunk, fw]
    · rw [h5]; split <;> simp [VSign.appendChunk, fh]

/-- Whatever the history, every stored page is a complete page of the configured size, nothing is
    buffered or counted outside a transfer, and a sign in a configuration phase stores no pages. -/
theorem reachable_inv (s : VSign) (h : s.Reachable) :
    (∀ p ∈ s.pages, p.w = s.w ∧ p.h = s.h ∧ p.bytes.length = totalBytes s.w s.h) ∧
    (s.state.receiving = false → s.chunks = 0 ∧ s.pending = []) ∧
    (s.state.configPhase = true → s.pages = []) := by
  have hi := h.inv
  refine ⟨?_, hi.idle, hi.noPages⟩
  intro p hp
  obtain ⟨pw, ph, pwf⟩ := hi.pagesOK p hp
  refine ⟨pw, ph, ?_⟩
  unfold Page.WF at pwf
  rw [pwf, pw, ph]

/-! ### One statement: replies and reported state are those of the documented machine -/

/-- Reply and next state prescribed by the documented sign-side machine (legality table `legal`,
    targets `target`, report-once completion `afterReport`, count comparison, style-dependent
    completion, reset / goodbye). -/
def specStep (s : VSign) (m : Msg) : Option Msg × State :=
  match m with
  | .hello a | .queryState a =>
    if a = s.addr then (some (.reportState s.addr s.state), afterReport s.state) else (none, s.state)
  | .requestOp a op =>
    if a = s.addr ∧ legal op s.state = true then (some (.ackOp s.addr op), target op) else (none, s.state)
  | .chunksSent n =>
    (none, match s.state with
      | .pixelsInProgress => if s.chunks = n.toNat then .pixelsReceived else .pixelsFailed
      | .configInProgress => if s.chunks = n.toNat then .configReceived else .configFailed
      | st => st)
  | .pixelsComplete a =>
    (none, if a = s.addr ∧ s.state = .pixelsReceived then
        (match s.style with | .automatic => .showingPages | .manual => .pageLoaded)
      else s.state)
  | .goodbye a => (none, if a = s.addr then .unconfigured else s.state)
  | _ => (none, s.state)

theorem sendData_state (s s' : VSign) (off : UInt16) (d : List UInt8) (h : s.sendData off d = .ok s') :
    s'.state = s.state := by
  unfold VSign.sendData at h
  split at h
  · split at h
    · cases h
    · cases h; rfl
    · split at h
      · cases h
      · cases h; rfl
  · split at h
    · cases h
      obtain ⟨_, fst, _⟩ := s.flush_fields
      split <;> simp [VSign.appendChunk, fst]
    · cases h; rfl

theorem specStep_hello (s : VSign) (a : UInt16) : specStep s (.hello a) =
    if a = s.addr then (some (.reportState s.addr s.state), afterReport s.state) else (none, s.state) := rfl
theorem specStep_query (s : VSign) (a : UInt16) : specStep s (.queryState a) =
    if a = s.addr then (some (.reportState s.addr s.state), afterReport s.state) else (none, s.state) := rfl
theorem specStep_request (s : VSign) (a : UInt16) (op : Op) : specStep s (.requestOp a op) =
    if a = s.addr ∧ legal op s.state = true then (some (.ackOp s.addr op), target op) else (none, s.state) := rfl

/-- For every sign state and every message, the virtual sign's reply and reported state are those
    of the documented machine; by induction the same holds along every message history. -/
theorem step_refines (s : VSign) (m : Msg) :
    ∃ s', vstep s m = .ok (s', (specStep s m).1) ∧ s'.state = (specStep s m).2 := by
  cases m with
  | hello a =>
    rw [specStep_hello]
    by_cases ha : a = s.addr
    · subst ha
      rw [query_spec s _ (.inl rfl)]
      simp only [↓reduceIte]
      exact ⟨_, rfl, rfl⟩
    · simp only [ha, ↓reduceIte]
      exact ⟨s, by simp [vstep, ha], rfl⟩
  | queryState a =>
    rw [specStep_query]
    by_cases ha : a = s.addr
    · subst ha
      rw [query_spec s _ (.inr rfl)]
      simp only [↓reduceIte]
      exact ⟨_, rfl, rfl⟩
    · simp only [ha, ↓reduceIte]
      exact ⟨s, by simp [vstep, ha], rfl⟩
  | requestOp a op =>
    rw [specStep_request]
    by_cases ha : a = s.addr
    · subst ha
      by_cases hl : legal op s.state = true
      · obtain ⟨s', h1, h2, _⟩ := request_legal s op hl
        simp only [hl, and_self, ↓reduceIte]
        exact ⟨s', h1, h2⟩
      · have hl' : legal op s.state = false := by simpa using hl
        simp only [hl', Bool.false_eq_true, and_false, ↓reduceIte]
        exact ⟨s, request_illegal s op hl', rfl⟩
    · simp only [ha, false_and, ↓reduceIte]
      exact ⟨s, foreign_silent s (.requestOp a op) a rfl ha, rfl⟩
  | chunksSent n =>
    refine ⟨s.chunksSent n, by simp [vstep, specStep], ?_⟩
    obtain ⟨h1, h2, h3⟩ := count_spec s n
    simp only [specStep]
    cases hs : s.state <;> first
      | exact (h1 hs)
      | exact (h2 hs)
      | (rw [h3 (by rw [hs]; simp) (by rw [hs]; simp), hs])
  | pixelsComplete a =>
    simp only [vstep, specStep]
    split
    · exact ⟨_, rfl, rfl⟩
    · exact ⟨s, rfl, rfl⟩
  | goodbye a =>
    by_cases ha : a = s.addr
    · subst ha
      exact ⟨s.reset, by simp [vstep, specStep], by simp [specStep, VSign.reset]⟩
    · exact ⟨s, by simp [vstep, ha, specStep], by simp [specStep, ha]⟩
  | sendData off d =>
    obtain ⟨s', hs'⟩ := C12.sendData_no_panic s off d
    exact ⟨s', by simp [vstep, hs', specStep], by simp [specStep, sendData_state s s' off d hs']⟩
  | reportState a st => exact ⟨s, rfl, rfl⟩
  | ackOp a op => exact ⟨s, rfl, rfl⟩
  | unknown f => exact ⟨s, rfl, rfl⟩

-- Non-vacuity.
example : (VSign.new 3 .manual).Reachable := .init 3 .manual
example : legal .receiveConfig (VSign.new 3 .manual).state = true := by decide
example : assemble 2 8 [] [] [(0, List.replicate 16 1), (0, List.replicate 16 2)] =
    [⟨2, 8, List.replicate 16 1⟩, ⟨2, 8, List.replicate 16 2⟩] := by decide

end Flipdot.C13
