/-
C01 — Frame wire codec round-trips every frame in the documented Intel-HEX shape.
Only property theorems and their non-vacuity examples live here; helpers are in Flipdot/Lemmas.
-/
import Flipdot.Lemmas.Frame
namespace Flipdot.C01
open Flipdot

/-- The ASCII code of the upper-case hex digit for `n < 16`, as a table lookup. -/
def digitTable : List UInt8 := [48, 49, 50, 51, 52, 53, 54, 55, 56, 57, 65, 66, 67, 68, 69, 70]

/-- Declarative shape: a byte is written as two upper-case hex digits, high nibble first. -/
theorem hexByte_spec (b : UInt8) :
    hexByte b = [digitTable[b.toNat / 16]!, digitTable[b.toNat % 16]!] := by
  revert b; apply UInt8.forall_of_fin; decide +kernel

/-- `to_bytes` is ':' followed by the hex pairs of length, address (big-endian), type, data and
    the checksum — for every frame. -/
theorem enc_shape (f : Frame) :
    enc f = 58 :: hexUpper ([UInt8.ofNat f.data.length, (f.addr >>> 8).toUInt8, f.addr.toUInt8, f.ty]
              ++ f.data ++ [lrc (payload f)]) := rfl

/-- The address is written big-endian. -/
theorem addr_big_endian (a : UInt16) :
    (a >>> 8).toUInt8.toNat = a.toNat / 256 ∧ a.toUInt8.toNat = a.toNat % 256 := by
  have := a.toNat_lt
  simp [UInt16.toNat_shiftRight, Nat.shiftRight_eq_div_pow]
  omega

/-- Two characters per numeric byte plus the colon. -/
theorem enc_length (f : Frame) : (enc f).length = 1 + 2 * (f.data.length + 5) := by
  simp [enc, hexUpper_length, payload]; omega

/-- `to_bytes_with_newline` appends exactly CR LF. -/
theorem encNL_eq (f : Frame) : encNL f = enc f ++ [13, 10] := rfl

/-- The checksum makes all encoded numeric bytes sum to 0 mod 256. -/
theorem enc_sum_zero (f : Frame) :
    (payload f ++ [lrc (payload f)]).foldl (· + ·) 0 = 0 := lrc_sum_zero _

/-- With at most 255 data bytes the one-byte length field is exact (never truncates). -/
theorem len_field_exact (f : Frame) (h : f.WF) :
    (UInt8.ofNat f.data.length).toNat = f.data.length := ofNat_len_toNat _ h

/-- Decoding the encoding gives back the frame. -/
theorem dec_enc (f : Frame) (h : f.WF) : dec (enc f) = .ok f := by
  rw [enc, dec_hexUpper, checkBytes_payload f h]

/-- Decoding the CRLF-terminated encoding gives back the frame. -/
theorem dec_encNL (f : Frame) (h : f.WF) : dec (encNL f) = .ok f := by
  rw [encNL, enc, dec_hexUpper_crlf, checkBytes_payload f h]

/-- A data block can be placed in a frame exactly when it has at most 255 bytes. -/
theorem tryNew_ok_iff (d : List UInt8) : Data.tryNew d = .ok d ↔ d.length ≤ 255 := by
  unfold Data.tryNew
  by_cases h : d.length > 255 <;> simp [h] <;> omega

theorem tryNew_err (d : List UInt8) (h : 255 < d.length) :
    Data.tryNew d = .error (.tooLong 255 d.length) := by
  unfold Data.tryNew; simp [h]

/-- Whatever `try_new` accepts is well-formed: the `Frame.WF` hypothesis is exactly what the
    constructor guarantees. -/
theorem tryNew_wf (d d' : List UInt8) (a : UInt16) (t : UInt8) (h : Data.tryNew d = .ok d') :
    (Frame.mk a t d').WF := by
  unfold Data.tryNew at h
  by_cases hl : d.length > 255
  · simp [hl] at h
  · simp [hl] at h; subst h; unfold Frame.WF; simp; omega

-- Non-vacuity: the hypotheses are met by concrete non-trivial frames, and the doc example
-- ":02000201031FD9" (bytes written out; string literals do not reduce in the kernel) decodes.
example : (Frame.mk 2 1 [3, 31]).WF := by decide
example : enc ⟨2, 1, [3, 31]⟩ = [58, 48, 50, 48, 48, 48, 50, 48, 49, 48, 51, 49, 70, 68, 57] := by
  decide +kernel
example : dec [58, 48, 50, 48, 48, 48, 50, 48, 49, 48, 51, 49, 70, 68, 57, 13, 10] = .ok ⟨2, 1, [3, 31]⟩ := by
  decide +kernel
example : (Frame.mk 0xFFFF 0xFF (List.replicate 255 0xAB)).WF := by decide +kernel

end Flipdot.C01
