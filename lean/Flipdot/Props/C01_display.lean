/-
C01 (continued) — the human-readable form of a frame (`Display for Frame`, what a bus monitor logs) loses nothing:
it has the documented shape and two frames that print the same are the same frame.
-/
import Flipdot.Model.Display
import Flipdot.Lemmas.Bytes
import Flipdot.Lemmas.Frame
namespace Flipdot.C01
open Flipdot

theorem hexByte_inj (a b : UInt8) (h : hexByte a = hexByte b) : a = b := by
  have h1 := hexPairs_hexUpper [a]
  have h2 := hexPairs_hexUpper [b]
  simp only [hexUpper, List.append_nil] at h1 h2
  rw [h, h2] at h1
  simpa using h1.symm

theorem dataText_inj : ∀ (d e : List UInt8), dataText d = dataText e → d = e
  | [], [] => fun _ => rfl
  | [], b :: bs => fun h => by simp [dataText, hexByte] at h
  | a :: as, [] => fun h => by simp [dataText, hexByte] at h
  | a :: as, b :: bs => fun h => by
    simp only [dataText, hexByte, List.cons_append, List.nil_append, List.cons.injEq] at h
    obtain ⟨h1, h2, _, h3⟩ := h
    have hab : a = b := hexByte_inj a b (by simp [hexByte, h1, h2])
    rw [hab, dataText_inj as bs h3]

theorem dataText_length (d : List UInt8) : (dataText d).length = 3 * d.length := by
  induction d with
  | nil => rfl
  | cons b bs ih => simp [dataText, hexByte, ih]; omega

theorem addr_of_bytes (a b : UInt16) (hhi : (a >>> 8).toUInt8 = (b >>> 8).toUInt8) (hlo : a.toUInt8 = b.toUInt8) :
    a = b := by
  rw [← addr_join a, ← addr_join b, hhi, hlo]

/-- Shape: 19 characters of header, and for a frame with data 8 more and three per byte. -/
theorem display_length (f : Frame) :
    f.display.length = 19 + (if f.data.isEmpty then 0 else 8 + 3 * f.data.length) := by
  unfold Frame.display
  split <;> simp [hexByte, dataText_length]
  omega

/-- The printed form identifies the frame. -/
theorem display_injective (f g : Frame) (h : f.display = g.display) : f = g := by
  obtain ⟨fa, ft, fd⟩ := f
  obtain ⟨ga, gt, gd⟩ := g
  simp only [Frame.display, hexByte, List.cons_append, List.nil_append, List.cons.injEq, true_and] at h
  obtain ⟨t1, t2, h1, h2, l1, l2, hd⟩ := h
  have ht : ft = gt := hexByte_inj _ _ (by simp [hexByte, t1, t2])
  have hhi := hexByte_inj _ _ (show hexByte (fa >>> 8).toUInt8 = hexByte (ga >>> 8).toUInt8 by simp [hexByte, h1, h2])
  have hlo := hexByte_inj _ _ (show hexByte fa.toUInt8 = hexByte ga.toUInt8 by simp [hexByte, l1, l2])
  have ha : fa = ga := addr_of_bytes fa ga hhi hlo
  have hdd : fd = gd := by
    cases fd with
    | nil =>
      cases gd with
      | nil => rfl
      | cons b bs => simp at hd
    | cons a as =>
      cases gd with
      | nil => simp at hd
      | cons b bs =>
        simp only [List.isEmpty_cons, Bool.false_eq_true, ↓reduceIte, List.cons.injEq, true_and] at hd
        exact dataText_inj _ _ hd
  rw [ht, ha, hdd]

-- The documented look: "Type 01 | Addr 0002 | Data 03 04 " (with the trailing blank the formatter writes).
example : (Frame.mk 2 1 [3, 4]).display =
    [84,121,112,101,32,48,49, 32,124,32, 65,100,100,114,32,48,48,48,50, 32,124,32, 68,97,116,97,32, 48,51,32, 48,52,32] := by
  decide +kernel
example : (Frame.mk 0x7F 0x20 []).display = [84,121,112,101,32,50,48, 32,124,32, 65,100,100,114,32,48,48,55,70] := by
  decide +kernel

end Flipdot.C01
