/-
C05 — Every specific message survives the trip through its wire frame.
-/
import Flipdot.Lemmas.Message
import Flipdot.Lemmas.Frame
import Flipdot.Props.C01
namespace Flipdot.C05
open Flipdot

/-- Message → Frame → Message is the identity on every message other than the unknown wrapper. -/
theorem toMsg_toFrame (m : Msg) (h : m.Specific) : toMsg (toFrame m) = m :=
  Flipdot.toMsg_toFrame m h

/-- The frame of a message respects the 255-byte data bound whenever the message does
    (the `Data` invariant of `SendData` / `Unknown`). -/
theorem toFrame_wf (m : Msg) (h : m.WF) : (toFrame m).WF := by
  cases m <;> simp_all [toFrame, Frame.WF, Msg.WF]

/-- Through the wire encoding and back: same kind, address / offset / count, state or
    operation, and data bytes. -/
theorem wire_roundtrip (m : Msg) (hs : m.Specific) (hw : m.WF) :
    (dec (enc (toFrame m))).map toMsg = .ok m := by
  rw [C01.dec_enc _ (toFrame_wf m hw)]
  simp [Except.map, toMsg_toFrame m hs]

/-- The same with the CRLF terminator. -/
theorem wire_roundtrip_nl (m : Msg) (hs : m.Specific) (hw : m.WF) :
    (dec (encNL (toFrame m))).map toMsg = .ok m := by
  rw [C01.dec_encNL _ (toFrame_wf m hw)]
  simp [Except.map, toMsg_toFrame m hs]

/-- The wire encoding is injective on well-formed frames. -/
theorem enc_injective (f g : Frame) (hf : f.WF) (hg : g.WF) (h : enc f = enc g) : f = g := by
  have h1 := C01.dec_enc f hf
  rw [h, C01.dec_enc g hg] at h1
  exact (Except.ok.inj h1).symm

/-- Two different specific messages never share a wire encoding. -/
theorem wire_injective (m₁ m₂ : Msg) (h₁ : m₁.Specific) (h₂ : m₂.Specific) (w₁ : m₁.WF) (w₂ : m₂.WF)
    (h : enc (toFrame m₁) = enc (toFrame m₂)) : m₁ = m₂ := by
  have hf := enc_injective _ _ (toFrame_wf m₁ w₁) (toFrame_wf m₂ w₂) h
  rw [← toMsg_toFrame m₁ h₁, ← toMsg_toFrame m₂ h₂, hf]

-- Non-vacuity: the hypotheses hold of concrete messages, including the short data chunks that
-- the pinned tree lost (finding F1).
example : (Msg.sendData 16 [7]).Specific ∧ (Msg.sendData 16 [7]).WF := by decide
example : (Msg.sendData 0 []).Specific ∧ (Msg.sendData 0 []).WF := by decide
example : (dec (enc (toFrame (.sendData 16 [7])))).map toMsg = .ok (.sendData 16 [7]) := by
  decide +kernel
example : (Msg.reportState 0xFFFF .pageShowInProgress).Specific := by decide

end Flipdot.C05
