/-
C06 (continued) — what a fresh page and a filled page look like, read and printed: `Page::new` is all dark,
`set_all_pixels(v)` makes every pixel `v`; both stated on `get_pixel` and on the printed picture.
-/
import Flipdot.Props.C06_pixels
import Flipdot.Props.C07
namespace Flipdot.C06
open Flipdot

theorem zero_shift_bit : ∀ n : UInt8, (((0 : UInt8) >>> n) &&& 1 == 1) = false := by
  apply UInt8.forall_of_fin; decide +kernel

/-- Every pixel of a new page reads dark. -/
theorem new_get (id : UInt8) (w h x y : Nat) (hx : x < w) (hy : y < h) :
    (Page.new id w h).get x y = .ok false := by
  have hd := C07.new_dims id w h
  obtain ⟨b, hb, hg⟩ := C07.pixel_location (Page.new id w h) (C07.new_wf id w h) x y (by rw [hd.1]; exact hx) (by rw [hd.2]; exact hy)
  rw [hd.2, C07.new_bytes] at hb
  have hk : x * ((h + 7) / 8) + y / 8 < w * bpc h := by
    unfold bpc
    have h1 : y / 8 < (h + 7) / 8 := by omega
    calc x * ((h + 7) / 8) + y / 8 < x * ((h + 7) / 8) + (h + 7) / 8 := by omega
      _ = (x + 1) * ((h + 7) / 8) := by rw [Nat.succ_mul]
      _ ≤ w * ((h + 7) / 8) := Nat.mul_le_mul_right _ (by omega)
  have hb0 : b = 0 := by
    rw [List.append_assoc, List.getElem?_append_right (by simp; omega), List.getElem?_append_left (by simp; omega)] at hb
    simp only [List.length_cons, List.length_nil] at hb
    rw [show 4 + x * ((h + 7) / 8) + y / 8 - (0 + 1 + 1 + 1 + 1) = x * ((h + 7) / 8) + y / 8 by omega] at hb
    rw [List.getElem?_replicate] at hb
    simp only [hk, ↓reduceIte] at hb
    exact (Option.some.inj hb).symm
  rw [hg, hb0, zero_shift_bit]

/-- A new page prints as an empty frame. -/
theorem render_new (id : UInt8) (w h : Nat) :
    (Page.new id w h).render = .ok (specRender (fun _ _ => false) w h) := by
  have hd := C07.new_dims id w h
  have hs : Shows (Page.new id w h) (Page.new id w h) (fun _ _ => false) :=
    ⟨C07.new_wf id w h, rfl, rfl, fun x y hx hy => new_get id w h x y (hd.1 ▸ hx) (hd.2 ▸ hy), fun _ _ => rfl⟩
  have := render_shows _ _ _ hs
  rwa [hd.1, hd.2] at this

/-- After `set_all_pixels(v)` the page prints as all lit / all dark. -/
theorem render_setAll (p p' : Page) (hp : p.WF) (v : Bool) (h : p.setAll v = .ok p') :
    p'.render = .ok (specRender (fun _ _ => v) p.w p.h) := by
  obtain ⟨q, hq, hs⟩ := render_history p hp [.setAll v] (by intro op hop; simp at hop; subst hop; trivial)
  simp only [applyOps, applyOp, h] at hq
  rw [← Except.ok.inj hq] at hs
  simpa [specOps, specOp] using hs

end Flipdot.C06
