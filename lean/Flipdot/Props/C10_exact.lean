/-
C10 (continued) — the protocol relations are exact: a conversation satisfies the documented
protocol if and only if the controller produces it, so the protocol determines every next message
and the outcome from the replies seen so far.
-/
import Flipdot.Lemmas.SpecComplete
namespace Flipdot.C10
open Flipdot

/-- configure: the documented protocol allows exactly the conversations the controller has. -/
theorem configure_exact (a : UInt16) (t : SignType) (c : List Ex) (o : Outcome Unit) :
    ConfigureSpec a t c o ↔ ∃ script, (configure a t).run script = (c, o) := by
  constructor
  · intro h; exact ⟨repliesOf c, (configure_complete a t c o h).run⟩
  · rintro ⟨script, hs⟩
    have := (configure_refines a t).run script
    rw [hs] at this; exact this

theorem configureIfNeeded_exact (a : UInt16) (t : SignType) (c : List Ex) (o : Outcome Unit) :
    ConfigureIfNeededSpec a t c o ↔ ∃ script, (configureIfNeeded a t).run script = (c, o) := by
  constructor
  · intro h; exact ⟨repliesOf c, (configureIfNeeded_complete a t c o h).run⟩
  · rintro ⟨script, hs⟩
    have := (configureIfNeeded_refines a t).run script
    rw [hs] at this; exact this

theorem sendPages_exact (a : UInt16) (pages : List (List UInt8)) (c : List Ex) (o : Outcome FlipStyle)
    (hlen : (allChunkMsgs pages).length < 65536) :
    SendPagesSpec a pages c o ↔ ∃ script, (sendPages a pages).run script = (c, o) := by
  constructor
  · intro h; exact ⟨repliesOf c, (sendPages_complete a pages c o hlen h).run⟩
  · rintro ⟨script, hs⟩
    have := (sendPages_refines a pages hlen).run script
    rw [hs] at this; exact this

theorem shutDown_exact (a : UInt16) (c : List Ex) (o : Outcome Unit) :
    ShutDownSpec a c o ↔ ∃ script, (shutDown a).run script = (c, o) := by
  constructor
  · intro h; exact ⟨repliesOf c, (shutDown_complete a c o h).run⟩
  · rintro ⟨script, hs⟩
    have := (shutDown_refines a).run script
    rw [hs] at this; exact this

/-- The protocol is functional: two allowed conversations with the same replies are the same
    conversation with the same outcome (the replies seen so far determine every message sent and
    the result). -/
theorem configure_spec_functional (a : UInt16) (t : SignType) (c c' : List Ex) (o o' : Outcome Unit)
    (h : ConfigureSpec a t c o) (h' : ConfigureSpec a t c' o') (hr : repliesOf c = repliesOf c') :
    c = c' ∧ o = o' := by
  have e1 := (configure_complete a t c o h).run
  have e2 := (configure_complete a t c' o' h').run
  rw [hr, e2] at e1
  simpa using e1.symm

theorem sendPages_spec_functional (a : UInt16) (pages : List (List UInt8)) (c c' : List Ex)
    (o o' : Outcome FlipStyle) (hlen : (allChunkMsgs pages).length < 65536)
    (h : SendPagesSpec a pages c o) (h' : SendPagesSpec a pages c' o')
    (hr : repliesOf c = repliesOf c') : c = c' ∧ o = o' := by
  have e1 := (sendPages_complete a pages c o hlen h).run
  have e2 := (sendPages_complete a pages c' o' hlen h').run
  rw [hr, e2] at e1
  simpa using e1.symm

example : ConfigureSpec 3 .max3000Side90x7 [(.hello 3, none)] .starved := .ensureStop _ _ .helloStarved

end Flipdot.C10
