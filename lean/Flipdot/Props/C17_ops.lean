/-
C17 (continued) — transparency of every controller operation, with no side condition.
-/
import Flipdot.Lemmas.Transparent
import Flipdot.Props.C08
namespace Flipdot.C17
open Flipdot

/-- The statement of transparency for one operation `p` on one virtual bus: the serial path
    succeeds exactly when the direct path does (returning the same value), leaves the virtual signs
    in the same state, type and pages, and leaves nothing unread in the pipe. -/
def Transparent {α : Type} (p : Prog α) (bus : List VSign) : Prop :=
  (∀ x, (p.runVia ⟨bus, []⟩).1 = .ok x ↔ (p.runOn bus).1 = .ok x) ∧
  (p.runVia ⟨bus, []⟩).2.bus = (p.runOn bus).2 ∧ (p.runVia ⟨bus, []⟩).2.pending = []

theorem configure_transparent (a : UInt16) (t : SignType) (bus : List VSign) :
    Transparent (configure a t) bus :=
  op_transparent a _ ⟨configure_canonical a t, configure_strict a t, configure_expOwn a t⟩
    (configure_firstAsks a t) bus

theorem configureIfNeeded_transparent (a : UInt16) (t : SignType) (bus : List VSign) :
    Transparent (configureIfNeeded a t) bus :=
  op_transparent a _
    ⟨configureIfNeeded_canonical a t, configureIfNeeded_strict a t, configureIfNeeded_expOwn a t⟩
    (configureIfNeeded_firstAsks a t) bus

theorem sendPages_transparent (a : UInt16) (pages : List (List UInt8)) (bus : List VSign) :
    Transparent (sendPages a pages) bus :=
  op_transparent a _ ⟨sendPages_canonical a pages, sendPages_strict a pages, sendPages_expOwn a pages⟩
    (sendPages_firstAsks a pages) bus

theorem showLoadedPage_transparent (a : UInt16) (fuel : Nat) (bus : List VSign) :
    Transparent (showLoadedPage a (fuel + 1)) bus :=
  op_transparent a _
    ⟨switchPage_canonical a _ _ _ _, switchPage_strict a _ _ _ _, switchPage_expOwn a _ _ _ _⟩
    (switchPage_firstAsks a _ _ _ fuel) bus

theorem loadNextPage_transparent (a : UInt16) (fuel : Nat) (bus : List VSign) :
    Transparent (loadNextPage a (fuel + 1)) bus :=
  op_transparent a _
    ⟨switchPage_canonical a _ _ _ _, switchPage_strict a _ _ _ _, switchPage_expOwn a _ _ _ _⟩
    (switchPage_firstAsks a _ _ _ fuel) bus

theorem shutDown_transparent (a : UInt16) (bus : List VSign) : Transparent (shutDown a) bus := by
  have h := silent_transparent (shutDown a) (shutDown_canonical a)
    (allSends_expect (by simp [responseExpected]) (.done _)) bus
  unfold Transparent
  rw [h]
  exact ⟨fun _ => Iff.rfl, rfl, rfl⟩

/-- Sequences of operations: transparency composes, because each operation starts from the same
    virtual signs and an empty pipe on both paths. -/
theorem two_ops_transparent {α β : Type} (p : Prog α) (q : Prog β) (bus : List VSign)
    (hp : Transparent p bus) (hq : ∀ b, Transparent q b) :
    (q.runVia (p.runVia ⟨bus, []⟩).2).2.bus = (q.runOn (p.runOn bus).2).2 := by
  obtain ⟨_, hb, hpend⟩ := hp
  have e : (p.runVia ⟨bus, []⟩).2 = ⟨(p.runOn bus).2, []⟩ := by
    cases hf : (p.runVia ⟨bus, []⟩).2
    simp_all
  rw [e]
  exact (hq _).2.1

-- Non-vacuity: configure over the wire on a one-sign bus succeeds as it does directly.
example : ((configure 3 .max3000Dash30x7).runOn [VSign.new 3 .manual]).1 = .ok () := by
  have := C08.configure_clean [] [] (VSign.new 3 .manual) .max3000Dash30x7 (VSign.inv_new 3 .manual)
    (by simp [Others]) (by simp [Others])
  exact congrArg Prod.fst this

end Flipdot.C17
