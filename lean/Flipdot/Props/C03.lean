/-
C03 — Frame decoder is total, strict and agrees with an independent Intel-HEX parser.
The model decoder (Model/Frame.lean) is a hand parser, independent of the `regex` crate; `Shape`
(Lemmas/Decode.lean) is the documented textual form stated declaratively.
-/
import Flipdot.Lemmas.Decode
namespace Flipdot.C03
open Flipdot

theorem addr_split (ah al : UInt8) :
    ((ah.toUInt16 * 256 + al.toUInt16) >>> 8).toUInt8 = ah ∧ (ah.toUInt16 * 256 + al.toUInt16).toUInt8 = al := by
  have h1 := ah.toNat_lt
  have h2 := al.toNat_lt
  constructor <;> apply UInt8.toNat_inj.mp <;>
    simp [UInt16.toNat_add, UInt16.toNat_mul, UInt16.toNat_shiftRight, Nat.shiftRight_eq_div_pow] <;> omega

/-- The payload of the frame built from decoded fields is those fields again. -/
theorem payload_of_fields (len ah al ty : UInt8) (data : List UInt8) (h : data.length = len.toNat) :
    payload ⟨ah.toUInt16 * 256 + al.toUInt16, ty, data⟩ = len :: ah :: al :: ty :: data := by
  simp only [payload, List.cons_append, List.nil_append, (addr_split ah al).1, (addr_split ah al).2, h]
  simp

/-- Decoding is total and every rejection is one of exactly three kinds (the data-too-long error
    of `Data::try_new` can never come out of the decoder: the length field is one byte). -/
theorem dec_classified (bs : List UInt8) :
    (∃ f, dec bs = .ok f) ∨ dec bs = .error .invalid ∨ (∃ e a, dec bs = .error (.mismatch e a)) ∨
      (∃ e a, dec bs = .error (.badsum e a)) := by
  rw [dec_eq]
  cases hn : numsOf bs with
  | none => exact .inr (.inl rfl)
  | some nums =>
    simp only
    by_cases hl : 5 ≤ nums.length
    · obtain ⟨len, ah, al, ty, data, ck, rfl⟩ := nums_split nums hl
      rw [checkBytes_split]
      split
      · exact .inr (.inr (.inl ⟨_, _, rfl⟩))
      · split
        · exact .inr (.inr (.inr ⟨_, _, rfl⟩))
        · exact .inl ⟨_, rfl⟩
    · exact .inr (.inl (checkBytes_short nums (by omega)))

/-- Malformed text — and nothing else — is reported as `InvalidFrame`: exactly the strings that are
    not ':' + an even number >= 10 of hex digits (either case) + optional single CR LF. -/
theorem dec_err_invalid_iff (bs : List UInt8) : dec bs = .error .invalid ↔ ¬ Shape bs := by
  rw [shape_iff, dec_eq]
  cases hn : numsOf bs with
  | none => simp
  | some nums =>
    simp only [Option.some.injEq, exists_eq_left']
    by_cases hl : 5 ≤ nums.length
    · obtain ⟨len, ah, al, ty, data, ck, rfl⟩ := nums_split nums hl
      rw [checkBytes_split]
      simp only [hl, not_true_eq_false, iff_false]
      split
      · simp
      · split <;> simp
    · simp only [hl, not_false_eq_true, iff_true]
      exact checkBytes_short nums (by omega)

theorem shape_of_not_invalid (bs : List UInt8) (h : dec bs ≠ .error .invalid) : Shape bs :=
  Classical.byContradiction fun hns => h ((dec_err_invalid_iff bs).mpr hns)

/-- For well-shaped strings the order of the tests is: declared length against the actual number
    of data bytes first (reporting both), then the checksum (reporting declared and computed). -/
theorem dec_of_shape (bs : List UInt8) (h : Shape bs) :
    ∃ len ah al ty data ck, numsOf bs = some (len :: ah :: al :: ty :: (data ++ [ck])) ∧
      dec bs =
        if data.length ≠ len.toNat then .error (.mismatch len.toNat data.length)
        else if lrc (len :: ah :: al :: ty :: data) ≠ ck then
          .error (.badsum ck (lrc (len :: ah :: al :: ty :: data)))
        else .ok ⟨ah.toUInt16 * 256 + al.toUInt16, ty, data⟩ := by
  obtain ⟨nums, hn, hl⟩ := (shape_iff bs).mp h
  obtain ⟨len, ah, al, ty, data, ck, rfl⟩ := nums_split nums hl
  refine ⟨len, ah, al, ty, data, ck, hn, ?_⟩
  rw [dec_eq, hn]
  simp only
  rw [checkBytes_split]
  by_cases hd : data.length = len.toNat
  · simp only [hd, ne_eq, not_true_eq_false, ↓reduceIte, payload_of_fields len ah al ty data hd]
  · simp [hd]

/-- Length mismatch: well-shaped, and the declared count differs from the actual one; the error
    reports exactly those two numbers. -/
theorem dec_err_mismatch_iff (bs : List UInt8) (e a : Nat) :
    dec bs = .error (.mismatch e a) ↔
      ∃ len ah al ty data ck, numsOf bs = some (len :: ah :: al :: ty :: (data ++ [ck])) ∧
        e = len.toNat ∧ a = data.length ∧ a ≠ e := by
  constructor
  · intro hd
    have hs : Shape bs := shape_of_not_invalid bs (by rw [hd]; simp)
    obtain ⟨len, ah, al, ty, data, ck, hn, hdec⟩ := dec_of_shape bs hs
    refine ⟨len, ah, al, ty, data, ck, hn, ?_⟩
    rw [hdec] at hd
    split at hd
    · rename_i hne; cases hd; exact ⟨rfl, rfl, hne⟩
    · split at hd <;> cases hd
  · rintro ⟨len, ah, al, ty, data, ck, hn, rfl, rfl, hne⟩
    rw [dec_eq, hn]
    simp only
    rw [checkBytes_split]
    simp [hne]

/-- Bad checksum: well-shaped, lengths agree, and the declared checksum differs from the computed
    one; the error reports declared and computed values. -/
theorem dec_err_badsum_iff (bs : List UInt8) (e a : UInt8) :
    dec bs = .error (.badsum e a) ↔
      ∃ len ah al ty data, numsOf bs = some (len :: ah :: al :: ty :: (data ++ [e])) ∧
        data.length = len.toNat ∧ a = lrc (len :: ah :: al :: ty :: data) ∧ a ≠ e := by
  constructor
  · intro hd
    have hs : Shape bs := shape_of_not_invalid bs (by rw [hd]; simp)
    obtain ⟨len, ah, al, ty, data, ck, hn, hdec⟩ := dec_of_shape bs hs
    rw [hdec] at hd
    split at hd
    · cases hd
    · rename_i hl
      split at hd
      · rename_i hne; cases hd
        exact ⟨len, ah, al, ty, data, hn, by simpa using hl, rfl, hne⟩
      · cases hd
  · rintro ⟨len, ah, al, ty, data, hn, hl, rfl, hne⟩
    rw [dec_eq, hn]
    simp only
    rw [checkBytes_split, payload_of_fields len ah al ty data hl]
    simp [hl, hne]

/-- Acceptance: exactly the well-shaped strings whose numeric fields are the frame's payload
    followed by the right checksum. -/
theorem dec_ok_iff (bs : List UInt8) (f : Frame) :
    dec bs = .ok f ↔ numsOf bs = some (payload f ++ [lrc (payload f)]) ∧ f.WF := by
  constructor
  · intro hd
    have hs : Shape bs := shape_of_not_invalid bs (by rw [hd]; simp)
    obtain ⟨len, ah, al, ty, data, ck, hn, hdec⟩ := dec_of_shape bs hs
    rw [hdec] at hd
    split at hd
    · cases hd
    · rename_i hl
      have hl : data.length = len.toNat := by simpa using hl
      split at hd
      · cases hd
      · rename_i hck
        have hck : lrc (len :: ah :: al :: ty :: data) = ck := by simpa using hck
        cases hd
        refine ⟨?_, ?_⟩
        · rw [hn, payload_of_fields len ah al ty data hl, hck]; rfl
        · unfold Frame.WF; simp only; have := len.toNat_lt; omega
  · rintro ⟨hn, hw⟩
    rw [dec_eq, hn]
    exact checkBytes_payload f hw

/-! ### Re-encoding reproduces an accepted string up to digit case and the terminator -/

/-- Upper-case an ASCII hex digit. -/
def upper (c : UInt8) : UInt8 := if 97 ≤ c ∧ c ≤ 102 then c - 32 else c

theorem hexVal_upper : ∀ a x : UInt8, hexVal? a = some x → x < 16 ∧ hexDigit x = upper a := by
  apply UInt8.forall_of_fin
  intro i x hx
  have : ∀ i : Fin 256, ∀ x, hexVal? (UInt8.ofNat i.val) = some x →
      x = (hexVal? (UInt8.ofNat i.val)).getD 0 := by
    intro i x hx; rw [hx]; rfl
  have hx' := this i x hx
  subst hx'
  have key : ∀ i : Fin 256, (hexVal? (UInt8.ofNat i.val)).isSome →
      (hexVal? (UInt8.ofNat i.val)).getD 0 < 16 ∧
      hexDigit ((hexVal? (UInt8.ofNat i.val)).getD 0) = upper (UInt8.ofNat i.val) := by decide +kernel
  exact key i (by rw [hx]; rfl)

theorem join_nibbles : ∀ x y : Fin 16,
    ((UInt8.ofNat x.val * 16 + UInt8.ofNat y.val) >>> 4 = UInt8.ofNat x.val) ∧
    ((UInt8.ofNat x.val * 16 + UInt8.ofNat y.val) &&& 0x0F = UInt8.ofNat y.val) := by decide +kernel

theorem hexByte_join (x y : UInt8) (hx : x < 16) (hy : y < 16) :
    hexByte (x * 16 + y) = [hexDigit x, hexDigit y] := by
  have hx' : x.toNat < 16 := hx
  have hy' : y.toNat < 16 := hy
  have := join_nibbles ⟨x.toNat, hx'⟩ ⟨y.toNat, hy'⟩
  simp only [UInt8.ofNat_toNat] at this
  simp [hexByte, this.1, this.2]

theorem hexUpper_of_hexPairs {ds nums : List UInt8} (h : hexPairs ds = some nums) :
    hexUpper nums = ds.map upper := by
  induction ds using pairInduction generalizing nums with
  | h0 => simp [hexPairs] at h; subst h; rfl
  | h1 c => simp [hexPairs] at h
  | h2 a b rest ih =>
    simp only [hexPairs] at h
    cases ha : hexVal? a with
    | none => simp [ha] at h
    | some x =>
      cases hb : hexVal? b with
      | none => simp [ha, hb] at h
      | some y =>
        cases hr : hexPairs rest with
        | none => simp [ha, hb, hr] at h
        | some r =>
          simp only [ha, hb, hr, Option.some.injEq] at h
          subst h
          obtain ⟨hx, ex⟩ := hexVal_upper a x ha
          obtain ⟨hy, ey⟩ := hexVal_upper b y hb
          simp [hexUpper, hexByte_join x y hx hy, ex, ey, ih hr]

/-- An accepted string is ':' + digits + optional CR LF, and re-encoding the decoded frame gives
    ':' + the same digits in upper case. -/
theorem reenc (bs : List UInt8) (f : Frame) (h : dec bs = .ok f) :
    ∃ digits term, bs = 58 :: (digits ++ term) ∧ (term = [] ∨ term = [13, 10]) ∧
      enc f = 58 :: digits.map upper := by
  obtain ⟨hn, _⟩ := (dec_ok_iff bs f).mp h
  unfold numsOf at hn
  split at hn
  · rename_i rest
    have hu := hexUpper_of_hexPairs hn
    rcases stripCRLF_spec rest with ⟨p, hp, hs⟩ | ⟨_, hs⟩
    · rw [hs] at hu
      exact ⟨p, [13, 10], by rw [hp], .inr rfl, by simp [enc, hu]⟩
    · rw [hs] at hu
      exact ⟨rest, [], by simp, .inl rfl, by simp [enc, hu]⟩
  · cases hn

-- Non-vacuity and the documented examples (tests, labelled as such).
example : Shape [58, 48, 50, 48, 48, 48, 50, 48, 49, 48, 51, 49, 70, 68, 57] :=
  ⟨[48, 50, 48, 48, 48, 50, 48, 49, 48, 51, 49, 70, 68, 57], [], rfl, .inl rfl, by decide, by decide, by decide⟩
example : dec [58, 48, 49] = .error .invalid := by decide
example : dec [58, 48, 48, 48, 48, 55, 70, 48, 50, 48, 48, 55, 70] = .error (.mismatch 0 1) := by decide +kernel
example : dec [58, 48, 49, 48, 48, 55, 70, 48, 50, 70, 70, 55, 69] = .error (.badsum 0x7E 0x7F) := by decide +kernel

end Flipdot.C03
