/-
C11 — Controller: no unconfirmed success, fail-stop, bounded retries, own address only.
Invariants of every conversation, for every reply script.
-/
import Flipdot.Lemmas.CtrlSpec
import Flipdot.Lemmas.CtrlTree
namespace Flipdot.C11
open Flipdot

/-! ### Every addressed message carries the controller's own address -/

theorem configure_own_address (a : UInt16) (t : SignType) (script : List Reply) :
    ∀ e ∈ ((configure a t).run script).1, OwnOrNone a e.1 := (configure_own a t).run script

theorem configureIfNeeded_own_address (a : UInt16) (t : SignType) (script : List Reply) :
    ∀ e ∈ ((configureIfNeeded a t).run script).1, OwnOrNone a e.1 :=
  (configureIfNeeded_own a t).run script

theorem sendPages_own_address (a : UInt16) (pages : List (List UInt8)) (script : List Reply) :
    ∀ e ∈ ((sendPages a pages).run script).1, OwnOrNone a e.1 := (sendPages_own a pages).run script

theorem switchPage_own_address (a : UInt16) (target trigger : State) (op : Op) (fuel : Nat)
    (script : List Reply) :
    ∀ e ∈ ((switchPage a target trigger op fuel).run script).1, OwnOrNone a e.1 :=
  (switchPage_own a target trigger op fuel).run script

theorem shutDown_own_address (a : UInt16) (script : List Reply) :
    ∀ e ∈ ((shutDown a).run script).1, OwnOrNone a e.1 := (shutDown_own a).run script

/-! ### Fail-stop -/

/-- Bus error: whatever the operation (any interaction tree at all), a bus error is the last
    thing in the conversation and the outcome is the bus error... -/
theorem bus_error_is_last {α : Type} (p : Prog α) (script : List Reply) (i : Nat) (m : Msg)
    (h : (p.run script).1[i]? = some (m, some .busError)) :
    i + 1 = (p.run script).1.length ∧ (p.run script).2 = .bus := p.bus_error_last script i m h

/-- ... and the bus error is returned only when one happened. -/
theorem bus_outcome_only_after_bus_error {α : Type} (p : Prog α) (script : List Reply)
    (h : (p.run script).2 = .bus) : ∃ m, (p.run script).1.getLast? = some (m, some .busError) :=
  p.bus_outcome script h

/-- A reply the protocol does not allow (request not acknowledged by the sign itself; anything but
    silence after data, count, pixels-complete, goodbye) ends the conversation with a protocol
    error: nothing further is sent. -/
theorem disallowed_reply_is_last_configure (a : UInt16) (t : SignType) (script : List Reply)
    (i : Nat) (m : Msg) (r w : Option Msg)
    (hi : ((configure a t).run script).1[i]? = some (m, some (.ok r)))
    (hw : requiredReply a m = some w) (hr : r ≠ w) :
    i + 1 = ((configure a t).run script).1.length ∧ ((configure a t).run script).2 = .proto :=
  (configure_strict a t).run script i m r w hi hw hr

theorem disallowed_reply_is_last_configureIfNeeded (a : UInt16) (t : SignType) (script : List Reply)
    (i : Nat) (m : Msg) (r w : Option Msg)
    (hi : ((configureIfNeeded a t).run script).1[i]? = some (m, some (.ok r)))
    (hw : requiredReply a m = some w) (hr : r ≠ w) :
    i + 1 = ((configureIfNeeded a t).run script).1.length ∧
      ((configureIfNeeded a t).run script).2 = .proto :=
  (configureIfNeeded_strict a t).run script i m r w hi hw hr

theorem disallowed_reply_is_last_sendPages (a : UInt16) (pages : List (List UInt8))
    (script : List Reply) (i : Nat) (m : Msg) (r w : Option Msg)
    (hi : ((sendPages a pages).run script).1[i]? = some (m, some (.ok r)))
    (hw : requiredReply a m = some w) (hr : r ≠ w) :
    i + 1 = ((sendPages a pages).run script).1.length ∧ ((sendPages a pages).run script).2 = .proto :=
  (sendPages_strict a pages).run script i m r w hi hw hr

theorem disallowed_reply_is_last_switchPage (a : UInt16) (target trigger : State) (op : Op)
    (fuel : Nat) (script : List Reply) (i : Nat) (m : Msg) (r w : Option Msg)
    (hi : ((switchPage a target trigger op fuel).run script).1[i]? = some (m, some (.ok r)))
    (hw : requiredReply a m = some w) (hr : r ≠ w) :
    i + 1 = ((switchPage a target trigger op fuel).run script).1.length ∧
      ((switchPage a target trigger op fuel).run script).2 = .proto :=
  (switchPage_strict a target trigger op fuel).run script i m r w hi hw hr

theorem disallowed_reply_is_last_shutDown (a : UInt16) (script : List Reply)
    (i : Nat) (m : Msg) (r w : Option Msg)
    (hi : ((shutDown a).run script).1[i]? = some (m, some (.ok r)))
    (hw : requiredReply a m = some w) (hr : r ≠ w) :
    i + 1 = ((shutDown a).run script).1.length ∧ ((shutDown a).run script).2 = .proto :=
  (shutDown_strict a).run script i m r w hi hw hr

/-! ### No unconfirmed success -/

/-- `configure` returns success only if the very last exchange is the state query answered by the
    sign's own address with 'config received'. -/
theorem configure_success_confirmed (a : UInt16) (t : SignType) (script : List Reply)
    (h : ((configure a t).run script).2 = .ok ()) :
    ((configure a t).run script).1.getLast? =
      some (ans (.queryState a) (some (.reportState a .configReceived))) := by
  have hs := (configure_refines a t).run script
  generalize ((configure a t).run script).1 = c at hs ⊢
  generalize ((configure a t).run script).2 = o at hs h
  cases hs with
  | ensureStop c o he =>
    subst h
    cases he with
    | finish c' o' hm => exact absurd rfl (hm.not_ok ())
    | full r c' o' _ _ hm => exact absurd rfl (hm.not_ok ())
  | transfer c1 c2 o _ ht =>
    have := ht.success_confirmed h
    rw [List.getLast?_append, this]; rfl

/-- `send_pages` returns success only if the transfer part of the conversation ended with the
    sign's own 'pixels received' report (followed only by pixels-complete and the style query). -/
theorem sendPages_success_confirmed (a : UInt16) (pages : List (List UInt8)) (script : List Reply)
    (hlen : (allChunkMsgs pages).length < 65536) (st : FlipStyle)
    (h : ((sendPages a pages).run script).2 = .ok st) :
    ∃ c1 r, ((sendPages a pages).run script).1 =
        c1 ++ [ans (.pixelsComplete a) none, ans (.queryState a) r] ∧
      c1.getLast? = some (ans (.queryState a) (some (.reportState a .pixelsReceived))) := by
  have hs := (sendPages_refines a pages hlen).run script
  generalize ((sendPages a pages).run script).1 = c at hs ⊢
  generalize ((sendPages a pages).run script).2 = o at hs h
  cases hs with
  | transferStop c o' hn ht => cases o' <;> simp [Outcome.cast] at h <;> exact absurd rfl (hn ())
  | completeStop c1 c2 o ht hstop => exact absurd h (hstop.not_ok st)
  | queryStarved c1 ht => cases h
  | queryBus c1 ht => cases h
  | automatic c1 ht => exact ⟨c1, _, rfl, ht.success_confirmed rfl⟩
  | manual c1 r _ ht => exact ⟨c1, r, rfl, ht.success_confirmed rfl⟩

/-! ### Bounded retries, and only after the sign's own 'failed' report -/

theorem attemptMsgs_one_request (a : UInt16) (msgs : List Msg) (op : Op)
    (hm : ∀ m ∈ msgs, m ≠ .requestOp a op) :
    ((attemptMsgs a msgs op).filter (· == .requestOp a op)).length ≤ 1 := by
  unfold attemptMsgs
  have : (msgs ++ [Msg.chunksSent (UInt16.ofNat msgs.length), .queryState a]).filter (· == .requestOp a op) = [] := by
    rw [List.filter_eq_nil_iff]
    intro m hmem
    simp only [List.mem_append, List.mem_cons, List.not_mem_nil, or_false] at hmem
    rcases hmem with h | rfl | rfl
    · simpa using hm m h
    · simp
    · simp
  simp [this]

theorem chunk_not_request (a : UInt16) (op : Op) (items : List (List UInt8)) :
    ∀ m ∈ allChunkMsgs items, m ≠ .requestOp a op := by
  intro m hm
  obtain ⟨off, d, rfl⟩ := allChunkMsgs_sendData items m hm
  simp

/-- At most three transfer attempts per call: in every conversation of a transfer the receive
    request occurs at most three times. -/
theorem transfer_attempts_le_3 (a : UInt16) (items : List (List UInt8)) (op : Op) (succ failS : State)
    (script : List Reply) (hlen : (allChunkMsgs items).length < 65536) :
    ((msgsOf ((transfer a (allChunkMsgs items) op succ failS 2).run script).1).filter
      (· == .requestOp a op)).length ≤ 3 := by
  have hs := (transfer_refines a (allChunkMsgs items) op succ failS 2 hlen).run script
  exact hs.attempt_shape.count_le _ (attemptMsgs_one_request a _ op (chunk_not_request a op items))

/-- A further attempt is made only after the sign's own 'failed' report: every conversation of a
    transfer is a sequence of complete attempts each ended by exactly that exchange, followed by a
    final attempt containing no further request. -/
theorem transfer_retry_only_after_own_failed (a : UInt16) (items : List (List UInt8)) (op : Op)
    (succ failS : State) (script : List Reply) (hlen : (allChunkMsgs items).length < 65536) :
    RetryShape a (allChunkMsgs items) op failS
      ((transfer a (allChunkMsgs items) op succ failS 2).run script).1 :=
  ((transfer_refines a (allChunkMsgs items) op succ failS 2 hlen).run script).retry_shape
    (chunk_not_request a op items)

/-! ### A reply carrying another address is never treated as the controller's own -/

/-- Replacing, anywhere in a script, a state report or acknowledgement from another address by
    any unrelated frame changes neither what is sent nor what is returned. -/
theorem foreign_reply_is_unrelated (a a' : UInt16) (ha : a' ≠ a) (s : State) (f : Frame)
    (t : SignType) (pre post : List Reply) :
    (configure a t).trace (pre ++ .ok (some (.reportState a' s)) :: post) =
      (configure a t).trace (pre ++ .ok (some (.unknown f)) :: post) ∧
    ((configure a t).run (pre ++ .ok (some (.reportState a' s)) :: post)).2 =
      ((configure a t).run (pre ++ .ok (some (.unknown f)) :: post)).2 := by
  apply (configure_respects a t).run_eq
  simp [classify, ha]

theorem foreign_ack_is_unrelated (a a' : UInt16) (ha : a' ≠ a) (o : Op) (f : Frame)
    (pages : List (List UInt8)) (pre post : List Reply) :
    (sendPages a pages).trace (pre ++ .ok (some (.ackOp a' o)) :: post) =
      (sendPages a pages).trace (pre ++ .ok (some (.unknown f)) :: post) ∧
    ((sendPages a pages).run (pre ++ .ok (some (.ackOp a' o)) :: post)).2 =
      ((sendPages a pages).run (pre ++ .ok (some (.unknown f)) :: post)).2 := by
  apply (sendPages_respects a pages).run_eq
  simp [classify, ha]

-- Non-vacuity: a script with a foreign acknowledgement ends in a protocol error after 2 messages.
example : ((sendPages 3 []).run [.ok (some (.ackOp 4 .receivePixels)), .ok none]).2 = .proto := by decide
example : (((sendPages 3 []).run [.ok (some (.ackOp 4 .receivePixels)), .ok none]).1).length = 1 := by decide

end Flipdot.C11
