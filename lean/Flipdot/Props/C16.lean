/-
C16 — Serial bus: one frame out per message, one frame in exactly when a reply is due.
-/
import Flipdot.Model.Serial
import Flipdot.Props.C15
namespace Flipdot.C16
open Flipdot

/-- A reply is due exactly for hello, state query and operation request. -/
theorem responseExpected_iff (m : Msg) :
    responseExpected m = true ↔
      (∃ a, m = .hello a) ∨ (∃ a, m = .queryState a) ∨ (∃ a o, m = .requestOp a o) := by
  cases m <;> simp [responseExpected]

/-- Events other than the write itself. -/
def IsAux (e : PortEvent) : Prop := (∃ ms, e = .sleep ms) ∨ e = .readLine

theorem sleepEv_aux (x : Option Nat) : ∀ e ∈ sleepEv x, IsAux e := by
  intro e he
  cases x <;> simp [sleepEv] at he
  exact .inl ⟨_, he⟩

/-- The exact shape of what happens at the port. -/
theorem events_shape (m : Msg) (p : Port) :
    (serialStep m p).1 =
      .wrote (frameWrite (toFrame m) p.wr).2.1 (frameWrite (toFrame m) p.wr).1 ::
        (if (frameWrite (toFrame m) p.wr).1 then
          sleepEv (delayAfterSend m) ++
            (if responseExpected m then
              .readLine :: (match (frameRead p.rd).1 with
                | .ok f => sleepEv (delayAfterReceive (toMsg f))
                | _ => [])
            else [])
        else []) := by
  unfold serialStep
  simp only
  by_cases hok : (frameWrite (toFrame m) p.wr).1 = true
  · simp only [hok, Bool.not_true, Bool.false_eq_true, ↓reduceIte]
    by_cases he : responseExpected m = true
    · simp only [he, ↓reduceIte]
      cases hr : (frameRead p.rd).1 <;> simp
    · simp only [he, Bool.false_eq_true, ↓reduceIte]; simp
  · have : (frameWrite (toFrame m) p.wr).1 = false := by simpa using hok
    simp [this]

/-- What is written is (a prefix of) exactly that message's frame encoding with CRLF — nothing else —
    in one `wrote` event, the first event; the whole encoding whenever the write succeeded. -/
theorem writes_exact (m : Msg) (p : Port) :
    ∃ d ok rest, (serialStep m p).1 = .wrote d ok :: rest ∧ d <+: encNL (toFrame m) ∧
      (ok = true → d = encNL (toFrame m)) ∧ (∀ e ∈ rest, IsAux e) := by
  have hw := C15.write_only_the_encoding (toFrame m) p.wr
  refine ⟨_, _, _, events_shape m p, hw.1, hw.2, ?_⟩
  intro e he
  split at he
  · simp only [List.mem_append] at he
    rcases he with he | he
    · exact sleepEv_aux _ e he
    · split at he
      · simp only [List.mem_cons] at he
        rcases he with rfl | he
        · exact .inr rfl
        · split at he
          · exact sleepEv_aux _ e he
          · simp at he
      · simp at he
  · simp at he

theorem readLine_not_in_sleepEv (x : Option Nat) : PortEvent.readLine ∉ sleepEv x := by
  cases x <;> simp [sleepEv]

/-- `readLine` happens iff the write succeeded and a reply is due — and then exactly once. -/
theorem reads_iff_expected (m : Msg) (p : Port) :
    (.readLine ∈ (serialStep m p).1 ↔
      ((frameWrite (toFrame m) p.wr).1 = true ∧ responseExpected m = true)) ∧
    ((serialStep m p).1.filter (· == .readLine)).length ≤ 1 := by
  rw [events_shape]
  by_cases hw : (frameWrite (toFrame m) p.wr).1 = true
  · by_cases he : responseExpected m = true
    · simp only [hw, he, ↓reduceIte, and_self, iff_true]
      have h1 := readLine_not_in_sleepEv (delayAfterSend m)
      refine ⟨by simp, ?_⟩
      cases hds : delayAfterSend m <;> cases hr : (frameRead p.rd).1 <;> simp [sleepEv]
      all_goals (first | (cases hdr : delayAfterReceive (toMsg _) <;> simp [sleepEv]) | skip)
    · have hf : responseExpected m = false := by simpa using he
      simp only [hw, hf, ↓reduceIte, Bool.false_eq_true, and_false, iff_false, List.append_nil]
      cases hds : delayAfterSend m <;> simp [sleepEv]
  · have hf : (frameWrite (toFrame m) p.wr).1 = false := by simpa using hw
    simp [hf]

/-- A write failure is returned as an error, and then nothing is read. -/
theorem write_failure_is_error (m : Msg) (p : Port) (h : (frameWrite (toFrame m) p.wr).1 = false) :
    (serialStep m p).2.1 = .err ∧ (serialStep m p).2.2.rd = p.rd := by
  unfold serialStep
  simp [h]

/-- No reply due: nothing is read and "no reply" is returned. -/
theorem no_read_otherwise (m : Msg) (p : Port) (hw : (frameWrite (toFrame m) p.wr).1 = true)
    (he : responseExpected m = false) :
    (serialStep m p).2.1 = .ok none ∧ (serialStep m p).2.2.rd = p.rd := by
  unfold serialStep
  simp [hw, he]

/-- Reply due: exactly one `Frame::read` is made (so exactly one line is consumed, C15), and the
    result is its decoding interpreted as a message — or an error if the read failed or the line
    does not decode; never a missing or invented reply. -/
theorem reply_is_decoded (m : Msg) (p : Port) (hw : (frameWrite (toFrame m) p.wr).1 = true)
    (he : responseExpected m = true) :
    (serialStep m p).2.2.rd = (frameRead p.rd).2 ∧
    (serialStep m p).2.1 = (match (frameRead p.rd).1 with
      | .ok f => .ok (some (toMsg f))
      | _ => .err) := by
  unfold serialStep
  simp only [hw, Bool.not_true, Bool.false_eq_true, ↓reduceIte, he]
  cases hr : (frameRead p.rd).1 <;> exact ⟨rfl, rfl⟩

-- Non-vacuity: a state query answered by a report; a data chunk needs no reply.
example : responseExpected (.queryState 3) = true ∧ responseExpected (.sendData 0 [1]) = false := by decide

end Flipdot.C16
