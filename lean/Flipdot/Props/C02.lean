/-
C02 — Corrupted wire frames are rejected, never decoded as a different frame.
`wire f nl` is `enc f` (nl = false) or `encNL f` (nl = true).  Faults are stated structurally:
"the encoding is pre ++ x :: post, the damaged string is …", which ranges over every position.
-/
import Flipdot.Lemmas.Corrupt
namespace Flipdot.C02
open Flipdot

theorem wire_is_encoding (f : Frame) : wire f false = enc f ∧ wire f true = encNL f :=
  ⟨wire_false f, wire_true f⟩

/-- A frame whose declared length disagrees with its data is never accepted. -/
theorem mismatch_never_ok (bs : List UInt8) (len ah al ty ck : UInt8) (data : List UInt8)
    (hn : numsOf bs = some (len :: ah :: al :: ty :: (data ++ [ck]))) (hl : data.length ≠ len.toNat)
    (g : Frame) : dec bs ≠ .ok g := by
  rw [dec_eq, hn]
  simp only
  rw [checkBytes_split]
  simp [hl]

/-- A frame whose checksum does not match is never accepted. -/
theorem badsum_never_ok (bs : List UInt8) (nums : List UInt8) (hn : numsOf bs = some nums)
    (hs : bsum nums ≠ 0) (g : Frame) : dec bs ≠ .ok g :=
  fun h => badsum_rejected bs g nums h hn hs

/-- Single-character substitution, any position, any replacement byte: an error, or exactly the
    original frame (e.g. when only the letter case of a digit changes). -/
theorem subst_safe (f : Frame) (hf : f.WF) (nl : Bool) (pre post : List UInt8) (x c : UInt8)
    (hw : wire f nl = pre ++ x :: post) (g : Frame) (h : dec (pre ++ c :: post) = .ok g) : g = f := by
  rcases split_wire _ _ pre post x hw with ⟨rfl, rfl, rfl⟩ | ⟨dpre, dpost, hD, rfl, rfl⟩ | ⟨tpre, tpost, hT, rfl, rfl⟩
  · -- the colon
    by_cases hc : c = 58
    · subst hc; exact same_wire f g hf nl h
    · exact (none_rejected _ g h (numsOf_head_ne c _ hc)).elim
  · -- a digit
    obtain ⟨NA, b, NB, hN, hside⟩ := split_hexUpper _ dpre dpost x hD
    rcases hside with ⟨rfl, rfl, rfl⟩ | ⟨rfl, rfl, rfl⟩
    · -- high digit of byte b
      have hnh : nonhex (hexUpper NA ++ c :: loD b :: hexUpper NB) ≤ 1 := by
        rw [nonhex_append, nonhex_cons, nonhex_cons, nonhex_hexUpper, nonhex_hexUpper]
        have : isHex (loD b) = true := isHex_hexDigit_lo b
        simp [this]; split <;> omega
      have hn : numsOf (58 :: hexUpper NA ++ c :: (loD b :: hexUpper NB ++ term nl)) =
          hexPairs (hexUpper NA ++ c :: loD b :: hexUpper NB) := by
        have := numsOf_digits _ nl hnh
        simpa using this
      rw [hexPairs_around, hexVal_loD] at hn
      cases hv : hexVal? c with
      | none => rw [hv] at hn; exact (none_rejected _ g h (by simpa using hn)).elim
      | some v =>
        rw [hv] at hn
        exact byte_replaced _ f g hf NA NB b _ hN (by simpa using hn) (by simpa using h)
    · -- low digit of byte b
      have hnh : nonhex (hexUpper NA ++ hiD b :: c :: hexUpper NB) ≤ 1 := by
        rw [nonhex_append, nonhex_cons, nonhex_cons, nonhex_hexUpper, nonhex_hexUpper]
        have : isHex (hiD b) = true := isHex_hexDigit_hi b
        simp [this]; split <;> omega
      have hn : numsOf (58 :: (hexUpper NA ++ [hiD b]) ++ c :: (hexUpper NB ++ term nl)) =
          hexPairs (hexUpper NA ++ hiD b :: c :: hexUpper NB) := by
        have := numsOf_digits _ nl hnh
        simpa using this
      rw [hexPairs_around, hexVal_hiD] at hn
      cases hv : hexVal? c with
      | none => rw [hv] at hn; exact (none_rejected _ g h (by simpa using hn)).elim
      | some v =>
        rw [hv] at hn
        exact byte_replaced _ f g hf NA NB b _ hN (by simpa using hn) (by simpa using h)
  · -- a terminator character
    by_cases hc : c = x
    · subst hc
      have : 58 :: (hexUpper (numsF f) ++ tpre) ++ c :: post = wire f nl := by
        simp [wire, hT]
      rw [this] at h
      exact same_wire f g hf nl h
    · exfalso
      cases nl with
      | false => simp [term] at hT
      | true =>
        simp only [term, ↓reduceIte] at hT
        have hcases : (tpre = [] ∧ x = 13 ∧ post = [10]) ∨ (tpre = [13] ∧ x = 10 ∧ post = []) := by
          match tpre, hT with
          | [], hT => simp at hT; exact .inl ⟨rfl, hT.1.symm, hT.2.symm⟩
          | [t], hT => simp at hT; exact .inr ⟨by rw [hT.1], hT.2.1.symm, hT.2.2⟩
          | t1 :: t2 :: more, hT => simp at hT
        rcases hcases with ⟨rfl, rfl, rfl⟩ | ⟨rfl, rfl, rfl⟩
        · -- CR replaced
          have hne : ¬ EndsCRLF (hexUpper (numsF f) ++ [c, 10]) := by
            rw [endsCRLF_two]; exact fun hh => hc hh.1
          have hn : numsOf (58 :: (hexUpper (numsF f) ++ []) ++ c :: [10]) = none := by
            have := numsOf_plain _ hne
            simp only [List.append_nil, List.cons_append] at this ⊢
            rw [show hexUpper (numsF f) ++ c :: [10] = hexUpper (numsF f) ++ [c, 10] from rfl, this]
            exact hexPairs_none_of_mem _ 10 (by simp) not_isHex_10
          exact none_rejected _ g h hn
        · -- LF replaced
          have hne : ¬ EndsCRLF (hexUpper (numsF f) ++ [13, c]) := by
            rw [endsCRLF_two]; exact fun hh => hc hh.2
          have hn : numsOf (58 :: (hexUpper (numsF f) ++ [13]) ++ c :: []) = none := by
            have := numsOf_plain _ hne
            simp only [List.append_assoc, List.cons_append, List.nil_append] at this ⊢
            rw [this]
            exact hexPairs_none_of_mem _ 13 (by simp) not_isHex_13
          exact none_rejected _ g h hn

/-! ### helpers about the digits of an encoding -/

theorem numsF_ne_nil (f : Frame) : ∃ b0 rest, numsF f = b0 :: rest := by
  simp [numsF, payload]

theorem digits_odd_rejected (A : List UInt8) (nl : Bool) (hh : ∀ c ∈ A, isHex c = true)
    (hodd : A.length % 2 = 1) : numsOf (58 :: (A ++ term nl)) = none := by
  rw [numsOf_digits A nl (by rw [nonhex_of_all_hex A hh]; omega)]
  exact hexPairs_none_of_odd A hodd

theorem digits_len (f : Frame) : (hexUpper (numsF f)).length = 2 * (numsF f).length := hexUpper_length _

/-- A dropped character, any position: always rejected. -/
theorem delete_rejected (f : Frame) (nl : Bool) (pre post : List UInt8) (x : UInt8)
    (hw : wire f nl = pre ++ x :: post) (g : Frame) : dec (pre ++ post) ≠ .ok g := by
  intro h
  rcases split_wire _ _ pre post x hw with ⟨rfl, rfl, rfl⟩ | ⟨dpre, dpost, hD, rfl, rfl⟩ | ⟨tpre, tpost, hT, rfl, rfl⟩
  · -- the colon: the string now starts with a hex digit
    obtain ⟨b0, rest, hb⟩ := numsF_ne_nil f
    rw [hb, hexUpper_cons] at h
    exact none_rejected _ g h (numsOf_head_ne _ _ (isHex_ne_colon _ (isHex_hexDigit_hi b0)))
  · -- a digit: odd number of digits
    have hall : ∀ c ∈ dpre ++ dpost, isHex c = true := by
      intro c hc
      apply hexUpper_all_hex (numsF f) c
      rw [hD]
      simp only [List.mem_append, List.mem_cons] at hc ⊢
      rcases hc with hc | hc
      · exact .inl hc
      · exact .inr (.inr hc)
    have hlen : (dpre ++ dpost).length % 2 = 1 := by
      have h1 := digits_len f
      rw [hD] at h1
      simp at h1 ⊢
      omega
    have := digits_odd_rejected _ nl hall hlen
    exact none_rejected _ g h (by simpa using this)
  · cases nl with
    | false => simp [term] at hT
    | true =>
      simp only [term, ↓reduceIte] at hT
      have hone : ∃ t, tpre ++ post = [t] ∧ isHex t = false := by
        match tpre, hT with
        | [], hT => simp at hT; exact ⟨10, by simp [← hT.2], by decide⟩
        | [t], hT => simp at hT; exact ⟨13, by simp [hT.1, hT.2.2], by decide⟩
        | t1 :: t2 :: more, hT => simp at hT
      obtain ⟨t, ht, hth⟩ := hone
      have hnh : nonhex (hexUpper (numsF f) ++ [t]) ≤ 1 := by
        rw [nonhex_append, nonhex_hexUpper, nonhex_cons]; simp [hth, nonhex]
      have := numsOf_digits _ false hnh
      simp only [term, Bool.false_eq_true, ↓reduceIte, List.append_nil] at this
      have e : 58 :: (hexUpper (numsF f) ++ tpre) ++ post = 58 :: (hexUpper (numsF f) ++ [t]) := by
        simp [← ht]
      rw [e] at h
      rw [hexPairs_none_of_mem _ t (by simp) hth] at this
      exact none_rejected _ g h this

/-- A duplicated character, any position: always rejected. -/
theorem dup_rejected (f : Frame) (nl : Bool) (pre post : List UInt8) (x : UInt8)
    (hw : wire f nl = pre ++ x :: post) (g : Frame) : dec (pre ++ x :: x :: post) ≠ .ok g := by
  intro h
  rcases split_wire _ _ pre post x hw with ⟨rfl, rfl, rfl⟩ | ⟨dpre, dpost, hD, rfl, rfl⟩ | ⟨tpre, tpost, hT, rfl, rfl⟩
  · -- "::…": the second colon is not a hex digit
    have hnh : nonhex (58 :: hexUpper (numsF f)) ≤ 1 := by
      rw [nonhex_cons, nonhex_hexUpper]; simp [not_isHex_58]
    have := numsOf_digits _ nl hnh
    rw [hexPairs_none_of_mem _ 58 (by simp) not_isHex_58] at this
    exact none_rejected _ g h (by simpa using this)
  · have hall : ∀ c ∈ dpre ++ x :: x :: dpost, isHex c = true := by
      intro c hc
      apply hexUpper_all_hex (numsF f) c
      rw [hD]
      simp only [List.mem_append, List.mem_cons] at hc ⊢
      rcases hc with hc | hc | hc | hc
      · exact .inl hc
      · exact .inr (.inl hc)
      · exact .inr (.inl hc)
      · exact .inr (.inr hc)
    have hlen : (dpre ++ x :: x :: dpost).length % 2 = 1 := by
      have h1 := digits_len f
      rw [hD] at h1
      simp at h1 ⊢
      omega
    have := digits_odd_rejected _ nl hall hlen
    exact none_rejected _ g h (by simpa using this)
  · cases nl with
    | false => simp [term] at hT
    | true =>
      simp only [term, ↓reduceIte] at hT
      have hcases : (tpre = [] ∧ x = 13 ∧ post = [10]) ∨ (tpre = [13] ∧ x = 10 ∧ post = []) := by
        match tpre, hT with
        | [], hT => simp at hT; exact .inl ⟨rfl, hT.1.symm, hT.2.symm⟩
        | [t], hT => simp at hT; exact .inr ⟨by rw [hT.1], hT.2.1.symm, hT.2.2⟩
        | t1 :: t2 :: more, hT => simp at hT
      rcases hcases with ⟨rfl, rfl, rfl⟩ | ⟨rfl, rfl, rfl⟩
      · -- CR CR LF: after stripping CR LF a CR remains
        have e : 58 :: (hexUpper (numsF f) ++ []) ++ 13 :: 13 :: [10] =
            58 :: ((hexUpper (numsF f) ++ [13]) ++ [13, 10]) := by simp
        rw [e] at h
        have := numsOf_crlf (hexUpper (numsF f) ++ [13])
        rw [hexPairs_none_of_mem _ 13 (by simp) not_isHex_13] at this
        exact none_rejected _ g h this
      · -- CR LF LF: no longer ends in CR LF
        have hne : ¬ EndsCRLF ((hexUpper (numsF f) ++ [13]) ++ [10, 10]) := by
          rw [endsCRLF_two]; decide
        have e : 58 :: (hexUpper (numsF f) ++ [13]) ++ 10 :: 10 :: [] =
            58 :: ((hexUpper (numsF f) ++ [13]) ++ [10, 10]) := by simp
        rw [e] at h
        have := numsOf_plain _ hne
        rw [hexPairs_none_of_mem _ 13 (by simp) not_isHex_13] at this
        exact none_rejected _ g h this

theorem nib_lt (b : UInt8) : (b &&& (0x0F : UInt8)) < 16 ∧ (b >>> (4 : UInt8)) < 16 := by
  revert b; apply UInt8.forall_of_fin; decide +kernel

/-- Swapping the low digit of one byte with the high digit of the next: the two bytes keep their
    sum only if the digits were equal (and then nothing changed). -/
theorem cross_swap (b b2 : UInt8)
    (h : ((b >>> (4 : UInt8)) * (16 : UInt8) + (b2 >>> (4 : UInt8))) + ((b &&& (0x0F : UInt8)) * (16 : UInt8) + (b2 &&& (0x0F : UInt8))) = b + b2) :
    (b >>> (4 : UInt8)) * (16 : UInt8) + (b2 >>> (4 : UInt8)) = b ∧ (b &&& (0x0F : UInt8)) * (16 : UInt8) + (b2 &&& (0x0F : UInt8)) = b2 := by
  have j1 := nibbles_join b
  have j2 := nibbles_join b2
  generalize hh1 : b >>> (4 : UInt8) = h1 at *
  generalize hl1 : b &&& (0x0F : UInt8) = l1 at *
  generalize hh2 : b2 >>> (4 : UInt8) = h2 at *
  generalize hl2 : b2 &&& (0x0F : UInt8) = l2 at *
  have hl1lt : l1 < 16 := by rw [← hl1]; exact (nib_lt b).1
  have hh2lt : h2 < 16 := by rw [← hh2]; exact (nib_lt b2).2
  have key : h2 + l1 * (16 : UInt8) = l1 + h2 * (16 : UInt8) := by
    rw [← j1, ← j2] at h
    apply UInt8.eq_of_toBitVec_eq
    have := congrArg UInt8.toBitVec h
    simp at this ⊢
    bv_omega
  have hc := nibble_cancel ⟨l1.toNat, hl1lt⟩ ⟨h2.toNat, hh2lt⟩ (by simpa using key)
  have e : l1 = h2 := by
    apply UInt8.toNat_inj.mp
    simpa using congrArg Fin.val hc
  subst e
  exact ⟨j1, j2⟩

/-- Adjacent transposition, any position: an error, or exactly the original frame (the latter only
    when the two characters were equal). -/
theorem swap_safe (f : Frame) (hf : f.WF) (nl : Bool) (pre post : List UInt8) (x y : UInt8)
    (hw : wire f nl = pre ++ x :: y :: post) (g : Frame) (h : dec (pre ++ y :: x :: post) = .ok g) :
    g = f := by
  rcases split_wire _ _ pre (y :: post) x hw with ⟨rfl, rfl, hp⟩ | ⟨dpre, dpost, hD, rfl, hp⟩ | ⟨tpre, tpost, hT, rfl, hp⟩
  · -- colon and first digit: the string now starts with a hex digit
    obtain ⟨b0, rest, hb⟩ := numsF_ne_nil f
    rw [hb, hexUpper_cons] at hp
    simp only [List.cons_append, List.cons.injEq] at hp
    rw [hp.1] at h
    exact (none_rejected _ g h (numsOf_head_ne _ _ (isHex_ne_colon _ (isHex_hexDigit_hi b0)))).elim
  · cases dpost with
    | nil =>
      -- last digit and CR
      exfalso
      simp only [List.nil_append] at hp
      cases nl with
      | false => simp [term] at hp
      | true =>
        simp only [term, ↓reduceIte, List.cons.injEq] at hp
        obtain ⟨rfl, rfl⟩ := hp
        have hx : isHex x = true := hexUpper_all_hex (numsF f) x (by rw [hD]; simp)
        have hne : ¬ EndsCRLF ((dpre ++ [13]) ++ [x, 10]) := by
          rw [endsCRLF_two]; exact fun hh => isHex_ne_cr x hx hh.1
        have e : 58 :: dpre ++ 13 :: x :: [10] = 58 :: ((dpre ++ [13]) ++ [x, 10]) := by simp
        rw [e] at h
        have := numsOf_plain _ hne
        rw [hexPairs_none_of_mem _ 13 (by simp) not_isHex_13] at this
        exact none_rejected _ g h this
    | cons y' dpost' =>
      simp only [List.cons_append, List.cons.injEq] at hp
      obtain ⟨rfl, rfl⟩ := hp
      obtain ⟨NA, b, NB, hN, hside⟩ := split_hexUpper _ dpre (y :: dpost') x hD
      rcases hside with ⟨rfl, rfl, hrest⟩ | ⟨rfl, rfl, hrest⟩
      · -- the two digits of one byte
        simp only [List.cons.injEq] at hrest
        obtain ⟨rfl, rfl⟩ := hrest
        have hnh : nonhex (hexUpper NA ++ loD b :: hiD b :: hexUpper NB) ≤ 1 := by
          rw [nonhex_of_all_hex]; omega
          intro c hc
          simp only [List.mem_append, List.mem_cons] at hc
          rcases hc with hc | rfl | rfl | hc
          · exact hexUpper_all_hex _ c hc
          · exact isHex_hexDigit_lo b
          · exact isHex_hexDigit_hi b
          · exact hexUpper_all_hex _ c hc
        have hn := numsOf_digits _ nl hnh
        rw [hexPairs_around, hexVal_loD, hexVal_hiD] at hn
        exact byte_replaced _ f g hf NA NB b _ hN (by simpa using hn) (by simpa using h)
      · -- low digit of one byte, high digit of the next
        cases NB with
        | nil => simp [hexUpper] at hrest
        | cons b2 NB' =>
          rw [hexUpper_cons] at hrest
          simp only [List.cons.injEq] at hrest
          obtain ⟨rfl, rfl⟩ := hrest
          have hall : ∀ c ∈ hexUpper NA ++ hiD b :: hiD b2 :: loD b :: loD b2 :: hexUpper NB', isHex c = true := by
            intro c hc
            simp only [List.mem_append, List.mem_cons] at hc
            rcases hc with hc | rfl | rfl | rfl | rfl | hc
            · exact hexUpper_all_hex _ c hc
            · exact isHex_hexDigit_hi b
            · exact isHex_hexDigit_hi b2
            · exact isHex_hexDigit_lo b
            · exact isHex_hexDigit_lo b2
            · exact hexUpper_all_hex _ c hc
          have hn := numsOf_digits _ nl (by rw [nonhex_of_all_hex _ hall]; omega)
          have hp2 : hexPairs (hexUpper NA ++ hiD b :: hiD b2 :: loD b :: loD b2 :: hexUpper NB') =
              some (NA ++ ((b >>> (4 : UInt8)) * (16 : UInt8) + (b2 >>> (4 : UInt8))) :: ((b &&& (0x0F : UInt8)) * (16 : UInt8) + (b2 &&& (0x0F : UInt8))) :: NB') := by
            rw [hexPairs_upper_append, hexPairs_pair, hexVal_hiD, hexVal_hiD, hexPairs_pair, hexVal_loD,
              hexVal_loD, hexPairs_hexUpper]
            simp
          rw [hp2] at hn
          have e : 58 :: (hexUpper NA ++ [hiD b]) ++ hiD b2 :: loD b :: (loD b2 :: hexUpper NB' ++ term nl) =
              58 :: (hexUpper NA ++ hiD b :: hiD b2 :: loD b :: loD b2 :: hexUpper NB' ++ term nl) := by simp
          rw [e] at h
          by_cases hs : ((b >>> (4 : UInt8)) * (16 : UInt8) + (b2 >>> (4 : UInt8))) + ((b &&& (0x0F : UInt8)) * (16 : UInt8) + (b2 &&& (0x0F : UInt8))) = b + b2
          · obtain ⟨e1, e2⟩ := cross_swap b b2 hs
            rw [e1, e2] at hn
            exact same_nums _ f g hf h (by rw [hn, hN])
          · exfalso
            have h0 : bsum (NA ++ b :: b2 :: NB') = 0 := by rw [← hN]; exact bsum_numsF f
            exact badsum_rejected _ g _ h hn (two_bytes_changed NA NB' b b2 _ _ h0 hs)
  · -- CR and LF
    exfalso
    cases nl with
    | false => simp [term] at hT
    | true =>
      simp only [term, ↓reduceIte] at hT
      subst hp
      have hcases : tpre = [] ∧ x = 13 ∧ y = 10 ∧ post = [] := by
        match tpre, hT with
        | [], hT => simp at hT; exact ⟨rfl, hT.1.symm, hT.2.1.symm, hT.2.2⟩
        | [t], hT => simp at hT
        | t1 :: t2 :: more, hT => simp at hT
      obtain ⟨rfl, rfl, rfl, rfl⟩ := hcases
      have hne : ¬ EndsCRLF (hexUpper (numsF f) ++ [10, 13]) := by
        rw [endsCRLF_two]; decide
      have e : 58 :: (hexUpper (numsF f) ++ []) ++ 10 :: 13 :: [] = 58 :: (hexUpper (numsF f) ++ [10, 13]) := by simp
      rw [e] at h
      have := numsOf_plain _ hne
      rw [hexPairs_none_of_mem _ 13 (by simp) not_isHex_13] at this
      exact none_rejected _ g h this

theorem numsF_head (f : Frame) : ∃ rest, numsF f = UInt8.ofNat f.data.length :: rest := by
  simp [numsF, payload]

/-- Truncation, any length: an error, or exactly the original frame (only when nothing but the
    optional terminator was cut off). -/
theorem prefix_safe (f : Frame) (hf : f.WF) (nl : Bool) (pre post : List UInt8)
    (hw : wire f nl = pre ++ post) (g : Frame) (h : dec pre = .ok g) : g = f := by
  cases pre with
  | nil => exact (none_rejected _ g h numsOf_nil).elim
  | cons p pre' =>
    simp only [wire, List.cons_append, List.cons.injEq] at hw
    obtain ⟨rfl, hw⟩ := hw
    rcases List.append_eq_append_iff.mp hw with ⟨t1, h1, h2⟩ | ⟨c', h1, h2⟩
    · -- all digits kept, part of the terminator cut
      subst h1
      cases nl with
      | false =>
        simp only [term, Bool.false_eq_true, ↓reduceIte] at h2
        have : t1 = [] := by
          cases t1 with
          | nil => rfl
          | cons a b => simp at h2
        subst this
        have e : 58 :: (hexUpper (numsF f) ++ []) = wire f false := by simp [wire, term]
        rw [e] at h
        exact same_wire f g hf false h
      | true =>
        simp only [term, ↓reduceIte] at h2
        match t1, h2 with
        | [], _ =>
          have e : 58 :: (hexUpper (numsF f) ++ []) = wire f false := by simp [wire, term]
          rw [e] at h
          exact same_wire f g hf false h
        | [a], h2 =>
          exfalso
          simp at h2
          rw [← h2.1] at h
          have hnh : nonhex (hexUpper (numsF f) ++ [13]) ≤ 1 := by
            rw [nonhex_append, nonhex_hexUpper]; decide
          have := numsOf_digits _ false hnh
          simp only [term, Bool.false_eq_true, ↓reduceIte, List.append_nil] at this
          rw [hexPairs_none_of_mem _ 13 (by simp) not_isHex_13] at this
          exact none_rejected _ g h this
        | [a, b], h2 =>
          simp at h2
          have e : 58 :: (hexUpper (numsF f) ++ [a, b]) = wire f true := by
            simp [wire, term, ← h2.1, ← h2.2.1]
          rw [e] at h
          exact same_wire f g hf true h
        | a :: b :: c :: more, h2 => simp at h2
    · -- only a prefix of the digits is left
      have hall : ∀ c ∈ pre', isHex c = true := by
        intro c hc
        apply hexUpper_all_hex (numsF f) c
        rw [h1]; simp [hc]
      have hn := numsOf_digits pre' false (by rw [nonhex_of_all_hex _ hall]; omega)
      simp only [term, Bool.false_eq_true, ↓reduceIte, List.append_nil] at hn
      obtain ⟨hg, hgw⟩ := accepted _ g h
      rw [hn] at hg
      -- the full digits decode to the original numeric fields = those of g followed by a rest
      have hfull := hexPairs_hexUpper (numsF f)
      rw [h1, hexPairs_append pre' c' _ hg] at hfull
      cases hc' : hexPairs c' with
      | none => rw [hc'] at hfull; cases hfull
      | some rest =>
        rw [hc'] at hfull
        simp only [Option.map_some, Option.some.injEq] at hfull
        -- equal first byte = equal declared length, hence equal total length, hence no rest
        obtain ⟨rf, hrf⟩ := numsF_head f
        obtain ⟨rg, hrg⟩ := numsF_head g
        have hlenf := numsF_length f
        have hleng := numsF_length g
        have hhead : UInt8.ofNat g.data.length = UInt8.ofNat f.data.length := by
          rw [hrf, hrg] at hfull
          simp only [List.cons_append, List.cons.injEq] at hfull
          exact hfull.1
        have hdl : g.data.length = f.data.length := by
          have e1 := ofNat_len_toNat _ hgw
          have e2 := ofNat_len_toNat _ hf
          rw [← e1, ← e2, hhead]
        have hrest : rest = [] := by
          have := congrArg List.length hfull
          simp only [List.length_append] at this
          apply List.eq_nil_of_length_eq_zero
          omega
        subst hrest
        simp only [List.append_nil] at hfull
        exact numsF_inj f g hf hgw hfull

-- Non-vacuity (tests, labelled as such): the hypotheses are met by the doc example; a case change
-- is accepted as the original; a changed digit is rejected.
example : (Frame.mk 2 1 [3, 31]).WF := by decide
example : wire ⟨2, 1, [3, 31]⟩ false = [58, 48, 50, 48, 48, 48, 50, 48, 49, 48, 51, 49, 70, 68, 57] := by
  decide +kernel
example : dec [58, 48, 50, 48, 48, 48, 50, 48, 49, 48, 51, 49, 102, 68, 57] = .ok ⟨2, 1, [3, 31]⟩ := by
  decide +kernel
example : dec [58, 48, 50, 48, 48, 48, 50, 48, 49, 48, 51, 49, 69, 68, 57] = .error (.badsum 0xD9 0xDA) := by
  decide +kernel

end Flipdot.C02
