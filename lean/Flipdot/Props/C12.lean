/-
C12 — A virtual sign never panics, whatever is sent on the bus.
-/
import Flipdot.Model.VSign
import Flipdot.Props.C19
namespace Flipdot.C12
open Flipdot

/-- Digesting a 16-byte configuration block never panics, whatever its contents (all indexings
    are below 16; the width sum is taken in a type that cannot overflow). -/
theorem configDims_no_panic (data : List UInt8) (h : data.length = 16) :
    ∃ r, configDims data = .ok r := by
  unfold configDims
  have h0 : 0 < data.length := by omega
  have h4 : 4 < data.length := by omega
  have h5 : 5 < data.length := by omega
  have h6 : 6 < data.length := by omega
  have h7 : 7 < data.length := by omega
  have h8 : 8 < data.length := by omega
  simp only [List.getElem?_eq_getElem h0, List.getElem?_eq_getElem h4, List.getElem?_eq_getElem h5,
    List.getElem?_eq_getElem h6, List.getElem?_eq_getElem h7, List.getElem?_eq_getElem h8]
  split
  · exact ⟨_, rfl⟩
  · split <;> exact ⟨_, rfl⟩

theorem sendData_no_panic (s : VSign) (off : UInt16) (data : List UInt8) :
    ∃ s', s.sendData off data = .ok s' := by
  unfold VSign.sendData
  split
  · rename_i hc
    obtain ⟨r, hr⟩ := configDims_no_panic data hc.2.2
    rw [hr]
    cases r with
    | none => exact ⟨_, rfl⟩
    | some wh =>
      obtain ⟨w, h⟩ := wh
      obtain ⟨r2, hr2⟩ := C19.fromBytes_no_panic data
      simp only [hr2]
      exact ⟨_, rfl⟩
  · split <;> exact ⟨_, rfl⟩

/-- One message, any sign state (reachable or not), any message: no panic. -/
theorem vstep_no_panic (s : VSign) (m : Msg) : ∃ r, vstep s m = .ok r := by
  cases m with
  | sendData off data =>
    obtain ⟨s', hs⟩ := sendData_no_panic s off data
    exact ⟨(s', none), by simp [vstep, hs]⟩
  | chunksSent n => exact ⟨_, rfl⟩
  | hello a => simp only [vstep]; split <;> exact ⟨_, rfl⟩
  | queryState a => simp only [vstep]; split <;> exact ⟨_, rfl⟩
  | reportState a st => exact ⟨_, rfl⟩
  | requestOp a op =>
    simp only [vstep]
    split
    · exact ⟨_, rfl⟩
    · cases op <;> simp only <;> first | exact ⟨_, rfl⟩ | (split <;> exact ⟨_, rfl⟩)
  | ackOp a op => exact ⟨_, rfl⟩
  | pixelsComplete a => simp only [vstep]; split <;> exact ⟨_, rfl⟩
  | goodbye a => simp only [vstep]; split <;> exact ⟨_, rfl⟩
  | unknown f => exact ⟨_, rfl⟩

/-- A bus of any number of signs in any states: no panic. -/
theorem busStep_no_panic (bus : List VSign) (m : Msg) : ∃ r, busStep bus m = .ok r := by
  induction bus with
  | nil => exact ⟨_, rfl⟩
  | cons s rest ih =>
    obtain ⟨⟨s', r⟩, hs⟩ := vstep_no_panic s m
    obtain ⟨⟨rest', r'⟩, hr⟩ := ih
    unfold busStep
    rw [hs]
    cases r with
    | some x => exact ⟨_, rfl⟩
    | none => simp only [hr]; exact ⟨_, rfl⟩

/-- Delivering a whole sequence of messages. -/
def busRun : List VSign → List Msg → Except Panic (List VSign × List (Option Msg))
  | b, [] => .ok (b, [])
  | b, m :: ms =>
    match busStep b m with
    | .error e => .error e
    | .ok (b', r) =>
      match busRun b' ms with
      | .error e => .error e
      | .ok (b'', rs) => .ok (b'', r :: rs)

/-- Every history, on every bus population: returns normally every time. -/
theorem busRun_no_panic (bus : List VSign) (ms : List Msg) : ∃ r, busRun bus ms = .ok r := by
  induction ms generalizing bus with
  | nil => exact ⟨_, rfl⟩
  | cons m ms ih =>
    obtain ⟨⟨b', r⟩, hb⟩ := busStep_no_panic bus m
    obtain ⟨⟨b'', rs⟩, hr⟩ := ih b'
    exact ⟨(b'', r :: rs), by simp [busRun, hb, hr]⟩

/-- A transfer ends in 'received' or 'failed' — never anything else — when the chunk count is
    announced, whatever chunks were lost, short, extra or repeated before. -/
theorem transfer_ends_failed_or_received (s : VSign) (n : UInt16) :
    (s.state = .pixelsInProgress →
      (s.chunksSent n).state = .pixelsReceived ∨ (s.chunksSent n).state = .pixelsFailed) ∧
    (s.state = .configInProgress →
      (s.chunksSent n).state = .configReceived ∨ (s.chunksSent n).state = .configFailed) := by
  have flush_state : ∀ t : VSign, t.flush.state = t.state := by
    intro t; unfold VSign.flush
    split
    · rfl
    · split
      · split <;> rfl
      · rfl
  constructor <;> intro hs <;> unfold VSign.chunksSent <;>
    simp only [flush_state, hs, State.afterCount] <;> split <;> simp

-- Non-vacuity: the recorded crash histories of the pinned tree run to completion on the model.
example : ∃ r, busRun [VSign.new 3 .manual]
    [.requestOp 3 .receiveConfig,
     .sendData 0 [4, 0xEE, 0, 7, 0x10, 200, 100, 0, 0, 8, 0, 0, 0, 0, 0, 0],   -- widths 200 + 100
     .chunksSent 1] = .ok r := busRun_no_panic _ _

end Flipdot.C12
