/-
C17 — Serial transport is transparent: over the wire equals directly on the bus.
Model of the whole path in Model/Pipe.lean (`viaSerial`, `runVia`).
-/
import Flipdot.Model.Pipe
import Flipdot.Props.C05
import Flipdot.Props.C14
import Flipdot.Props.C15
import Flipdot.Props.C16
import Flipdot.Lemmas.Prog
import Flipdot.Lemmas.CtrlTree
import Flipdot.Lemmas.Chunks
namespace Flipdot.C17
open Flipdot

/-- Messages that survive the wire: specific ones, and unknown-frame wrappers around frames that
    really are unknown (what `Message::from` produces) — with the 255-byte data bound. -/
def Canonical (m : Msg) : Prop := m.WF ∧ toMsg (toFrame m) = m

theorem canonical_of_specific (m : Msg) (hs : m.Specific) (hw : m.WF) : Canonical m :=
  ⟨hw, C05.toMsg_toFrame m hs⟩

/-- Whatever `Message::from` yields is canonical (so everything the bridge forwards is). -/
theorem canonical_toMsg (f : Frame) (hf : f.WF) : Canonical (toMsg f) := by
  refine ⟨?_, by rw [Flipdot.toFrame_toMsg]⟩
  have h := Flipdot.toFrame_toMsg f
  cases hm : toMsg f <;> rw [hm] at h <;> simp only [Msg.WF] <;> simp only [toFrame] at h
  · rw [← h] at hf; exact hf
  · rw [h]; exact hf

/-! ### The wire is lossless -/

theorem hexDigit_ne_lf (n : UInt8) (h : n < 16) : hexDigit n ≠ 10 := by
  revert h; revert n; apply UInt8.forall_of_fin; decide +kernel

theorem hexUpper_no_lf (bs : List UInt8) : ∀ c ∈ hexUpper bs, c ≠ 10 := by
  induction bs with
  | nil => simp [hexUpper]
  | cons b bs ih =>
    intro c hc
    simp only [hexUpper, hexByte, List.cons_append, List.nil_append, List.mem_cons] at hc
    rcases hc with rfl | rfl | hc
    · revert b; apply UInt8.forall_of_fin; decide +kernel
    · revert b; apply UInt8.forall_of_fin; decide +kernel
    · exact ih c hc

theorem bytesOf_byteEvents (l : List UInt8) : C15.bytesOf (byteEvents l) = l := by
  induction l with
  | nil => rfl
  | cons b l ih => simp [byteEvents, C15.bytesOf] at ih ⊢; exact ih

theorem noLF_byteEvents (l : List UInt8) (h : ∀ c ∈ l, c ≠ 10) : C15.NoLF (byteEvents l) := by
  intro e he
  simp only [byteEvents, List.mem_map] at he
  obtain ⟨b, hb, rfl⟩ := he
  exact .inr ⟨b, rfl, h b hb⟩

/-- Reading back what `Frame::write` wrote yields the frame and consumes exactly those bytes. -/
theorem read_written (f : Frame) (hf : f.WF) (post : List REvent) :
    frameRead (byteEvents (encNL f) ++ post) = (.ok f, post) := by
  have e : byteEvents (encNL f) ++ post = byteEvents (enc f ++ [13]) ++ .byte 10 :: post := by
    simp [byteEvents, encNL]
  have hno : ∀ c ∈ enc f ++ [13], c ≠ 10 := by
    intro c hc
    simp only [enc, List.mem_append, List.mem_cons, List.not_mem_nil, or_false] at hc
    rcases hc with (rfl | hc) | rfl
    · decide
    · exact hexUpper_no_lf _ c hc
    · decide
  rw [e, C15.read_consumes_line _ post (noLF_byteEvents _ hno), bytesOf_byteEvents]
  have : enc f ++ [13] ++ [10] = encNL f := by simp [encNL]
  rw [this, C01.dec_encNL f hf]
  rfl

/-- Message → frame → bytes → line → frame → message is the identity on canonical messages. -/
theorem wire_lossless (m : Msg) (hm : Canonical m) (post : List REvent) :
    (frameRead (byteEvents (encNL (toFrame m)) ++ post)).1 = .ok (toFrame m) ∧
    (frameRead (byteEvents (encNL (toFrame m)) ++ post)).2 = post ∧ toMsg (toFrame m) = m := by
  rw [read_written _ (C05.toFrame_wf m hm.1) post]
  exact ⟨rfl, rfl, hm.2⟩

/-! ### The bridge -/

theorem frameWrite_unlimited (f : Frame) : frameWrite f [] = (true, encNL f, []) := by
  simp [frameWrite, writeAll]

/-- The bridge forwards each decoded frame to the bus and writes back a frame exactly when the bus
    replied. -/
theorem odk_forwards (bus : List VSign) (m : Msg) (hm : Canonical m) :
    odkStep bus { rd := byteEvents (encNL (toFrame m)), wr := [] } =
      (match busStep bus m with
       | .error e => .error e
       | .ok (bus', none) => .ok (.ok, [], bus', ⟨[], []⟩)
       | .ok (bus', some r) => .ok (.ok, encNL (toFrame r), bus', ⟨[], []⟩)) := by
  have h := wire_lossless m hm []
  simp only [List.append_nil] at h
  unfold odkStep
  simp only [h.1, h.2.1, h.2.2]
  cases hb : busStep bus m with
  | error e => rfl
  | ok br =>
    obtain ⟨bus', r⟩ := br
    cases r with
    | none => rfl
    | some x => simp [frameWrite_unlimited]

/-- A line the bridge cannot decode is a communication error: the bus is not touched and nothing
    is written back. -/
theorem odk_bad_line (bus : List VSign) (p : Port) (h : ∀ f, (frameRead p.rd).1 ≠ .ok f) :
    ∃ p', odkStep bus p = .ok (.comm, [], bus, p') := by
  cases hr : (frameRead p.rd).1 with
  | ok f => exact absurd hr (h f)
  | frameErr e => exact ⟨{ rd := (frameRead p.rd).2, wr := p.wr }, by simp only [odkStep, hr]⟩
  | ioErr => exact ⟨{ rd := (frameRead p.rd).2, wr := p.wr }, by simp only [odkStep, hr]⟩

/-! ### One message over the wire = the same message directly on the bus -/

/-- A virtual bus only ever replies to messages a reply is due for, and with a specific message. -/
theorem vstep_reply (s s' : VSign) (m x : Msg) (h : vstep s m = .ok (s', some x)) :
    responseExpected m = true ∧ Canonical x := by
  have ha := C14.reply_addr s s' m x h
  constructor
  · cases m <;> simp_all [responseExpected, Msg.addr?]
    all_goals (simp only [vstep] at h; first | (split at h <;> cases h) | cases h)
  · cases m <;> simp only [vstep] at h
    case hello a =>
      split at h
      · simp only [VSign.queryState] at h; cases h
        exact canonical_of_specific _ (by simp [Msg.Specific]) (by simp [Msg.WF])
      · cases h
    case queryState a =>
      split at h
      · simp only [VSign.queryState] at h; cases h
        exact canonical_of_specific _ (by simp [Msg.Specific]) (by simp [Msg.WF])
      · cases h
    case requestOp a op =>
      split at h
      · cases h
      · cases op <;> simp only at h <;> first
          | (cases h; exact canonical_of_specific _ (by simp [Msg.Specific]) (by simp [Msg.WF]))
          | (split at h <;> cases h <;> exact canonical_of_specific _ (by simp [Msg.Specific]) (by simp [Msg.WF]))
    all_goals first | (split at h <;> cases h) | cases h

theorem busStep_reply (bus bus' : List VSign) (m x : Msg) (h : busStep bus m = .ok (bus', some x)) :
    responseExpected m = true ∧ Canonical x := by
  induction bus generalizing bus' with
  | nil => simp [busStep] at h
  | cons s rest ih =>
    simp only [busStep] at h
    split at h
    · cases h
    · rename_i s' y hs
      cases h
      exact vstep_reply s s' m x hs
    · split at h
      · cases h
      · rename_i rest' r hr
        cases h
        exact ih rest' hr

/-- What the controller sees when it talks to the bus directly, with the one difference the serial
    path makes visible: a message that is due a reply but gets none is an error. -/
def directStrict (bus : List VSign) (m : Msg) : Except Panic (Reply × List VSign) :=
  match busStep bus m with
  | .error e => .error e
  | .ok (bus', r) =>
    if responseExpected m ∧ r = none then .ok (.busError, bus') else .ok (.ok r, bus')

/-- One message through serial bus, byte pipe and bridge reaches the virtual bus unchanged, changes
    it exactly as the direct call does, and brings back exactly the bus's reply; nothing is left in
    the pipe. -/
theorem viaSerial_eq (bus : List VSign) (m : Msg) (hm : Canonical m) :
    viaSerial ⟨bus, []⟩ m =
      (match directStrict bus m with
       | .error e => .error e
       | .ok (r, bus') => .ok (r, ⟨bus', []⟩)) := by
  simp only [viaSerial, directStrict]
  rw [odk_forwards bus m hm]
  cases hb : busStep bus m with
  | error e => rfl
  | ok br =>
    obtain ⟨bus', r⟩ := br
    cases r with
    | none =>
      simp only [List.append_nil]
      by_cases he : responseExpected m = true
      · simp [he, frameRead, readUntilLF, byteEvents, dec, remainingBytes]
      · simp [he]
    | some x =>
      obtain ⟨he, hx⟩ := busStep_reply bus bus' m x hb
      have hw := wire_lossless x hx []
      simp only [List.append_nil] at hw
      simp only [List.nil_append, he, ↓reduceIte, hw.1, hw.2.1, hw.2.2, remainingBytes]
      simp

/-- Run a program directly on the bus, treating an unanswered message that is due a reply as the
    bus error it is over the wire. -/
def runStrict {α : Type} : Prog α → List VSign → Outcome α × List VSign
  | .done a, b => (.ok a, b)
  | .fail, b => (.proto, b)
  | .panic p, b => (.panic p, b)
  | .outOfFuel, b => (.outOfFuel, b)
  | .send m k, b =>
    match directStrict b m with
    | .error p => (.panic p, b)
    | .ok (.busError, b') => (.bus, b')
    | .ok (.ok r, b') => runStrict (k r) b'

/-- The whole serial path is exactly the direct path with that one difference, for every program
    that sends canonical messages (every controller operation does): same outcome, same virtual
    signs, nothing left in the pipe. -/
theorem runVia_eq_runStrict {α : Type} (p : Prog α) (hp : p.AllSends Canonical) (bus : List VSign) :
    p.runVia ⟨bus, []⟩ = ((runStrict p bus).1, ⟨(runStrict p bus).2, []⟩) := by
  induction hp generalizing bus with
  | done a => rfl
  | fail => rfl
  | panic q => rfl
  | outOfFuel => rfl
  | send m k hm _ ih =>
    simp only [Prog.runVia, runStrict, viaSerial_eq bus m hm]
    cases hd : directStrict bus m with
    | error e => rfl
    | ok rb =>
      obtain ⟨r, b'⟩ := rb
      cases r with
      | busError => rfl
      | ok x => exact ih x b'

/-- When every message that is due a reply gets one, there is no difference at all. -/
def Answered {α : Type} : Prog α → List VSign → Prop
  | .send m k, b =>
    match busStep b m with
    | .error _ => True
    | .ok (b', r) => (responseExpected m = true → r ≠ none) ∧ Answered (k r) b'
  | _, _ => True

theorem runStrict_eq_runOn {α : Type} (p : Prog α) (bus : List VSign) (h : Answered p bus) :
    runStrict p bus = p.runOn bus := by
  induction p generalizing bus with
  | done a => rfl
  | fail => rfl
  | panic q => rfl
  | outOfFuel => rfl
  | send m k ih =>
    simp only [runStrict, Prog.runOn, directStrict]
    simp only [Answered] at h
    cases hb : busStep bus m with
    | error e => rfl
    | ok br =>
      obtain ⟨b', r⟩ := br
      rw [hb] at h
      simp only at h
      by_cases hc : responseExpected m = true ∧ r = none
      · exact absurd hc.2 (h.1 hc.1)
      · simp only [hc, ↓reduceIte]
        exact ih r b' h.2

/-- Transparency, in the form proved here: if over the direct path every message due a reply is
    answered, the serial path gives the same result and leaves the same virtual signs.  (That the
    controller operations cannot succeed otherwise — a present sign always answers hello / query,
    and every operation request must be acknowledged — is covered per operation by C11's
    fail-stop theorems and by the end-to-end correspondence; see DESIGN.md.) -/
theorem transparent_partial {α : Type} (p : Prog α) (hp : p.AllSends Canonical) (bus : List VSign)
    (h : Answered p bus) :
    p.runVia ⟨bus, []⟩ = ((p.runOn bus).1, ⟨(p.runOn bus).2, []⟩) := by
  rw [runVia_eq_runStrict p hp bus, runStrict_eq_runOn p bus h]


/-! ### Every controller operation sends only canonical messages -/

theorem chunkMsgsFrom_canonical (i : Nat) (cs : List (List UInt8)) (h : ∀ c ∈ cs, c.length ≤ 16) :
    ∀ m ∈ chunkMsgsFrom i cs, Canonical m := by
  induction cs generalizing i with
  | nil => simp [chunkMsgsFrom]
  | cons c cs ih =>
    intro m hm
    simp only [chunkMsgsFrom, List.mem_cons] at hm
    rcases hm with rfl | hm
    · exact canonical_of_specific _ (by simp [Msg.Specific]) (by have := h c (by simp); simp [Msg.WF]; omega)
    · exact ih (i + 1) (fun x hx => h x (by simp [hx])) m hm

theorem allChunkMsgs_canonical (items : List (List UInt8)) : ∀ m ∈ allChunkMsgs items, Canonical m := by
  induction items with
  | nil => simp [allChunkMsgs]
  | cons it its ih =>
    intro m hm
    simp only [allChunkMsgs, List.mem_append] at hm
    rcases hm with hm | hm
    · exact chunkMsgsFrom_canonical 0 _ (fun c hc => (chunks16_len it c hc).2) m hm
    · exact ih m hm

theorem canon (m : Msg) (hs : m.Specific) (hw : m.WF) : Canonical m := canonical_of_specific m hs hw

theorem configure_canonical (a : UInt16) (t : SignType) : (configure a t).AllSends Canonical := by
  unfold configure
  exact allSends_ensure a _ (canon _ (by simp [Msg.Specific]) (by simp [Msg.WF]))
    (fun o => canon _ (by simp [Msg.Specific]) (by simp [Msg.WF]))
    (allSends_transfer a _ _ _ _ _ (canon _ (by simp [Msg.Specific]) (by simp [Msg.WF]))
      (allChunkMsgs_canonical _) (fun c => canon _ (by simp [Msg.Specific]) (by simp [Msg.WF]))
      (canon _ (by simp [Msg.Specific]) (by simp [Msg.WF])))

theorem sendPages_canonical (a : UInt16) (pages : List (List UInt8)) :
    (sendPages a pages).AllSends Canonical := by
  unfold sendPages
  refine Prog.AllSends.bind
    (allSends_transfer a _ _ _ _ _ (canon _ (by simp [Msg.Specific]) (by simp [Msg.WF]))
      (allChunkMsgs_canonical _) (fun c => canon _ (by simp [Msg.Specific]) (by simp [Msg.WF]))
      (canon _ (by simp [Msg.Specific]) (by simp [Msg.WF])))
    (fun _ => allSends_expect (canon _ (by simp [Msg.Specific]) (by simp [Msg.WF])) ?_)
  refine .send _ _ (canon _ (by simp [Msg.Specific]) (by simp [Msg.WF])) (fun r => ?_)
  split <;> exact .done _

theorem shutDown_canonical (a : UInt16) : (shutDown a).AllSends Canonical :=
  allSends_expect (canon _ (by simp [Msg.Specific]) (by simp [Msg.WF])) (.done _)

/-- Hence: `configure`, `send_pages`, `shut_down` over the serial path are exactly their direct
    runs, up to the treatment of unanswered messages. -/
theorem configure_via (a : UInt16) (t : SignType) (bus : List VSign) :
    (configure a t).runVia ⟨bus, []⟩ =
      ((runStrict (configure a t) bus).1, ⟨(runStrict (configure a t) bus).2, []⟩) :=
  runVia_eq_runStrict _ (configure_canonical a t) bus

theorem sendPages_via (a : UInt16) (pages : List (List UInt8)) (bus : List VSign) :
    (sendPages a pages).runVia ⟨bus, []⟩ =
      ((runStrict (sendPages a pages) bus).1, ⟨(runStrict (sendPages a pages) bus).2, []⟩) :=
  runVia_eq_runStrict _ (sendPages_canonical a pages) bus

/-- A sign that is present always answers hello and state query (so an unanswered one means the
    address is absent). -/
theorem present_answers (s : VSign) (m : Msg) (hm : m = .hello s.addr ∨ m = .queryState s.addr) :
    ∃ s' x, vstep s m = .ok (s', some x) := by
  rcases hm with rfl | rfl <;>
    exact ⟨s.queryState.1, .reportState s.addr s.state, by simp [vstep, VSign.queryState]⟩

-- Non-vacuity: a hello over the wire to a present sign.
example : (match viaSerial ⟨[VSign.new 3 .manual], []⟩ (.hello 3) with
    | .ok (r, far) => r == .ok (some (.reportState 3 .unconfigured)) && far.pending == [] &&
        far.bus == [VSign.new 3 .manual]
    | .error _ => false) = true := by
  decide +kernel
example : Canonical (.hello 3) := canonical_of_specific _ (by decide) (by decide)

end Flipdot.C17
