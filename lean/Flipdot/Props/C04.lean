/-
C04 — Frame → Message → Frame is the identity and follows the protocol code table.
-/
import Flipdot.Lemmas.Message
import Flipdot.Lemmas.Bytes
namespace Flipdot.C04
open Flipdot

/-- Frame → Message → Frame is the identity for every frame (so traffic that is not understood is
    forwarded unchanged). -/
theorem toFrame_toMsg (f : Frame) : toFrame (toMsg f) = f := Flipdot.toFrame_toMsg f

/-! ### The protocol table, restated as data -/

/-- The addressed one-byte message kinds. -/
inductive Kind where
  | hello | query | goodbye | report (s : State) | request (o : Op) | ack (o : Op) | pixelsComplete
  deriving DecidableEq, Repr

def Kind.mk (a : UInt16) : Kind → Msg
  | .hello => .hello a
  | .query => .queryState a
  | .goodbye => .goodbye a
  | .report s => .reportState a s
  | .request o => .requestOp a o
  | .ack o => .ackOp a o
  | .pixelsComplete => .pixelsComplete a

/-- (message type, first data byte, meaning) for frames with exactly one data byte:
    hello/query/goodbye, the 6 operation requests, the 6 acknowledgements, the 13 states,
    pixels complete. -/
def rows : List (UInt8 × UInt8 × Kind) := [
  (2, 0xFF, .hello), (2, 0x00, .query), (2, 0x55, .goodbye),
  (3, 0xA1, .request .receiveConfig), (3, 0xA2, .request .receivePixels),
  (3, 0xA9, .request .showLoadedPage), (3, 0xAA, .request .loadNextPage),
  (3, 0xA6, .request .startReset), (3, 0xA7, .request .finishReset),
  (5, 0x95, .ack .receiveConfig), (5, 0x91, .ack .receivePixels),
  (5, 0x96, .ack .showLoadedPage), (5, 0x97, .ack .loadNextPage),
  (5, 0x93, .ack .startReset), (5, 0x94, .ack .finishReset),
  (4, 0x0F, .report .unconfigured), (4, 0x0D, .report .configInProgress),
  (4, 0x07, .report .configReceived), (4, 0x0C, .report .configFailed),
  (4, 0x03, .report .pixelsInProgress), (4, 0x01, .report .pixelsReceived),
  (4, 0x0B, .report .pixelsFailed), (4, 0x10, .report .pageLoaded),
  (4, 0x13, .report .pageLoadInProgress), (4, 0x12, .report .pageShown),
  (4, 0x11, .report .pageShowInProgress), (4, 0x00, .report .showingPages),
  (4, 0x08, .report .readyToReset),
  (6, 0x00, .pixelsComplete)]

def lookup (ty b : UInt8) : Option Kind :=
  (rows.find? (fun r => r.1 == ty && r.2.1 == b)).map (·.2.2)

/-- The protocol table of the property statement: data chunk = type 0 (any length); chunk count =
    type 1 with no data; one-byte messages by `rows`; everything else unknown. -/
def table (f : Frame) : Msg :=
  if f.ty = 0 then .sendData f.addr f.data
  else if f.ty = 1 ∧ f.data = [] then .chunksSent f.addr
  else match f.data with
    | [b] => match lookup f.ty b with
      | some k => k.mk f.addr
      | none => .unknown f
    | _ => .unknown f

/-- What the model's `toMsg` does on a one-byte frame, as a kind (address factored out). -/
def modelKind (ty b : UInt8) : Option Kind :=
  if ty = 2 then
    if b = 0xFF then some .hello else if b = 0x00 then some .query
    else if b = 0x55 then some .goodbye else none
  else if ty = 4 then (State.ofCode? b).map .report
  else if ty = 3 then (Op.ofReqCode? b).map .request
  else if ty = 5 then (Op.ofAckCode? b).map .ack
  else if ty = 6 then (if b = 0 then some .pixelsComplete else none)
  else none

theorem toMsg_one (a : UInt16) (ty b : UInt8) (h : ty ≠ 0) :
    toMsg ⟨a, ty, [b]⟩ = match modelKind ty b with
      | some k => k.mk a
      | none => .unknown ⟨a, ty, [b]⟩ := by
  unfold toMsg modelKind
  simp only [h, ↓reduceIte]
  split
  · split
    · rfl
    · split
      · rfl
      · split <;> rfl
  · split
    · cases State.ofCode? b <;> rfl
    · split
      · cases Op.ofReqCode? b <;> rfl
      · split
        · cases Op.ofAckCode? b <;> rfl
        · split
          · split <;> rfl
          · rfl

theorem lookup_eq_of_ty (ty : UInt8) (hty : ty = 2 ∨ ty = 3 ∨ ty = 4 ∨ ty = 5 ∨ ty = 6) (b : UInt8) :
    lookup ty b = modelKind ty b := by
  rcases hty with rfl | rfl | rfl | rfl | rfl <;>
    (revert b; apply UInt8.forall_of_fin; decide +kernel)

theorem lookup_none_of_ty (ty b : UInt8) (h : ¬ (ty = 2 ∨ ty = 3 ∨ ty = 4 ∨ ty = 5 ∨ ty = 6)) :
    lookup ty b = none := by
  unfold lookup
  rw [Option.map_eq_none_iff, List.find?_eq_none]
  intro r hr
  have : r.1 = 2 ∨ r.1 = 3 ∨ r.1 = 4 ∨ r.1 = 5 ∨ r.1 = 6 := by
    revert r; decide
  intro hh
  simp at hh
  rw [hh.1] at this
  exact h this

theorem modelKind_none_of_ty (ty b : UInt8) (h : ¬ (ty = 2 ∨ ty = 3 ∨ ty = 4 ∨ ty = 5 ∨ ty = 6)) :
    modelKind ty b = none := by
  unfold modelKind
  simp only [not_or] at h
  simp [h.1, h.2.1, h.2.2.1, h.2.2.2.1, h.2.2.2.2]

theorem lookup_eq (ty b : UInt8) : lookup ty b = modelKind ty b := by
  by_cases h : ty = 2 ∨ ty = 3 ∨ ty = 4 ∨ ty = 5 ∨ ty = 6
  · exact lookup_eq_of_ty ty h b
  · rw [lookup_none_of_ty ty b h, modelKind_none_of_ty ty b h]

/-- The message mapping *is* the protocol table, for every frame. -/
theorem toMsg_eq_table (f : Frame) : toMsg f = table f := by
  obtain ⟨a, ty, d⟩ := f
  unfold table
  simp only
  by_cases h0 : ty = 0
  · subst h0; simp [toMsg]
  · simp only [h0, ↓reduceIte]
    match d with
    | [] =>
      by_cases h1 : ty = 1 <;> simp [toMsg, h0, h1]
    | [b] =>
      rw [toMsg_one a ty b h0]
      simp [lookup_eq]
    | _ :: _ :: _ => simp [toMsg, h0]

/-- A frame is reported unknown exactly when the table has no row for it. -/
theorem unknown_iff (f : Frame) :
    toMsg f = .unknown f ↔
      f.ty ≠ 0 ∧ ¬ (f.ty = 1 ∧ f.data = []) ∧ ∀ b, f.data = [b] → lookup f.ty b = none := by
  rw [toMsg_eq_table]
  obtain ⟨a, ty, d⟩ := f
  unfold table
  simp only
  by_cases h0 : ty = 0
  · simp [h0]
  · by_cases h1 : ty = 1 ∧ d = []
    · simp [h1]
    · simp only [h0, h1, ↓reduceIte, ne_eq, not_false_eq_true, true_and]
      match d with
      | [] => simp
      | [b] =>
        cases hk : lookup ty b with
        | none => simp [hk]
        | some k => cases k <;> simp [hk, Kind.mk]
      | _ :: _ :: _ => simp

/-- The address field is carried over unchanged into whatever message results. -/
theorem addr_carried (f : Frame) :
    (match toMsg f with
     | .sendData off _ => off = f.addr
     | .chunksSent n => n = f.addr
     | .hello a | .queryState a | .reportState a _ | .requestOp a _ | .ackOp a _
     | .pixelsComplete a | .goodbye a => a = f.addr
     | .unknown g => g = f) := by
  have h := toFrame_toMsg f
  cases hm : toMsg f <;> rw [hm] at h <;> simp [toFrame] at h ⊢ <;> first | (rw [← h]) | exact h

/-- The table has exactly 29 one-byte rows, no two of them for the same (type, byte). -/
theorem rows_distinct :
    rows.length = 29 ∧ (rows.map fun r => (r.1, r.2.1)).Nodup := by decide

-- Non-vacuity / sanity: rows of the table and a non-row.
example : toMsg ⟨3, 2, [0xFF]⟩ = .hello 3 := by decide
example : toMsg ⟨0xABCD, 5, [0x95]⟩ = .ackOp 0xABCD .receiveConfig := by decide
example : toMsg ⟨16, 0, [7]⟩ = .sendData 16 [7] := by decide
example : toMsg ⟨0xBEEF, 255, [0xAA]⟩ = .unknown ⟨0xBEEF, 255, [0xAA]⟩ := by decide

end Flipdot.C04
