/-
C20 — Port setup always yields 19200 8N1 without flow control, or an error.
The device is modelled as a record (settings + timeout) with one injectable failure per call;
serial-core's blanket `reconfigure` is exercised for real by the correspondence check.
-/
import Flipdot.Model.Serial
namespace Flipdot.C20
open Flipdot

/-- Whatever the settings before: after a successful set-up the port is at 19200 baud, 8 data bits,
    no parity, 1 stop bit, no flow control, with the caller's read timeout. -/
theorem configured_19200_8N1 (d : Device) (t : Nat) :
    configurePort d t .never =
      (true, ⟨⟨.b19200, .bits8, .none, .stop1, .none⟩, some t⟩) := rfl

/-- `SerialSignBus::try_new` applies 5 s, `Odk::try_new` 10 s. -/
theorem tryNew_timeout_5s (d : Device) :
    serialTryNew d .never = (true, ⟨luminatorSettings, some 5000⟩) := rfl

theorem odk_timeout_10s (d : Device) :
    odkTryNew d .never = (true, ⟨luminatorSettings, some 10000⟩) := rfl

/-- If the port refuses any step, the result is an error (no object is returned). -/
theorem failure_returns_err (d : Device) (t : Nat) (f : FailAt) (h : f ≠ .never) :
    (configurePort d t f).1 = false := by
  cases f <;> first | rfl | exact absurd rfl h

theorem constructors_fail (d : Device) (f : FailAt) (h : f ≠ .never) :
    (serialTryNew d f).1 = false ∧ (odkTryNew d f).1 = false :=
  ⟨failure_returns_err d 5000 f h, failure_returns_err d 10000 f h⟩

/-- Success happens only without failure, and then the settings are the Luminator ones. -/
theorem ok_iff (d : Device) (t : Nat) (f : FailAt) :
    (configurePort d t f).1 = true ↔ f = .never := by
  cases f <;> simp [configurePort]

/-- A failure before the settings are written leaves the device as it was. -/
theorem early_failure_leaves_device (d : Device) (t : Nat) (f : FailAt)
    (h : f = .readSettings ∨ f = .setBaud ∨ f = .writeSettings) : (configurePort d t f).2 = d := by
  rcases h with rfl | rfl | rfl <;> rfl

example : (configurePort ⟨⟨.other 4000000, .bits5, .even, .stop2, .hardware⟩, none⟩ 1234 .never).2.settings.baud = .b19200 := rfl

end Flipdot.C20
