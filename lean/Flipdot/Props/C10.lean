/-
C10 — Controller follows the documented protocol for every possible sign reply.
The protocol itself is stated in Flipdot/Spec/CtrlProtocol.lean as relations on conversations.
-/
import Flipdot.Spec.CtrlProtocol
import Flipdot.Lemmas.CtrlTree
namespace Flipdot.C10
open Flipdot

/-! Every conversation — for every reply script, of any length, with any replies (all 65 536
    addresses, arbitrary unknown frames, data, bus errors) — is one the documented protocol
    prescribes, with the prescribed outcome. -/

theorem configure_follows_protocol (a : UInt16) (t : SignType) (script : List Reply) :
    ConfigureSpec a t ((configure a t).run script).1 ((configure a t).run script).2 :=
  (configure_refines a t).run script

theorem configureIfNeeded_follows_protocol (a : UInt16) (t : SignType) (script : List Reply) :
    ConfigureIfNeededSpec a t ((configureIfNeeded a t).run script).1 ((configureIfNeeded a t).run script).2 :=
  (configureIfNeeded_refines a t).run script

theorem sendPages_follows_protocol (a : UInt16) (pages : List (List UInt8)) (script : List Reply)
    (h : (allChunkMsgs pages).length < 65536) :
    SendPagesSpec a pages ((sendPages a pages).run script).1 ((sendPages a pages).run script).2 :=
  (sendPages_refines a pages h).run script

theorem showLoadedPage_follows_protocol (a : UInt16) (fuel : Nat) (script : List Reply) :
    SwitchSpec a .pageShown .pageLoaded .showLoadedPage
      ((showLoadedPage a fuel).run script).1 ((showLoadedPage a fuel).run script).2 :=
  (switchPage_refines a _ _ _ fuel).run script

theorem loadNextPage_follows_protocol (a : UInt16) (fuel : Nat) (script : List Reply) :
    SwitchSpec a .pageLoaded .pageShown .loadNextPage
      ((loadNextPage a fuel).run script).1 ((loadNextPage a fuel).run script).2 :=
  (switchPage_refines a _ _ _ fuel).run script

theorem shutDown_follows_protocol (a : UInt16) (script : List Reply) :
    ShutDownSpec a ((shutDown a).run script).1 ((shutDown a).run script).2 :=
  (shutDown_refines a).run script

/-- The polling loop's fuel (the one place the model needs a bound) never decides an outcome:
    with more fuel than replies the result is never `outOfFuel` — the correspondence runs use
    `script.length + 1`. -/
theorem polling_fuel_never_binds (a : UInt16) (script : List Reply) :
    ((showLoadedPage a (script.length + 1)).run script).2 ≠ .outOfFuel ∧
    ((loadNextPage a (script.length + 1)).run script).2 ≠ .outOfFuel :=
  ⟨switch_fuel_enough a _ _ _ _ script (by omega), switch_fuel_enough a _ _ _ _ script (by omega)⟩

/-! What the controller sends and returns depends only on the *class* of each reply (own state
    report, own acknowledgement, silence, anything else, bus error).  The finite reply alphabet of
    the correspondence check contains every class, so this theorem extends its exhaustive
    enumeration to all replies. -/

theorem configure_class (a : UInt16) (t : SignType) (s s' : List Reply)
    (h : s.map (classify a) = s'.map (classify a)) :
    (configure a t).trace s = (configure a t).trace s' ∧
      ((configure a t).run s).2 = ((configure a t).run s').2 :=
  (configure_respects a t).run_eq s s' h

theorem configureIfNeeded_class (a : UInt16) (t : SignType) (s s' : List Reply)
    (h : s.map (classify a) = s'.map (classify a)) :
    (configureIfNeeded a t).trace s = (configureIfNeeded a t).trace s' ∧
      ((configureIfNeeded a t).run s).2 = ((configureIfNeeded a t).run s').2 :=
  (configureIfNeeded_respects a t).run_eq s s' h

theorem sendPages_class (a : UInt16) (pages : List (List UInt8)) (s s' : List Reply)
    (h : s.map (classify a) = s'.map (classify a)) :
    (sendPages a pages).trace s = (sendPages a pages).trace s' ∧
      ((sendPages a pages).run s).2 = ((sendPages a pages).run s').2 :=
  (sendPages_respects a pages).run_eq s s' h

theorem switchPage_class (a : UInt16) (target trigger : State) (op : Op) (fuel : Nat)
    (s s' : List Reply) (h : s.map (classify a) = s'.map (classify a)) :
    (switchPage a target trigger op fuel).trace s = (switchPage a target trigger op fuel).trace s' ∧
      ((switchPage a target trigger op fuel).run s).2 = ((switchPage a target trigger op fuel).run s').2 :=
  (switchPage_respects a target trigger op fuel).run_eq s s' h

theorem shutDown_class (a : UInt16) (s s' : List Reply)
    (h : s.map (classify a) = s'.map (classify a)) :
    (shutDown a).trace s = (shutDown a).trace s' ∧ ((shutDown a).run s).2 = ((shutDown a).run s').2 :=
  (shutDown_respects a).run_eq s s' h

/-- Any reply from another address, any unknown frame, any data message: all "unrelated". -/
theorem unrelated_examples (a a' : UInt16) (h : a' ≠ a) (s : State) (o : Op) (f : Frame) :
    classify a (.ok (some (.reportState a' s))) = .unrelated ∧
    classify a (.ok (some (.ackOp a' o))) = .unrelated ∧
    classify a (.ok (some (.unknown f))) = .unrelated ∧
    classify a (.ok (some (.hello a))) = .unrelated := by
  simp [classify, h]

-- Non-vacuity: the happy path of `configure` is in the spec and ends `ok`; a wrong acknowledgement
-- ends in a protocol error.
example : ((configure 3 .max3000Side90x7).run
    [.ok (some (.reportState 3 .unconfigured)), .ok (some (.ackOp 3 .receiveConfig)), .ok none, .ok none,
     .ok (some (.reportState 3 .configReceived))]).2 = .ok () := by decide
example : ((configure 3 .max3000Side90x7).run
    [.ok (some (.reportState 3 .unconfigured)), .ok (some (.ackOp 4 .receiveConfig))]).2 = .proto := by decide

end Flipdot.C10
