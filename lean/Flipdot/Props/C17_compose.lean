/-
C17 (continued) — the end-to-end path of Model/Pipe.lean (`viaSerial`) is the composition of the two component
models: what the controller gets back for a message is exactly what `serialStep` (the model of
`SerialSignBus::process_message`, tied to the source by Tie/SerialBus.lean) returns on a port whose write side accepts
everything and whose read side offers what the bridge (`odkStep`, tied likewise) has written back so far.
So the transparency theorems of C17.lean / C17_ops.lean are statements about those two methods composed through a
byte pipe, not about a third, separately written path.
-/
import Flipdot.Props.C17
namespace Flipdot.C17
open Flipdot

/-- A bus result as the controller sees it. -/
def toReply : BusResult → Reply
  | .ok r => .ok r
  | .err => .busError

theorem remainingBytes_byteEvents (l : List UInt8) : remainingBytes (byteEvents l) = l := by
  induction l with
  | nil => rfl
  | cons b l ih => simp [byteEvents, remainingBytes] at ih ⊢; exact ih

/-- One message through the whole path = the bridge's step on the written line, then the serial bus's own step
    reading from what the bridge wrote back (after whatever was still pending). -/
theorem viaSerial_compose (far : Far) (m : Msg) :
    viaSerial far m =
      match odkStep far.bus { rd := byteEvents (encNL (toFrame m)), wr := [] } with
      | .error e => .error e
      | .ok (_, written, bus', _) =>
        let s := serialStep m { rd := byteEvents (far.pending ++ written), wr := [] }
        .ok (toReply s.2.1, ⟨bus', remainingBytes s.2.2.rd⟩) := by
  unfold viaSerial
  dsimp only
  generalize odkStep far.bus { rd := byteEvents (encNL (toFrame m)), wr := [] } = r
  cases r with
  | error e => rfl
  | ok r =>
    obtain ⟨res, written, bus', p'⟩ := r
    simp only [serialStep, frameWrite_unlimited]
    by_cases he : responseExpected m = true
    · simp only [he, ↓reduceIte, Bool.not_true, Bool.false_eq_true]
      cases (frameRead (byteEvents (far.pending ++ written))).1 <;> simp [toReply]
    · simp [he, toReply, remainingBytes_byteEvents]

/-- … and the serial bus wrote exactly the line the bridge read. -/
theorem viaSerial_wrote (m : Msg) (rd : List REvent) :
    (serialStep m { rd := rd, wr := [] }).1.head? = some (.wrote (encNL (toFrame m)) true) := by
  simp only [serialStep, frameWrite_unlimited]
  by_cases he : responseExpected m = true
  · simp only [he, ↓reduceIte, Bool.not_true, Bool.false_eq_true]
    cases (frameRead rd).1 <;> rfl
  · simp [he]

end Flipdot.C17
