/-
C18 — Serial bus pacing: 30 ms after a data chunk, 100 ms after an in-progress report.
The model records `sleep ms` events; that the real `thread::sleep` calls happen (and how long they
take) is measured by the correspondence check with a monotonic clock at the port boundaries.
-/
import Flipdot.Props.C16
namespace Flipdot.C18
open Flipdot

theorem delayAfterSend_iff (m : Msg) (ms : Nat) :
    delayAfterSend m = some ms ↔ (∃ off d, m = .sendData off d) ∧ ms = 30 := by
  cases m <;> simp [delayAfterSend]
  exact eq_comm

theorem delayAfterReceive_iff (r : Msg) (ms : Nat) :
    delayAfterReceive r = some ms ↔
      (∃ a, r = .reportState a .pageLoadInProgress ∨ r = .reportState a .pageShowInProgress) ∧ ms = 100 := by
  cases r with
  | reportState a s => cases s <;> simp [delayAfterReceive] <;> exact eq_comm
  | _ => simp [delayAfterReceive]

/-- After a successful write, the pause before the next port operation (the read, or returning so
    that the next message can be written) is 30 ms exactly when the message is a data chunk, and
    there is none otherwise. -/
theorem sleep_after_send_iff (m : Msg) (p : Port) (hw : (frameWrite (toFrame m) p.wr).1 = true) :
    ∃ tail, (serialStep m p).1 =
      .wrote (encNL (toFrame m)) true :: (sleepEv (delayAfterSend m) ++ tail) ∧
      (∀ e ∈ tail, ∀ ms, e = .sleep ms → ms = 100) ∧
      (sleepEv (delayAfterSend m) = [.sleep 30] ↔ ∃ off d, m = .sendData off d) ∧
      (sleepEv (delayAfterSend m) = [] ↔ ¬ ∃ off d, m = .sendData off d) := by
  have hd := (C15.write_only_the_encoding (toFrame m) p.wr).2 hw
  refine ⟨_, by rw [C16.events_shape, hw, hd]; rfl, ?_, ?_, ?_⟩
  · intro e he ms hms
    subst hms
    split at he
    · simp only [List.mem_cons, reduceCtorEq, false_or] at he
      split at he
      · rename_i f _
        cases hdr : delayAfterReceive (toMsg f) with
        | none => simp [sleepEv, hdr] at he
        | some x =>
          simp only [sleepEv, hdr, List.mem_singleton, PortEvent.sleep.injEq] at he
          subst he
          exact ((delayAfterReceive_iff _ _).mp hdr).2
      · simp at he
    · simp at he
  · cases m <;> simp [delayAfterSend, sleepEv]
  · cases m <;> simp [delayAfterSend, sleepEv]

/-- After receiving a reply, the pause before returning is 100 ms exactly when the reply is a
    'page load in progress' or 'page show in progress' report (from any address), none otherwise. -/
theorem sleep_after_recv_iff (m : Msg) (p : Port) (f : Frame)
    (hw : (frameWrite (toFrame m) p.wr).1 = true) (he : responseExpected m = true)
    (hr : (frameRead p.rd).1 = .ok f) :
    (serialStep m p).1 = .wrote (encNL (toFrame m)) true ::
      (sleepEv (delayAfterSend m) ++ .readLine :: sleepEv (delayAfterReceive (toMsg f))) ∧
    (sleepEv (delayAfterReceive (toMsg f)) = [.sleep 100] ↔
      ∃ a, toMsg f = .reportState a .pageLoadInProgress ∨ toMsg f = .reportState a .pageShowInProgress) ∧
    (sleepEv (delayAfterReceive (toMsg f)) = [] ∨ sleepEv (delayAfterReceive (toMsg f)) = [.sleep 100]) := by
  have hd := (C15.write_only_the_encoding (toFrame m) p.wr).2 hw
  refine ⟨by rw [C16.events_shape, hw, hd, he, hr]; rfl, ?_, ?_⟩
  · cases hdr : delayAfterReceive (toMsg f) with
    | none =>
      simp only [sleepEv, List.nil_eq, reduceCtorEq, false_iff, not_exists]
      intro a h
      have := (delayAfterReceive_iff (toMsg f) 100).mpr ⟨⟨a, h⟩, rfl⟩
      rw [hdr] at this; cases this
    | some x =>
      obtain ⟨h1, h2⟩ := (delayAfterReceive_iff _ _).mp hdr
      subst h2
      simp [sleepEv, h1]
  · cases hdr : delayAfterReceive (toMsg f) with
    | none => exact .inl rfl
    | some x =>
      have := ((delayAfterReceive_iff _ _).mp hdr).2
      subst this
      exact .inr rfl

/-- No reply due, or the reply could not be read: no 100 ms pause. -/
theorem no_recv_sleep_without_reply (m : Msg) (p : Port)
    (h : responseExpected m = false ∨ ∀ f, (frameRead p.rd).1 ≠ .ok f) :
    .sleep 100 ∉ (serialStep m p).1 := by
  rw [C16.events_shape]
  intro hmem
  simp only [List.mem_cons, reduceCtorEq, false_or] at hmem
  split at hmem
  · simp only [List.mem_append] at hmem
    rcases hmem with hmem | hmem
    · cases hds : delayAfterSend m with
      | none => simp [sleepEv, hds] at hmem
      | some x =>
        have := ((delayAfterSend_iff _ _).mp hds).2
        subst this
        simp [sleepEv, hds] at hmem
    · split at hmem
      · rename_i he
        rcases h with h | h
        · rw [h] at he; cases he
        · cases hr : (frameRead p.rd).1 with
          | ok f => exact h f hr
          | frameErr e => simp [hr] at hmem
          | ioErr => simp [hr] at hmem
      · simp at hmem
  · simp at hmem

/-- A failed write is followed by no pause at all. -/
theorem no_sleep_after_failed_write (m : Msg) (p : Port) (h : (frameWrite (toFrame m) p.wr).1 = false) :
    ∀ ms, .sleep ms ∉ (serialStep m p).1 := by
  intro ms
  rw [C16.events_shape, h]
  simp

-- Non-vacuity.
example : delayAfterSend (.sendData 16 [1, 2]) = some 30 := rfl
example : delayAfterReceive (.reportState 9 .pageShowInProgress) = some 100 := rfl
example : delayAfterReceive (.reportState 9 .pageShown) = none := rfl

end Flipdot.C18
