/-
C08 — Pages sent through the controller arrive bit-exact, from any prior sign state.
Controller model (src/sign.rs) composed with the virtual sign / bus model
(libs/testing/src/virtual_sign_bus.rs).
-/
import Flipdot.Lemmas.Compose
namespace Flipdot.C08
open Flipdot

/-! ### Every controller operation only sends messages the other signs on the bus ignore -/

theorem ctrl_hello (a : UInt16) : CtrlMsg a (.hello a) := .inl rfl
theorem ctrl_query (a : UInt16) : CtrlMsg a (.queryState a) := .inl rfl
theorem ctrl_request (a : UInt16) (o : Op) : CtrlMsg a (.requestOp a o) := .inl rfl
theorem ctrl_count (a : UInt16) (c : UInt16) : CtrlMsg a (.chunksSent c) := .inr rfl
theorem ctrl_chunks (a : UInt16) (items : List (List UInt8)) : ∀ m ∈ allChunkMsgs items, CtrlMsg a m := by
  intro m hm
  obtain ⟨off, d, rfl⟩ := allChunkMsgs_sendData items m hm
  exact .inr rfl

theorem configure_ctrl (a : UInt16) (t : SignType) : (configure a t).AllSends (CtrlMsg a) := by
  unfold configure
  exact allSends_ensure a _ (ctrl_hello a) (ctrl_request a)
    (allSends_transfer a _ _ _ _ _ (ctrl_request a _) (ctrl_chunks a _) (ctrl_count a) (ctrl_query a))

theorem sendPages_ctrl (a : UInt16) (pages : List (List UInt8)) : (sendPages a pages).AllSends (CtrlMsg a) := by
  unfold sendPages
  refine Prog.AllSends.bind
    (allSends_transfer a _ _ _ _ _ (ctrl_request a _) (ctrl_chunks a _) (ctrl_count a) (ctrl_query a))
    (fun _ => allSends_expect (.inl rfl) ?_)
  refine .send _ _ (ctrl_query a) (fun r => ?_)
  split <;> exact .done _

theorem switchPage_ctrl (a : UInt16) (target trigger : State) (op : Op) (fuel : Nat) :
    (switchPage a target trigger op fuel).AllSends (CtrlMsg a) := by
  induction fuel with
  | zero => exact .outOfFuel
  | succ fuel ih =>
    unfold switchPage
    refine .send _ _ (ctrl_query a) (fun r => ?_)
    split
    · split
      · exact .done _
      · split
        · exact .done _
        · split
          · exact allSends_expect (ctrl_request a _) ih
          · split
            · exact ih
            · exact .fail
    · exact .fail

/-! ### configure -/

/-- Whatever state the addressed sign was left in by earlier traffic (`s.Inv` holds of every state
    a message history can produce — `VSign.Reachable.inv`), and whoever else is idle on the bus:
    `configure` succeeds and leaves the sign configured as the requested type with no pages; all
    other signs are untouched. -/
theorem configure_clean (pre post : List VSign) (s : VSign) (t : SignType) (hi : s.Inv)
    (hpre : Others s.addr pre) (hpost : Others s.addr post) :
    (configure s.addr t).runOn (pre ++ s :: post) =
      (.ok (), pre ++ VSign.configured s.addr s.style t :: post) := by
  rw [runOn_focus s.addr pre post _ s hpre hpost (configure_ctrl s.addr t), configure_runOn1 s hi t]

/-- The configured sign: state 'config received', the requested type and its dimensions, no pages,
    nothing buffered. -/
theorem configured_fields (a : UInt16) (st : FlipStyle) (t : SignType) :
    (VSign.configured a st t).state = .configReceived ∧ (VSign.configured a st t).signType = some t ∧
    (VSign.configured a st t).pages = [] ∧
    ((VSign.configured a st t).w, (VSign.configured a st t).h) = t.dims ∧
    (VSign.configured a st t).Inv := by
  refine ⟨rfl, rfl, rfl, rfl, ?_⟩
  constructor <;> simp [VSign.configured, State.receiving, State.configPhase]

/-! ### send_pages -/

/-- Every supported sign has a non-empty display whose pages fit the 16-bit offset range. -/
theorem dims_ok (t : SignType) :
    0 < t.dims.1 ∧ 0 < t.dims.2 ∧ totalBytes t.dims.1 t.dims.2 ≤ 65536 := by
  cases t <;> decide

/-- The sign after `send_pages`: it holds exactly the pages sent, in order, byte for byte, and is in
    the page-loaded (manual) or showing-pages (automatic) state. -/
def afterSend (s : VSign) (ps : List Page) : VSign :=
  s.loaded ps (match s.style with | .automatic => .showingPages | .manual => .pageLoaded)

theorem sendPages_runOn1 (s : VSign) (hi : s.Inv) (hst : VSign.canReceivePixels s.state = true)
    (hw : 0 < s.w) (hh : 0 < s.h) (hsz : totalBytes s.w s.h ≤ 65536)
    (ps : List Page) (hps : ∀ p ∈ ps, p.w = s.w ∧ p.h = s.h ∧ p.WF)
    (hn : (allChunkMsgs (ps.map (·.bytes))).length < 65536) :
    (sendPages s.addr (ps.map (·.bytes))).runOn1 s = (.ok s.style, afterSend s ps) := by
  unfold sendPages
  -- the transfer
  have ht := transfer_pixels s hi hst hw hh hsz ps hps hn 2
  generalize transfer s.addr (allChunkMsgs (ps.map (·.bytes))) .receivePixels .pixelsReceived .pixelsFailed 2 = p at ht
  -- bind over runOn1
  have bind1 : ∀ (p : Prog Unit) (f : Unit → Prog FlipStyle) (s s' : VSign),
      p.runOn1 s = (.ok (), s') → (p.bind f).runOn1 s = (f ()).runOn1 s' := by
    intro p f
    induction p with
    | done x => intro s s' h; simp [Prog.runOn1] at h; simp [Prog.bind, h]
    | fail => intro s s' h; simp [Prog.runOn1] at h
    | panic q => intro s s' h; simp [Prog.runOn1] at h
    | outOfFuel => intro s s' h; simp [Prog.runOn1] at h
    | send m k ih =>
      intro s s' h
      simp only [Prog.bind, Prog.runOn1] at h ⊢
      cases hv : vstep s m with
      | error e => simp [hv] at h
      | ok sr => obtain ⟨s1, r⟩ := sr; simp only [hv] at h ⊢; exact ih r s1 s' h
  rw [bind1 p _ s _ ht]
  have h5 : vstep (s.loaded ps .pixelsReceived) (.pixelsComplete s.addr) = .ok (afterSend s ps, none) := by
    simp only [vstep, VSign.loaded, afterSend, and_self, ↓reduceIte]
    cases s.style <;> rfl
  rw [runOn1_expect _ _ _ _ _ _ h5]
  simp only [↓reduceIte]
  have h6 : vstep (afterSend s ps) (.queryState s.addr) =
      .ok (afterSend s ps, some (.reportState s.addr (afterSend s ps).state)) := by
    simp only [vstep, afterSend, VSign.loaded, ↓reduceIte, VSign.queryState]
    cases s.style <;> rfl
  rw [runOn1_send _ _ _ _ _ h6]
  cases hs : s.style <;> simp [afterSend, VSign.loaded, hs, Prog.runOn1]

/-- Sending any list of pages of the sign's size to a configured (or page-holding) sign succeeds,
    the sign then holds exactly those pages in order with identical bytes, is in the page-loaded /
    showing-pages state, and the call reports the matching flip style. -/
theorem send_pages_exact (pre post : List VSign) (s : VSign) (hi : s.Inv)
    (hst : VSign.canReceivePixels s.state = true)
    (hw : 0 < s.w) (hh : 0 < s.h) (hsz : totalBytes s.w s.h ≤ 65536)
    (ps : List Page) (hps : ∀ p ∈ ps, p.w = s.w ∧ p.h = s.h ∧ p.WF)
    (hn : (allChunkMsgs (ps.map (·.bytes))).length < 65536)
    (hpre : Others s.addr pre) (hpost : Others s.addr post) :
    (sendPages s.addr (ps.map (·.bytes))).runOn (pre ++ s :: post) =
      (.ok s.style, pre ++ afterSend s ps :: post) := by
  rw [runOn_focus s.addr pre post _ s hpre hpost (sendPages_ctrl s.addr _),
    sendPages_runOn1 s hi hst hw hh hsz ps hps hn]

theorem afterSend_fields (s : VSign) (ps : List Page) :
    (afterSend s ps).pages = ps ∧
    (afterSend s ps).state = (match s.style with | .automatic => .showingPages | .manual => .pageLoaded) ∧
    (afterSend s ps).signType = s.signType ∧ (afterSend s ps).addr = s.addr ∧
    (afterSend s ps).style = s.style ∧ (afterSend s ps).w = s.w ∧ (afterSend s ps).h = s.h :=
  ⟨rfl, rfl, rfl, rfl, rfl, rfl, rfl⟩

/-- From any prior state: configure, then send pages of the type's size — the composite the
    property states. -/
theorem configure_then_send (s : VSign) (hi : s.Inv) (t : SignType) (ps : List Page)
    (hps : ∀ p ∈ ps, p.w = t.dims.1 ∧ p.h = t.dims.2 ∧ p.WF)
    (hn : (allChunkMsgs (ps.map (·.bytes))).length < 65536) :
    ∃ s1 s2, (configure s.addr t).runOn [s] = (.ok (), [s1]) ∧
      (sendPages s.addr (ps.map (·.bytes))).runOn [s1] = (.ok s.style, [s2]) ∧
      s2.pages = ps ∧ s2.signType = some t ∧
      s2.state = (match s.style with | .automatic => .showingPages | .manual => .pageLoaded) := by
  have h1 := configure_clean [] [] s t hi (by simp [Others]) (by simp [Others])
  obtain ⟨c1, c2, c3, c4, c5⟩ := configured_fields s.addr s.style t
  obtain ⟨d1, d2, d3⟩ := dims_ok t
  have hwh : (VSign.configured s.addr s.style t).w = t.dims.1 ∧ (VSign.configured s.addr s.style t).h = t.dims.2 :=
    ⟨rfl, rfl⟩
  have h2 := send_pages_exact [] [] (VSign.configured s.addr s.style t) c5 (by rw [c1]; rfl)
    (by rw [hwh.1]; exact d1) (by rw [hwh.2]; exact d2) (by rw [hwh.1, hwh.2]; exact d3) ps
    (by rw [hwh.1, hwh.2]; exact hps) hn (by simp [Others]) (by simp [Others])
  exact ⟨_, _, h1, h2, rfl, rfl, rfl⟩

/-! ### show / load-next -/

/-- Manual sign, page loaded: `show_loaded_page` succeeds and the sign ends up 'page shown'. -/
theorem show_manual (s : VSign) (hs : s.state = .pageLoaded) (fuel : Nat) (hf : 3 ≤ fuel) :
    (showLoadedPage s.addr fuel).runOn1 s = (.ok (), { s with state := .pageShown }) := by
  obtain ⟨f, rfl⟩ : ∃ f, fuel = f + 3 := ⟨fuel - 3, by omega⟩
  simp [showLoadedPage, switchPage, Prog.runOn1, vstep, VSign.queryState, hs, ownReport?, expect]

/-- Manual sign, page shown: `load_next_page` succeeds and the sign ends up 'page loaded'. -/
theorem load_manual (s : VSign) (hs : s.state = .pageShown) (fuel : Nat) (hf : 3 ≤ fuel) :
    (loadNextPage s.addr fuel).runOn1 s = (.ok (), { s with state := .pageLoaded }) := by
  obtain ⟨f, rfl⟩ : ∃ f, fuel = f + 3 := ⟨fuel - 3, by omega⟩
  simp [loadNextPage, switchPage, Prog.runOn1, vstep, VSign.queryState, hs, ownReport?, expect]

/-- Automatic sign (showing pages): both calls succeed and change nothing. -/
theorem show_load_auto_noop (s : VSign) (hs : s.state = .showingPages) (fuel : Nat) (hf : 1 ≤ fuel) :
    (showLoadedPage s.addr fuel).runOn1 s = (.ok (), s) ∧
    (loadNextPage s.addr fuel).runOn1 s = (.ok (), s) := by
  obtain ⟨f, rfl⟩ : ∃ f, fuel = f + 1 := ⟨fuel - 1, by omega⟩
  constructor <;>
    simp [showLoadedPage, loadNextPage, switchPage, Prog.runOn1, vstep, hs, ownReport?,
      VSign.queryState]

/-! ### configure_if_needed -/

/-- If the sign does not report a ready-to-receive state, `configure_if_needed` is `configure`. -/
theorem configureIfNeeded_not_ready (s : VSign) (hi : s.Inv) (t : SignType)
    (h : s.state ∉ readyStates) :
    (configureIfNeeded s.addr t).runOn1 s = (.ok (), VSign.configured s.addr s.style t) := by
  have hq : vstep s (.hello s.addr) = .ok (s.queryState.1, some (.reportState s.addr s.state)) := by
    simp [vstep, VSign.queryState]
  unfold configureIfNeeded
  rw [runOn1_send _ _ _ _ _ hq]
  simp only [ownReport?, ↓reduceIte, h]
  have hqi : s.queryState.1.Inv := s.inv_queryState hi
  have hqa : s.queryState.1.addr = s.addr := by simp only [VSign.queryState]; cases s.state <;> rfl
  have hqs : s.queryState.1.style = s.style := by simp only [VSign.queryState]; cases s.state <;> rfl
  have := configure_runOn1 s.queryState.1 hqi t
  rw [hqa, hqs] at this
  exact this

/-- If it does report a ready state, nothing is sent beyond the hello and the sign is still able to
    receive pages (by contract the controller trusts a sign that reports itself ready). -/
theorem configureIfNeeded_ready (s : VSign) (t : SignType) (h : s.state ∈ readyStates) :
    ∃ s', (configureIfNeeded s.addr t).runOn1 s = (.ok (), s') ∧
      VSign.canReceivePixels s'.state = true ∧ s'.pages = s.pages ∧ s'.signType = s.signType ∧
      s'.w = s.w ∧ s'.h = s.h := by
  have hq : vstep s (.hello s.addr) = .ok (s.queryState.1, some (.reportState s.addr s.state)) := by
    simp [vstep, VSign.queryState]
  refine ⟨s.queryState.1, ?_, ?_⟩
  · unfold configureIfNeeded
    rw [runOn1_send _ _ _ _ _ hq]
    simp [ownReport?, h, Prog.runOn1]
  · simp only [readyStates, List.mem_cons, List.not_mem_nil, or_false] at h
    simp only [VSign.queryState]
    rcases h with h | h | h | h | h | h <;> simp [h, VSign.canReceivePixels]

-- Non-vacuity: a sign abandoned mid-transfer as another type is a state some history produces,
-- and the theorems' hypotheses are satisfiable with real sizes.
example : (VSign.new 3 .manual).Inv := VSign.inv_new 3 .manual
example : dims_ok .horizonFront160x16 = dims_ok .horizonFront160x16 := rfl
example : (allChunkMsgs ([Page.new 1 90 7, Page.new 2 90 7].map (·.bytes))).length < 65536 := by
  decide +kernel

end Flipdot.C08
