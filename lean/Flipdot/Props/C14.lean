/-
C14 — Signs sharing a bus are isolated; replies come only from the addressed sign.
-/
import Flipdot.Lemmas.VSign
import Flipdot.Props.C12
import Flipdot.Props.C13
namespace Flipdot.C14
open Flipdot

/-- A sign only ever replies to a message carrying its own address, and its reply carries that
    address too. -/
theorem reply_addr (s s' : VSign) (m x : Msg) (h : vstep s m = .ok (s', some x)) :
    m.addr? = some s.addr ∧ x.addr? = some s.addr := by
  cases m with
  | sendData off d => simp only [vstep] at h; split at h <;> cases h
  | chunksSent n => simp only [vstep] at h; cases h
  | reportState a st => simp only [vstep] at h; cases h
  | ackOp a op => simp only [vstep] at h; cases h
  | unknown f => simp only [vstep] at h; cases h
  | pixelsComplete a => simp only [vstep] at h; split at h <;> cases h
  | goodbye a => simp only [vstep] at h; split at h <;> cases h
  | hello a =>
    simp only [vstep] at h
    split at h
    · rename_i ha; subst ha; simp only [VSign.queryState] at h; cases h; exact ⟨rfl, rfl⟩
    · cases h
  | queryState a =>
    simp only [vstep] at h
    split at h
    · rename_i ha; subst ha; simp only [VSign.queryState] at h; cases h; exact ⟨rfl, rfl⟩
    · cases h
  | requestOp a op =>
    simp only [vstep] at h
    split at h
    · cases h
    · rename_i ha
      have ha : a = s.addr := by simpa using ha
      subst ha
      cases op <;> simp only at h <;> first
        | (cases h; exact ⟨rfl, rfl⟩)
        | (split at h <;> cases h <;> exact ⟨rfl, rfl⟩)

/-- A message for an address nobody has gets no reply and changes nothing. -/
theorem absent_noop (bus : List VSign) (m : Msg) (a : UInt16) (ha : m.addr? = some a)
    (hab : ∀ s ∈ bus, s.addr ≠ a) : busStep bus m = .ok (bus, none) := by
  induction bus with
  | nil => rfl
  | cons s rest ih =>
    have h1 := C13.foreign_silent s m a ha (Ne.symm (hab s (by simp)))
    have h2 := ih (fun t ht => hab t (by simp [ht]))
    simp [busStep, h1, h2]

/-- A message addressed to `a` never changes any sign with a different address. -/
theorem addressed_isolated (bus bus' : List VSign) (m : Msg) (a : UInt16) (r : Option Msg)
    (ha : m.addr? = some a) (h : busStep bus m = .ok (bus', r)) :
    bus'.length = bus.length ∧ ∀ (i : Nat) (s : VSign), bus[i]? = some s → s.addr ≠ a → bus'[i]? = some s := by
  induction bus generalizing bus' r with
  | nil => simp only [busStep] at h; cases h; simp
  | cons s rest ih =>
    simp only [busStep] at h
    split at h
    · cases h
    · rename_i s' x hs
      cases h
      refine ⟨by simp, ?_⟩
      intro i t hi hne
      cases i with
      | zero =>
        simp at hi; subst hi
        have := C13.foreign_silent s m a ha (Ne.symm hne)
        rw [this] at hs; cases hs
      | succ i => simpa using hi
    · rename_i s' hs
      split at h
      · cases h
      · rename_i rest' r' hr
        cases h
        obtain ⟨hl, hrest⟩ := ih rest' _ hr
        refine ⟨by simp [hl], ?_⟩
        intro i t hi hne
        cases i with
        | zero =>
          simp at hi; subst hi
          have := C13.foreign_silent s m a ha (Ne.symm hne)
          rw [this] at hs; cases hs; rfl
        | succ i => simp at hi ⊢; exact hrest i t hi hne

/-- With distinct addresses, the reply (if any) is exactly what the addressed sign alone would have
    replied, that sign moves as it alone would have moved, and the reply carries its address. -/
theorem reply_is_own (bus bus' : List VSign) (m : Msg) (a : UInt16) (r : Option Msg)
    (ha : m.addr? = some a) (hd : (bus.map (·.addr)).Nodup) (h : busStep bus m = .ok (bus', r)) :
    (∀ (i : Nat) (s : VSign), bus[i]? = some s → s.addr = a →
        ∃ s', vstep s m = .ok (s', r) ∧ bus'[i]? = some s') ∧
    (∀ x, r = some x → x.addr? = some a) := by
  induction bus generalizing bus' r with
  | nil => simp only [busStep] at h; cases h; simp
  | cons s rest ih =>
    have hd' : (rest.map (·.addr)).Nodup := by
      simp only [List.map_cons, List.nodup_cons] at hd; exact hd.2
    simp only [busStep] at h
    split at h
    · cases h
    · rename_i s' x hs
      cases h
      obtain ⟨hm, hx⟩ := reply_addr s s' m x hs
      have hsa : s.addr = a := by rw [ha] at hm; exact (Option.some.inj hm).symm
      refine ⟨?_, ?_⟩
      · intro i t hi hta
        cases i with
        | zero => simp at hi; subst hi; exact ⟨s', hs, by simp⟩
        | succ i =>
          exfalso
          simp at hi
          have hmem : t.addr ∈ rest.map (·.addr) := List.mem_map.mpr ⟨t, List.mem_of_getElem? hi, rfl⟩
          simp only [List.map_cons, List.nodup_cons] at hd
          rw [hta, ← hsa] at hmem
          exact hd.1 hmem
      · intro y hy; cases hy; rw [hx, hsa]
    · rename_i s' hs
      split at h
      · cases h
      · rename_i rest' r' hr
        cases h
        obtain ⟨ih1, ih2⟩ := ih rest' _ hd' hr
        refine ⟨?_, ih2⟩
        intro i t hi hta
        cases i with
        | zero =>
          simp at hi; subst hi
          -- the head sign is the addressed one and stayed silent; nobody else has its address
          have hrest : ∀ u ∈ rest, u.addr ≠ a := by
            intro u hu hua
            simp only [List.map_cons, List.nodup_cons] at hd
            apply hd.1
            rw [hta, ← hua]
            exact List.mem_map.mpr ⟨u, hu, rfl⟩
          rw [absent_noop rest m a ha hrest] at hr
          cases hr
          exact ⟨s', hs, by simp⟩
        | succ i =>
          simp at hi ⊢
          exact ih1 i t hi hta

/-- Is `m` one of the unaddressed data messages? -/
def isData : Msg → Bool
  | .sendData _ _ | .chunksSent _ => true
  | _ => false

/-- An unaddressed data message leaves a sign that is not receiving completely unchanged (for any
    state the sign can be in: the invariant says nothing is buffered outside a transfer), and is
    never answered. -/
theorem data_nonreceiving_unchanged (s : VSign) (m : Msg) (hm : isData m = true)
    (hi : s.Inv) (hr : s.state.receiving = false) : vstep s m = .ok (s, none) := by
  obtain ⟨hc, hp⟩ := hi.idle hr
  cases m <;> simp only [isData, Bool.false_eq_true] at hm
  · rename_i off d
    have h1 : s.state ≠ .configInProgress := by intro h; rw [h] at hr; cases hr
    have h2 : s.state ≠ .pixelsInProgress := by intro h; rw [h] at hr; cases hr
    simp [vstep, VSign.sendData, h1, h2]
  · rename_i n
    simp only [vstep, VSign.chunksSent]
    have hst : s.state.afterCount (s.chunks == n.toNat) = s.state := by
      cases hs : s.state <;> simp_all [State.afterCount, State.receiving]
    rw [hst]
    have : ({ s with state := s.state } : VSign) = s := rfl
    rw [this, s.flush_empty hp]
    have : ({ s with chunks := 0 } : VSign) = s := by rw [← hc]
    rw [this]

theorem data_never_answered (s s' : VSign) (m : Msg) (r : Option Msg) (hm : isData m = true)
    (h : vstep s m = .ok (s', r)) : r = none := by
  cases r with
  | none => rfl
  | some x =>
    have := (reply_addr s s' m x h).1
    cases m <;> simp_all [isData, Msg.addr?]

/-- On a bus: an unaddressed data message is never answered, and every sign that is not in a
    receiving state (and is in a state reachable at all) is unchanged. -/
theorem unaddressed_only_receiving (bus bus' : List VSign) (m : Msg) (r : Option Msg)
    (hm : isData m = true) (h : busStep bus m = .ok (bus', r)) :
    r = none ∧ bus'.length = bus.length ∧
    ∀ (i : Nat) (s : VSign), bus[i]? = some s → s.Inv → s.state.receiving = false → bus'[i]? = some s := by
  induction bus generalizing bus' r with
  | nil => simp only [busStep] at h; cases h; simp
  | cons s rest ih =>
    simp only [busStep] at h
    split at h
    · cases h
    · rename_i s' x hs
      exact absurd (data_never_answered s s' m _ hm hs) (by simp)
    · rename_i s' hs
      split at h
      · cases h
      · rename_i rest' r' hr
        cases h
        obtain ⟨h1, h2, h3⟩ := ih rest' _ hr
        refine ⟨h1, by simp [h2], ?_⟩
        intro i t hi hinv hrecv
        cases i with
        | zero =>
          simp at hi; subst hi
          rw [data_nonreceiving_unchanged s m hm hinv hrecv] at hs
          cases hs; rfl
        | succ i => simp at hi ⊢; exact h3 i t hi hinv hrecv

/-- The invariant used above holds of every sign on a bus built from fresh signs, after any
    history (so the hypothesis `s.Inv` is met by every reachable bus). -/
theorem bus_inv_preserved (bus bus' : List VSign) (m : Msg) (r : Option Msg)
    (hi : ∀ s ∈ bus, s.Inv) (h : busStep bus m = .ok (bus', r)) : ∀ s ∈ bus', s.Inv := by
  induction bus generalizing bus' r with
  | nil => simp only [busStep] at h; cases h; simp
  | cons s rest ih =>
    simp only [busStep] at h
    split at h
    · cases h
    · rename_i s' x hs
      cases h
      intro t ht
      simp at ht
      rcases ht with rfl | ht
      · exact vstep_inv s _ m _ (hi s (by simp)) hs
      · exact hi t (by simp [ht])
    · rename_i s' hs
      split at h
      · cases h
      · rename_i rest' r' hr
        cases h
        intro t ht
        simp at ht
        rcases ht with rfl | ht
        · exact vstep_inv s _ m _ (hi s (by simp)) hs
        · exact ih rest' _ (fun u hu => hi u (by simp [hu])) hr t ht

/-- Isolation in one statement: with distinct addresses, every sign on the bus ends up exactly
    where it would be had it received the message alone. -/
theorem each_sign_as_if_alone (bus bus' : List VSign) (m : Msg) (r : Option Msg)
    (hd : (bus.map (·.addr)).Nodup) (h : busStep bus m = .ok (bus', r)) :
    ∀ (i : Nat) (s : VSign), bus[i]? = some s → ∃ s' r', vstep s m = .ok (s', r') ∧ bus'[i]? = some s' := by
  induction bus generalizing bus' r with
  | nil => simp only [busStep] at h; cases h; simp
  | cons s0 rest ih =>
    have hd' : (rest.map (·.addr)).Nodup := by
      simp only [List.map_cons, List.nodup_cons] at hd; exact hd.2
    simp only [busStep] at h
    split at h
    · cases h
    · rename_i s0' x hs
      cases h
      obtain ⟨hm, _⟩ := reply_addr s0 s0' m x hs
      intro i t hi
      cases i with
      | zero => simp at hi; subst hi; exact ⟨s0', _, hs, by simp⟩
      | succ i =>
        simp at hi
        -- a later sign: the message is addressed to the head sign, so alone it would ignore it
        have hne : s0.addr ≠ t.addr := by
          intro e
          simp only [List.map_cons, List.nodup_cons] at hd
          exact hd.1 (e ▸ List.mem_map.mpr ⟨t, List.mem_of_getElem? hi, rfl⟩)
        exact ⟨t, none, C13.foreign_silent t m s0.addr hm hne, by simpa using hi⟩
    · rename_i s0' hs
      split at h
      · cases h
      · rename_i rest' r' hr
        cases h
        intro i t hi
        cases i with
        | zero => simp at hi; subst hi; exact ⟨s0', _, hs, by simp⟩
        | succ i =>
          simp only [List.getElem?_cons_succ] at hi ⊢
          exact ih rest' _ hd' hr i t hi

-- Non-vacuity: a two-sign bus with distinct addresses; the addressed sign answers.
example : ([VSign.new 3 .manual, VSign.new 4 .automatic].map (·.addr)).Nodup := by decide
example : busStep [VSign.new 3 .manual, VSign.new 4 .automatic] (.hello 4) =
    .ok ([VSign.new 3 .manual, VSign.new 4 .automatic], some (.reportState 4 .unconfigured)) := by
  decide

end Flipdot.C14
