/-
C06 — Page pixel operations change exactly the addressed pixel and nothing else.
-/
import Flipdot.Lemmas.Page
import Flipdot.Props.C07
namespace Flipdot.C06
open Flipdot

/-- `p` with byte `i` replaced (what `set_pixel` produces). -/
def upd (p : Page) (i : Nat) (b : UInt8) : Page := { p with bytes := p.bytes.set i b }

/-- `p` with its data area filled (what `set_all_pixels` produces). -/
def filled (p : Page) (v : Bool) : Page :=
  { p with bytes := p.bytes.take 4 ++
      List.replicate (dataBytes p.w p.h - 4) (if v then 0xFF else 0x00) ++ p.bytes.drop (dataBytes p.w p.h) }

/-- Out-of-bounds coordinates panic (with the explicit bounds panic, before any byte is read or
    written). -/
theorem oob_panics (p : Page) (x y : Nat) (v : Bool) (h : x ≥ p.w ∨ y ≥ p.h) :
    p.get x y = .error .oob ∧ p.set x y v = .error .oob := by
  unfold Page.get Page.set
  rw [p.indices_oob x y h]
  exact ⟨rfl, rfl⟩

/-- In-bounds coordinates never panic. -/
theorem inb_no_panic (p : Page) (hp : p.WF) (x y : Nat) (v : Bool) (hx : x < p.w) (hy : y < p.h) :
    (∃ b, p.get x y = .ok b) ∧ (∃ p', p.set x y v = .ok p') := by
  obtain ⟨b, hb⟩ := p.byte_exists hp x y hx hy
  exact ⟨⟨_, p.get_inb x y hx hy b hb⟩, ⟨_, p.set_inb x y v hx hy b hb⟩⟩

/-- Writing a pixel keeps the dimensions, the byte length, the 4 header bytes (incl. the id) and
    every padding byte — indeed every byte other than the pixel's own. -/
theorem set_preserves (p p' : Page) (hp : p.WF) (x y : Nat) (v : Bool)
    (h : p.set x y v = .ok p') :
    p'.w = p.w ∧ p'.h = p.h ∧ p'.bytes.length = p.bytes.length ∧ p'.WF ∧
    (∀ i, i ≠ 4 + x * bpc p.h + y / 8 → p'.bytes[i]? = p.bytes[i]?) ∧
    (∀ i, i < 4 ∨ dataBytes p.w p.h ≤ i → p'.bytes[i]? = p.bytes[i]?) := by
  by_cases hb : x ≥ p.w ∨ y ≥ p.h
  · rw [(oob_panics p x y v hb).2] at h; cases h
  · have hx : x < p.w := by omega
    have hy : y < p.h := by omega
    obtain ⟨b, hb⟩ := p.byte_exists hp x y hx hy
    rw [p.set_inb x y v hx hy b hb] at h
    cases h
    refine ⟨rfl, rfl, by simp, by simpa [Page.WF] using hp, ?_, ?_⟩
    · intro i hi
      simp only
      rw [List.getElem?_set_ne (Ne.symm hi)]
    · intro i hi
      have h1 := index_lt p.w p.h x y hx hy
      have h2 := index_ge4 p.h x y
      simp only
      rw [List.getElem?_set_ne (by omega)]

/-- Reading back the pixel just written returns the new value. -/
theorem get_set_same (p p' : Page) (hp : p.WF) (x y : Nat) (v : Bool)
    (h : p.set x y v = .ok p') : p'.get x y = .ok v := by
  by_cases hb : x ≥ p.w ∨ y ≥ p.h
  · rw [(oob_panics p x y v hb).2] at h; cases h
  · have hx : x < p.w := by omega
    have hy : y < p.h := by omega
    obtain ⟨b, hb⟩ := p.byte_exists hp x y hx hy
    have hlt := p.idx_lt hp x y hx hy
    rw [p.set_inb x y v hx hy b hb] at h
    cases h
    have : (upd p (4 + x * bpc p.h + y / 8) (setMask b (y % 8) v)).bytes[4 + x * bpc p.h + y / 8]? =
        some (setMask b (y % 8) v) := by
      simp only [upd, List.getElem?_set_self hlt]
    show (upd p (4 + x * bpc p.h + y / 8) (setMask b (y % 8) v)).get x y = _
    rw [Page.get_inb (upd p _ _) x y hx hy _ this, testMask_set_same b (y % 8) (by omega) v]

/-- Every other pixel is left unchanged. -/
theorem get_set_other (p p' : Page) (hp : p.WF) (x y x' y' : Nat) (v : Bool)
    (hx' : x' < p.w) (hy' : y' < p.h) (hne : (x', y') ≠ (x, y))
    (h : p.set x y v = .ok p') : p'.get x' y' = p.get x' y' := by
  by_cases hb : x ≥ p.w ∨ y ≥ p.h
  · rw [(oob_panics p x y v hb).2] at h; cases h
  · have hx : x < p.w := by omega
    have hy : y < p.h := by omega
    obtain ⟨b, hb⟩ := p.byte_exists hp x y hx hy
    obtain ⟨b', hb'⟩ := p.byte_exists hp x' y' hx' hy'
    have hlt := p.idx_lt hp x y hx hy
    rw [p.set_inb x y v hx hy b hb] at h
    cases h
    rw [p.get_inb x' y' hx' hy' b' hb']
    by_cases hi : 4 + x * bpc p.h + y / 8 = 4 + x' * bpc p.h + y' / 8
    · -- same byte, hence a different bit
      have hbit : y % 8 ≠ y' % 8 := by
        intro hbit
        have := index_inj p.h x y x' y' hy hy' hi hbit
        exact hne (by rw [this.1, this.2])
      have hbb : b' = b := by rw [hi] at hb; rw [hb] at hb'; exact (Option.some.inj hb').symm
      subst hbb
      have : (upd p (4 + x * bpc p.h + y / 8) (setMask b' (y % 8) v)).bytes[4 + x' * bpc p.h + y' / 8]? =
          some (setMask b' (y % 8) v) := by
        simp only [upd]
        rw [← hi, List.getElem?_set_self hlt]
      show (upd p (4 + x * bpc p.h + y / 8) (setMask b' (y % 8) v)).get x' y' = _
      rw [Page.get_inb (upd p _ _) x' y' hx' hy' _ this,
        testMask_set_other b' (y % 8) (y' % 8) (by omega) (by omega) hbit v]
    · have : (upd p (4 + x * bpc p.h + y / 8) (setMask b (y % 8) v)).bytes[4 + x' * bpc p.h + y' / 8]? =
          some b' := by
        simp only [upd]
        rw [List.getElem?_set_ne hi, hb']
      show (upd p (4 + x * bpc p.h + y / 8) (setMask b (y % 8) v)).get x' y' = _
      rw [Page.get_inb (upd p _ _) x' y' hx' hy' _ this]

/-- `set_all_pixels` never panics on a well-formed page. -/
theorem setAll_no_panic (p : Page) (hp : p.WF) (v : Bool) : ∃ p', p.setAll v = .ok p' := by
  unfold Page.setAll fillRange
  have h1 := totalBytes_ge p.w p.h
  have h2 := dataBytes_ge4 p.w p.h
  unfold Page.WF at hp
  have : ¬ (4 > dataBytes p.w p.h ∨ dataBytes p.w p.h > p.bytes.length) := by omega
  simp only [this, ↓reduceIte]
  exact ⟨_, rfl⟩

theorem setAll_bytes (p p' : Page) (hp : p.WF) (v : Bool) (h : p.setAll v = .ok p') :
    p' = filled p v := by
  unfold Page.setAll fillRange at h
  have h1 := totalBytes_ge p.w p.h
  have h2 := dataBytes_ge4 p.w p.h
  unfold Page.WF at hp
  have : ¬ (4 > dataBytes p.w p.h ∨ dataBytes p.w p.h > p.bytes.length) := by omega
  simp only [this, ↓reduceIte] at h
  cases h
  rfl

/-- Setting all pixels keeps dimensions, length, header (id) and padding. -/
theorem setAll_preserves (p p' : Page) (hp : p.WF) (v : Bool) (h : p.setAll v = .ok p') :
    p'.w = p.w ∧ p'.h = p.h ∧ p'.WF ∧
    (∀ i, i < 4 ∨ dataBytes p.w p.h ≤ i → p'.bytes[i]? = p.bytes[i]?) := by
  have e := setAll_bytes p p' hp v h
  have h1 := totalBytes_ge p.w p.h
  have h2 := dataBytes_ge4 p.w p.h
  have hp' := hp
  unfold Page.WF at hp
  subst e
  refine ⟨rfl, rfl, ?_, ?_⟩
  · unfold Page.WF filled
    simp only [List.length_append, List.length_take, List.length_replicate, List.length_drop]
    omega
  · intro i hi
    simp only [filled]
    rcases hi with hi | hi
    · rw [List.append_assoc, List.getElem?_append_left (by simp; omega)]
      simp [hi]
    · rw [List.getElem?_append_right (by simp; omega)]
      simp only [List.length_append, List.length_take, List.length_replicate, List.getElem?_drop]
      congr 1
      omega

/-- After setting all pixels every pixel reads the given value. -/
theorem setAll_get (p p' : Page) (hp : p.WF) (v : Bool) (h : p.setAll v = .ok p')
    (x y : Nat) (hx : x < p.w) (hy : y < p.h) : p'.get x y = .ok v := by
  have e := setAll_bytes p p' hp v h
  have h1 := totalBytes_ge p.w p.h
  have h2 := dataBytes_ge4 p.w p.h
  have h3 := index_lt p.w p.h x y hx hy
  have h4 := index_ge4 p.h x y
  unfold Page.WF at hp
  subst e
  have hb : (filled p v).bytes[4 + x * bpc p.h + y / 8]? = some (if v then 0xFF else 0x00) := by
    simp only [filled]
    rw [List.getElem?_append_left (by simp; omega), List.getElem?_append_right (by simp; omega)]
    simp only [List.length_take, List.getElem?_replicate]
    have : 4 + x * bpc p.h + y / 8 - min 4 p.bytes.length < dataBytes p.w p.h - 4 := by omega
    simp [this]
  rw [Page.get_inb (filled p v) x y hx hy _ hb]
  cases v
  · exact congrArg _ (testMask_00 ⟨y % 8, by omega⟩)
  · exact congrArg _ (testMask_ff ⟨y % 8, by omega⟩)

/-! ### Histories: any sequence of operations behaves like plain function update -/

inductive PageOp where
  | set (x y : Nat) (v : Bool)
  | setAll (v : Bool)
  deriving Repr

def PageOp.inb (w h : Nat) : PageOp → Prop
  | .set x y _ => x < w ∧ y < h
  | .setAll _ => True

instance (w h : Nat) (op : PageOp) : Decidable (op.inb w h) := by
  cases op <;> unfold PageOp.inb <;> infer_instance

def applyOp (p : Page) : PageOp → Except Panic Page
  | .set x y v => p.set x y v
  | .setAll v => p.setAll v

def applyOps (p : Page) : List PageOp → Except Panic Page
  | [] => .ok p
  | op :: ops =>
    match applyOp p op with
    | .error e => .error e
    | .ok p' => applyOps p' ops

/-- The abstract picture: a plain function from coordinates to on/off. -/
def specOp (f : Nat → Nat → Bool) : PageOp → Nat → Nat → Bool
  | .set x y v => fun x' y' => if x' = x ∧ y' = y then v else f x' y'
  | .setAll v => fun _ _ => v

def specOps (f : Nat → Nat → Bool) : List PageOp → Nat → Nat → Bool
  | [] => f
  | op :: ops => specOps (specOp f op) ops

/-- The page `p` shows picture `f`, with header/padding bytes equal to those of `q`. -/
def Shows (p q : Page) (f : Nat → Nat → Bool) : Prop :=
  p.WF ∧ p.w = q.w ∧ p.h = q.h ∧
  (∀ x y, x < q.w → y < q.h → p.get x y = .ok (f x y)) ∧
  (∀ i, i < 4 ∨ dataBytes q.w q.h ≤ i → p.bytes[i]? = q.bytes[i]?)

theorem step_refines (p q : Page) (f : Nat → Nat → Bool) (op : PageOp)
    (hs : Shows p q f) (hop : op.inb q.w q.h) :
    ∃ p', applyOp p op = .ok p' ∧ Shows p' q (specOp f op) := by
  obtain ⟨hwf, hw, hh, hpix, hpad⟩ := hs
  cases op with
  | set x y v =>
    obtain ⟨hx, hy⟩ := hop
    obtain ⟨p', hp'⟩ := (inb_no_panic p hwf x y v (hw ▸ hx) (hh ▸ hy)).2
    obtain ⟨pw, ph, _, pwf, _, ppad⟩ := set_preserves p p' hwf x y v hp'
    refine ⟨p', hp', pwf, by rw [pw, hw], by rw [ph, hh], ?_, ?_⟩
    · intro x' y' hx' hy'
      by_cases he : x' = x ∧ y' = y
      · obtain ⟨rfl, rfl⟩ := he
        simp only [specOp, and_self, ↓reduceIte]
        exact get_set_same p p' hwf x' y' v hp'
      · simp only [specOp, he, ↓reduceIte]
        rw [get_set_other p p' hwf x y x' y' v (hw ▸ hx') (hh ▸ hy') (by
          intro hh'; apply he; cases hh'; exact ⟨rfl, rfl⟩) hp']
        exact hpix x' y' hx' hy'
    · intro i hi
      rw [ppad i (by rw [hw, hh]; exact hi)]
      exact hpad i hi
  | setAll v =>
    obtain ⟨p', hp'⟩ := setAll_no_panic p hwf v
    obtain ⟨pw, ph, pwf, ppad⟩ := setAll_preserves p p' hwf v hp'
    refine ⟨p', hp', pwf, by rw [pw, hw], by rw [ph, hh], ?_, ?_⟩
    · intro x y hx hy
      exact setAll_get p p' hwf v hp' x y (hw ▸ hx) (hh ▸ hy)
    · intro i hi
      rw [ppad i (by rw [hw, hh]; exact hi)]
      exact hpad i hi

/-- For every sequence of in-bounds set / clear / set-all operations: no panic, and the final page
    shows exactly the picture obtained by plain function update, with id, dimensions, length and
    padding untouched. -/
theorem ops_refine (p q : Page) (f : Nat → Nat → Bool) (ops : List PageOp)
    (hs : Shows p q f) (hops : ∀ op ∈ ops, op.inb q.w q.h) :
    ∃ p', applyOps p ops = .ok p' ∧ Shows p' q (specOps f ops) := by
  induction ops generalizing p f with
  | nil => exact ⟨p, rfl, hs⟩
  | cons op ops ih =>
    obtain ⟨p1, h1, s1⟩ := step_refines p q f op hs (hops op (by simp))
    obtain ⟨p2, h2, s2⟩ := ih p1 (specOp f op) s1 (fun o ho => hops o (by simp [ho]))
    exact ⟨p2, by simp [applyOps, h1, h2], s2⟩

/-- The picture a well-formed page currently shows. -/
def picture (p : Page) (x y : Nat) : Bool :=
  match p.get x y with
  | .ok b => b
  | .error _ => false

theorem shows_self (p : Page) (hp : p.WF) : Shows p p (picture p) := by
  refine ⟨hp, rfl, rfl, ?_, fun _ _ => rfl⟩
  intro x y hx hy
  obtain ⟨b, hb⟩ := (inb_no_panic p hp x y true hx hy).1
  simp [picture, hb]

/-- The history theorem instantiated at any starting page — freshly created or built over given
    bytes (both constructors establish `WF`). -/
theorem history (p : Page) (hp : p.WF) (ops : List PageOp) (hops : ∀ op ∈ ops, op.inb p.w p.h) :
    ∃ p', applyOps p ops = .ok p' ∧ Shows p' p (specOps (picture p) ops) :=
  ops_refine p p (picture p) ops (shows_self p hp) hops

-- Non-vacuity: a fresh page and a page over given bytes meet the hypotheses.
example : (Page.new 3 90 7).WF := C07.new_wf 3 90 7
example : ∀ p, Page.fromBytes 2 9 (List.replicate 16 0xAA) = .ok p → p.WF := by
  intro p h; rw [C07.fromBytes_ok_iff] at h; rw [h.2]; exact h.1
example : (PageOp.set 89 6 true).inb 90 7 := by decide

end Flipdot.C06
