/-
C07 — Page bytes follow the sign's native layout for every size.
-/
import Flipdot.Lemmas.Page
namespace Flipdot.C07
open Flipdot

/-- The padded size: data area rounded up to the next multiple of 16, fewer than 16 bytes of
    padding. -/
theorem total_props (w h : Nat) :
    totalBytes w h % 16 = 0 ∧ dataBytes w h ≤ totalBytes w h ∧
    totalBytes w h - dataBytes w h < 16 ∧ dataBytes w h = 4 + w * ((h + 7) / 8) :=
  ⟨totalBytes_mod w h, totalBytes_ge w h, totalBytes_pad w h, rfl⟩

/-- A new page is `[id, 0x10, 0, 0]`, then `w * ceil(h/8)` zero bytes, then `0xFF` padding up to
    the next multiple of 16. -/
theorem new_bytes (id : UInt8) (w h : Nat) :
    (Page.new id w h).bytes =
      [id, 0x10, 0x00, 0x00] ++ List.replicate (w * bpc h) 0x00 ++
        List.replicate (totalBytes w h - dataBytes w h) 0xFF := by
  have h1 := totalBytes_ge w h
  have h2 := dataBytes_ge4 w h
  have e1 : dataBytes w h - 4 = w * bpc h := by unfold dataBytes; omega
  unfold Page.new
  simp only
  rw [resize_ge [id, 0x10, 0x00, 0x00] _ _ (by simpa using h2)]
  rw [resize_ge _ _ _ (by simp; omega)]
  simp only [List.length_cons, List.length_nil, List.length_append, List.length_replicate]
  have e2 : totalBytes w h - (0 + 1 + 1 + 1 + 1 + (dataBytes w h - (0 + 1 + 1 + 1 + 1))) =
      totalBytes w h - dataBytes w h := by omega
  rw [e2]
  simp only [Nat.zero_add, Nat.reduceAdd, e1]

/-- A new page is well-formed (has exactly the padded size). -/
theorem new_wf (id : UInt8) (w h : Nat) : (Page.new id w h).WF := by
  unfold Page.WF
  rw [new_bytes]
  have h1 := totalBytes_ge w h
  show ([id, 0x10, 0x00, 0x00] ++ List.replicate (w * bpc h) 0x00 ++
        List.replicate (totalBytes w h - dataBytes w h) 0xFF).length = totalBytes w h
  simp
  unfold dataBytes at *
  omega

theorem new_dims (id : UInt8) (w h : Nat) : (Page.new id w h).w = w ∧ (Page.new id w h).h = h :=
  ⟨rfl, rfl⟩

/-- Pixel `(x, y)` lives in byte `4 + x*ceil(h/8) + y/8`, bit `y % 8` counted from the least
    significant bit (top of the column). -/
theorem pixel_location (p : Page) (hp : p.WF) (x y : Nat) (hx : x < p.w) (hy : y < p.h) :
    ∃ b, p.bytes[4 + x * ((p.h + 7) / 8) + y / 8]? = some b ∧
      p.get x y = .ok ((b >>> UInt8.ofNat (y % 8)) &&& 1 == 1) := by
  obtain ⟨b, hb⟩ := p.byte_exists hp x y hx hy
  refine ⟨b, hb, ?_⟩
  rw [p.get_inb x y hx hy b hb]
  have := testMask_eq_shift b ⟨y % 8, by omega⟩
  simp only at this
  rw [this]

/-- Distinct pixels never share a bit. -/
theorem location_injective (h x y x' y' : Nat) (hy : y < h) (hy' : y' < h)
    (hi : 4 + x * bpc h + y / 8 = 4 + x' * bpc h + y' / 8) (hb : y % 8 = y' % 8) :
    x = x' ∧ y = y' := index_inj h x y x' y' hy hy' hi hb

/-- Every pixel's byte lies strictly inside the data area (never header, never padding). -/
theorem location_in_data (w h x y : Nat) (hx : x < w) (hy : y < h) :
    4 ≤ 4 + x * bpc h + y / 8 ∧ 4 + x * bpc h + y / 8 < dataBytes w h :=
  ⟨index_ge4 h x y, index_lt w h x y hx hy⟩

/-- Building a page from raw bytes succeeds exactly when the length equals the padded size, and
    then exposes exactly the bytes given. -/
theorem fromBytes_ok_iff (w h : Nat) (bs : List UInt8) (p : Page) :
    Page.fromBytes w h bs = .ok p ↔ bs.length = totalBytes w h ∧ p = ⟨w, h, bs⟩ := by
  unfold Page.fromBytes
  by_cases hl : bs.length = totalBytes w h
  · simp [hl]; constructor <;> (intro e; rw [e])
  · simp [hl]

theorem fromBytes_err (w h : Nat) (bs : List UInt8) (hl : bs.length ≠ totalBytes w h) :
    Page.fromBytes w h bs = .error (.wrongLen w h (totalBytes w h) bs.length) := by
  unfold Page.fromBytes; simp [hl]

/-- ... and equals the page that produced those bytes. -/
theorem fromBytes_asBytes (p : Page) (hp : p.WF) : Page.fromBytes p.w p.h p.bytes = .ok p := by
  rw [fromBytes_ok_iff]; exact ⟨hp, rfl⟩

-- Non-vacuity: the documented 90x7 page (96 bytes, 2 bytes of padding).
example : totalBytes 90 7 = 96 ∧ dataBytes 90 7 = 94 := by decide
example : (Page.new 3 90 7).WF := new_wf 3 90 7
example : ((Page.new 1 40 12).set 39 8 true).map (·.bytes.getD 83 0) = .ok 1 := by decide +kernel

end Flipdot.C07
